// Package c07: compilation is deterministic and safe to run concurrently in one process.
// Runs under the race detector; compares every concurrent result byte for byte with a
// sequential baseline and checks the global lexer-state map at quiescent points.
package c07

import (
	"bytes"
	"fmt"
	"runtime"
	"sort"
	"strings"
	"sync"

	parser "github.com/anz-bank/sysl/pkg/grammar"
	"github.com/anz-bank/sysl/pkg/parse"
	"github.com/anz-bank/sysl/pkg/pbutil"
	"github.com/spf13/afero"

	"verif/corpus"
	"verif/fw"
	"verif/gen"
)

type prop struct{}

func init() { fw.Register(prop{}) }

func (prop) ID() string { return "C07" }
func (prop) Cases(tier string) int {
	if tier == "thorough" {
		return 48
	}
	return 16
}
func (prop) Info() fw.Info {
	return fw.Info{
		Level: "exploration",
		Rule: "case i = a batch of K sources (quick 6, thorough 20): repository .sysl files that compile (with their directory tree), generated specifications (as C02, with mixin chains, REST trees, events) and specifications that import an OpenAPI-2 .yaml `as App` twice (so the importer fan-out of parseSpecs runs concurrently); each source is compiled twice sequentially (text + JSON bytes must agree), then G goroutines (8..64), each with its own Parser, compile the sources (same source by several goroutines and different sources at once) with PRNG start offsets (Gosched counts) at GOMAXPROCS in {1,2,4,16}; every concurrent result must equal the sequential bytes; after every join the process-global lexer-state map must be empty (verif hook); the race detector's reports are violations; two cases of the quick tier (every second of the thorough tier) add a churn phase of 64 goroutines x 150 (thorough 400) compilations of tiny specifications, which stresses creation/deletion in the process-global lexer-state map. Non-trivial: the batch has >= 4 distinct sources and >= 16 goroutines; distinct by batch content.",
		Assumptions: []string{"text and JSON encoders of pkg/pbutil are the serialisations the property names", "the race detector sees only races on executed paths"},
		Race:        true,
		CaseTimeout: 900,
		MaxWorkers:  8,
		MaxRSSMB:    6144,
		CountFloors: map[string]int{"concurrent_compiles": 300, "sequential_pairs": 60, "quiescent_checks": 30, "churn_compiles": 15000},
		SetFloors:   map[string]int{"gomaxprocs": 3, "source_kinds": 3},
	}
}

type source struct {
	kind  string
	label string
	files map[string]string
	root  string
}

func serial(s source) (text, js []byte, err error) {
	fs := afero.NewMemMapFs()
	for n, c := range s.files {
		_ = afero.WriteFile(fs, n, []byte(c), 0o644)
	}
	m, err := parse.NewParser().ParseFromFs(s.root, fs)
	if err != nil {
		return nil, nil, err
	}
	var tb, jb bytes.Buffer
	if err := pbutil.FTextPB(&tb, m); err != nil {
		return nil, nil, err
	}
	if err := pbutil.FJSONPB(&jb, m); err != nil {
		return nil, nil, err
	}
	return tb.Bytes(), jb.Bytes(), nil
}

const yamlLeaf = `swagger: "2.0"
info:
  title: Leaf
  version: "1"
paths:
  /things/{id}:
    get:
      parameters:
        - name: id
          in: path
          required: true
          type: string
      responses:
        200:
          description: ok
          schema:
            $ref: '#/definitions/Thing'
definitions:
  Thing:
    type: object
    properties:
      id:
        type: string
      tags:
        type: array
        items:
          type: string
`

func buildSources(ctx *fw.Ctx, r *fw.Rand, k int) []source {
	var out []source
	files := corpus.Files()
	for len(out) < k {
		switch r.Intn(5) {
		case 0, 1:
			rel := files[r.Intn(len(files))]
			tree, f, ok := corpus.Locate(rel)
			if !ok || len(tree.Files) > 400 {
				continue
			}
			out = append(out, source{"corpus", rel, tree.Files, f})
		case 2:
			spec := gen.Build(r.Fork(), gen.DefaultOpts(r, false))
			rd := gen.Render(gen.SplitPlan(spec, r.Fork(), gen.SplitOpts{MaxBlocks: 3, MaxFiles: 3, SplitTypes: true}), gen.RandomLayout(r.Fork()))
			out = append(out, source{"generated-split", fmt.Sprintf("gen-split-%d", len(out)), rd.Files, "root.sysl"})
		case 3:
			// mixin chain: C mixes B mixes A; sorted post-processing order matters
			var b strings.Builder
			names := []string{"Zeta", "Mid", "Alpha"}
			p := r.Perm(3)
			n := []string{names[p[0]], names[p[1]], names[p[2]]}
			fmt.Fprintf(&b, "%s [~abstract]:\n    !type Base%d:\n        x <: int\n    !type Extra:\n        y <: string\n", n[0], r.Intn(9))
			fmt.Fprintf(&b, "%s [~abstract]:\n    -|> %s\n    !type MidType:\n        z <: int\n", n[1], n[0])
			fmt.Fprintf(&b, "%s:\n    -|> %s\n    Ep:\n        return ok <: MidType\n", n[2], n[1])
			spec := gen.Build(r.Fork(), gen.DefaultOpts(r, false))
			rd := gen.Render(gen.JoinedPlan(spec, "root.sysl"), gen.PlainLayout())
			out = append(out, source{"mixin-chain", fmt.Sprintf("mixin-%d", len(out)), map[string]string{"root.sysl": b.String() + rd.Files["root.sysl"]}, "root.sysl"})
		default:
			root := "import leaf1.yaml as Foreign :: One\nimport leaf2.yaml as Foreign :: Two\nUser:\n    Ep:\n        Foreign :: One <- GET /things/{id}\n"
			out = append(out, source{"foreign-imports", fmt.Sprintf("foreign-%d", len(out)),
				map[string]string{"root.sysl": root, "leaf1.yaml": yamlLeaf, "leaf2.yaml": strings.ReplaceAll(yamlLeaf, "Thing", "Other")}, "root.sysl"})
		}
	}
	return out
}

func (prop) Run(ctx *fw.Ctx, i int) fw.Result {
	r := ctx.Rng()
	var res fw.Result
	k := 6
	if ctx.Thorough() {
		k = 20
	}
	srcs := buildSources(ctx, r, k)
	type base struct{ text, js []byte }
	bases := make([]base, len(srcs))
	var hp []string
	usable := []int{}
	for si, s := range srcs {
		res.Add("source_kinds", s.kind)
		t1, j1, err1 := serial(s)
		t2, j2, err2 := serial(s)
		names := make([]string, 0, len(s.files))
		for n := range s.files {
			names = append(names, n)
		}
		sort.Strings(names)
		for _, n := range names {
			hp = append(hp, n, s.files[n])
		}
		if err1 != nil || err2 != nil {
			if (err1 == nil) != (err2 == nil) {
				res.Violate("sequential|acceptance-differs", fmt.Sprintf("%s: two sequential compiles disagree: %v vs %v", s.label, err1, err2), s.files)
			}
			continue
		}
		res.Count("sequential_pairs", 1)
		if !bytes.Equal(t1, t2) || !bytes.Equal(j1, j2) {
			art := map[string]string{"first.textpb": string(t1), "second.textpb": string(t2), "first.json": string(j1), "second.json": string(j2)}
			for n, c := range s.files {
				art["src/"+n] = c
			}
			res.Violate("sequential|bytes-differ|"+s.kind, fmt.Sprintf("%s: two sequential compiles of the same sources serialise differently", s.label), art)
			continue
		}
		bases[si] = base{t1, j1}
		usable = append(usable, si)
	}
	if n := parser.VerifLexerStateCount(); n != 0 {
		res.Violate("lexer-state|leak-after-sequential", fmt.Sprintf("%d lexer states left in the global map after sequential compiles", n), nil)
	}
	res.Count("quiescent_checks", 1)
	if len(usable) == 0 {
		res.Verdict = "inconclusive"
		res.Note = "no source of the batch compiles"
		return res
	}
	procsList := []int{1, 2, 4, 16}
	rounds := 2
	if ctx.Thorough() {
		rounds = 4
	}
	maxG := 0
	for round := 0; round < rounds; round++ {
		procs := procsList[(i+round)%len(procsList)]
		old := runtime.GOMAXPROCS(procs)
		res.Add("gomaxprocs", fmt.Sprint(procs))
		G := []int{8, 16, 32, 64}[r.Intn(4)]
		if G > maxG {
			maxG = G
		}
		var wg sync.WaitGroup
		type outcome struct {
			si       int
			text, js []byte
			err      error
			pan      string
		}
		outs := make([]outcome, G)
		start := make(chan struct{})
		for gi := 0; gi < G; gi++ {
			si := usable[r.Intn(len(usable))]
			if gi%4 == 0 {
				si = usable[0] // several goroutines on the same source
			}
			offset := r.Intn(50)
			wg.Add(1)
			go func(gi, si, offset int) {
				defer wg.Done()
				defer func() {
					if p := recover(); p != nil {
						outs[gi].pan = fmt.Sprint(p)
					}
				}()
				<-start
				for k := 0; k < offset; k++ {
					runtime.Gosched()
				}
				outs[gi].si = si
				outs[gi].text, outs[gi].js, outs[gi].err = serial(srcs[si])
			}(gi, si, offset)
		}
		close(start)
		wg.Wait()
		runtime.GOMAXPROCS(old)
		for gi := range outs {
			o := outs[gi]
			s := srcs[o.si]
			res.Count("concurrent_compiles", 1)
			switch {
			case o.pan != "":
				res.Violate("concurrent|panic|"+fw.MsgClass(o.pan), fmt.Sprintf("%s: concurrent compile panicked: %s", s.label, o.pan), s.files)
			case o.err != nil:
				res.Violate("concurrent|error|"+s.kind, fmt.Sprintf("%s: compiles alone but fails when compiled concurrently: %v", s.label, o.err), s.files)
			case !bytes.Equal(o.text, bases[o.si].text) || !bytes.Equal(o.js, bases[o.si].js):
				art := map[string]string{"alone.textpb": string(bases[o.si].text), "concurrent.textpb": string(o.text)}
				for n, c := range s.files {
					art["src/"+n] = c
				}
				res.Violate("concurrent|bytes-differ|"+s.kind, fmt.Sprintf("%s: concurrent compile (G=%d, GOMAXPROCS=%d) serialises differently from the same sources compiled alone", s.label, G, procs), art)
			}
		}
		if n := parser.VerifLexerStateCount(); n != 0 {
			res.Violate("lexer-state|leak-after-concurrent", fmt.Sprintf("%d lexer states left in the global map after %d concurrent compiles were joined", n, G), nil)
		}
		res.Count("quiescent_checks", 1)
	}
	// churn phase: many short compilations at once. Every compilation creates and deletes
	// entries of the process-global lexer-state map; the map must survive that (a fatal
	// error here kills the worker and is attributed to this case by the driver).
	if i%8 == 1 || (ctx.Thorough() && i%2 == 1) {
		tiny := []string{
			"A:\n    !type T:\n        x <: int\n    Ep:\n        if a:\n            B <- Q\n        else:\n            return ok\nB:\n    Q: ...\n",
			"Long Name App:\n    Do It:\n        for each x in y:\n            one of:\n                c1:\n                    step one\n                c2:\n                    step two\n",
			"X:\n    /a/{id <: int}:\n        GET ?q=string:\n            | doc\n            return ok <: string\n",
		}
		iters := 150
		if ctx.Thorough() {
			iters = 400
		}
		var wg sync.WaitGroup
		errs := make([]string, 64)
		for g := 0; g < 64; g++ {
			wg.Add(1)
			go func(g int) {
				defer wg.Done()
				for it := 0; it < iters; it++ {
					if _, err := parse.NewParser().ParseString(tiny[(g+it)%len(tiny)]); err != nil && errs[g] == "" {
						errs[g] = err.Error()
					}
				}
			}(g)
		}
		wg.Wait()
		res.Count("churn_compiles", 64*iters)
		for _, e := range errs {
			if e != "" {
				res.Violate("concurrent|error|churn", "a tiny specification that compiles alone failed during a burst of concurrent compilations: "+e, nil)
				break
			}
		}
		if n := parser.VerifLexerStateCount(); n != 0 {
			res.Violate("lexer-state|leak-after-churn", fmt.Sprintf("%d lexer states left after the churn phase", n), nil)
		}
		res.Count("quiescent_checks", 1)
	}
	res.Hash = fw.HashOf(hp...)
	res.NonTrivial = len(usable) >= 4 && maxG >= 16
	labels := []string{}
	for _, s := range srcs {
		labels = append(labels, s.kind+":"+s.label)
	}
	res.Sample = map[string]any{"case": i, "sources": labels, "usable": len(usable), "max_goroutines": maxG}
	return res
}
