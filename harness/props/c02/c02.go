// Package c02: the compiled model says exactly what the specification text declares.
package c02

import (
	"fmt"
	"strings"

	"github.com/anz-bank/sysl/pkg/parse"
	"github.com/anz-bank/sysl/pkg/sysl"
	"github.com/spf13/afero"

	"verif/fw"
	"verif/gen"
	"verif/oracle"
)

type prop struct{}

func init() { fw.Register(prop{}) }

func (prop) ID() string { return "C02" }
func (prop) Cases(tier string) int {
	if tier == "thorough" {
		return 6000
	}
	return 1500
}
func (prop) Info() fw.Info {
	return fw.Info{
		Level: "exploration",
		Rule: "case i = random abstract system description (apps, namespaced/escaped names, attributes in every form, tuple/table/enum/alias/union types with all primitive kinds, size specs, set/sequence, local and cross-app references, simple/REST/event/subscription endpoints, statement trees of every kind) from PRNG(seed,i), rendered with a random legal layout; compiled by the real parser; the returned module (source contexts cleared) must equal, field by field, the module built from the description alone. Non-trivial: >= 2 apps or >= 1 type with a reference field, and >= 1 nested statement or REST endpoint; distinct by hash of the rendered text.",
		Assumptions: []string{"the expectation follows docs/docs/lang-spec.md plus the synthesis rules listed in DESIGN.md §3 C02, calibrated on the generated subset", "generated names avoid Sysl keywords; attribute and annotation names within one element are distinct"},
		CountFloors: map[string]int{"stmts_compared": 50, "fields_compared": 50},
	}
}

// Compile runs the real parser over in-memory files.
func Compile(files map[string]string, root string) (*sysl.Module, error) {
	fs := afero.NewMemMapFs()
	for n, c := range files {
		_ = afero.WriteFile(fs, n, []byte(c), 0o644)
	}
	return parse.NewParser().ParseFromFs(root, fs)
}

func (prop) Run(ctx *fw.Ctx, i int) fw.Result {
	r := ctx.Rng()
	spec := gen.Build(r.Fork(), gen.DefaultOpts(r, ctx.Thorough()))
	lay := gen.RandomLayout(r.Fork())
	rd := gen.Render(gen.JoinedPlan(spec, "root.sysl"), lay)
	text := rd.Files["root.sysl"]
	res := fw.Result{Hash: fw.HashOf(text)}
	st := gen.Measure(spec)
	res.NonTrivial = (st.Apps >= 2 || st.RefFields >= 1) && (st.MaxDepth >= 2 || st.RestEps >= 1)
	res.Count("stmts_compared", st.Stmts)
	res.Count("fields_compared", st.Fields)
	res.Count("types_compared", st.Types)
	res.Count("endpoints_compared", st.Eps)
	for _, k := range st.Kinds {
		res.Add("constructs", k)
	}
	res.Sample = map[string]any{"case": i, "apps": st.Apps, "types": st.Types, "endpoints": st.Eps, "stmts": st.Stmts, "text_head": head(text, 25)}
	want := gen.Expect(spec)
	var got *sysl.Module
	var err error
	pi := fw.Guard(func() { got, err = Compile(rd.Files, "root.sysl") })
	files := map[string]string{"root.sysl": text}
	if pi != nil {
		res.Violate(fw.CrashSig("panic", pi.Value, pi.Stack), "compiler panicked on a well-formed generated specification: "+pi.Value, merge(files, "stack.txt", pi.Stack))
		return res
	}
	if err != nil {
		res.Violate("reject|"+fw.MsgClass(err.Error()), "compiler rejected a well-formed generated specification: "+err.Error(), files)
		return res
	}
	oracle.ClearSourceContexts(got)
	if d := oracle.Diff(want, got, 12); len(d) > 0 {
		res.Violate("diff|"+oracle.PathClass(d[0]), fmt.Sprintf("model differs from the declared description in %d place(s): %s", len(d), strings.Join(d, " ;; ")),
			merge(files, "diff.txt", strings.Join(d, "\n")))
	}
	return res
}

func merge(m map[string]string, k, v string) map[string]string {
	out := map[string]string{k: v}
	for a, b := range m {
		out[a] = b
	}
	return out
}

func head(s string, n int) string {
	ls := strings.Split(s, "\n")
	if len(ls) > n {
		ls = ls[:n]
	}
	return strings.Join(ls, "\n")
}
