package c11

import (
	"regexp"
	"strings"
)

// The renaming rules the importers document (pkg/importer/utils.go + writer.go for the Go
// importers, pkg/importer/utils.arrai for the OpenAPI 3 bundle, pkg/arrai/util.arrai for
// SQL), re-implemented here for the reader. The compiler URL-decodes %XX in identifiers,
// so the predictions are stated on the decoded (compiled) name.

// native type names of Sysl (pkg/syslutil BuiltInTypes; docs/lang-spec "Data types").
var goBuiltins = []string{"no_primitive", "empty", "any", "bool", "int", "int32", "int64", "float", "decimal",
	"string", "bytes", "string_8", "date", "datetime", "xml", "uuid"}

// keywords of pkg/importer/utils.arrai syslSafeName.
var arraiKeywords = map[string]bool{"int": true, "int32": true, "int64": true, "float": true, "float32": true,
	"float64": true, "decimal": true, "string": true, "date": true, "datetime": true, "bool": true, "bytes": true, "any": true}

// invalid identifiers of pkg/arrai/util.arrai isValidIdentifier (SQL importer).
var sqlInvalidIdents = map[string]bool{"as": true, "if": true, "else": true, "any": true, "int": true, "int32": true,
	"int64": true, "float": true, "float32": true, "float64": true, "decimal": true, "string": true, "bool": true,
	"date": true, "datetime": true, "bytes": true}

func isGoBuiltin(name string) bool {
	l := strings.ToLower(name)
	for _, b := range goBuiltins {
		if l == b {
			return true
		}
	}
	return false
}

func hasGoBuiltinPrefix(name string) bool {
	l := strings.ToLower(name)
	for _, b := range goBuiltins {
		if strings.HasPrefix(l, b) {
			return true
		}
	}
	return false
}

func startsNameLike(s string) bool {
	if s == "" {
		return false
	}
	c := s[0]
	return c >= 'a' && c <= 'z' || c >= 'A' && c <= 'Z' || c == '_'
}

// url.PathEscape leaves these unescaped besides letters and digits; utils.go then
// escapes . : + $ & itself, so of the characters the generators use only '-' and '_'
// (and '~', '@', '=' ...) stay literal. A name is safe to start an identifier when its
// first character is a letter, '_' or an escaped character.
func goFirstCharEscaped(s string) bool {
	if s == "" {
		return false
	}
	c := s[0]
	switch {
	case c >= 'a' && c <= 'z', c >= 'A' && c <= 'Z', c >= '0' && c <= '9':
		return false
	}
	return !strings.ContainsRune("-_~!*'()@=,;", rune(c))
}

// goFieldKey: compiled name of a property written by writer.go writeDefinition
// (getSyslSafeName, then "_" appended for native type names and reserved words).
func goFieldKey(name string) string {
	k := name
	if !startsNameLike(name) && !goFirstCharEscaped(name) {
		k = "_" + k
	}
	if isGoBuiltin(k) || goReservedWords.MatchString(k) {
		k += "_"
	}
	return k
}

// goReservedWords: utils.go reservedSyslWords, the words the lexer does not accept as a
// field name; writeDefinition appends "_" to them as it does for native type names.
var goReservedWords = regexp.MustCompile(
	"^((?i)as|return|if|for|foreach|until|else|loop|alt|while)$|^(GET|POST|DELETE|PUT|PATCH|OPTIONS|HEAD|TRACE)$")

// goFieldKeyNoSuffix: getSyslSafeName alone.
func goFieldKeyNoSuffix(name string) string {
	if !startsNameLike(name) && !goFirstCharEscaped(name) {
		return "_" + name
	}
	return name
}

// goTypeKey: compiled name of a type DEFINED by the Go importers: getSyslSafeName by the
// importer, then utils.go getSyslTypeName prefixes "_" to a non-builtin type whose
// lower-cased name starts with a native type name.
func goTypeKey(name string) string {
	k := name
	if !startsNameLike(name) && !goFirstCharEscaped(name) {
		k = "_" + k
	}
	if hasGoBuiltinPrefix(k) {
		k = "_" + k
	}
	return k
}

var arraiUnsafeRun = regexp.MustCompile(`[/\\{} ]+`)

// arraiKey: compiled name produced by utils.arrai syslSafeName (types, properties,
// parameters of the OpenAPI 3 importer).
func arraiKey(name string) string {
	k := arraiUnsafeRun.ReplaceAllString(name, "_")
	if k == "" {
		return k
	}
	c := k[0]
	if !(c >= 'a' && c <= 'z' || c >= 'A' && c <= 'Z' || c == '_') {
		k = "_" + k
	}
	if arraiKeywords[strings.ToLower(k)] {
		k += "_"
	}
	return k
}

// oas2QueryName: utils.go convertToSyslSafe, as shown by the golden
// tests/openapi2/unsafe-param-name: spaces vanish, a run of dashes upper-cases the next
// character.
func oas2QueryName(name string) string {
	if !strings.ContainsAny(name, "- ") {
		return name
	}
	var sb strings.Builder
	up := false
	for i := 0; i < len(name); i++ {
		switch name[i] {
		case '-':
			up = true
		case ' ':
		default:
			if up {
				sb.WriteString(strings.ToUpper(string(name[i])))
				up = false
			} else {
				sb.WriteByte(name[i])
			}
		}
	}
	return sb.String()
}

// sqlFieldKey: compiled column name of the SQL importer (util.arrai resolveValidIdentifier).
func sqlFieldKey(name string) (key string, renamed bool) {
	if sqlInvalidIdents[strings.ToLower(name)] {
		return "_" + name, true
	}
	return name, false
}

// name classes for signatures and construct coverage.
var stmtKeywords = map[string]bool{"return": true, "if": true, "else": true, "for": true, "as": true, "until": true,
	"while": true, "alt": true, "loop": true, "one": true, "each": true, "let": true, "import": true}
var otherKeywords = map[string]bool{"type": true, "table": true, "alias": true, "union": true, "enum": true, "view": true,
	"set": true, "sequence": true, "of": true, "list": true, "mixin": true, "event": true, "sink": true, "source": true, "wrap": true}

func nameClass(name string) string {
	l := strings.ToLower(name)
	switch {
	case isGoBuiltin(name) || arraiKeywords[l]:
		return "native-type-name"
	case stmtKeywords[l]:
		return "statement-keyword"
	case otherKeywords[l]:
		return "keyword"
	case name != "" && name[0] >= '0' && name[0] <= '9':
		return "leading-digit"
	case strings.Contains(name, " "):
		return "space"
	case strings.Contains(name, "."):
		return "dot"
	case strings.Contains(name, "-"):
		return "dash"
	case hasGoBuiltinPrefix(name):
		return "native-prefix"
	}
	return "plain"
}
