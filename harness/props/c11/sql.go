package c11

import (
	"fmt"
	"sort"
	"strings"

	"github.com/anz-bank/sysl/pkg/sysl"

	"verif/fw"
)

// ---- SQL DDL description ----

type sqlType struct {
	Spell string // as written in the DDL
	Prim  string // expected Sysl primitive
	BW    int
}

type sqlCol struct {
	Name    string
	Quoted  bool // written in back-quotes
	T       sqlType
	Array   bool
	NotNull bool
	Default string
	Struct  []*sqlCol // bigquery ARRAY<STRUCT<...>>
}

type pkPart struct {
	Col  string
	Sort string // "", ASC, DESC
}

type sqlFK struct {
	Name     string
	Cols     []string
	RefTable string
	RefCols  []string
}

type sqlTable struct {
	Name    string
	Prefix  string // bigquery dataset prefix
	Cols    []*sqlCol
	PK      []pkPart
	PKStyle string // outer (spanner) | constraint | named-constraint | inline | none
	FKs     []*sqlFK
}

type sqlIndex struct {
	Name, Table string
	Unique      bool
	Parts       []pkPart
}

type sqlDoc struct {
	Dialect string // spannerSQL | postgres | mysql | bigquery
	DB      string
	Tables  []*sqlTable
	Indexes []*sqlIndex
	Cons    map[string]bool
	Spice   string
}

// type spellings per dialect, restricted to what the importer goldens
// (pkg/importer/sql/tests/*) and docs/docs/formats-spanner.md show.
var sqlTypes = map[string][]sqlType{
	"spannerSQL": {{"BOOL", "BOOL", 0}, {"INT64", "INT", 64}, {"FLOAT64", "FLOAT", 64}, {"NUMERIC", "DECIMAL", 0}, {"STRING(%d)", "STRING", 0},
		{"STRING(MAX)", "STRING", 0}, {"BYTES(%d)", "BYTES", 0}, {"BYTES(MAX)", "BYTES", 0}, {"DATE", "DATE", 0}, {"TIMESTAMP", "DATETIME", 0}},
	"postgres": {{"BOOLEAN", "BOOL", 0}, {"INTEGER", "INT", 0}, {"INT", "INT", 0}, {"BIGINT", "INT", 64}, {"NUMERIC", "DECIMAL", 0},
		{"DECIMAL(%d,2)", "DECIMAL", 0}, {"VARCHAR(%d)", "STRING", 0}, {"TEXT", "STRING", 0}, {"DATE", "DATE", 0}, {"TIMESTAMP", "DATETIME", 0},
		{"TIMESTAMP WITHOUT TIME ZONE", "DATETIME", 0}, {"BYTEA", "BYTES", 0}, {"UUID", "STRING", 0}, {"FLOAT", "FLOAT", 0}},
	"mysql": {{"BOOLEAN", "BOOL", 0}, {"INT", "INT", 0}, {"BIGINT", "INT", 64}, {"DECIMAL(%d,2)", "DECIMAL", 0}, {"VARCHAR(%d)", "STRING", 0},
		{"TEXT", "STRING", 0}, {"DATE", "DATE", 0}, {"DATETIME", "DATETIME", 0}, {"TIMESTAMP", "DATETIME", 0}, {"BLOB", "BYTES", 0},
		{"FLOAT", "FLOAT", 0}, {"DOUBLE", "FLOAT", 64}},
	"bigquery": {{"BOOL", "BOOL", 0}, {"INT64", "INT", 64}, {"FLOAT64", "FLOAT", 64}, {"NUMERIC", "DECIMAL", 0}, {"STRING", "STRING", 0},
		{"BYTES", "BYTES", 0}, {"DATE", "DATE", 0}, {"TIMESTAMP", "DATETIME", 0}},
}

var (
	sqlTables  = []string{"Account", "Customer", "Orders", "OrderLine", "Product", "Payment", "Branch", "Ledger", "Address", "Invoice"}
	sqlCols    = []string{"Name", "Email", "Balance", "CreatedAt", "Status", "Note", "Amount", "Qty", "Active", "Code", "Title", "Region", "Score", "Payload", "Born"}
	sqlOddCols = []string{"Int", "float", "date", "String", "bool", "int64", "if", "else"}
	sqlKwCols  = []string{"Table", "type", "view", "set"}
)

type sqlGen struct {
	r     *fw.Rand
	d     *sqlDoc
	spice map[string]bool
}

func (g *sqlGen) con(c string) { g.d.Cons[c] = true }

func (g *sqlGen) colType(keyable bool) sqlType {
	ts := sqlTypes[g.d.Dialect]
	for {
		t := ts[g.r.Intn(len(ts))]
		if keyable && (t.Prim == "FLOAT" || t.Prim == "BYTES" || t.Prim == "BOOL" || strings.Contains(t.Spell, "MAX") || t.Spell == "TEXT") {
			continue
		}
		if strings.Contains(t.Spell, "%d") {
			t.Spell = fmt.Sprintf(t.Spell, []int{8, 10, 23, 36, 64, 100, 255}[g.r.Intn(7)])
		}
		return t
	}
}

func genSQL(r *fw.Rand, dialect string, thorough bool) *sqlDoc {
	d := &sqlDoc{Dialect: dialect, Cons: map[string]bool{}}
	g := &sqlGen{r: r, d: d, spice: map[string]bool{}}
	g.con("dialect-" + dialect)
	if r.Chance(1, 3) {
		d.Spice = r.Pick([]string{"array-not-null", "backquoted-native-name", "renamed-column-max-length"})
		g.spice[d.Spice] = true
		g.con("spice-" + d.Spice)
	}
	if r.Chance(1, 3) {
		d.DB = r.Pick([]string{"bank", "shop_db", "core1"})
		g.con("create-database")
	}
	nt := 1 + r.Intn(4)
	if thorough && r.Chance(1, 5) {
		nt += r.Intn(4)
	}
	perm := r.Perm(len(sqlTables))
	keyed := dialect != "bigquery"
	for ti := 0; ti < nt; ti++ {
		t := &sqlTable{Name: sqlTables[perm[ti]]}
		if dialect == "bigquery" {
			t.Prefix = r.Pick([]string{"", "ds", "analytics"})
		}
		used := map[string]bool{}
		colName := func() (string, bool) {
			for {
				n := r.Pick(sqlCols)
				quoted := false
				switch {
				case r.Chance(1, 12):
					n = r.Pick(sqlOddCols)
					g.con("column-name-native-type-or-keyword")
				case r.Chance(1, 14):
					n = r.Pick(sqlKwCols)
					g.con("column-name-keyword")
				}
				if (dialect == "spannerSQL" || dialect == "mysql") && r.Chance(1, 8) {
					if _, renamed := sqlFieldKey(n); !renamed {
						quoted = true
						g.con("column-name-backquoted")
					}
				}
				if (dialect == "spannerSQL" || dialect == "mysql") && g.spice["backquoted-native-name"] && r.Chance(1, 3) {
					n, quoted = r.Pick(sqlOddCols), true
					g.con("column-name-backquoted-native-type")
				}
				if !used[strings.ToLower(n)] {
					used[strings.ToLower(n)] = true
					return n, quoted
				}
			}
		}
		// key columns first
		nk := 0
		if keyed {
			nk = 1
			if r.Chance(1, 3) {
				nk = 2 + r.Intn(2)
				g.con("composite-pk")
			} else {
				g.con("single-pk")
			}
		}
		for k := 0; k < nk; k++ {
			n := fmt.Sprintf("%sId", t.Name)
			if k > 0 {
				n = fmt.Sprintf("Seq%d", k)
			}
			used[strings.ToLower(n)] = true
			c := &sqlCol{Name: n, T: g.colType(true), NotNull: !(k == 0 && nk == 1 && r.Chance(1, 6))}
			t.Cols = append(t.Cols, c)
			srt := ""
			if dialect == "spannerSQL" && r.Chance(1, 4) {
				srt = r.Pick([]string{"ASC", "DESC"})
				g.con("pk-sort-order")
			}
			t.PK = append(t.PK, pkPart{Col: n, Sort: srt})
		}
		// foreign keys to earlier tables
		if keyed && ti > 0 && r.Chance(3, 5) {
			nfk := 1
			if ti > 1 && r.Chance(1, 3) {
				nfk = 2
			}
			tperm := r.Perm(ti)
			for f := 0; f < nfk; f++ {
				ref := d.Tables[tperm[f]]
				fk := &sqlFK{RefTable: ref.Name}
				if r.Chance(1, 2) || nfk > 1 {
					fk.Name = fmt.Sprintf("FK_%s_%s", t.Name, ref.Name)
					g.con("fk-named-constraint")
				}
				if len(ref.PK) > 1 {
					g.con("fk-composite")
				} else {
					g.con("fk-single")
				}
				for _, p := range ref.PK {
					rc := ref.col(p.Col)
					n := fmt.Sprintf("%s_%s", ref.Name, p.Col)
					used[strings.ToLower(n)] = true
					t.Cols = append(t.Cols, &sqlCol{Name: n, T: rc.T, NotNull: r.Chance(1, 2)})
					fk.Cols = append(fk.Cols, n)
					fk.RefCols = append(fk.RefCols, p.Col)
				}
				t.FKs = append(t.FKs, fk)
			}
		}
		// plain columns
		for ci, nc := 0, 1+r.Intn(6); ci < nc; ci++ {
			n, q := colName()
			c := &sqlCol{Name: n, Quoted: q, T: g.colType(false), NotNull: r.Chance(2, 5)}
			if _, renamed := sqlFieldKey(n); renamed {
				if g.spice["renamed-column-max-length"] && dialect == "spannerSQL" {
					c.T = sqlType{r.Pick([]string{"STRING(MAX)", "BYTES(MAX)"}), "STRING", 0}
					if strings.HasPrefix(c.T.Spell, "BYTES") {
						c.T.Prim = "BYTES"
					}
					g.con("renamed-column-with-max-length")
				}
				for !g.spice["renamed-column-max-length"] && strings.Contains(c.T.Spell, "MAX") {
					c.T = g.colType(false)
				}
			}
			if c.NotNull {
				g.con("not-null")
			} else {
				g.con("nullable")
			}
			if r.Chance(1, 10) && (dialect == "spannerSQL" || dialect == "postgres" || dialect == "bigquery") && !strings.Contains(c.T.Spell, "MAX") {
				c.Array = true
				g.con("array-column")
				if c.NotNull && !g.spice["array-not-null"] {
					c.NotNull = false
				}
				if c.NotNull {
					g.con("array-column-not-null")
				}
			}
			if !c.Array && r.Chance(1, 10) && (dialect == "postgres" || dialect == "mysql") {
				switch c.T.Prim {
				case "INT":
					c.Default = "0"
				case "STRING":
					c.Default = "'n/a'"
				case "BOOL":
					c.Default = "TRUE"
				}
				if c.Default != "" {
					g.con("default-value")
				}
			}
			g.con("type-" + strings.ToLower(c.T.Prim) + boolStr(c.T.BW != 0, fmt.Sprint(c.T.BW), ""))
			t.Cols = append(t.Cols, c)
		}
		if dialect == "bigquery" && r.Chance(1, 4) {
			sc := &sqlCol{Name: "Parts", Array: true}
			for si, ns := 0, 1+r.Intn(3); si < ns; si++ {
				sc.Struct = append(sc.Struct, &sqlCol{Name: fmt.Sprintf("f%d", si), T: g.colType(false), NotNull: r.Chance(1, 3)})
			}
			t.Cols = append(t.Cols, sc)
			g.con("array-of-struct")
		}
		switch {
		case !keyed:
			t.PKStyle = "none"
		case dialect == "spannerSQL":
			t.PKStyle = "outer"
		case len(t.PK) == 1 && len(t.FKs) == 0 && r.Chance(1, 2):
			// goldens use the inline form only in tables without table constraints
			t.PKStyle = "inline"
			g.con("pk-inline")
		case r.Chance(1, 3):
			t.PKStyle = "named-constraint"
			g.con("pk-named-constraint")
		default:
			t.PKStyle = "constraint"
		}
		d.Tables = append(d.Tables, t)
	}
	if keyed {
		for ii, ni := 0, r.Intn(3); ii < ni; ii++ {
			t := d.Tables[r.Intn(len(d.Tables))]
			ix := &sqlIndex{Name: fmt.Sprintf("Idx%s%d", t.Name, ii), Table: t.Name, Unique: r.Chance(1, 3)}
			cperm := r.Perm(len(t.Cols))
			for k := 0; k < 1+r.Intn(2) && k < len(t.Cols); k++ {
				c := t.Cols[cperm[k]]
				if c.Array || c.Quoted {
					continue
				}
				ix.Parts = append(ix.Parts, pkPart{Col: c.Name, Sort: r.Pick([]string{"", "", "ASC", "DESC"})})
			}
			if len(ix.Parts) == 0 {
				continue
			}
			g.con("index")
			if ix.Unique {
				g.con("unique-index")
			}
			d.Indexes = append(d.Indexes, ix)
		}
	}
	return d
}

func (t *sqlTable) col(name string) *sqlCol {
	for _, c := range t.Cols {
		if c.Name == name {
			return c
		}
	}
	return nil
}

func (t *sqlTable) isPK(name string) bool {
	for _, p := range t.PK {
		if p.Col == name {
			return true
		}
	}
	return false
}

func (t *sqlTable) fkOf(name string) (*sqlFK, int) {
	for _, f := range t.FKs {
		for i, c := range f.Cols {
			if c == name {
				return f, i
			}
		}
	}
	return nil, 0
}

// ---- rendering ----

func (d *sqlDoc) kw(r *fw.Rand, s string) string {
	if r.Chance(1, 6) {
		return strings.ToLower(s)
	}
	return s
}

func keyList(parts []pkPart) string {
	var ps []string
	for _, p := range parts {
		s := p.Col
		if p.Sort != "" {
			s += " " + p.Sort
		}
		ps = append(ps, s)
	}
	return strings.Join(ps, ", ")
}

func (d *sqlDoc) colDDL(c *sqlCol, t *sqlTable, r *fw.Rand) string {
	name := c.Name
	if c.Quoted {
		name = "`" + name + "`"
	}
	var ty string
	switch {
	case c.Struct != nil:
		var fs []string
		for _, f := range c.Struct {
			s := f.Name + " " + f.T.Spell
			if f.NotNull {
				s += " NOT NULL"
			}
			fs = append(fs, s)
		}
		ty = "ARRAY<STRUCT<" + strings.Join(fs, ", ") + ">>"
	case c.Array && d.Dialect == "postgres":
		ty = c.T.Spell + "[]"
	case c.Array:
		ty = "ARRAY<" + c.T.Spell + ">"
	default:
		ty = c.T.Spell
	}
	s := fmt.Sprintf("%-14s %s", name, ty)
	if c.NotNull {
		s += " " + d.kw(r, "NOT NULL")
	}
	if c.Default != "" {
		s += " DEFAULT " + c.Default
	}
	if t.PKStyle == "inline" && t.isPK(c.Name) {
		s += " " + d.kw(r, "PRIMARY KEY")
	}
	return s
}

func (d *sqlDoc) render(r *fw.Rand) string {
	var sb strings.Builder
	if r.Chance(1, 3) {
		sb.WriteString("-- generated schema\n")
	}
	if d.DB != "" {
		fmt.Fprintf(&sb, "CREATE DATABASE %s;\n\n", d.DB)
	}
	if d.Dialect == "postgres" && r.Chance(1, 3) {
		sb.WriteString("SET client_encoding = 'UTF8';\nSET lock_timeout = 0;\n\n")
	}
	if d.Dialect == "mysql" && r.Chance(1, 4) {
		sb.WriteString("/* schema for mysql */\n")
	}
	// indexes are emitted after all tables, or directly after their table
	after := r.Chance(1, 2)
	for _, t := range d.Tables {
		name := t.Name
		if t.Prefix != "" {
			name = t.Prefix + "." + name
		}
		ine := ""
		if d.Dialect != "spannerSQL" && r.Chance(1, 4) {
			ine = "IF NOT EXISTS "
		}
		fmt.Fprintf(&sb, "%s %s%s (\n", d.kw(r, "CREATE TABLE"), ine, name)
		var lines []string
		for _, c := range t.Cols {
			lines = append(lines, "    "+d.colDDL(c, t, r))
		}
		switch t.PKStyle {
		case "constraint":
			lines = append(lines, "    PRIMARY KEY ("+keyList(t.PK)+")")
		case "named-constraint":
			lines = append(lines, "    CONSTRAINT PK_"+t.Name+" PRIMARY KEY ("+keyList(t.PK)+")")
		}
		for _, f := range t.FKs {
			s := "    "
			if f.Name != "" {
				s += "CONSTRAINT " + f.Name + " "
			}
			s += fmt.Sprintf("FOREIGN KEY (%s) REFERENCES %s (%s)", strings.Join(f.Cols, ", "), f.RefTable, strings.Join(f.RefCols, ", "))
			lines = append(lines, s)
		}
		sb.WriteString(strings.Join(lines, ",\n"))
		if d.Dialect == "spannerSQL" && r.Chance(1, 2) {
			sb.WriteString(",")
		}
		sb.WriteString("\n)")
		if t.PKStyle == "outer" {
			sb.WriteString(" PRIMARY KEY (" + keyList(t.PK) + ")")
		}
		sb.WriteString(";\n\n")
		if !after {
			d.indexDDL(&sb, t.Name, r)
		}
	}
	if after {
		for _, t := range d.Tables {
			d.indexDDL(&sb, t.Name, r)
		}
	}
	return sb.String()
}

func (d *sqlDoc) indexDDL(sb *strings.Builder, table string, r *fw.Rand) {
	for _, ix := range d.Indexes {
		if ix.Table != table {
			continue
		}
		u := ""
		if ix.Unique {
			u = "UNIQUE "
		}
		fmt.Fprintf(sb, "CREATE %sINDEX %s ON %s (%s);\n\n", u, ix.Name, ix.Table, keyList(ix.Parts))
	}
}

// ---- oracle ----

type sqlChecker struct {
	*checker
	d               *sqlDoc
	af              *appFacts
	nTables, nCols  int
	nKeys, nIndexes int
	nestedFollowed  int
}

func attrStrings(a *sysl.Attribute, out *[]string) {
	if a == nil {
		return
	}
	if arr := a.GetA(); arr != nil {
		for _, e := range arr.Elt {
			attrStrings(e, out)
		}
		return
	}
	*out = append(*out, a.GetS())
}

func (x *sqlChecker) run() {
	for _, t := range x.d.Tables {
		x.nTables++
		def := x.af.Types[t.Name]
		where := "table " + t.Name
		if def == nil {
			x.fail("type-missing", "table", fmt.Sprintf("%s: no type in the compiled output; types: %v", where, sortedKeys(x.af.Types)))
			continue
		}
		if def.Form != "relation" {
			x.fail("type-form", "table", fmt.Sprintf("%s: compiled as %s, expected !table", where, def.Form))
			continue
		}
		for _, c := range t.Cols {
			x.nCols++
			x.checkCol(where, t, def, c)
		}
		// primary key of the relation
		if len(t.PK) > 0 {
			x.nKeys++
			var wantPK []string
			for _, p := range t.PK {
				k, _ := sqlFieldKey(p.Col)
				wantPK = append(wantPK, k)
			}
			got := append([]string{}, def.PK...)
			w2 := append([]string{}, wantPK...)
			sort.Strings(got)
			sort.Strings(w2)
			if strings.Join(got, ",") != strings.Join(w2, ",") {
				x.fail("primary-key", boolStr(len(t.PK) > 1, "composite-pk", "single-pk")+",style="+t.PKStyle, fmt.Sprintf("%s: primary key %v, compiled relation key %v", where, wantPK, def.PK))
			}
		}
		for _, ix := range x.d.Indexes {
			if ix.Table != t.Name {
				continue
			}
			x.nIndexes++
			var ss []string
			attrStrings(def.RawAttr["indexes"], &ss)
			found := false
			for _, s := range ss {
				if s == "name:"+ix.Name {
					found = true
				}
			}
			if !found {
				x.fail("index-missing", boolStr(ix.Unique, "unique-index", "index"), fmt.Sprintf("%s: index %s not recorded in the table's indexes attribute %v", where, ix.Name, ss))
			}
		}
	}
}

func (x *sqlChecker) checkCol(where string, t *sqlTable, def *tyDef, c *sqlCol) {
	key, renamed := sqlFieldKey(c.Name)
	cls := "plain"
	if renamed {
		cls = "native-type-or-keyword"
	}
	if c.Quoted {
		cls += ",backquoted"
	}
	got, ok := def.Fields[key]
	if !ok {
		x.fail("column-missing", "name="+cls, fmt.Sprintf("%s: column %q (expected field %q) missing; fields: %v", where, c.Name, key, sortedKeys(def.Fields)))
		return
	}
	if renamed && got.Attrs["name"] != c.Name {
		// docs/docs/formats-spanner.md "Name conflicts": the name attribute keeps the real name
		x.fail("column-name-attr", "name="+cls, fmt.Sprintf("%s: column %q was renamed to %q but carries name=%q", where, c.Name, key, got.Attrs["name"]))
	}
	w := c.Name
	// optionality
	if got.Opt != !c.NotNull {
		x.fail("column-optionality", boolStr(c.NotNull, "not-null", "nullable")+boolStr(t.isPK(c.Name), ",pk", "")+boolStr(c.Array, ",array", ""), fmt.Sprintf("%s.%s: NOT NULL=%v, compiled %s", where, w, c.NotNull, got))
	}
	if got.Seq != c.Array {
		x.fail("column-arrayness", boolStr(c.Array, "array", "scalar"), fmt.Sprintf("%s.%s: array=%v, compiled %s", where, w, c.Array, got))
	}
	fk, fi := t.fkOf(c.Name)
	switch {
	case c.Struct != nil:
		if len(got.Ref) != 1 || x.af.Types[got.Ref[0]] == nil {
			x.fail("column-kind", "array-of-struct", fmt.Sprintf("%s.%s: expected a reference to a nested type, compiled %s", where, w, got))
			break
		}
		nd := x.af.Types[got.Ref[0]]
		x.nestedFollowed++
		for _, f := range c.Struct {
			fu, ok := nd.Fields[f.Name]
			if !ok {
				x.fail("column-missing", "struct-field", fmt.Sprintf("%s.%s: struct field %s missing in %s", where, w, f.Name, nd.Name))
				continue
			}
			if fu.Prim != f.T.Prim || fu.Opt != !f.NotNull {
				x.fail("column-kind", "struct-field", fmt.Sprintf("%s.%s.%s: expected %s notnull=%v, compiled %s", where, w, f.Name, f.T.Prim, f.NotNull, fu))
			}
		}
	case fk != nil:
		rk, _ := sqlFieldKey(fk.RefCols[fi])
		if len(got.Ref) != 2 || got.Ref[0] != fk.RefTable || got.Ref[1] != rk {
			x.fail("column-reference", boolStr(len(fk.Cols) > 1, "fk-composite", "fk-single")+boolStr(fk.Name != "", ",named", ""), fmt.Sprintf("%s.%s: expected reference to %s.%s, compiled %s", where, w, fk.RefTable, rk, got))
		}
		if !got.Patterns["fk"] {
			x.fail("column-fk-tag", boolStr(len(fk.Cols) > 1, "fk-composite", "fk-single"), fmt.Sprintf("%s.%s: foreign key column without ~fk (%s)", where, w, joinSorted(got.Patterns)))
		}
	default:
		if got.Prim != c.T.Prim || (c.T.BW != 0 && got.BitWidth != c.T.BW) {
			x.fail("column-kind", "type="+strings.Fields(strings.Split(c.T.Spell, "(")[0])[0], fmt.Sprintf("%s.%s: %s expected %s%s, compiled %s", where, w, c.T.Spell, c.T.Prim, boolStr(c.T.BW != 0, fmt.Sprint(c.T.BW), ""), got))
		}
	}
	if t.isPK(c.Name) != got.Patterns["pk"] {
		x.fail("column-pk-tag", boolStr(len(t.PK) > 1, "composite-pk", "single-pk")+",style="+t.PKStyle, fmt.Sprintf("%s.%s: primary-key member=%v, compiled patterns {%s}", where, w, t.isPK(c.Name), joinSorted(got.Patterns)))
	}
}

func (d *sqlDoc) constructs() []string {
	var out []string
	for c := range d.Cons {
		out = append(out, "sql:"+c)
	}
	sort.Strings(out)
	return out
}
