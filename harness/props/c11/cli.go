package c11

import (
	"fmt"
	"os"

	"google.golang.org/protobuf/encoding/prototext"

	"verif/fw"
	"verif/oracle"
)

// childCmd is the hidden sub-command by which any binary that links this package (vcheck,
// dev-c11) can be re-executed as a separate process that imports one document and writes
// the resulting Sysl text to stdout. It is used by the cross-process idempotence check.
const childCmd = "c11-import"

func init() {
	if len(os.Args) >= 3 && os.Args[1] == childCmd {
		os.Exit(CLI(append([]string{"import"}, os.Args[2:]...)))
	}
}

// GenCLI implements `gen <seed> <case> [tier]`: print the document of a case (its file
// name and importer format go to stderr).
func GenCLI(args []string) int {
	var seed uint64
	var c int
	if len(args) < 3 {
		fmt.Fprintln(os.Stderr, "usage: gen <seed> <case> [tier]")
		return 2
	}
	fmt.Sscan(args[1], &seed)
	fmt.Sscan(args[2], &c)
	tier := "quick"
	if len(args) > 3 {
		tier = args[3]
	}
	dc := caseFor(&fw.Ctx{Seed: seed, Tier: tier, Case: c}, c)
	fmt.Fprintf(os.Stderr, "file=%s format=%s importer-format=%q\n", dc.file, dc.format, dc.formatName)
	fmt.Print(dc.text)
	return 0
}

// CLI implements `import <path> [format]` and `probe <path> [format]`.
func CLI(args []string) int {
	if len(args) < 2 {
		fmt.Fprintln(os.Stderr, "usage: import|probe <path> [format]")
		return 2
	}
	b, err := os.ReadFile(args[1])
	if err != nil {
		fmt.Fprintln(os.Stderr, err)
		return 2
	}
	format := ""
	if len(args) > 2 {
		format = args[2]
	}
	out, err := ImportDoc(args[1], format, string(b))
	if err != nil {
		fmt.Fprintln(os.Stderr, "IMPORT ERROR:", err)
		return 1
	}
	fmt.Print(out)
	if args[0] != "probe" {
		return 0
	}
	m, err := CompileSysl(out)
	if err != nil {
		fmt.Println("\nCOMPILE ERROR:", err)
		return 1
	}
	oracle.ClearSourceContexts(m)
	fmt.Println("\n==== compiled ====")
	fmt.Println(prototext.MarshalOptions{Multiline: true, Indent: " "}.Format(m))
	return 0
}
