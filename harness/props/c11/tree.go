package c11

import (
	"encoding/json"
	"regexp"
	"strconv"
	"strings"

	"verif/fw"
)

// node is an ordered document tree (YAML/JSON) built by the generators and rendered by
// the emitters below; nothing from the code under test is involved.
type node struct {
	kind  byte // 's' string, 'i' int, 'b' bool, 'm' map, 'l' list
	s     string
	i     int
	b     bool
	keys  []string
	vals  []*node
	items []*node
}

func nstr(s string) *node { return &node{kind: 's', s: s} }
func nint(i int) *node    { return &node{kind: 'i', i: i} }
func nbool(b bool) *node  { return &node{kind: 'b', b: b} }
func nmap() *node         { return &node{kind: 'm'} }
func nlist(items ...*node) *node {
	return &node{kind: 'l', items: items}
}
func nstrs(ss []string) *node {
	n := nlist()
	for _, s := range ss {
		n.items = append(n.items, nstr(s))
	}
	return n
}
func (n *node) set(k string, v *node) *node {
	n.keys = append(n.keys, k)
	n.vals = append(n.vals, v)
	return n
}
func (n *node) add(v *node) *node { n.items = append(n.items, v); return n }

// ---- JSON ----

func jsonQuote(s string) string { b, _ := json.Marshal(s); return string(b) }

func (n *node) toJSON(sb *strings.Builder, indent string, cur string) {
	nl, step := "", ""
	if indent != "" {
		nl, step = "\n", indent
	}
	switch n.kind {
	case 's':
		sb.WriteString(jsonQuote(n.s))
	case 'i':
		sb.WriteString(strconv.Itoa(n.i))
	case 'b':
		sb.WriteString(strconv.FormatBool(n.b))
	case 'm':
		if len(n.keys) == 0 {
			sb.WriteString("{}")
			return
		}
		sb.WriteString("{" + nl)
		for i, k := range n.keys {
			sb.WriteString(cur + step + jsonQuote(k) + ":")
			if indent != "" {
				sb.WriteString(" ")
			}
			n.vals[i].toJSON(sb, indent, cur+step)
			if i < len(n.keys)-1 {
				sb.WriteString(",")
			}
			sb.WriteString(nl)
		}
		sb.WriteString(cur + "}")
	case 'l':
		if len(n.items) == 0 {
			sb.WriteString("[]")
			return
		}
		sb.WriteString("[" + nl)
		for i, it := range n.items {
			sb.WriteString(cur + step)
			it.toJSON(sb, indent, cur+step)
			if i < len(n.items)-1 {
				sb.WriteString(",")
			}
			sb.WriteString(nl)
		}
		sb.WriteString(cur + "]")
	}
}

func renderJSON(n *node, r *fw.Rand) string {
	var sb strings.Builder
	indent := []string{"", "  ", "    ", "\t"}[r.Intn(4)]
	n.toJSON(&sb, indent, "")
	sb.WriteString("\n")
	return sb.String()
}

// ---- YAML ----

var yamlPlain = regexp.MustCompile(`^[A-Za-z_/][A-Za-z0-9_/.\-]*$`)
var yamlReserved = map[string]bool{"true": true, "false": true, "null": true, "yes": true, "no": true, "on": true,
	"off": true, "y": true, "n": true, "nan": true, "inf": true}

type yamlStyle struct {
	r        *fw.Rand
	step     int
	quoteAll bool
	single   bool // prefer single quotes where possible
	flowLeaf bool // small scalar-only maps/lists in flow style
}

func (st *yamlStyle) scalar(s string) string {
	if !st.quoteAll && yamlPlain.MatchString(s) && !yamlReserved[strings.ToLower(s)] && !strings.HasSuffix(s, "-") {
		return s
	}
	if st.single && !strings.ContainsAny(s, "'\\\n\t") {
		return "'" + s + "'"
	}
	return jsonQuote(s)
}

func (n *node) isScalar() bool { return n.kind == 's' || n.kind == 'i' || n.kind == 'b' }

func (n *node) flowable() bool {
	switch n.kind {
	case 'm':
		if len(n.keys) == 0 || len(n.keys) > 3 {
			return len(n.keys) == 0
		}
		for _, v := range n.vals {
			if !v.isScalar() {
				return false
			}
		}
		return true
	case 'l':
		if len(n.items) > 6 {
			return false
		}
		for _, v := range n.items {
			if !v.isScalar() {
				return false
			}
		}
		return true
	}
	return false
}

func (st *yamlStyle) flow(n *node) string {
	switch n.kind {
	case 's':
		return st.scalar(n.s)
	case 'i':
		return strconv.Itoa(n.i)
	case 'b':
		return strconv.FormatBool(n.b)
	case 'm':
		var parts []string
		for i, k := range n.keys {
			parts = append(parts, st.scalar(k)+": "+st.flow(n.vals[i]))
		}
		return "{" + strings.Join(parts, ", ") + "}"
	case 'l':
		var parts []string
		for _, it := range n.items {
			parts = append(parts, st.flow(it))
		}
		return "[" + strings.Join(parts, ", ") + "]"
	}
	return ""
}

func (st *yamlStyle) block(sb *strings.Builder, n *node, ind int) {
	pad := strings.Repeat(" ", ind)
	switch n.kind {
	case 'm':
		for i, k := range n.keys {
			v := n.vals[i]
			sb.WriteString(pad + st.scalar(k) + ":")
			st.value(sb, v, ind)
		}
	case 'l':
		for _, it := range n.items {
			sb.WriteString(pad + "-")
			if it.isScalar() || it.flowable() && (st.flowLeaf || isEmpty(it)) {
				sb.WriteString(" " + st.flow(it) + "\n")
				continue
			}
			if it.kind == 'm' {
				// first key on the dash line
				sub := &strings.Builder{}
				st.block(sub, it, ind+2)
				s := sub.String()
				sb.WriteString(" " + strings.TrimLeft(s, " "))
				continue
			}
			sb.WriteString("\n")
			st.block(sb, it, ind+2)
		}
	}
}

func isEmpty(n *node) bool {
	return n.kind == 'm' && len(n.keys) == 0 || n.kind == 'l' && len(n.items) == 0
}

func (st *yamlStyle) value(sb *strings.Builder, v *node, ind int) {
	if v.isScalar() || isEmpty(v) || v.flowable() && st.flowLeaf && st.r.Chance(1, 2) {
		sb.WriteString(" " + st.flow(v) + "\n")
		return
	}
	sb.WriteString("\n")
	if v.kind == 'l' && st.r.Chance(1, 2) {
		st.block(sb, v, ind) // list at the same indentation as its key
		return
	}
	st.block(sb, v, ind+st.step)
}

func renderYAML(n *node, r *fw.Rand) string {
	st := &yamlStyle{r: r, step: []int{2, 2, 4, 3}[r.Intn(4)], quoteAll: r.Chance(1, 8), single: r.Chance(1, 2), flowLeaf: r.Chance(1, 2)}
	var sb strings.Builder
	if r.Chance(1, 4) {
		sb.WriteString("---\n")
	}
	if r.Chance(1, 4) {
		sb.WriteString("# generated document\n")
	}
	st.block(&sb, n, 0)
	return sb.String()
}
