package c11

import (
	"fmt"
	"strings"
)

// oaChecker compares an OpenAPI document description with the compiled import result.
type oaChecker struct {
	*checker
	d  *oaDoc
	af *appFacts

	nSchemas, nProps, nEndpoints, nParams, nResponses int
	visiting                                          map[string]bool
}

// typeKey: expected compiled name of the type defined for a named schema. For the Go
// importer the "_" prefix of utils.go getSyslSafeSchemaName (names starting with a native
// type name) applies to every schema, whatever it is written as (type, alias, enum), on
// the definition and on every reference.
func (x *oaChecker) typeKey(name string) string {
	if x.d.V == 2 {
		return goTypeKey(name)
	}
	return arraiKey(name)
}

// targetClass / missingClass: trigger class of a reference / definition problem. The
// name class leads when the name is a native type name or starts with one (those defects
// are independent of the schema kind), otherwise the schema kind leads.
func (x *oaChecker) targetClass(name string) string {
	cls, kind := nameClass(name), "?"
	if t := x.d.schema(name); t != nil {
		kind = schemaKind2(t)
	}
	if cls == "native-type-name" || cls == "native-prefix" {
		return "target-name=" + cls + ",target=" + kind
	}
	return "target=" + kind + ",target-name=" + cls
}

func missingClass(name string, s *oaSchema) string {
	cls, kind := nameClass(name), schemaKind2(s)
	if cls == "native-type-name" || cls == "native-prefix" {
		return "name=" + cls + ",schema=" + kind
	}
	return "schema=" + kind + ",name=" + cls
}

func (x *oaChecker) fieldKey(name string) string {
	if x.d.V == 2 {
		return goFieldKey(name)
	}
	return arraiKey(name)
}

// primWant: the documented type/format table (pkg/importer/openapi.go
// mapOpenAPITypeAndFormatToType for 2.0; openapi_to_sysl_proto.arrai for 3.0).
func (x *oaChecker) primWant(p oaPrim) want {
	w := want{Desc: "primitive:" + p.Type + "/" + p.Format}
	switch p.Type {
	case "string":
		switch p.Format {
		case "date":
			w.Prim = "DATE"
		case "date-time":
			w.Prim = "DATETIME"
		case "byte", "binary":
			w.Prim = "BYTES"
		case "uuid":
			if x.d.V == 2 {
				w.Prim, w.AltRef = "UUID", "uuid"
			} else {
				w.Prim = "STRING"
			}
		default:
			w.Prim = "STRING"
		}
	case "integer":
		w.Prim = "INT"
		switch p.Format {
		case "int32":
			w.BW = 32
		case "int64":
			w.BW = 64
		}
	case "number":
		w.Prim = "FLOAT"
	case "boolean":
		w.Prim = "BOOL"
	}
	return w
}

func primSpelling(w want) []string {
	switch w.Prim {
	case "INT":
		if w.BW != 0 {
			return []string{fmt.Sprintf("int%d", w.BW)}
		}
		return []string{"int"}
	case "UUID":
		return []string{"uuid"}
	}
	return []string{strings.ToLower(w.Prim)}
}

func schemaKind(s *oaSchema) string {
	switch s.K {
	case "prim":
		return "primitive:" + s.P.Type + "/" + s.P.Format
	case "enum":
		return "enum"
	case "ref":
		return "ref"
	case "obj":
		return "nested-object"
	case "allof":
		return "allOf"
	case "arr":
		switch s.Items.K {
		case "ref":
			return "array-of-ref"
		case "obj":
			return "array-of-object"
		}
		return "array-of-primitive"
	}
	return s.K
}

func (x *oaChecker) wantOf(s *oaSchema) want {
	switch s.K {
	case "prim":
		return x.primWant(s.P)
	case "enum":
		return want{Prim: "STRING", Desc: "enum"}
	case "ref":
		return want{RefKey: x.typeKey(s.Ref), Desc: "ref", RefName: s.Ref}
	case "obj":
		return want{Inline: s, Desc: "nested-object"}
	case "arr":
		w := x.wantOf(s.Items)
		w.Seq = true
		w.Desc = schemaKind(s)
		return w
	}
	return want{}
}

// follow resolves alias definitions from a usage until pred holds or a non-alias is reached.
func (x *oaChecker) follow(u tyUse, stop func(tyUse) bool) tyUse {
	for step := 0; step < 6; step++ {
		if stop(u) || u.Prim != "" || len(u.Ref) != 1 {
			return u
		}
		d := x.af.Types[u.Ref[0]]
		if d == nil || d.Form != "alias" {
			return u
		}
		nu := d.Alias
		nu.Seq = nu.Seq || u.Seq
		nu.Opt = u.Opt
		nu.Patterns, nu.Attrs = u.Patterns, u.Attrs
		u = nu
	}
	return u
}

// checkUse compares kind, array-ness and reference target of one usage.
func (x *oaChecker) checkUse(where, what string, nameCls string, w want, got tyUse) {
	cons := w.Desc
	if nameCls != "" && nameCls != "plain" {
		cons += ",name=" + nameCls
	}
	switch {
	case w.Inline != nil:
		g := x.follow(got, func(u tyUse) bool { return false })
		if g.Seq != w.Seq {
			x.fail(what+"-arrayness", cons, fmt.Sprintf("%s: expected %s, compiled %s", where, w, got))
		}
		if len(g.Ref) != 1 || x.af.Types[g.Ref[0]] == nil {
			x.fail(what+"-kind", cons, fmt.Sprintf("%s: expected a reference to a type holding the nested object, compiled %s", where, got))
			return
		}
		def := x.af.Types[g.Ref[0]]
		if def.Form != "tuple" {
			x.fail(what+"-kind", cons, fmt.Sprintf("%s: nested object became %s %s", where, def.Form, def.Name))
			return
		}
		x.checkObject(where+"."+def.Name, w.Inline.Props, w.Inline.Req, def, "nested")
	case w.RefKey != "":
		g := x.follow(got, func(u tyUse) bool { return len(u.Ref) == 1 && u.Ref[0] == w.RefKey })
		if len(g.Ref) != 1 || g.Ref[0] != w.RefKey {
			x.fail("reference", x.targetClass(w.RefName)+"|"+what+","+w.Desc, fmt.Sprintf("%s: expected %s, compiled %s", where, w, got))
			return
		}
		if g.Seq != w.Seq {
			x.fail(what+"-arrayness", cons, fmt.Sprintf("%s: expected %s, compiled %s", where, w, got))
		}
		if x.af.Types[w.RefKey] == nil {
			x.fail("reference", x.targetClass(w.RefName)+"|"+what+","+w.Desc+",dangling", fmt.Sprintf("%s: reference to %s which the output does not define", where, w.RefKey))
		}
	default:
		g := x.follow(got, func(u tyUse) bool { return w.AltRef != "" && len(u.Ref) == 1 && u.Ref[0] == w.AltRef })
		if g.Seq != w.Seq {
			x.fail(what+"-arrayness", cons, fmt.Sprintf("%s: expected %s, compiled %s", where, w, got))
		}
		ok := g.Prim == w.Prim || (w.AltRef != "" && len(g.Ref) == 1 && g.Ref[0] == w.AltRef)
		if ok && w.BW != 0 && g.BitWidth != w.BW {
			ok = false
		}
		if !ok {
			x.fail(what+"-kind", cons, fmt.Sprintf("%s: expected %s, compiled %s", where, w, got))
		}
	}
}

func reqPos(req []string, name string) int {
	for i, r := range req {
		if r == name {
			return i
		}
	}
	return -1
}

func (x *oaChecker) checkObject(where string, props []*oaProp, req []string, def *tyDef, ctx string) {
	for _, p := range props {
		x.nProps++
		cls := nameClass(p.Name)
		kind := schemaKind(p.S)
		key := x.fieldKey(p.Name)
		var got tyUse
		found, foundKey := false, ""
		for fk, f := range def.Fields {
			if f.Attrs["json_tag"] == p.Name {
				got, found, foundKey = f, true, fk
				break
			}
		}
		if !found {
			if f, ok := def.Fields[key]; ok {
				got, found, foundKey = f, true, key
				x.fail("field-json_tag", "name="+cls, fmt.Sprintf("%s: field %q carries no @json_tag=%q", where, key, p.Name))
			}
		}
		if !found {
			x.fail("field-missing", "prop="+kind+",name="+cls, fmt.Sprintf("%s: property %q (expected field %q) is missing; fields: %v", where, p.Name, key, sortedKeys(def.Fields)))
			continue
		}
		if foundKey != key {
			x.fail("field-name-rule", "name="+cls, fmt.Sprintf("%s: property %q compiled as field %q, documented rule gives %q", where, p.Name, foundKey, key))
		}
		x.checkUse(where+"."+p.Name, "field", cls, x.wantOf(p.S), got)
		pos := reqPos(req, p.Name)
		wantOpt := pos < 0
		if got.Opt != wantOpt {
			c := "not-required"
			if pos >= 0 {
				c = fmt.Sprintf("required-pos=%d", pos)
				if pos >= 2 {
					c = "required-pos=2+"
				}
			}
			if ctx != "" {
				c += "," + ctx
			}
			x.fail("field-optionality", c, fmt.Sprintf("%s: property %q required=%v (required list %v) but compiled optional=%v", where, p.Name, !wantOpt, req, got.Opt))
		}
	}
}

// mergedAllOf lists the properties / required names an allOf schema denotes.
func (x *oaChecker) mergedAllOf(s *oaSchema) (props []*oaProp, req []string) {
	for _, p := range s.Parts {
		t := p
		if p.K == "ref" {
			t = x.d.schema(p.Ref)
		}
		if t == nil {
			continue
		}
		if t.K == "allof" {
			pp, rr := x.mergedAllOf(t)
			props, req = append(props, pp...), append(req, rr...)
			continue
		}
		props = append(props, t.Props...)
		req = append(req, t.Req...)
	}
	return
}

func (x *oaChecker) checkSchemas() {
	for _, n := range x.d.Schemas {
		x.nSchemas++
		kind := n.S.K
		if kind == "arr" {
			kind = schemaKind(n.S)
		}
		key := x.typeKey(n.Name)
		def := x.af.Types[key]
		where := "schema " + n.Name
		if def == nil {
			x.fail("type-missing", missingClass(n.Name, n.S), fmt.Sprintf("%s: no type %q in the compiled output; types: %v", where, key, sortedKeys(x.af.Types)))
			continue
		}
		switch n.S.K {
		case "obj":
			if def.Form != "tuple" {
				x.fail("type-form", "schema=object", fmt.Sprintf("%s: object schema compiled as %s", where, def.Form))
				continue
			}
			x.checkObject(where, n.S.Props, n.S.Req, def, "")
		case "allof":
			if def.Form != "tuple" {
				x.fail("type-form", "schema=allOf", fmt.Sprintf("%s: allOf schema compiled as %s", where, def.Form))
				continue
			}
			props, req := x.mergedAllOf(n.S)
			x.checkObject(where, props, req, def, "allOf")
		case "arr":
			if def.Form != "alias" {
				x.fail("type-form", "schema="+kind, fmt.Sprintf("%s: array schema compiled as %s", where, def.Form))
				continue
			}
			x.checkUse(where, "alias", "", x.wantOf(n.S), def.Alias)
		case "prim", "enum":
			if def.Form != "alias" {
				x.fail("type-form", "schema="+kind, fmt.Sprintf("%s: primitive schema compiled as %s", where, def.Form))
				continue
			}
			x.checkUse(where, "alias", "", x.wantOf(n.S), def.Alias)
		}
	}
}

func schemaKind2(s *oaSchema) string {
	switch s.K {
	case "obj":
		return "object"
	case "prim":
		return "primitive:" + s.P.Type + "/" + s.P.Format
	case "arr":
		if s.Items.K == "prim" {
			return "array-of-primitive:" + s.Items.P.Type + "/" + s.Items.P.Format
		}
	}
	return schemaKind(s)
}

func (x *oaChecker) checkEndpoints() {
	for _, p := range x.d.Paths {
		path := strings.TrimSuffix(p.Path, "/")
		if path == "" {
			path = "/"
		}
		for _, op := range p.Ops {
			x.nEndpoints++
			key := strings.ToUpper(op.Method) + " " + path
			ep := x.af.Eps[key]
			if ep == nil {
				c := "method=" + op.Method
				if strings.ContainsAny(path, ".-") {
					c += ",path-needs-escaping"
				}
				x.fail("endpoint-missing", c, fmt.Sprintf("no endpoint %q; endpoints: %v", key, sortedKeys(x.af.Eps)))
				continue
			}
			for _, pa := range op.Params {
				x.nParams++
				x.checkParam(key, ep, pa)
			}
			if op.Body != nil {
				x.nParams++
				x.checkBody(key, ep, op)
			}
			for _, rs := range op.Resps {
				x.nResponses++
				x.checkResp(key, ep, rs)
			}
		}
	}
}

func (x *oaChecker) checkParam(key string, ep *epFact, pa *oaParam) {
	where := key + " param " + pa.Name + " in " + pa.In
	w := x.wantOf(pa.S)
	cls := nameClass(pa.Name)
	var got *paramFact
	switch pa.In {
	case "path":
		for i := range ep.PathParams {
			if ep.PathParams[i].Name == pa.Name {
				got = &ep.PathParams[i]
			}
		}
	case "query":
		var wantName string
		if x.d.V == 2 {
			wantName = oas2QueryName(pa.Name)
		} else {
			wantName = arraiKey(pa.Name)
		}
		for i := range ep.Query {
			q := &ep.Query[i]
			if q.Name == wantName || (x.d.V == 3 && q.T.Attrs["name"] == pa.Name) {
				got = q
			}
		}
		if got != nil && got.Name != wantName {
			x.fail("param-name-rule", "in=query,name="+cls, fmt.Sprintf("%s: compiled as %q, documented rule gives %q", where, got.Name, wantName))
		}
	case "header":
		for i := range ep.Params {
			q := &ep.Params[i]
			if q.T.Patterns["header"] && q.T.Attrs["name"] == pa.Name {
				got = q
			}
		}
	}
	if got == nil {
		x.fail("param-missing", "in="+pa.In+",name="+cls+boolStr(pa.S.K == "arr", ",array", ""), fmt.Sprintf("%s: not found (path %v query %v other %v)", where, names(ep.PathParams), names(ep.Query), names(ep.Params)))
		return
	}
	x.checkUse(where, "param", "", w, got.T)
	if pa.In != "path" {
		if got.T.Opt != !pa.Required {
			x.fail("param-optionality", "in="+pa.In+boolStr(pa.Required, ",required", ",optional"), fmt.Sprintf("%s: required=%v but compiled optional=%v", where, pa.Required, got.T.Opt))
		}
	}
}

func names(ps []paramFact) []string {
	var out []string
	for _, p := range ps {
		out = append(out, p.Name+"<:"+p.T.String())
	}
	return out
}

func (x *oaChecker) checkBody(key string, ep *epFact, op *oaOp) {
	where := key + " body"
	var got *paramFact
	for i := range ep.Params {
		if ep.Params[i].T.Patterns["body"] {
			got = &ep.Params[i]
		}
	}
	if got == nil {
		x.fail("param-missing", "in=body,"+schemaKind(op.Body), fmt.Sprintf("%s: no ~body parameter (%v)", where, names(ep.Params)))
		return
	}
	x.checkUse(where, "param", "", x.wantOf(op.Body), got.T)
	if x.d.V == 3 && got.T.Opt != !op.BodyReq {
		x.fail("param-optionality", "in=body"+boolStr(op.BodyReq, ",required", ",optional"), fmt.Sprintf("%s: required=%v but compiled optional=%v", where, op.BodyReq, got.T.Opt))
	}
}

func (x *oaChecker) checkResp(key string, ep *epFact, rs *oaResp) {
	where := key + " response " + rs.Code
	statuses := []string{rs.Code}
	if rs.Code == "default" {
		if x.d.V == 2 {
			statuses = []string{"ok", "error"} // golden tests/openapi2/default-response
		} else {
			statuses = []string{"error"} // openapi_to_sysl_proto.arrai responseToReturnMessage
		}
	}
	var cands []retFact
	for _, r := range ep.Rets {
		for _, s := range statuses {
			if r.Status == s {
				cands = append(cands, r)
			}
		}
	}
	kind := "none"
	if rs.S != nil {
		kind = schemaKind(rs.S)
	}
	cons := "code=" + boolStr(rs.Code == "default", "default", "numeric") + "," + kind
	if len(cands) == 0 {
		x.fail("response-missing", cons, fmt.Sprintf("%s: no return statement with status %v; returns: %v", where, statuses, rets(ep.Rets)))
		return
	}
	var w want
	if rs.S != nil {
		w = x.wantOf(rs.S)
	}
	for _, c := range cands {
		t := unesc(c.Type)
		switch {
		case rs.S == nil:
			if t == "" {
				return
			}
		case w.RefKey != "":
			if t == w.RefKey && c.Seq == w.Seq {
				if x.af.Types[w.RefKey] == nil {
					x.fail("reference", x.targetClass(refName(rs.S))+"|response,"+kind+",dangling", fmt.Sprintf("%s: returns %s which the output does not define", where, t))
				}
				return
			}
		default:
			for _, sp := range primSpelling(w) {
				if t == sp && c.Seq == w.Seq {
					return
				}
			}
		}
	}
	if w.RefKey != "" {
		for _, c := range cands {
			if unesc(c.Type) == w.RefKey && c.Seq != w.Seq {
				x.fail("response-arrayness", cons, fmt.Sprintf("%s: expected type %q, returns: %v", where, w.String(), rets(cands)))
				return
			}
		}
		x.fail("reference", x.targetClass(refName(rs.S))+"|response,"+kind, fmt.Sprintf("%s: expected type %q, returns: %v", where, w.String(), rets(cands)))
		return
	}
	x.fail("response-type", cons, fmt.Sprintf("%s: expected type %q, returns: %v", where, w.String(), rets(cands)))
}

func refName(s *oaSchema) string {
	if s == nil {
		return ""
	}
	if s.K == "arr" {
		return refName(s.Items)
	}
	return s.Ref
}

func rets(rs []retFact) []string {
	var out []string
	for _, r := range rs {
		out = append(out, r.Raw)
	}
	return out
}
