package c11

import (
	"fmt"
	"sort"
	"strings"

	"verif/fw"
)

// ---- abstract description of an OpenAPI document (shared by the 2.0 and 3.0 renderers) ----

type oaPrim struct{ Type, Format string }

type oaSchema struct {
	K     string // obj | arr | prim | ref | enum | allof
	P     oaPrim
	Ref   string
	Items *oaSchema
	Props []*oaProp
	Req   []string
	Parts []*oaSchema
	Enum  []string
}

type oaProp struct {
	Name string
	S    *oaSchema
}

type oaNamed struct {
	Name string
	S    *oaSchema
}

type oaParam struct {
	Name, In string
	Required bool
	S        *oaSchema // prim, or arr of prim (query only)
}

type oaResp struct {
	Code string
	S    *oaSchema // nil: no content
}

type oaOp struct {
	Method  string
	Params  []*oaParam
	Body    *oaSchema
	BodyReq bool
	Resps   []*oaResp
}

type oaPath struct {
	Path string
	Ops  []*oaOp
}

type oaDoc struct {
	V        int // 2 or 3
	JSON     bool
	Title    string
	Version  string
	BasePath string
	Schemas  []*oaNamed
	Paths    []*oaPath
	Cons     map[string]bool // constructs present
	Spice    string          // the one construct class (or "") that is a known candidate for a defect
}

func (d *oaDoc) schema(name string) *oaSchema {
	for _, n := range d.Schemas {
		if n.Name == name {
			return n.S
		}
	}
	return nil
}

var oaPrims = []oaPrim{
	{"string", ""}, {"string", ""}, {"string", "date"}, {"string", "date-time"}, {"string", "byte"}, {"string", "binary"},
	{"string", "uuid"}, {"integer", ""}, {"integer", ""}, {"integer", "int32"}, {"integer", "int64"},
	{"number", ""}, {"number", "double"}, {"number", "float"}, {"boolean", ""}, {"boolean", ""},
}

var (
	plainProps  = []string{"id", "name", "value", "count", "status", "createdAt", "owner_id", "label", "amount", "note", "kind", "size", "code", "ref", "items", "total", "flag", "price", "email", "title"}
	dotProps    = []string{"a.b", "meta.version", "x.y.z"}
	dashProps   = []string{"x-y", "content-type", "dash-ed-name"}
	spaceProps  = []string{"sp ace", "two words here"}
	digitProps  = []string{"1st", "2nd.item", "9lives"}
	nativeProps = []string{"int", "string", "date", "any", "bool", "float", "bytes", "datetime", "decimal", "int64", "int32", "dateTime", "String", "uuid"}
	kwProps     = []string{"type", "table", "alias", "set", "sequence", "view", "union", "enum", "of", "list"}
	stmtProps   = []string{"return", "if", "else", "for", "as", "until", "while", "alt", "loop"}

	plainSchemas  = []string{"Pet", "Owner", "Order", "Item", "Account", "Problem", "Address", "Customer", "Line", "Tag", "Basket", "Goat"}
	escSchemas    = []string{"my.type", "dash-name", "v1.Pet-x", "9lives", "200unsafe"}
	prefixSchemas = []string{"Internal", "DateRange", "Anything", "Stringy", "Integer", "Boolean", "floatBox"}
	nativeSchemas = []string{"string", "int", "date", "any", "Bool"}
	kwSchemas     = []string{"type", "table", "view", "set"}
)

type oaGen struct {
	r     *fw.Rand
	d     *oaDoc
	spice map[string]bool
	used  map[string]bool
	seq   int
}

func (g *oaGen) con(c string) { g.d.Cons[c] = true }

func (g *oaGen) uniq(base string) string {
	n := base
	for g.used[strings.ToLower(n)] {
		g.seq++
		n = fmt.Sprintf("%s%d", base, g.seq)
	}
	g.used[strings.ToLower(n)] = true
	return n
}

func (g *oaGen) schemaName() string {
	r := g.r
	switch {
	case g.spice["schema-native"] && r.Chance(1, 3):
		// an unused native type name (a numbered variant would fall into the
		// "starts with a native type name" class instead)
		for _, k := range r.Perm(len(nativeSchemas)) {
			if n := nativeSchemas[k]; !g.used[strings.ToLower(n)] {
				g.con("schema-name-native-type")
				return g.uniq(n)
			}
		}
	case g.spice["schema-keyword"] && r.Chance(1, 3):
		g.con("schema-name-keyword")
		return g.uniq(r.Pick(kwSchemas))
	case g.spice["schema-prefix"] && r.Chance(1, 3):
		g.con("schema-name-native-prefix")
		return g.uniq(r.Pick(prefixSchemas))
	case r.Chance(1, 5):
		g.con("schema-name-needs-escaping")
		return g.uniq(r.Pick(escSchemas))
	}
	return g.uniq(r.Pick(plainSchemas))
}

func (g *oaGen) propName(used map[string]bool) string {
	r := g.r
	for {
		var n string
		switch {
		case g.spice["prop-stmt-keyword"] && r.Chance(1, 6):
			n = r.Pick(stmtProps)
		case r.Chance(1, 10):
			n = r.Pick(nativeProps)
		case r.Chance(1, 12):
			n = r.Pick(kwProps)
		case r.Chance(1, 12):
			n = r.Pick(dotProps)
		case r.Chance(1, 12):
			n = r.Pick(dashProps)
		case r.Chance(1, 14):
			n = r.Pick(spaceProps)
		case r.Chance(1, 14):
			n = r.Pick(digitProps)
		default:
			n = r.Pick(plainProps)
			if r.Chance(1, 4) {
				n += fmt.Sprint(r.Intn(9))
			}
		}
		if !used[strings.ToLower(n)] {
			used[strings.ToLower(n)] = true
			if c := nameClass(n); c != "plain" {
				g.con("prop-name-" + c)
			}
			return n
		}
	}
}

func (g *oaGen) prim() *oaSchema {
	p := oaPrims[g.r.Intn(len(oaPrims))]
	return &oaSchema{K: "prim", P: p}
}

func (g *oaGen) refTo(names []string) *oaSchema {
	if len(names) == 0 {
		return g.prim()
	}
	g.con("ref")
	return &oaSchema{K: "ref", Ref: g.r.Pick(names)}
}

func (g *oaGen) enum() *oaSchema {
	vals := [][]string{{"a", "b"}, {"red", "green", "blue"}, {"ON", "OFF"}, {"new", "in-progress", "done"}}[g.r.Intn(4)]
	return &oaSchema{K: "enum", P: oaPrim{"string", ""}, Enum: vals}
}

// propSchema: schema of a property / array item.
func (g *oaGen) propSchema(names []string, depth int, allowArr bool) *oaSchema {
	r := g.r
	x := r.Intn(100)
	switch {
	case x < 42:
		return g.prim()
	case x < 60:
		return g.refTo(names)
	case x < 66:
		g.con("enum-inline")
		return g.enum()
	case x < 76 && depth < 2:
		g.con("nested-object")
		if depth == 1 {
			g.con("nested-object-depth2")
		}
		return g.object(names, depth+1, 1+r.Intn(3))
	case allowArr:
		y := r.Intn(10)
		switch {
		case y < 4 && len(names) > 0:
			g.con("array-of-ref")
			return &oaSchema{K: "arr", Items: g.refTo(names)}
		case y < 8 || depth >= 2:
			g.con("array-of-primitive")
			return &oaSchema{K: "arr", Items: g.prim()}
		default:
			g.con("array-of-object")
			return &oaSchema{K: "arr", Items: g.object(names, depth+1, 1+r.Intn(3))}
		}
	}
	return g.prim()
}

func (g *oaGen) object(names []string, depth, nprops int) *oaSchema {
	r := g.r
	o := &oaSchema{K: "obj"}
	used := map[string]bool{}
	for i := 0; i < nprops; i++ {
		ps := g.propSchema(names, depth, true)
		nested := ps.K == "obj" || ps.K == "arr" && ps.Items.K == "obj"
		var pn string
		for {
			pn = g.propName(used)
			if !nested || !strings.ContainsAny(pn, ". ") {
				break
			}
			if g.spice["nested-under-escaped-name"] {
				g.con("nested-object-under-dot-or-space-name")
				break
			}
		}
		o.Props = append(o.Props, &oaProp{Name: pn, S: ps})
	}
	// required list: 0..6 names
	nreq := 0
	switch x := r.Intn(10); {
	case x < 2:
		nreq = 0
	case x < 5:
		nreq = 1 + r.Intn(2)
	default:
		nreq = 3 + r.Intn(4)
	}
	if nreq > len(o.Props) {
		nreq = len(o.Props)
	}
	if nreq > 6 {
		nreq = 6
	}
	perm := r.Perm(len(o.Props))
	for i := 0; i < nreq; i++ {
		o.Req = append(o.Req, o.Props[perm[i]].Name)
	}
	g.con(fmt.Sprintf("required-%d", nreq))
	return o
}

var pathSegs = []string{"pets", "users", "orders", "items", "accounts", "v2", "a-b", "c.d", "x_y", "reports", "search", "admin"}
var paramNames = []string{"id", "userId", "orderId", "key", "slug"}
var queryPlain = []string{"limit", "offset", "q", "sort", "since", "expand", "cursor"}
var queryOdd = []string{"filter.name", "page-size", "sort-by", "type", "kind", "user_id", "page size"}
var queryNative = []string{"date", "int", "string"}
var headerNames = []string{"X-Request-Id", "Accept-Language", "If-Match", "x_trace", "X-Tenant"}
var methods = []string{"get", "put", "post", "delete", "patch"}
var okCodes = []string{"200", "201", "202", "204"}
var errCodes = []string{"400", "401", "404", "409", "500", "503"}

func (g *oaGen) paramPrim() *oaSchema {
	ps := []oaPrim{{"string", ""}, {"string", ""}, {"integer", ""}, {"integer", "int32"}, {"integer", "int64"}, {"boolean", ""}, {"number", ""}, {"string", "date"}}
	if g.spice["param-uuid"] && g.r.Chance(1, 3) {
		g.con("param-uuid")
		return &oaSchema{K: "prim", P: oaPrim{"string", "uuid"}}
	}
	return &oaSchema{K: "prim", P: ps[g.r.Intn(len(ps))]}
}

func (g *oaGen) bodySchema(names, objNames []string) *oaSchema {
	r := g.r
	switch x := r.Intn(10); {
	case x < 6:
		g.con("body-ref")
		return &oaSchema{K: "ref", Ref: r.Pick(objNames)}
	default:
		g.con("body-array-of-ref")
		return &oaSchema{K: "arr", Items: &oaSchema{K: "ref", Ref: r.Pick(objNames)}}
	}
}

func (g *oaGen) respSchema(names, objNames []string) *oaSchema {
	r := g.r
	switch x := r.Intn(10); {
	case x < 2:
		return nil
	case x < 6:
		g.con("response-ref")
		return &oaSchema{K: "ref", Ref: r.Pick(objNames)}
	case x < 8:
		g.con("response-array-of-ref")
		return &oaSchema{K: "arr", Items: &oaSchema{K: "ref", Ref: r.Pick(objNames)}}
	default:
		g.con("response-primitive")
		return &oaSchema{K: "prim", P: []oaPrim{{"string", ""}, {"integer", ""}, {"boolean", ""}, {"string", ""}}[r.Intn(4)]}
	}
}

// genOA builds a random document description. v = 2 | 3.
func genOA(r *fw.Rand, v int, thorough bool) *oaDoc {
	d := &oaDoc{V: v, JSON: r.Chance(1, 3), Title: r.Pick([]string{"Pet Store", "Orders API", "Accounts", "Goat CRUD API"}),
		Version: r.Pick([]string{"1.0.0", "1", "2.3.1", "v1"}), Cons: map[string]bool{}}
	if r.Chance(1, 2) {
		d.BasePath = r.Pick([]string{"/v1", "/api", "/api/v2"})
	}
	g := &oaGen{r: r, d: d, spice: map[string]bool{}, used: map[string]bool{}}
	// At most one "spice" per document: a construct class that calibration showed to
	// be a candidate for a defect of the importer. 60 % of the documents carry none,
	// so that a failure can be attributed and most documents are compared in full.
	if r.Chance(2, 5) {
		d.Spice = r.Pick(oaSpices)
		g.spice[d.Spice] = true
		g.con("spice-" + d.Spice)
	}
	if d.JSON {
		g.con("json")
	} else {
		g.con("yaml")
	}

	// schema names first, so that references can point anywhere (forward, self)
	ns := 2 + r.Intn(6)
	if thorough && r.Chance(1, 6) {
		ns += r.Intn(8)
	}
	kinds := make([]string, ns)
	names := make([]string, ns)
	var objNames []string
	for i := 0; i < ns; i++ {
		x := r.Intn(100)
		switch {
		case i == 0 || x < 58:
			kinds[i] = "obj"
		case x < 70:
			kinds[i] = "arr"
		case x < 79:
			kinds[i] = "prim"
		case x < 87:
			kinds[i] = "enum"
		default:
			kinds[i] = "allof"
		}
		names[i] = g.schemaName()
		if kinds[i] == "obj" {
			objNames = append(objNames, names[i])
		}
	}
	// By default the reference graph between schemas is acyclic (schema i refers only
	// to schemas 0..i-1); a spiced document may contain self-references and cycles.
	for i := 0; i < ns; i++ {
		var s *oaSchema
		allowed := names[:i]
		var allowedObj, earlierObj []string
		for j := 0; j < i; j++ {
			if kinds[j] == "obj" {
				allowedObj = append(allowedObj, names[j])
				earlierObj = append(earlierObj, names[j])
			}
		}
		if g.spice["schema-recursion"] {
			allowed, allowedObj = names, objNames
		}
		if kinds[i] == "allof" && len(earlierObj) == 0 {
			kinds[i] = "obj"
			objNames = append(objNames, names[i])
			allowedObj = append(allowedObj, names[i])
		}
		switch kinds[i] {
		case "obj":
			g.con("object")
			s = g.object(allowed, 0, 1+r.Intn(8))
		case "arr":
			switch x := r.Intn(10); {
			case x < 5 && len(allowedObj) > 0:
				g.con("top-array-of-ref")
				s = &oaSchema{K: "arr", Items: &oaSchema{K: "ref", Ref: r.Pick(allowedObj)}}
			case x < 8:
				g.con("top-array-of-primitive")
				s = &oaSchema{K: "arr", Items: g.prim()}
				for v == 3 && !g.spice["top-prim-odd"] && (s.Items.P.Format == "int32" || s.Items.P.Format == "int64") {
					s.Items = g.prim()
				}
			default:
				g.con("top-array-of-object")
				s = &oaSchema{K: "arr", Items: g.object(allowed, 1, 1+r.Intn(3))}
			}
		case "prim":
			g.con("top-primitive")
			for {
				s = g.prim()
				odd := v == 2 && s.P.Type == "boolean" || v == 3 && (s.P.Format == "int32" || s.P.Format == "int64")
				if g.spice["top-prim-odd"] && r.Chance(1, 2) {
					if v == 2 {
						s.P = oaPrim{"boolean", ""}
					} else {
						s.P = oaPrim{"integer", r.Pick([]string{"int32", "int64"})}
					}
					g.con("top-primitive-" + s.P.Type + s.P.Format)
					break
				}
				if !odd {
					break
				}
			}
		case "enum":
			g.con("top-enum")
			s = g.enum()
		case "allof":
			g.con("allOf")
			s = &oaSchema{K: "allof"}
			used := map[string]bool{}
			nref := 1
			if len(earlierObj) > 1 && r.Chance(1, 3) {
				nref = 2
			}
			perm := r.Perm(len(earlierObj))
			for j := 0; j < nref; j++ {
				s.Parts = append(s.Parts, &oaSchema{K: "ref", Ref: earlierObj[perm[j]]})
			}
			inl := g.object(allowed, 1, 1+r.Intn(3))
			s.Parts = append(s.Parts, inl)
			_ = used
		}
		d.Schemas = append(d.Schemas, &oaNamed{names[i], s})
	}
	// allOf parts must have pairwise distinct property names (the goldens say that a
	// second definition of a name is ignored): drop clashing inline properties, and a
	// second reference that clashes with the first.
	for _, n := range d.Schemas {
		if n.S.K != "allof" {
			continue
		}
		seen := map[string]bool{}
		var parts []*oaSchema
		for _, p := range n.S.Parts {
			if p.K == "ref" {
				t := d.schema(p.Ref)
				clash := false
				for _, pp := range t.Props {
					if seen[pp.Name] {
						clash = true
					}
				}
				if clash {
					continue
				}
				for _, pp := range t.Props {
					seen[pp.Name] = true
				}
				parts = append(parts, p)
				continue
			}
			var keep []*oaProp
			for _, pp := range p.Props {
				if !seen[pp.Name] {
					seen[pp.Name] = true
					keep = append(keep, pp)
				}
			}
			if len(keep) == 0 {
				keep = []*oaProp{{Name: g.uniq("extra"), S: g.prim()}}
			}
			p.Props = keep
			var req []string
			for _, q := range p.Req {
				for _, pp := range keep {
					if pp.Name == q {
						req = append(req, q)
					}
				}
			}
			p.Req = req
			parts = append(parts, p)
		}
		n.S.Parts = parts
	}

	// paths
	np := 1 + r.Intn(4)
	ops := 0
	usedPath := map[string]bool{}
	arrParam := 0
	for pi := 0; pi < np && ops < 6; pi++ {
		var segs []string
		var pparams []string
		nseg := 1 + r.Intn(3)
		for si := 0; si < nseg; si++ {
			segs = append(segs, r.Pick(pathSegs))
			if r.Chance(1, 3) && len(pparams) < 2 {
				pn := paramNames[(len(pparams)*2+r.Intn(2))%len(paramNames)]
				dup := false
				for _, q := range pparams {
					if q == pn {
						dup = true
					}
				}
				if !dup {
					pparams = append(pparams, pn)
					segs = append(segs, "{"+pn+"}")
				}
			}
		}
		path := "/" + strings.Join(segs, "/")
		static := path
		for _, q := range pparams {
			static = strings.ReplaceAll(static, "{"+q+"}", "{}")
		}
		if usedPath[static] {
			continue
		}
		usedPath[static] = true
		if strings.ContainsAny(path, ".-") {
			g.con("path-needs-escaping")
		}
		if len(pparams) > 0 {
			g.con("param-in-path")
		}
		p := &oaPath{Path: path}
		nm := 1 + r.Intn(3)
		mperm := r.Perm(len(methods))
		// all operations of one path share the path parameter types (Sysl groups by path text)
		ptypes := map[string]*oaSchema{}
		for _, q := range pparams {
			ptypes[q] = &oaSchema{K: "prim", P: []oaPrim{{"string", ""}, {"integer", ""}, {"integer", "int64"}, {"string", ""}}[r.Intn(4)]}
		}
		for mi := 0; mi < nm && ops < 6; mi++ {
			ops++
			op := &oaOp{Method: methods[mperm[mi]]}
			g.con("method-" + op.Method)
			for _, q := range pparams {
				op.Params = append(op.Params, &oaParam{Name: q, In: "path", Required: true, S: ptypes[q]})
			}
			usedQ := map[string]bool{}
			for qi, nq := 0, r.Intn(4); qi < nq; qi++ {
				var qn string
				if g.spice["query-native-name"] && r.Chance(1, 3) {
					qn = r.Pick(queryNative)
				} else if r.Chance(1, 4) {
					qn = r.Pick(queryOdd)
				} else {
					qn = r.Pick(queryPlain)
				}
				if usedQ[oas2QueryName(qn)] {
					continue
				}
				usedQ[oas2QueryName(qn)] = true
				qp := &oaParam{Name: qn, In: "query", Required: r.Chance(1, 3), S: g.paramPrim()}
				if c := nameClass(qn); c != "plain" {
					g.con("query-name-" + c)
				}
				oddArr := g.spice["array-param-odd-path-or-name"]
				if r.Chance(1, 8) && (oddArr || !strings.Contains(path, "-")) || oddArr && r.Chance(1, 3) {
					arrParam++
					base := strings.NewReplacer(" ", "", "-", "", ".", "").Replace(qn)
					if oddArr && strings.Contains(qn, ".") {
						base = strings.NewReplacer(" ", "", "-", "").Replace(qn)
						g.con("param-array-dotted-name")
					}
					qp.Name = fmt.Sprintf("%ss%d", base, arrParam)
					qp.S = &oaSchema{K: "arr", Items: &oaSchema{K: "prim", P: oaPrim{[]string{"string", "integer"}[r.Intn(2)], ""}}}
					g.con("param-array")
				}
				g.con("param-in-query")
				if qp.Required {
					g.con("param-required")
				}
				op.Params = append(op.Params, qp)
			}
			usedH := map[string]bool{}
			for hi, nh := 0, r.Intn(3); hi < nh; hi++ {
				hn := r.Pick(headerNames)
				if usedH[hn] {
					continue
				}
				usedH[hn] = true
				g.con("param-in-header")
				op.Params = append(op.Params, &oaParam{Name: hn, In: "header", Required: r.Chance(1, 2),
					S: &oaSchema{K: "prim", P: []oaPrim{{"string", ""}, {"string", ""}, {"integer", ""}}[r.Intn(3)]}})
			}
			if (op.Method == "post" || op.Method == "put" || op.Method == "patch") && r.Chance(3, 4) {
				g.con("param-in-body")
				op.Body = g.bodySchema(names, objNames)
				op.BodyReq = r.Chance(1, 2)
			}
			// shuffle parameter order (body stays separate)
			for i := len(op.Params) - 1; i > 0; i-- {
				j := r.Intn(i + 1)
				op.Params[i], op.Params[j] = op.Params[j], op.Params[i]
			}
			nr := 1 + r.Intn(4)
			usedC := map[string]bool{}
			for ri := 0; ri < nr; ri++ {
				var code string
				switch {
				case ri == 0:
					code = r.Pick(okCodes)
				case ri == nr-1 && r.Chance(1, 2):
					code = "default"
					g.con("response-default")
				default:
					code = r.Pick(errCodes)
				}
				if usedC[code] {
					continue
				}
				usedC[code] = true
				rs := &oaResp{Code: code}
				if code != "204" {
					rs.S = g.respSchema(names, objNames)
				}
				if rs.S == nil {
					g.con("response-no-content")
				}
				op.Resps = append(op.Resps, rs)
			}
			g.con(fmt.Sprintf("responses-%d", len(op.Resps)))
			p.Ops = append(p.Ops, op)
		}
		d.Paths = append(d.Paths, p)
	}
	if d.hasCycle() {
		g.con("schema-recursion")
	}
	for _, p := range d.Paths {
		for _, op := range p.Ops {
			for _, pa := range op.Params {
				if pa.S.K == "arr" && strings.Contains(p.Path, "-") {
					g.con("param-array-under-dashed-path")
				}
			}
		}
	}
	return d
}

// refsOf lists the schema names a schema refers to (through any nesting).
func refsOf(s *oaSchema, out *[]string) {
	if s == nil {
		return
	}
	if s.K == "ref" {
		*out = append(*out, s.Ref)
	}
	refsOf(s.Items, out)
	for _, p := range s.Props {
		refsOf(p.S, out)
	}
	for _, p := range s.Parts {
		refsOf(p, out)
	}
}

func (d *oaDoc) hasCycle() bool {
	state := map[string]int{}
	var visit func(n string) bool
	visit = func(n string) bool {
		switch state[n] {
		case 1:
			return true
		case 2:
			return false
		}
		state[n] = 1
		var refs []string
		refsOf(d.schema(n), &refs)
		for _, r := range refs {
			if visit(r) {
				return true
			}
		}
		state[n] = 2
		return false
	}
	for _, n := range d.Schemas {
		if visit(n.Name) {
			return true
		}
	}
	return false
}

var oaSpices = []string{"schema-native", "schema-keyword", "schema-prefix", "prop-stmt-keyword", "schema-recursion",
	"nested-under-escaped-name", "query-native-name", "param-uuid", "top-prim-odd", "array-param-odd-path-or-name"}

// ---- rendering ----

func (d *oaDoc) refStr(name string) string {
	if d.V == 2 {
		return "#/definitions/" + name
	}
	return "#/components/schemas/" + name
}

func (d *oaDoc) schemaNode(s *oaSchema, r *fw.Rand) *node {
	n := nmap()
	switch s.K {
	case "prim":
		n.set("type", nstr(s.P.Type))
		if s.P.Format != "" {
			n.set("format", nstr(s.P.Format))
		}
	case "enum":
		n.set("type", nstr("string")).set("enum", nstrs(s.Enum))
	case "ref":
		n.set("$ref", nstr(d.refStr(s.Ref)))
	case "arr":
		if r.Chance(1, 2) {
			n.set("type", nstr("array")).set("items", d.schemaNode(s.Items, r))
		} else {
			n.set("items", d.schemaNode(s.Items, r)).set("type", nstr("array"))
		}
	case "obj":
		n.set("type", nstr("object"))
		props := nmap()
		for _, p := range s.Props {
			props.set(p.Name, d.schemaNode(p.S, r))
		}
		if len(s.Req) > 0 && r.Chance(1, 2) {
			n.set("required", nstrs(s.Req)).set("properties", props)
		} else {
			n.set("properties", props)
			if len(s.Req) > 0 {
				n.set("required", nstrs(s.Req))
			}
		}
	case "allof":
		if d.V == 2 && r.Chance(1, 2) {
			n.set("type", nstr("object"))
		}
		l := nlist()
		for _, p := range s.Parts {
			l.add(d.schemaNode(p, r))
		}
		n.set("allOf", l)
	}
	return n
}

func (d *oaDoc) tree(r *fw.Rand) *node {
	root := nmap()
	info := nmap().set("title", nstr(d.Title)).set("version", nstr(d.Version))
	schemas := nmap()
	for _, s := range d.Schemas {
		schemas.set(s.Name, d.schemaNode(s.S, r))
	}
	paths := nmap()
	for _, p := range d.Paths {
		item := nmap()
		for _, op := range p.Ops {
			o := nmap()
			if r.Chance(1, 3) {
				o.set("description", nstr("operation "+op.Method+" "+p.Path))
			}
			params := nlist()
			for _, pa := range op.Params {
				pn := nmap().set("name", nstr(pa.Name)).set("in", nstr(pa.In))
				if pa.Required || r.Chance(1, 3) {
					pn.set("required", nbool(pa.Required))
				}
				sn := d.schemaNode(pa.S, r)
				if d.V == 2 {
					for i, k := range sn.keys {
						pn.set(k, sn.vals[i])
					}
				} else {
					pn.set("schema", sn)
				}
				params.add(pn)
			}
			if d.V == 2 && op.Body != nil {
				bn := nmap().set("name", nstr("body")).set("in", nstr("body"))
				if op.BodyReq || r.Chance(1, 3) {
					bn.set("required", nbool(op.BodyReq))
				}
				bn.set("schema", d.schemaNode(op.Body, r))
				// the body parameter goes to a random position
				pos := r.Intn(len(params.items) + 1)
				params.items = append(params.items[:pos], append([]*node{bn}, params.items[pos:]...)...)
			}
			if len(params.items) > 0 {
				o.set("parameters", params)
			}
			if d.V == 3 && op.Body != nil {
				rb := nmap()
				if op.BodyReq || r.Chance(1, 3) {
					rb.set("required", nbool(op.BodyReq))
				}
				rb.set("content", nmap().set("application/json", nmap().set("schema", d.schemaNode(op.Body, r))))
				o.set("requestBody", rb)
			}
			resps := nmap()
			for _, rs := range op.Resps {
				rn := nmap().set("description", nstr("response "+rs.Code))
				if rs.S != nil {
					if d.V == 2 {
						rn.set("schema", d.schemaNode(rs.S, r))
					} else {
						rn.set("content", nmap().set("application/json", nmap().set("schema", d.schemaNode(rs.S, r))))
					}
				}
				resps.set(rs.Code, rn)
			}
			o.set("responses", resps)
			item.set(op.Method, o)
		}
		paths.set(p.Path, item)
	}
	if d.V == 2 {
		root.set("swagger", nstr("2.0")).set("info", info)
		if d.BasePath != "" {
			root.set("basePath", nstr(d.BasePath))
		}
		if r.Chance(1, 3) {
			root.set("produces", nstrs([]string{"application/json"}))
		}
		if r.Chance(1, 2) {
			root.set("paths", paths).set("definitions", schemas)
		} else {
			root.set("definitions", schemas).set("paths", paths)
		}
	} else {
		root.set("openapi", nstr(r.Pick([]string{"3.0.0", "3.0.1", "3.0.3"}))).set("info", info)
		if d.BasePath != "" && r.Chance(1, 2) {
			root.set("servers", nlist(nmap().set("url", nstr("https://example.com"+d.BasePath))))
		}
		root.set("paths", paths).set("components", nmap().set("schemas", schemas))
	}
	return root
}

func (d *oaDoc) render(r *fw.Rand) (filename, text string) {
	t := d.tree(r)
	if d.JSON {
		return "spec.json", renderJSON(t, r)
	}
	return r.Pick([]string{"spec.yaml", "spec.yml"}), renderYAML(t, r)
}

func (d *oaDoc) constructs(prefix string) []string {
	var out []string
	for c := range d.Cons {
		out = append(out, prefix+":"+c)
	}
	sort.Strings(out)
	return out
}
