package c11

import (
	"fmt"
	"net/url"
	"sort"
	"strings"

	"verif/fw"
)

// checker collects the differences between the generator's description and the facts
// read from the compiled import result. Each difference carries a narrow signature
// "<format>|<fact>|<construct>"; one violation is reported per distinct signature.
type checker struct {
	fmtName string
	res     *fw.Result
	sigs    map[string][]string
	order   []string
}

func newChecker(format string, res *fw.Result) *checker {
	return &checker{fmtName: format, res: res, sigs: map[string][]string{}}
}

func (c *checker) fail(fact, construct, msg string) {
	sig := c.fmtName + "|" + fact + "|" + construct
	if _, ok := c.sigs[sig]; !ok {
		c.order = append(c.order, sig)
	}
	if len(c.sigs[sig]) < 8 {
		c.sigs[sig] = append(c.sigs[sig], msg)
	}
}

func (c *checker) flush(files map[string]string) {
	for _, sig := range c.order {
		c.res.Violate(sig, strings.Join(c.sigs[sig], " ;; "), files)
	}
}

// want is the expected shape of a type usage.
type want struct {
	Seq     bool
	Prim    string // STRING ... ; "" for reference/inline
	BW      int
	AltRef  string // accepted alternative spelling as a reference (uuid)
	RefKey  string // expected compiled name of the referenced type
	RefName string // its name in the foreign document
	RefCol  string // SQL: referenced column
	Inline  *oaSchema
	Desc    string
}

func (w want) String() string {
	s := w.Prim
	if w.BW != 0 {
		s += fmt.Sprint(w.BW)
	}
	if w.RefKey != "" {
		s = "ref:" + w.RefKey
		if w.RefCol != "" {
			s += "." + w.RefCol
		}
	}
	if w.Inline != nil {
		s = "inline-object"
	}
	if w.Seq {
		s = "sequence of " + s
	}
	return s
}

func unesc(s string) string {
	if u, err := url.PathUnescape(s); err == nil {
		return u
	}
	return s
}

func boolStr(b bool, t, f string) string {
	if b {
		return t
	}
	return f
}

func joinSorted(m map[string]bool) string {
	var ks []string
	for k := range m {
		ks = append(ks, k)
	}
	sort.Strings(ks)
	return strings.Join(ks, ",")
}
