package c11

import (
	"fmt"
	"regexp"
	"sort"
	"strings"

	"github.com/anz-bank/sysl/pkg/sysl"
)

// tyUse is what the reader extracts from a compiled sysl.Type usage (field, parameter,
// alias target): its shape, independent of how the importer spelled it.
type tyUse struct {
	Seq      bool     // sequence/set/list of ...
	Prim     string   // STRING, INT, ... ("" when a reference)
	BitWidth int      // 32/64 for int32/int64
	Ref      []string // reference path (decoded), e.g. [Pet] or [Table col]
	Opt      bool
	Patterns map[string]bool
	Attrs    map[string]string // string-valued attributes
	Compound string            // "tuple"/"relation"/... when the usage itself is a definition
}

func (t tyUse) String() string {
	s := t.Prim
	if s == "" {
		s = "ref:" + strings.Join(t.Ref, ".")
	}
	if t.BitWidth != 0 {
		s += fmt.Sprint(t.BitWidth)
	}
	if t.Compound != "" {
		s = t.Compound
	}
	if t.Seq {
		s = "sequence of " + s
	}
	if t.Opt {
		s += "?"
	}
	return s
}

func readAttrs(m map[string]*sysl.Attribute) (map[string]string, map[string]bool) {
	attrs := map[string]string{}
	pats := map[string]bool{}
	for k, a := range m {
		if a == nil {
			continue
		}
		if k == "patterns" {
			if arr := a.GetA(); arr != nil {
				for _, e := range arr.Elt {
					pats[e.GetS()] = true
				}
			}
			continue
		}
		if _, ok := a.Attribute.(*sysl.Attribute_S); ok {
			attrs[k] = a.GetS()
		}
	}
	return attrs, pats
}

func readType(t *sysl.Type) tyUse {
	var u tyUse
	if t == nil {
		return u
	}
	u.Opt = t.Opt
	u.Attrs, u.Patterns = readAttrs(t.Attrs)
	inner := t
	// "name(0..5) <: sequence of X" compiles to list{sequence{X}}: unwrap every collection
	// level, folding the attributes and optionality found on the way.
	for depth := 0; depth < 4 && inner != nil; depth++ {
		var next *sysl.Type
		switch x := inner.Type.(type) {
		case *sysl.Type_Sequence:
			next = x.Sequence
		case *sysl.Type_Set:
			next = x.Set
		case *sysl.Type_List_:
			if x.List != nil {
				next = x.List.Type
			}
		}
		if next == nil {
			break
		}
		u.Seq = true
		inner = next
		a2, p2 := readAttrs(inner.Attrs)
		for k, v := range a2 {
			if _, ok := u.Attrs[k]; !ok {
				u.Attrs[k] = v
			}
		}
		for k := range p2 {
			u.Patterns[k] = true
		}
		u.Opt = u.Opt || inner.Opt
	}
	if inner == nil {
		return u
	}
	switch x := inner.Type.(type) {
	case *sysl.Type_Primitive_:
		u.Prim = x.Primitive.String()
	case *sysl.Type_TypeRef:
		if x.TypeRef != nil && x.TypeRef.Ref != nil {
			// the compiler leaves %XX escapes in some reference paths (query parameters)
			for _, e := range x.TypeRef.Ref.Path {
				u.Ref = append(u.Ref, unesc(e))
			}
			if x.TypeRef.Ref.Appname != nil && len(x.TypeRef.Ref.Appname.Part) > 0 {
				// "App.Type" spelled references: keep only the type path
				_ = x
			}
		}
	case *sysl.Type_Tuple_:
		u.Compound = "tuple"
	case *sysl.Type_Relation_:
		u.Compound = "relation"
	case *sysl.Type_Enum_:
		u.Compound = "enum"
	case *sysl.Type_OneOf_:
		u.Compound = "union"
	case *sysl.Type_Map_:
		u.Compound = "map"
	}
	for _, c := range append(append([]*sysl.Type_Constraint{}, t.Constraint...), inner.Constraint...) {
		if c != nil && c.BitWidth != 0 {
			u.BitWidth = int(c.BitWidth)
		}
	}
	return u
}

// tyDef is a compiled top-level type.
type tyDef struct {
	Name    string
	Form    string // tuple | relation | alias | other
	Fields  map[string]tyUse
	Alias   tyUse
	PK      []string
	Attrs   map[string]string
	RawAttr map[string]*sysl.Attribute
}

type paramFact struct {
	Name string
	T    tyUse
}

type retFact struct {
	Status string
	Seq    bool
	Type   string // decoded type name or primitive spelling, "" when none
	Raw    string
}

type epFact struct {
	Key, Method, Path string
	PathParams        []paramFact
	Query             []paramFact
	Params            []paramFact // header / body / cookie
	Rets              []retFact
}

type appFacts struct {
	App   string
	Types map[string]*tyDef
	Eps   map[string]*epFact // key "METHOD path"
}

var retRe = regexp.MustCompile(`^(\S+?)(?:\s*<:\s*(.*?))?\s*(\[.*\])?\s*$`)

func parseRet(p string) retFact {
	rf := retFact{Raw: p}
	m := retRe.FindStringSubmatch(strings.TrimSpace(p))
	if m == nil {
		rf.Status = p
		return rf
	}
	rf.Status = m[1]
	t := strings.TrimSpace(m[2])
	for _, pre := range []string{"sequence of ", "set of "} {
		if strings.HasPrefix(t, pre) {
			rf.Seq = true
			t = strings.TrimSpace(strings.TrimPrefix(t, pre))
		}
	}
	rf.Type = strings.TrimSuffix(t, "?")
	return rf
}

// readModule extracts the facts of the single application of an imported module.
func readModule(m *sysl.Module) (*appFacts, error) {
	if len(m.Apps) != 1 {
		names := []string{}
		for k := range m.Apps {
			names = append(names, k)
		}
		sort.Strings(names)
		return nil, fmt.Errorf("expected exactly one application, got %v", names)
	}
	af := &appFacts{Types: map[string]*tyDef{}, Eps: map[string]*epFact{}}
	for name, app := range m.Apps {
		af.App = name
		for tn, t := range app.Types {
			d := &tyDef{Name: tn, Fields: map[string]tyUse{}, RawAttr: t.Attrs}
			d.Attrs, _ = readAttrs(t.Attrs)
			switch x := t.Type.(type) {
			case *sysl.Type_Tuple_:
				d.Form = "tuple"
				for fn, ft := range x.Tuple.AttrDefs {
					d.Fields[fn] = readType(ft)
				}
			case *sysl.Type_Relation_:
				d.Form = "relation"
				for fn, ft := range x.Relation.AttrDefs {
					d.Fields[fn] = readType(ft)
				}
				if x.Relation.PrimaryKey != nil {
					d.PK = append(d.PK, x.Relation.PrimaryKey.AttrName...)
				}
			case *sysl.Type_Primitive_, *sysl.Type_TypeRef, *sysl.Type_Sequence, *sysl.Type_Set, *sysl.Type_List_:
				d.Form = "alias"
				d.Alias = readType(t)
			default:
				d.Form = "other"
				d.Alias = readType(t)
			}
			af.Types[tn] = d
		}
		for en, ep := range app.Endpoints {
			if ep.RestParams == nil {
				continue
			}
			e := &epFact{Key: en, Method: ep.RestParams.Method.String(), Path: ep.RestParams.Path}
			for _, q := range ep.RestParams.QueryParam {
				e.Query = append(e.Query, paramFact{q.Name, readType(q.Type)})
			}
			for _, q := range ep.RestParams.UrlParam {
				e.PathParams = append(e.PathParams, paramFact{q.Name, readType(q.Type)})
			}
			for _, p := range ep.Param {
				e.Params = append(e.Params, paramFact{p.Name, readType(p.Type)})
			}
			for _, s := range ep.Stmt {
				if r := s.GetRet(); r != nil {
					e.Rets = append(e.Rets, parseRet(r.Payload))
				}
			}
			af.Eps[e.Method+" "+e.Path] = e
		}
	}
	return af, nil
}

// resolve follows alias definitions (at most a few steps) from a usage to the definition
// or primitive it finally denotes; array-ness accumulates.
func (af *appFacts) resolve(u tyUse) (tyUse, *tyDef) {
	for step := 0; step < 6; step++ {
		if u.Prim != "" || len(u.Ref) != 1 {
			return u, nil
		}
		d := af.Types[u.Ref[0]]
		if d == nil {
			return u, nil
		}
		if d.Form != "alias" {
			return u, d
		}
		nu := d.Alias
		nu.Seq = nu.Seq || u.Seq
		nu.Opt = u.Opt
		u = nu
	}
	return u, nil
}

func sortedKeys[V any](m map[string]V) []string {
	ks := make([]string, 0, len(m))
	for k := range m {
		ks = append(ks, k)
	}
	sort.Strings(ks)
	return ks
}
