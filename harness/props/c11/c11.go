// Package c11: importers emit valid Sysl that contains everything the foreign
// specification defines (OpenAPI 2/3, XSD, SQL DDL), and importing twice gives the same text.
//
// The reference is the generator's own description of the foreign document; the real
// importer (importer.Factory -> Configure -> Load) and the real compiler run on the
// rendered document; a reader extracts facts from the compiled module and compares them
// with the description under the renaming rules the importers document.
package c11

import (
	"bytes"
	"context"
	"encoding/json"
	"fmt"
	"os"
	"os/exec"
	"path/filepath"
	"strings"
	"time"

	"github.com/anz-bank/sysl/pkg/sysl"

	"verif/fw"
)

type prop struct{}

func init() { fw.Register(prop{}) }

func (prop) ID() string { return "C11" }

// per-tier number of documents per format: OpenAPI 2, XSD (Go importers, ~50 ms each),
// OpenAPI 3, SQL (arr.ai bundles, 2-4 s each).
func plan(tier string) (oas2, xsd, oas3, sql int) {
	if tier == "thorough" {
		return 5000, 2000, 600, 600
	}
	return 150, 60, 24, 24
}

func (prop) Cases(tier string) int {
	a, b, c, d := plan(tier)
	return a + b + c + d
}

func (prop) Info() fw.Info {
	return fw.Info{
		Level: "exploration",
		Rule: "case i = one foreign document generated from PRNG(seed,i): OpenAPI 2 (YAML/JSON), XSD, OpenAPI 3 (YAML/JSON) or SQL DDL (spanner/postgres/mysql/bigquery), " +
			"built from an abstract description (schemas with nested objects, arrays, $refs, enums, required lists of 0-6 names, allOf, names needing escaping, keywords and native type names; " +
			"paths x methods with path/query/header/body parameters and 1-4 responses incl. default; complex/simple types, attributes, min/maxOccurs, simpleContent/complexContent extension; " +
			"tables, column types, NOT NULL, composite primary keys, foreign keys, indexes). The real importer (Factory->Configure->Load) converts it, the real parser compiles the output, " +
			"a reader compares the compiled types/fields/endpoints with the description; the import is repeated in a fresh importer (and, sampled, in two separate processes) and must give identical bytes. " +
			"Non-trivial: >= 2 types/tables and at least one reference, nested object, foreign key or endpoint; distinct by hash of the document text.",
		Assumptions: []string{
			"the supported subset and the renaming rules are those listed in props/c11/FINDINGS.md (derived from docs/docs/cmd/cmd-import.md, formats-*.md, the importer goldens and pkg/importer/utils.go, utils.arrai)",
			"a fact is demanded only where docs or goldens show that the importer carries it; enum values, descriptions, size constraints and index details are not compared",
			"the arr.ai bundles are exercised as shipped (binary assets); source-level mutation of them is out of reach",
		},
		CaseTimeout: 600,
		CountFloors: map[string]int{"docs_oas2": 100, "docs_xsd": 40, "docs_oas3": 16, "docs_sql": 16, "schemas_compared": 300, "properties_compared": 1000,
			"endpoints_compared": 150, "params_compared": 200, "responses_compared": 200, "idempotence_pairs": 200, "crossprocess_pairs": 10},
		SetFloors: map[string]int{"constructs": 120},
	}
}

// docCase is one generated foreign document together with its oracle.
type docCase struct {
	format     string // oas2 | oas3 | xsd | sql
	file       string
	formatName string // importer format name when autodetection cannot decide (SQL dialects)
	text       string
	describe   any
	risky      []string
	nontrivial bool
	constructs []string
	check      func(af *appFacts, c *checker, res *fw.Result)
	xprocEvery int
	// preflight names a construct known to be able to kill or hang the importer: the
	// document is first imported in a child process under a progress bound.
	preflight string
}

func (prop) Run(ctx *fw.Ctx, i int) fw.Result {
	dc := caseFor(ctx, i)
	// C11_FORMATS=oas2,xsd restricts a development run (mutation validation) to some
	// formats; the skipped cases count for nothing, so the count floors turn such a run
	// inconclusive rather than green.
	if only := os.Getenv("C11_FORMATS"); only != "" && !strings.Contains(","+only+",", ","+dc.format+",") {
		return fw.Result{Verdict: "skip", Note: "format excluded by C11_FORMATS"}
	}
	return runDoc(ctx, i, dc)
}

// caseFor generates the document of case i (a pure function of seed, tier and i).
func caseFor(ctx *fw.Ctx, i int) *docCase {
	r := ctx.Rng()
	n2, nx, n3, _ := plan(ctx.Tier)
	var dc *docCase
	switch {
	case i < n2:
		dc = oasCase(r, 2, ctx.Thorough())
	case i < n2+nx:
		dc = xsdCase(r, ctx.Thorough())
	case i < n2+nx+n3:
		dc = oasCase(r, 3, ctx.Thorough())
	default:
		dc = sqlCase(r, []string{"spannerSQL", "postgres", "mysql", "bigquery"}[(i-n2-nx-n3)%4], ctx.Thorough())
	}
	return dc
}

func oasCase(r *fw.Rand, v int, thorough bool) *docCase {
	d := genOA(r.Fork(), v, thorough)
	file, text := d.render(r.Fork())
	format := fmt.Sprintf("oas%d", v)
	dc := &docCase{format: format, file: file, text: text, describe: d, constructs: d.constructs(format), xprocEvery: map[int]int{2: 10, 3: 6}[v]}
	nrefs := d.Cons["ref"] || d.Cons["nested-object"] || d.Cons["array-of-ref"] || len(d.Paths) > 0
	dc.nontrivial = len(d.Schemas) >= 2 && nrefs
	if d.Spice != "" {
		dc.risky = []string{d.Spice}
	}
	dc.check = func(af *appFacts, c *checker, res *fw.Result) {
		x := &oaChecker{checker: c, d: d, af: af}
		x.checkSchemas()
		x.checkEndpoints()
		res.Count("schemas_compared", x.nSchemas)
		res.Count("properties_compared", x.nProps)
		res.Count("endpoints_compared", x.nEndpoints)
		res.Count("params_compared", x.nParams)
		res.Count("responses_compared", x.nResponses)
	}
	return dc
}

func xsdCase(r *fw.Rand, thorough bool) *docCase {
	d := genXSD(r.Fork(), thorough)
	text := d.render(r.Fork())
	dc := &docCase{format: "xsd", file: "schema.xsd", text: text, describe: d, constructs: d.constructs(), risky: d.risky(), xprocEvery: 10}
	if d.Cons["recursive-type"] {
		dc.preflight = "recursive-type"
	}
	dc.nontrivial = len(d.Types) >= 2 && (d.Cons["ref-complex"] || d.Cons["ref-simple"] || d.Cons["complexContent-extension"])
	dc.check = func(af *appFacts, c *checker, res *fw.Result) {
		x := &xChecker{checker: c, d: d, af: af}
		x.run()
		res.Count("schemas_compared", x.nTypes)
		res.Count("properties_compared", x.nFields)
	}
	return dc
}

func sqlCase(r *fw.Rand, dialect string, thorough bool) *docCase {
	d := genSQL(r.Fork(), dialect, thorough)
	text := d.render(r.Fork())
	dc := &docCase{format: "sql", file: "schema.sql", formatName: dialect, text: text, describe: d, constructs: d.constructs(), xprocEvery: 6}
	if d.Spice != "" {
		dc.risky = []string{d.Spice}
	}
	dc.nontrivial = len(d.Tables) >= 2 || d.Cons["array-of-struct"]
	dc.check = func(af *appFacts, c *checker, res *fw.Result) {
		x := &sqlChecker{checker: c, d: d, af: af}
		x.run()
		res.Count("schemas_compared", x.nTables)
		res.Count("properties_compared", x.nCols)
		res.Count("keys_compared", x.nKeys)
		res.Count("indexes_compared", x.nIndexes)
	}
	return dc
}

func riskyTag(risky []string) string {
	if len(risky) == 0 {
		return "unexplained"
	}
	return strings.Join(risky, "+")
}

func runDoc(ctx *fw.Ctx, i int, dc *docCase) fw.Result {
	res := fw.Result{Hash: fw.HashOf(dc.format, dc.formatName, dc.text), NonTrivial: dc.nontrivial}
	res.Count("docs_"+dc.format, 1)
	for _, c := range dc.constructs {
		res.Add("constructs", c)
	}
	res.Sample = map[string]any{"case": i, "format": dc.format + boolStr(dc.formatName != "", "/"+dc.formatName, ""), "file": dc.file,
		"constructs": dc.constructs, "document_head": head(dc.text, 30)}
	path := filepath.Join(ctx.Dir, dc.file)
	_ = os.WriteFile(path, []byte(dc.text), 0o644) // before running code that may kill the process
	desc, _ := json.MarshalIndent(dc.describe, "", " ")
	files := map[string]string{dc.file: dc.text, "description.json": string(desc), "format.txt": dc.format + " " + dc.formatName}

	// 0. constructs that can kill or hang the importer are tried in a child process first,
	// under a progress bound (60 s; the importer's median for this size class is ~50 ms)
	if dc.preflight != "" {
		if exe, e := os.Executable(); e == nil {
			kind, detail := childProbe(exe, path, dc.formatName, 60*time.Second)
			if kind != "" {
				res.Violate(dc.format+"|"+kind+"|"+dc.preflight, dc.format+": importing a well-formed document in a separate process: "+detail, with(files, "child-stderr.txt", detail))
				return res
			}
		}
	}

	// 1. import (real code)
	var out1 string
	var err error
	if pi := fw.Guard(func() { out1, err = ImportDoc(path, dc.formatName, dc.text) }); pi != nil {
		res.Violate(fw.CrashSig("panic", pi.Value, pi.Stack), dc.format+": importer panicked on a well-formed document: "+pi.Value, with(files, "stack.txt", pi.Stack))
		return res
	}
	if err != nil {
		res.Violate(dc.format+"|import-error|"+cut(fw.MsgClass(lastLine(err.Error())), 60)+"|"+riskyTag(dc.risky), dc.format+": import of a well-formed document of the supported subset failed: "+clip(err.Error(), 600), files)
		return res
	}
	files["output.sysl"] = out1

	// 2. idempotence: a second import in a fresh importer instance
	var out2 string
	var err2 error
	if pi := fw.Guard(func() { out2, err2 = ImportDoc(path, dc.formatName, dc.text) }); pi != nil {
		res.Violate(fw.CrashSig("panic", pi.Value, pi.Stack), dc.format+": importer panicked on the second import: "+pi.Value, with(files, "stack.txt", pi.Stack))
	} else if err2 != nil || out2 != out1 {
		res.Violate(dc.format+"|not-idempotent|in-process|"+riskyTag(dc.risky), dc.format+": a second import of the same document in a fresh importer gave different text: "+firstDiff(out1, out2), with(files, "output2.sysl", out2))
	}
	res.Count("idempotence_pairs", 1)

	// 3. sampled: two separate processes
	if dc.xprocEvery > 0 && i%dc.xprocEvery == 0 {
		if exe, e := os.Executable(); e == nil {
			a, ea := childImport(exe, path, dc.formatName)
			b, eb := childImport(exe, path, dc.formatName)
			switch {
			case ea != nil || eb != nil:
				res.Note = fmt.Sprintf("cross-process import could not run: %v %v", ea, eb)
			case a != b:
				res.Violate(dc.format+"|not-idempotent|cross-process|"+riskyTag(dc.risky), dc.format+": two processes importing the same document gave different text: "+firstDiff(a, b), with(files, "output-process2.sysl", b))
				res.Count("crossprocess_pairs", 1)
			case a != out1:
				res.Violate(dc.format+"|not-idempotent|cross-process|"+riskyTag(dc.risky), dc.format+": a separate process gave different text than the in-process import: "+firstDiff(out1, a), with(files, "output-process2.sysl", a))
				res.Count("crossprocess_pairs", 1)
			default:
				res.Count("crossprocess_pairs", 1)
			}
		}
	}

	// 4. the output must compile
	var m *sysl.Module
	if pi := fw.Guard(func() { m, err = CompileSysl(out1) }); pi != nil {
		res.Violate(dc.format+"|compile-panic|"+fw.InnermostSyslFrame(pi.Stack)+"|"+fw.MsgClass(pi.Value)+"|"+riskyTag(dc.risky),
			dc.format+": the compiler panicked on the importer's output: "+pi.Value, with(files, "stack.txt", pi.Stack))
		return res
	}
	if err != nil {
		res.Violate(dc.format+"|compile-reject|"+riskyTag(dc.risky), dc.format+": the importer's output does not compile: "+clip(err.Error(), 400), files)
		return res
	}
	res.Count("outputs_compiled", 1)

	// 5. completeness
	af, err := readModule(m)
	c := newChecker(dc.format, &res)
	if err != nil {
		c.fail("module-shape", "apps", err.Error())
	} else {
		dc.check(af, c, &res)
	}
	c.flush(files)
	return res
}

func childImport(exe, path, format string) (string, error) {
	cmd := exec.Command(exe, childCmd, path, format)
	var so, se bytes.Buffer
	cmd.Stdout, cmd.Stderr = &so, &se
	if err := cmd.Run(); err != nil {
		return "", fmt.Errorf("%v: %s", err, clip(se.String(), 200))
	}
	return so.String(), nil
}

// childProbe imports the document in a child process and classifies a death or a hang.
func childProbe(exe, path, format string, bound time.Duration) (kind, detail string) {
	cctx, cancel := context.WithTimeout(context.Background(), bound)
	defer cancel()
	cmd := exec.CommandContext(cctx, exe, childCmd, path, format)
	var so, se bytes.Buffer
	cmd.Stdout, cmd.Stderr = &so, &se
	err := cmd.Run()
	switch {
	case cctx.Err() != nil:
		return "import-no-progress", fmt.Sprintf("no result within %v (killed)", bound)
	case err == nil:
		return "", ""
	case strings.Contains(se.String(), "fatal error: stack overflow"):
		return "import-crash|stack-overflow", "fatal error: stack overflow\n" + clip(se.String(), 1500)
	case strings.Contains(se.String(), "fatal error:") || strings.Contains(se.String(), "panic:"):
		return "import-crash|" + fw.MsgClass(lastLineWith(se.String(), "fatal error:", "panic:")), clip(se.String(), 1500)
	}
	return "", "" // an ordinary import error: reported by the in-process run
}

func lastLineWith(s string, marks ...string) string {
	for _, l := range strings.Split(s, "\n") {
		for _, m := range marks {
			if strings.Contains(l, m) {
				return l
			}
		}
	}
	return ""
}

func with(m map[string]string, k, v string) map[string]string {
	out := map[string]string{k: v}
	for a, b := range m {
		out[a] = b
	}
	return out
}

func head(s string, n int) string {
	ls := strings.Split(s, "\n")
	if len(ls) > n {
		ls = ls[:n]
	}
	return strings.Join(ls, "\n")
}

func clip(s string, n int) string {
	if len(s) > n {
		return s[:n] + "..."
	}
	return s
}

func cut(s string, n int) string {
	if len(s) > n {
		return s[:n]
	}
	return s
}

func lastLine(s string) string {
	ls := strings.Split(strings.TrimSpace(s), "\n")
	return ls[len(ls)-1]
}

func firstDiff(a, b string) string {
	la, lb := strings.Split(a, "\n"), strings.Split(b, "\n")
	for i := 0; i < len(la) && i < len(lb); i++ {
		if la[i] != lb[i] {
			return fmt.Sprintf("line %d: %q vs %q", i+1, la[i], lb[i])
		}
	}
	return fmt.Sprintf("lengths %d vs %d lines", len(la), len(lb))
}
