package c11

import (
	"fmt"
	"sort"
	"strings"

	"verif/fw"
)

// ---- XSD description ----

type xField struct {
	Name     string
	Attr     bool   // xs:attribute
	Builtin  string // xs:<Builtin> when set
	Named    string // reference to a named type of this document
	ElemRef  string // <xs:element ref="..."> to a top-level element
	Min, Max int    // -1 = attribute absent; Max -2 = unbounded
	Required bool   // attribute use="required"
}

type xType struct {
	Name   string
	K      string // complex | simple | simplecontent | extension
	Comp   string // sequence | all
	Fields []*xField
	Base   string // builtin local name (simple, simplecontent) or named complex type (extension)
	Facet  string // enum | range | length | none
}

type xDoc struct {
	Prefix   string
	TNS      bool
	RootName string // top-level element (optional)
	RootType string // named type of the root element, "" when anonymous
	RootAnon *xType
	Extra    []string // further top-level elements "name=type" (targets of element refs)
	Types    []*xType
	Cons     map[string]bool
	Spice    string
}

func (d *xDoc) typ(name string) *xType {
	for _, t := range d.Types {
		if t.Name == name {
			return t
		}
	}
	if d.RootAnon != nil && d.RootAnon.Name == name {
		return d.RootAnon
	}
	return nil
}

// xsdBuiltinWant: the mapping table of pkg/importer/xsd.go loadSchemaTypes
// (xsdToSyslMappings) plus makeXsdBuiltinType (int). Types outside the table are
// generated but their kind is not demanded.
var xsdBuiltinWant = map[string]string{
	"string": "STRING", "integer": "INT", "int": "INT", "boolean": "BOOL", "date": "DATE", "time": "STRING", "NMTOKEN": "STRING",
}
var xsdMapped = []string{"string", "string", "string", "integer", "integer", "int", "boolean", "date", "time", "NMTOKEN"}
var xsdUnmapped = []string{"decimal", "dateTime", "long", "anyURI", "token", "double"}

var (
	xPlainTypes  = []string{"Order", "Item", "Address", "Customer", "Payment", "Line", "Header", "Party", "Product", "Shipment"}
	xPrefixTypes = []string{"DateRange", "Internal", "StringList", "AnyThing"}
	xPlainElems  = []string{"id", "name", "street", "city", "zip", "qty", "price", "note", "status", "country", "code", "ref", "total", "item", "party"}
	xEscElems    = []string{"a.b", "x-y", "unit.price", "ship-to"}
	xNativeElems = []string{"string", "date", "int", "any", "bool", "dateTime", "decimal"}
	xKwElems     = []string{"type", "table", "set", "view"}
	xStmtElems   = []string{"return", "if", "else", "for", "loop"}
)

type xGen struct {
	r     *fw.Rand
	d     *xDoc
	used  map[string]bool
	spice map[string]bool
	seq   int
}

func (g *xGen) con(c string) { g.d.Cons[c] = true }

func (g *xGen) uniq(base string) string {
	n := base
	for g.used[strings.ToLower(n)] {
		g.seq++
		n = fmt.Sprintf("%s%d", base, g.seq)
	}
	g.used[strings.ToLower(n)] = true
	return n
}

func (g *xGen) elemName(used map[string]bool) string {
	r := g.r
	for {
		var n string
		switch {
		case g.spice["stmt-keyword"] && r.Chance(1, 6):
			n = r.Pick(xStmtElems)
		case r.Chance(1, 10):
			n = r.Pick(xNativeElems)
		case r.Chance(1, 12):
			n = r.Pick(xKwElems)
		case r.Chance(1, 8):
			n = r.Pick(xEscElems)
		default:
			n = r.Pick(xPlainElems)
			if r.Chance(1, 4) {
				n += fmt.Sprint(r.Intn(9))
			}
		}
		if !used[strings.ToLower(n)] {
			used[strings.ToLower(n)] = true
			if c := nameClass(n); c != "plain" {
				g.con("name-" + c)
			}
			return n
		}
	}
}

func (g *xGen) fieldType(f *xField, complexNames, simpleNames []string, attr bool) {
	r := g.r
	x := r.Intn(100)
	switch {
	case !attr && x < 25 && len(complexNames) > 0:
		f.Named = r.Pick(complexNames)
		g.con("ref-complex")
	case x < 38 && len(simpleNames) > 0:
		f.Named = r.Pick(simpleNames)
		g.con("ref-simple")
	case x < 44:
		f.Builtin = r.Pick(xsdUnmapped)
		g.con("builtin-unmapped")
	default:
		f.Builtin = r.Pick(xsdMapped)
		g.con("builtin-" + f.Builtin)
	}
}

func (g *xGen) fields(t *xType, complexNames, simpleNames []string, n int) {
	r := g.r
	used := map[string]bool{}
	for i := 0; i < n; i++ {
		f := &xField{Name: g.elemName(used), Min: -1, Max: -1}
		g.fieldType(f, complexNames, simpleNames, false)
		switch x := r.Intn(20); {
		case x < 8: // defaults
		case x < 12:
			f.Min = 0
			g.con("minOccurs-0")
		case x < 14 && t.Comp != "all":
			f.Min, f.Max = 0, -2
			g.con("maxOccurs-unbounded")
		case x < 16 && t.Comp != "all":
			f.Max = 2 + r.Intn(8)
			g.con("maxOccurs-n")
		case x < 17 && t.Comp != "all":
			f.Min, f.Max = 1+r.Intn(2), -2
			g.con("minOccurs-n")
		case x < 18:
			f.Min, f.Max = 1, 1
			g.con("occurs-1-1")
		case x < 19:
			f.Min = 1
			g.con("minOccurs-1")
		default:
			f.Min = 0
			f.Max = 1
			g.con("occurs-0-1")
		}
		if f.Builtin == "boolean" && (f.Min > 0 || f.Max >= 0) {
			if g.spice["bool-occurs"] {
				g.con("boolean-with-explicit-occurs")
			} else {
				f.Min, f.Max = []int{-1, 0}[r.Intn(2)], -1
			}
		}
		t.Fields = append(t.Fields, f)
	}
	for i, na := 0, r.Intn(3); i < na && r.Chance(2, 3); i++ {
		f := &xField{Name: g.elemName(used), Attr: true, Min: -1, Max: -1, Required: r.Chance(1, 2)}
		g.fieldType(f, nil, simpleNames, true)
		g.con("attribute")
		if f.Required {
			g.con("attribute-required")
		}
		t.Fields = append(t.Fields, f)
	}
}

func genXSD(r *fw.Rand, thorough bool) *xDoc {
	d := &xDoc{Prefix: r.Pick([]string{"xs", "xs", "xsd"}), TNS: r.Chance(1, 4), Cons: map[string]bool{}}
	g := &xGen{r: r, d: d, used: map[string]bool{}, spice: map[string]bool{}}
	// at most one known defect candidate per document (see oasgen.go)
	if r.Chance(2, 5) {
		d.Spice = r.Pick([]string{"stmt-keyword", "prefix-type", "recursive-type", "bool-occurs"})
		g.spice[d.Spice] = true
		g.con("spice-" + d.Spice)
	}
	if d.TNS {
		g.con("targetNamespace")
	}
	nt := 2 + r.Intn(5)
	if thorough && r.Chance(1, 6) {
		nt += r.Intn(6)
	}
	kinds := make([]string, nt)
	names := make([]string, nt)
	var complexNames, simpleNames []string
	for i := 0; i < nt; i++ {
		x := r.Intn(100)
		switch {
		case i == 0 || x < 55:
			kinds[i] = "complex"
		case x < 75:
			kinds[i] = "simple"
		case x < 85:
			kinds[i] = "simplecontent"
		default:
			kinds[i] = "extension"
		}
		base := r.Pick(xPlainTypes)
		if g.spice["prefix-type"] && r.Chance(1, 3) {
			base = r.Pick(xPrefixTypes)
			g.con("type-name-native-prefix")
		}
		names[i] = g.uniq(base)
		switch kinds[i] {
		case "complex":
			complexNames = append(complexNames, names[i])
		case "simple":
			simpleNames = append(simpleNames, names[i])
		}
	}
	// references between complex types form a DAG (a type only refers to complex types
	// generated before it) unless the document is chosen to carry a recursive type.
	recursive := g.spice["recursive-type"]
	var earlier []string
	for i := 0; i < nt; i++ {
		t := &xType{Name: names[i], K: kinds[i]}
		switch kinds[i] {
		case "complex":
			g.con("complexType")
			t.Comp = "sequence"
			if r.Chance(1, 4) {
				t.Comp = "all"
				g.con("all")
			}
			allowed := earlier
			if recursive {
				allowed = complexNames
			}
			g.fields(t, allowed, simpleNames, 1+r.Intn(7))
			earlier = append(earlier, names[i])
		case "simple":
			g.con("simpleType")
			t.Base = r.Pick([]string{"string", "string", "integer", "NMTOKEN", "date"})
			switch {
			case t.Base == "string" && r.Chance(1, 2):
				t.Facet = "enum"
				g.con("simpleType-enumeration")
			case t.Base == "integer" && r.Chance(1, 2):
				t.Facet = "range"
				g.con("simpleType-range")
			case t.Base == "string" && r.Chance(1, 2):
				t.Facet = "length"
				g.con("simpleType-length")
			}
		case "simplecontent":
			g.con("simpleContent-extension")
			t.Base = r.Pick([]string{"string", "token", "integer", "NMTOKEN"})
		case "extension":
			g.con("complexContent-extension")
			// base: a plain complex type declared before (no chains through extensions)
			t.Base = complexNames[r.Intn(len(complexNames))]
			t.Comp = "sequence"
			g.fields(t, complexNames, simpleNames, 1+r.Intn(3))
		}
		d.Types = append(d.Types, t)
	}
	// an extension must not repeat a name of its base, and extends a sequence group
	for _, t := range d.Types {
		if t.K != "extension" {
			continue
		}
		base := d.typ(t.Base)
		base.Comp = "sequence"
		seen := map[string]bool{}
		for _, f := range base.Fields {
			seen[f.Name] = true
		}
		var keep []*xField
		for _, f := range t.Fields {
			if !seen[f.Name] {
				keep = append(keep, f)
			}
		}
		if len(keep) == 0 {
			keep = []*xField{{Name: g.uniq("extra"), Builtin: "string", Min: -1, Max: -1}}
		}
		t.Fields = keep
	}
	// root element
	switch x := r.Intn(10); {
	case x < 5:
		d.RootName = g.uniq("Root")
		d.RootType = complexNames[r.Intn(len(complexNames))]
		g.con("root-element-named-type")
	case x < 8:
		d.RootName = g.uniq("Envelope")
		t := &xType{Name: d.RootName, K: "complex", Comp: "sequence"}
		g.fields(t, complexNames, simpleNames, 1+r.Intn(4))
		d.RootAnon = t
		g.con("root-element-anonymous-type")
	default:
		g.con("no-root-element")
	}
	// element refs: a top-level element (after the root) referenced from one complex type
	if d.RootName != "" && r.Chance(1, 5) {
		en := g.uniq("Shared")
		d.Extra = append(d.Extra, en+"="+complexNames[r.Intn(len(complexNames))])
		t := d.typ(complexNames[r.Intn(len(complexNames))])
		if t.Comp == "sequence" {
			t.Fields = append([]*xField{{Name: en, ElemRef: en, Min: []int{-1, 0}[r.Intn(2)], Max: -1}}, t.Fields...)
			// attributes must stay after elements: re-sort stably
			sort.SliceStable(t.Fields, func(i, j int) bool { return !t.Fields[i].Attr && t.Fields[j].Attr })
			g.con("element-ref")
		}
	}
	if d.hasCycle() {
		g.con("recursive-type")
	}
	return d
}

// hasCycle reports whether the named complex types refer to each other in a cycle.
func (d *xDoc) hasCycle() bool {
	state := map[string]int{}
	var visit func(n string) bool
	visit = func(n string) bool {
		switch state[n] {
		case 1:
			return true
		case 2:
			return false
		}
		state[n] = 1
		if t := d.typ(n); t != nil {
			if t.K == "extension" && visit(t.Base) {
				return true
			}
			for _, f := range t.Fields {
				if f.Named != "" && visit(f.Named) {
					return true
				}
			}
		}
		state[n] = 2
		return false
	}
	for _, t := range d.Types {
		if visit(t.Name) {
			return true
		}
	}
	return false
}

// ---- rendering ----

func (d *xDoc) qn(local string) string { return d.Prefix + ":" + local }

func (d *xDoc) typeAttr(f *xField) string {
	if f.Builtin != "" {
		return d.qn(f.Builtin)
	}
	if d.TNS {
		return "tns:" + f.Named
	}
	return f.Named
}

func (d *xDoc) named(n string) string {
	if d.TNS {
		return "tns:" + n
	}
	return n
}

func xmlAttrs(r *fw.Rand, kv ...string) string {
	n := len(kv) / 2
	perm := r.Perm(n)
	var sb strings.Builder
	for _, i := range perm {
		fmt.Fprintf(&sb, ` %s="%s"`, kv[2*i], kv[2*i+1])
	}
	return sb.String()
}

func (d *xDoc) fieldXML(sb *strings.Builder, f *xField, ind string, r *fw.Rand) {
	if f.Attr {
		kv := []string{"name", f.Name, "type", d.typeAttr(f)}
		if f.Required {
			kv = append(kv, "use", "required")
		} else if r.Chance(1, 3) {
			kv = append(kv, "use", "optional")
		}
		fmt.Fprintf(sb, "%s<%s%s/>\n", ind, d.qn("attribute"), xmlAttrs(r, kv...))
		return
	}
	var kv []string
	if f.ElemRef != "" {
		kv = []string{"ref", d.named(f.ElemRef)}
	} else {
		kv = []string{"name", f.Name, "type", d.typeAttr(f)}
	}
	if f.Min >= 0 {
		kv = append(kv, "minOccurs", fmt.Sprint(f.Min))
	}
	if f.Max == -2 {
		kv = append(kv, "maxOccurs", "unbounded")
	} else if f.Max >= 0 {
		kv = append(kv, "maxOccurs", fmt.Sprint(f.Max))
	}
	fmt.Fprintf(sb, "%s<%s%s/>\n", ind, d.qn("element"), xmlAttrs(r, kv...))
}

func (d *xDoc) bodyXML(sb *strings.Builder, t *xType, ind string, r *fw.Rand) {
	var elems, attrs []*xField
	for _, f := range t.Fields {
		if f.Attr {
			attrs = append(attrs, f)
		} else {
			elems = append(elems, f)
		}
	}
	if len(elems) > 0 {
		fmt.Fprintf(sb, "%s<%s>\n", ind, d.qn(t.Comp))
		for _, f := range elems {
			d.fieldXML(sb, f, ind+"  ", r)
		}
		fmt.Fprintf(sb, "%s</%s>\n", ind, d.qn(t.Comp))
	}
	for _, f := range attrs {
		d.fieldXML(sb, f, ind, r)
	}
}

func (d *xDoc) typeXML(sb *strings.Builder, t *xType, ind string, anonymous bool, r *fw.Rand) {
	nameAttr := ""
	if !anonymous {
		nameAttr = fmt.Sprintf(` name="%s"`, t.Name)
	}
	switch t.K {
	case "complex":
		fmt.Fprintf(sb, "%s<%s%s>\n", ind, d.qn("complexType"), nameAttr)
		d.bodyXML(sb, t, ind+"  ", r)
		fmt.Fprintf(sb, "%s</%s>\n", ind, d.qn("complexType"))
	case "extension":
		fmt.Fprintf(sb, "%s<%s%s>\n%s  <%s>\n%s    <%s base=\"%s\">\n", ind, d.qn("complexType"), nameAttr, ind, d.qn("complexContent"), ind, d.qn("extension"), d.named(t.Base))
		d.bodyXML(sb, t, ind+"      ", r)
		fmt.Fprintf(sb, "%s    </%s>\n%s  </%s>\n%s</%s>\n", ind, d.qn("extension"), ind, d.qn("complexContent"), ind, d.qn("complexType"))
	case "simplecontent":
		fmt.Fprintf(sb, "%s<%s%s>\n%s  <%s>\n%s    <%s base=\"%s\"/>\n%s  </%s>\n%s</%s>\n", ind, d.qn("complexType"), nameAttr, ind, d.qn("simpleContent"),
			ind, d.qn("extension"), d.qn(t.Base), ind, d.qn("simpleContent"), ind, d.qn("complexType"))
	case "simple":
		fmt.Fprintf(sb, "%s<%s%s>\n%s  <%s base=\"%s\"", ind, d.qn("simpleType"), nameAttr, ind, d.qn("restriction"), d.qn(t.Base))
		switch t.Facet {
		case "enum":
			sb.WriteString(">\n")
			for _, v := range []string{"A", "B", "C"} {
				fmt.Fprintf(sb, "%s    <%s value=\"%s\"/>\n", ind, d.qn("enumeration"), v)
			}
			fmt.Fprintf(sb, "%s  </%s>\n", ind, d.qn("restriction"))
		case "range":
			fmt.Fprintf(sb, ">\n%s    <%s value=\"2\"/>\n%s    <%s value=\"18\"/>\n%s  </%s>\n", ind, d.qn("minInclusive"), ind, d.qn("maxInclusive"), ind, d.qn("restriction"))
		case "length":
			fmt.Fprintf(sb, ">\n%s    <%s value=\"1\"/>\n%s    <%s value=\"40\"/>\n%s  </%s>\n", ind, d.qn("minLength"), ind, d.qn("maxLength"), ind, d.qn("restriction"))
		default:
			sb.WriteString("/>\n")
		}
		fmt.Fprintf(sb, "%s</%s>\n", ind, d.qn("simpleType"))
	}
}

func (d *xDoc) render(r *fw.Rand) string {
	var sb strings.Builder
	if r.Chance(3, 4) {
		sb.WriteString("<?xml version=\"1.0\" encoding=\"UTF-8\"?>\n")
	}
	if r.Chance(1, 4) {
		sb.WriteString("<!-- generated schema -->\n")
	}
	fmt.Fprintf(&sb, "<%s xmlns:%s=\"http://www.w3.org/2001/XMLSchema\"", d.qn("schema"), d.Prefix)
	if d.TNS {
		sb.WriteString(" xmlns:tns=\"http://example.com/c11\" targetNamespace=\"http://example.com/c11\"")
	}
	if r.Chance(1, 2) {
		sb.WriteString(" elementFormDefault=\"qualified\"")
	}
	sb.WriteString(">\n")
	if d.RootName != "" {
		if d.RootAnon != nil {
			fmt.Fprintf(&sb, "  <%s name=\"%s\">\n", d.qn("element"), d.RootName)
			d.typeXML(&sb, d.RootAnon, "    ", true, r)
			fmt.Fprintf(&sb, "  </%s>\n", d.qn("element"))
		} else {
			fmt.Fprintf(&sb, "  <%s%s/>\n", d.qn("element"), xmlAttrs(r, "name", d.RootName, "type", d.named(d.RootType)))
		}
	}
	for _, e := range d.Extra {
		kv := strings.SplitN(e, "=", 2)
		fmt.Fprintf(&sb, "  <%s%s/>\n", d.qn("element"), xmlAttrs(r, "name", kv[0], "type", d.named(kv[1])))
	}
	perm := r.Perm(len(d.Types))
	for _, i := range perm {
		d.typeXML(&sb, d.Types[i], "  ", false, r)
	}
	fmt.Fprintf(&sb, "</%s>\n", d.qn("schema"))
	return sb.String()
}

// ---- oracle ----

type xChecker struct {
	*checker
	d               *xDoc
	af              *appFacts
	nTypes, nFields int
}

// allFields: a complexContent extension carries the elements of its base followed by its
// own members (golden tests/xsd/extension1); inheritance of the base's ATTRIBUTES is not
// shown by any golden and is not demanded.
func (x *xChecker) allFields(t *xType) []*xField {
	if t.K == "extension" {
		if b := x.d.typ(t.Base); b != nil {
			var out []*xField
			for _, f := range x.allFields(b) {
				if !f.Attr {
					out = append(out, f)
				}
			}
			return append(out, t.Fields...)
		}
	}
	return t.Fields
}

// typeKey: "!type" definitions get the "_" prefix of utils.go getSyslTypeName when their
// name starts with a native type name; aliases (simple types, simpleContent) keep theirs.
func (x *xChecker) typeKey(name string) string {
	if t := x.d.typ(name); t != nil && (t.K == "simple" || t.K == "simplecontent") {
		return name
	}
	return goTypeKey(name)
}

func (x *xChecker) checkType(t *xType) {
	x.nTypes++
	key := x.typeKey(t.Name)
	def := x.af.Types[key]
	where := "type " + t.Name
	cls := nameClass(t.Name)
	if def == nil {
		x.fail("type-missing", "name="+cls+",kind="+t.K, fmt.Sprintf("%s: no type %q in the compiled output; types: %v", where, key, sortedKeys(x.af.Types)))
		return
	}
	switch t.K {
	case "simple", "simplecontent":
		if def.Form != "alias" {
			x.fail("type-form", "kind="+t.K, fmt.Sprintf("%s: compiled as %s, expected an alias", where, def.Form))
			return
		}
		// goldens show restrictions of xs:integer (-> int) and string-like bases (-> string)
		if p, ok := map[string]string{"integer": "INT", "string": "STRING", "NMTOKEN": "STRING", "token": "STRING"}[t.Base]; ok {
			if def.Alias.Prim != p {
				x.fail("alias-kind", "kind="+t.K+",base="+t.Base, fmt.Sprintf("%s: base xs:%s expected %s, compiled %s", where, t.Base, p, def.Alias))
			}
		}
		return
	}
	if def.Form != "tuple" {
		x.fail("type-form", "kind="+t.K, fmt.Sprintf("%s: compiled as %s, expected a tuple type", where, def.Form))
		return
	}
	for _, f := range x.allFields(t) {
		x.nFields++
		x.checkField(where, t, def, f)
	}
}

func occursClass(f *xField) string {
	mx := "absent"
	switch {
	case f.Max == -2:
		mx = "unbounded"
	case f.Max > 1:
		mx = "n"
	case f.Max >= 0:
		mx = fmt.Sprint(f.Max)
	}
	mn := "absent"
	if f.Min >= 0 {
		mn = fmt.Sprint(f.Min)
		if f.Min > 1 {
			mn = "n"
		}
	}
	return "minOccurs=" + mn + ",maxOccurs=" + mx
}

func (x *xChecker) checkField(where string, t *xType, def *tyDef, f *xField) {
	cls := nameClass(f.Name)
	what := boolStr(f.Attr, "attribute", "element")
	key := goFieldKey(f.Name)
	var got tyUse
	found, foundKey := false, ""
	for fk, fu := range def.Fields {
		if fu.Attrs["json_tag"] == f.Name {
			got, found, foundKey = fu, true, fk
		}
	}
	if !found {
		if fu, ok := def.Fields[key]; ok {
			got, found, foundKey = fu, true, key
		}
	}
	if !found {
		x.fail("field-missing", what+boolStr(f.ElemRef != "", "-ref", "")+",name="+cls+boolStr(t.K == "extension", ",inherited-or-extension", ""),
			fmt.Sprintf("%s: %s %q (expected field %q) is missing; fields: %v", where, what, f.Name, key, sortedKeys(def.Fields)))
		return
	}
	if foundKey != key {
		x.fail("field-name-rule", "name="+cls, fmt.Sprintf("%s: %s %q compiled as %q, documented rule gives %q", where, what, f.Name, foundKey, key))
	}
	// optionality
	wantOpt := f.Min == 0
	if f.Attr {
		wantOpt = !f.Required
	}
	if got.Opt != wantOpt {
		c := what + "," + occursClass(f)
		if f.Attr {
			c = what + boolStr(f.Required, ",use=required", ",use=optional")
		}
		x.fail("field-optionality", c, fmt.Sprintf("%s.%s: expected optional=%v, compiled %s", where, f.Name, wantOpt, got))
	}
	// array-ness
	wantSeq := f.Max == -2 || f.Max > 1
	if got.Seq != wantSeq {
		x.fail("field-arrayness", what+","+occursClass(f), fmt.Sprintf("%s.%s: expected array=%v, compiled %s", where, f.Name, wantSeq, got))
	}
	// kind / reference target (element refs are outside what the goldens show: name,
	// optionality and array-ness only)
	switch {
	case f.ElemRef != "":
	case f.Named != "":
		k := x.typeKey(f.Named)
		if len(got.Ref) != 1 || got.Ref[0] != k {
			x.fail("field-reference", what+",named-"+x.d.typ(f.Named).K+",name="+nameClass(f.Named), fmt.Sprintf("%s.%s: expected reference to %s, compiled %s", where, f.Name, k, got))
		} else if x.af.Types[k] == nil {
			x.fail("field-reference", what+",dangling", fmt.Sprintf("%s.%s: reference to %s which the output does not define", where, f.Name, k))
		}
	case f.Builtin != "":
		if p, ok := xsdBuiltinWant[f.Builtin]; ok && got.Prim != p {
			x.fail("field-kind", what+",xs:"+f.Builtin, fmt.Sprintf("%s.%s: xs:%s expected %s, compiled %s", where, f.Name, f.Builtin, p, got))
		}
	}
}

func (x *xChecker) run() {
	for _, t := range x.d.Types {
		x.checkType(t)
	}
	if x.d.RootAnon != nil {
		x.checkType(x.d.RootAnon)
	}
}

func (d *xDoc) constructs() []string {
	var out []string
	for c := range d.Cons {
		out = append(out, "xsd:"+c)
	}
	sort.Strings(out)
	return out
}

// risky: the document's defect candidate, used to narrow the signature of a failure.
func (d *xDoc) risky() []string {
	if d.Spice != "" {
		return []string{d.Spice}
	}
	return nil
}

func dedupe(in []string) []string {
	sort.Strings(in)
	var out []string
	for i, s := range in {
		if i == 0 || s != in[i-1] {
			out = append(out, s)
		}
	}
	return out
}
