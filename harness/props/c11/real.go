package c11

import (
	"io"

	"github.com/anz-bank/sysl/pkg/importer"
	"github.com/anz-bank/sysl/pkg/parse"
	"github.com/anz-bank/sysl/pkg/sysl"
	"github.com/sirupsen/logrus"
)

// AppName / PkgName are what every generated document is imported as.
const (
	AppName = "ImpApp"
	PkgName = "com.verif.c11"
)

func quietLogger() *logrus.Logger {
	l := logrus.New()
	l.SetOutput(io.Discard)
	l.SetLevel(logrus.PanicLevel)
	return l
}

// ImportDoc runs the real importer exactly the way pkg/parse/parse.go importForeign and
// cmd/sysl/cmd_import.go do: Factory (format autodetected from name+content unless a
// format name is required, as for the SQL dialects) -> Configure -> Load(content), in a
// fresh importer instance.
func ImportDoc(path, formatName, content string) (string, error) {
	imp, err := importer.Factory(path, false, formatName, []byte(content), quietLogger())
	if err != nil {
		return "", err
	}
	imp, err = imp.Configure(&importer.ImporterArg{AppName: AppName, PackageName: PkgName})
	if err != nil {
		return "", err
	}
	return imp.Load(content)
}

// CompileSysl compiles Sysl text with the real parser.
func CompileSysl(text string) (*sysl.Module, error) {
	return parse.NewParser().ParseString(text)
}
