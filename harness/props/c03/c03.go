// Package c03: layout (indent scale, tabs, blank lines, whole-line comments) does not
// change the compiled model, and acceptance is preserved.
package c03

import (
	"fmt"
	"strings"

	"github.com/anz-bank/sysl/pkg/sysl"
	"google.golang.org/protobuf/proto"

	"verif/corpus"
	"verif/fw"
	"verif/gen"
	"verif/oracle"
)

type prop struct{}

func init() { fw.Register(prop{}) }

func (prop) ID() string { return "C03" }

func nGen(tier string) int {
	if tier == "thorough" {
		return 2000
	}
	return 300
}

func (prop) Cases(tier string) int { return len(corpus.Files()) + nGen(tier) }

func (prop) Info() fw.Info {
	return fw.Info{
		Level: "exploration",
		Rule: "cases 0..N-1 = the N .sysl files of the repository, each compiled from an in-memory copy of its directory tree, original vs transformed (all .sysl files of the tree transformed alike); remaining cases = generated specifications (as C02). Transform compositions: uniform re-indent x2/x3/x4, tabs for 4-column units (tabs first, spaces first or interleaved), blank lines before every line or a PRNG subset, whole-line comments (column 0 / at the next line's indentation / empty '#') before declaration lines; quick = 7 fixed + 2 random compositions per corpus file and 4 random per generated spec; thorough = 24 random / 6 random. Oracle: proto.Equal after clearing every source_context(s); acceptance must agree. Non-trivial: the original compiles and has >= 3 indentation levels; distinct by text hash.",
		Assumptions: []string{"comment insertion points are declaration lines (for files containing views: application and member level only, since expression bodies are not declarations)", "a tab counts as 4 columns (lang-spec)"},
		CountFloors: map[string]int{"pairs_equal": 500, "compositions": 500},
		CaseTimeout: 180,
	}
}

type tf struct {
	name string
	f    func(text string) string
}

func compositions(r *fw.Rand, fixed bool, nRandom int, anyLine bool) []tf {
	var out []tf
	cm := func(text string, r2 *fw.Rand, freq int) string {
		return gen.InsertComments(text, r2, anyLine, freq)
	}
	if fixed {
		s1, s2, s3, s4 := r.Fork(), r.Fork(), r.Fork(), r.Fork()
		out = append(out,
			tf{"indent*2", func(t string) string { return gen.Reindent(t, 2) }},
			tf{"indent*3", func(t string) string { return gen.Reindent(t, 3) }},
			tf{"tabs(indent*4)", func(t string) string { return gen.Tabify(gen.Reindent(t, 4)) }},
			tf{"mixed-tabs(indent*3)", func(t string) string { return gen.TabifyMixed(gen.Reindent(t, 3), s4) }},
			tf{"blank-all", func(t string) string { return gen.InsertBlanks(t, s1, 0) }},
			tf{"comments-all", func(t string) string { return cm(t, s2, 1) }},
			tf{"indent*2+blank+comments", func(t string) string { return cm(gen.InsertBlanks(gen.Reindent(t, 2), s3, 3), s3, 3) }},
		)
	}
	for i := 0; i < nRandom; i++ {
		k := r.Range(1, 4)
		tabs := r.Chance(1, 3)
		mixed := r.Chance(1, 3)
		bl := r.Intn(5) // 0 none
		co := r.Intn(4) // 0 none
		rr := r.Fork()
		name := fmt.Sprintf("indent*%d tabs=%v mixed=%v blanks=1/%d comments=1/%d", k, tabs, mixed, bl, co)
		out = append(out, tf{name, func(t string) string {
			t = gen.Reindent(t, k)
			if tabs {
				t = gen.Tabify(gen.Reindent(t, 4))
			} else if mixed {
				t = gen.TabifyMixed(t, rr)
			}
			if bl > 0 {
				t = gen.InsertBlanks(t, rr, bl)
			}
			if co > 0 {
				t = cm(t, rr, co)
			}
			return t
		}})
	}
	return out
}

func depthLevels(text string) int {
	ws := map[int]bool{}
	for _, l := range strings.Split(text, "\n") {
		t := strings.TrimLeft(l, " \t")
		if t == "" || strings.HasPrefix(t, "#") {
			continue
		}
		w := 0
		for _, c := range l[:len(l)-len(t)] {
			if c == '\t' {
				w += 4
			} else {
				w++
			}
		}
		ws[w] = true
	}
	return len(ws)
}

func (prop) Run(ctx *fw.Ctx, i int) fw.Result {
	r := ctx.Rng()
	files := corpus.Files()
	var tree *corpus.Tree
	var file string
	var res fw.Result
	nRandom, fixed := 2, true
	label := ""
	if i < len(files) {
		label = files[i]
		var ok bool
		tree, file, ok = corpus.Locate(files[i])
		_ = ok
		if ctx.Thorough() {
			nRandom = 24
		}
	} else {
		spec := gen.Build(r.Fork(), gen.DefaultOpts(r, ctx.Thorough()))
		rd := gen.Render(gen.JoinedPlan(spec, "root.sysl"), gen.RandomLayout(r.Fork()))
		tree = &corpus.Tree{Files: rd.Files}
		file = "root.sysl"
		label = fmt.Sprintf("generated#%d", i)
		fixed = false
		nRandom = 4
		if ctx.Thorough() {
			nRandom = 6
		}
	}
	text := tree.Files[file]
	res.Hash = fw.HashOf(label, text)
	hasView := false
	for n, c := range tree.Files {
		if strings.HasSuffix(n, ".sysl") && strings.Contains(c, "!view") {
			hasView = true
		}
	}
	m0, err0, pi0 := tree.Compile(file)
	if pi0 != nil {
		// a crash of the original is C01's business; here only the relation is judged
		res.Verdict = "skip"
		res.Note = "original panics: " + pi0.Value
		return res
	}
	if err0 == nil {
		oracle.ClearSourceContexts(m0)
		res.NonTrivial = depthLevels(text) >= 3
		res.Count("originals_compiling", 1)
	} else {
		res.Count("originals_rejected", 1)
		res.NonTrivial = false
	}
	res.Sample = map[string]any{"case": i, "file": label, "compiles": err0 == nil, "levels": depthLevels(text)}
	for _, c := range compositions(r, fixed, nRandom, !hasView) {
		t2 := tree.MapSysl(func(_, content string) string { return c.f(content) })
		var m1 *sysl.Module
		m1, err1, pi1 := t2.Compile(file)
		res.Count("compositions", 1)
		res.Add("transforms", strings.SplitN(c.name, " ", 2)[0])
		files := map[string]string{"original/" + file: text, "transformed/" + file: t2.Files[file], "transform.txt": c.name}
		switch {
		case pi1 != nil:
			res.Violate("panic-after-transform|"+fw.InnermostSyslFrame(pi1.Stack), fmt.Sprintf("%s: transformed text (%s) makes the compiler panic: %s", label, c.name, pi1.Value), files)
		case (err0 == nil) != (err1 == nil):
			res.Violate(fmt.Sprintf("acceptance|orig_ok=%v|%s", err0 == nil, kind(c.name)), fmt.Sprintf("%s: acceptance changed under %s: original err=%v, transformed err=%v", label, c.name, err0, err1), files)
		case err0 == nil:
			oracle.ClearSourceContexts(m1)
			if !proto.Equal(m0, m1) {
				d := oracle.Diff(m0, m1, 8)
				files["diff.txt"] = strings.Join(d, "\n")
				first := "?"
				if len(d) > 0 {
					first = oracle.PathClass(d[0])
				}
				res.Violate("model-changed|"+kind(c.name)+"|"+first, fmt.Sprintf("%s: model changed under %s: %s", label, c.name, strings.Join(d, " ;; ")), files)
			} else {
				res.Count("pairs_equal", 1)
			}
		default:
			res.Count("pairs_both_rejected", 1)
		}
	}
	return res
}

func kind(name string) string {
	if i := strings.IndexAny(name, " "); i > 0 {
		return "random"
	}
	return name
}
