package c17

import (
	"fmt"
	"sort"
	"strings"

	"github.com/anz-bank/sysl/pkg/sysl"
)

// The census walks the compiled module (the protobuf) and lists, per row kind, the rows the
// property demands. It never calls the package under test.

const placeholder = "..." // `...` stands for "nothing here" (an empty body), not for a statement or endpoint

type stmtMeta struct {
	depth   int    // length of the position path
	parent  string // kind of the enclosing construct
	nsib    int    // statements in the same block
	inEvent string // "" or the event trigger class
}

type census struct {
	rows    map[string][]*row
	intents map[string]*retExp // payload text -> what the generator meant (generated cases)

	// observations for the evidence
	maxDepth      int
	wideAtDepth   map[int]int // depth -> blocks with >= 3 statements
	stmtKinds     map[string]bool
	retForms      map[string]bool
	annoForms     map[string]bool
	freeformRet   int
	typedRet      int
	typedRetAttrs int
	elemConstr    int // constraints on the element type of a collection (no column exists)
	multiConstr   int
	listTypes     int
	epKeyDiffers  int
	stmtsDepthGE5 int
	wideGE4       int
	annoArrays    int // annotation values that are arrays of strings
	annoNested    int // annotation values that hold arrays inside arrays
	nsApps        int // applications with a namespaced name
}

func newCensus(intents map[string]*retExp) *census {
	return &census{rows: map[string][]*row{}, intents: intents, wideAtDepth: map[int]int{}, stmtKinds: map[string]bool{},
		retForms: map[string]bool{}, annoForms: map[string]bool{}}
}

func (c *census) add(rel, trig string, sm *stmtMeta, cols ...col) {
	c.rows[rel] = append(c.rows[rel], &row{rel: rel, cols: cols, trig: trig, sm: sm})
}

func kv(name, val string) col { return col{name: name, val: val} }

func nameClass(parts []string) string {
	if len(parts) > 1 {
		return "namespaced"
	}
	return "plain"
}

func sortedKeys[V any](m map[string]V) []string {
	ks := make([]string, 0, len(m))
	for k := range m {
		ks = append(ks, k)
	}
	sort.Strings(ks)
	return ks
}

func (c *census) module(m *sysl.Module) {
	for _, name := range sortedKeys(m.GetApps()) {
		c.app(m.Apps[name])
	}
}

func (c *census) app(a *sysl.Application) {
	an := a.GetName().GetPart()
	appCol := kv("app_name", qs(an))
	if len(an) > 1 {
		c.nsApps++
	}
	c.add("app", nameClass(an), nil, appCol, kv("app_long_name", q(a.GetLongName())), kv("app_docstring", q(a.GetDocstring())))
	c.meta("app", []col{appCol}, a.GetAttrs(), nil, "")

	for _, mx := range a.GetMixin2() {
		mcol := kv("mixin_name", qs(mx.GetName().GetPart()))
		c.add("mixin", nameClass(mx.GetName().GetPart()), nil, appCol, mcol)
		c.meta("mixin", []col{appCol, mcol}, mx.GetAttrs(), nil, "")
	}

	for _, key := range sortedKeys(a.GetEndpoints()) {
		ep := a.Endpoints[key]
		if ep.GetName() == placeholder {
			continue
		}
		if key != ep.GetName() {
			c.epKeyDiffers++
		}
		c.endpoint(a, an, appCol, ep)
	}

	for _, tn := range sortedKeys(a.GetTypes()) {
		c.typ(an, appCol, tn, a.Types[tn])
	}

	for _, vn := range sortedKeys(a.GetViews()) {
		v := a.Views[vn]
		c.meta("view", []col{appCol, kv("view_name", q(vn))}, v.GetAttrs(), nil, "")
	}
}

func (c *census) endpoint(a *sysl.Application, an []string, appCol col, ep *sysl.Endpoint) {
	if ep.GetIsPubsub() {
		evCol := kv("event_name", q(ep.GetName()))
		c.add("event", "event", nil, appCol, evCol)
		c.meta("event", []col{appCol, evCol}, ep.GetAttrs(), nil, "")
		epCol := kv("ep_name", q(ep.GetName()))
		for i, p := range ep.GetParam() {
			c.param(an, appCol, epCol, p.GetName(), p.GetType(), i, "method")
		}
		c.stmts(a, an, appCol, epCol, ep.GetStmt(), nil, "event", "in-event")
		return
	}
	epCol := kv("ep_name", q(ep.GetName()))
	kind := "simple"
	evApp, evName := "[]", `""`
	if ep.GetSource() != nil {
		kind = "subscriber"
		evApp = qs(ep.GetSource().GetPart())
		// the subscriber endpoint is named "<publisher> -> <event>"
		if i := strings.Index(ep.GetName(), " -> "); i >= 0 {
			evName = q(ep.GetName()[i+len(" -> "):])
		}
	}
	method, path := `""`, `""`
	if rp := ep.GetRestParams(); rp != nil {
		kind = "rest"
		method, path = q(rp.GetMethod().String()), q(rp.GetPath())
	}
	c.add("ep", kind, nil, appCol, epCol, kv("ep_long_name", q(ep.GetLongName())), kv("ep_docstring", q(ep.GetDocstring())),
		kv("ep_event.app_name.part", evApp), kv("ep_event.event_name", evName), kv("rest.method", method), kv("rest.path", path))
	c.meta("ep", []col{appCol, epCol}, ep.GetAttrs(), nil, "")
	for i, p := range ep.GetParam() {
		c.param(an, appCol, epCol, p.GetName(), p.GetType(), i, "method")
	}
	if rp := ep.GetRestParams(); rp != nil {
		for i, p := range rp.GetUrlParam() {
			c.param(an, appCol, epCol, p.GetName(), p.GetType(), i, "path")
		}
		for i, p := range rp.GetQueryParam() {
			c.param(an, appCol, epCol, p.GetName(), p.GetType(), i, "query")
		}
	}
	c.stmts(a, an, appCol, epCol, ep.GetStmt(), nil, "endpoint", "")
}

func tagList(attrs map[string]*sysl.Attribute) []string {
	var out []string
	if p, ok := attrs["patterns"]; ok {
		for _, e := range p.GetA().GetElt() {
			out = append(out, e.GetS())
		}
	}
	return out
}

func (c *census) param(an []string, appCol, epCol col, name string, t *sysl.Type, index int, loc string) {
	locCol := kv("param_loc", q(loc))
	if loc == "method" {
		// the relational form uses a parameter's own tag (~header, ~body, …) as its location;
		// any of the parameter's tags, or "method", is accepted
		for _, tg := range tagList(t.GetAttrs()) {
			locCol.alts = append(locCol.alts, q(tg))
		}
	}
	idx := "index=0"
	if index > 0 {
		idx = "index>=1"
	}
	trig := "loc=" + loc + "," + idx
	key := []col{appCol, epCol, kv("param_name", q(name)), locCol, kv("param_index", cint(int64(index)))}
	ptype, popt := `{Primitive:"any"}`, "false" // a parameter written without a type
	if t != nil {
		ptype, popt = c.typeCanon(an, t), cbool(t.GetOpt())
	}
	cols := append(append([]col{}, key...), kv("param_type", ptype), kv("param_opt", popt))
	c.add("param", trig+",type="+typeForm(t), nil, cols...)
	if t != nil {
		c.meta("param", key, t.GetAttrs(), nil, "")
	}
}

// typeForm classifies a type expression (trigger classes).
func typeForm(t *sysl.Type) string {
	if t == nil {
		return "none"
	}
	switch x := t.GetType().(type) {
	case *sysl.Type_Primitive_:
		return "prim"
	case *sysl.Type_TypeRef:
		return "ref"
	case *sysl.Type_Set:
		return "set-of-" + typeForm(x.Set)
	case *sysl.Type_Sequence:
		return "seq-of-" + typeForm(x.Sequence)
	case *sysl.Type_List_:
		return "list-of-" + typeForm(x.List.GetType())
	case *sysl.Type_Tuple_:
		return "tuple"
	case *sysl.Type_Relation_:
		return "relation"
	case *sysl.Type_Enum_:
		return "enum"
	case *sysl.Type_OneOf_:
		return "union"
	case *sysl.Type_Map_:
		return "map"
	case *sysl.Type_NoType_:
		return "notype"
	}
	return "none"
}

// typeCanon renders a type expression used by a field, parameter or alias of application an.
func (c *census) typeCanon(an []string, t *sysl.Type) string {
	if t == nil {
		return "nil"
	}
	switch x := t.GetType().(type) {
	case *sysl.Type_Primitive_:
		// the relational form names primitives; letter case carries nothing
		return "{Primitive:" + q(strings.ToLower(x.Primitive.String())) + "}"
	case *sysl.Type_TypeRef:
		ref := x.TypeRef
		app := an
		switch {
		case ref.GetRef().GetAppname() != nil:
			app = ref.GetRef().GetAppname().GetPart()
		case ref.GetContext().GetAppname() != nil:
			app = ref.GetContext().GetAppname().GetPart()
		}
		return "{AppName:" + qs(app) + ",TypePath:" + qs(ref.GetRef().GetPath()) + "}"
	case *sysl.Type_Set:
		if len(x.Set.GetConstraint()) > 0 {
			c.elemConstr++
		}
		return "{Set:" + c.typeCanon(an, x.Set) + "}"
	case *sysl.Type_Sequence:
		if len(x.Sequence.GetConstraint()) > 0 {
			c.elemConstr++
		}
		return "{Sequence:" + c.typeCanon(an, x.Sequence) + "}"
	case *sysl.Type_Tuple_:
		return "{Tuple:" + pbCanon(x.Tuple) + "}"
	case *sysl.Type_List_:
		// the (deprecated) list wrapper has no counterpart in the relational form; the element
		// type is what it can carry
		c.listTypes++
		return c.typeCanon(an, x.List.GetType())
	}
	return "nil"
}

func (c *census) typ(an []string, appCol col, name string, t *sysl.Type) {
	tn := kv("type_name", q(name))
	form := typeForm(t)
	c.add("type", "kind="+form, nil, appCol, tn, kv("type_docstring", q(t.GetDocstring())), kv("type_opt", cbool(t.GetOpt())))
	var fields map[string]*sysl.Type
	switch x := t.GetType().(type) {
	case *sysl.Type_Tuple_:
		fields = x.Tuple.GetAttrDefs()
	case *sysl.Type_Relation_:
		pk := x.Relation.GetPrimaryKey().GetAttrName()
		n := "0"
		if len(pk) == 1 {
			n = "1"
		} else if len(pk) > 1 {
			n = "2+"
		}
		c.add("table", "pk="+n, nil, appCol, tn, kv("pk", qs(pk)))
		fields = x.Relation.GetAttrDefs()
	case *sysl.Type_Enum_:
		items := map[string]string{}
		for k, v := range x.Enum.GetItems() {
			items[k] = cint(v)
		}
		c.add("enum", "enum", nil, appCol, kv("enum_items", cmap(items)), tn)
	case *sysl.Type_Primitive_, *sysl.Type_Sequence, *sysl.Type_Set, *sysl.Type_TypeRef, *sysl.Type_List_:
		// a named type defined as another type expression
		c.add("alias", "alias="+form, nil, appCol, tn, kv("alias_type", c.typeCanon(an, t)))
	}
	for _, fn := range sortedKeys(fields) {
		c.field(an, appCol, tn, fn, fields[fn])
	}
	c.meta("type", []col{appCol, tn}, t.GetAttrs(), nil, "")
}

func (c *census) field(an []string, appCol, tn col, name string, f *sysl.Type) {
	fnCol := kv("field_name", q(name))
	cols := []col{appCol, tn, fnCol, kv("field_opt", cbool(f.GetOpt())), kv("field_type", c.typeCanon(an, f))}
	var lmin, lmax int64
	var prec, scale int32
	for _, k := range f.GetConstraint() {
		if k.GetLength() != nil {
			lmin, lmax = k.GetLength().GetMin(), k.GetLength().GetMax()
		}
		prec, scale = k.GetPrecision(), k.GetScale()
	}
	cc := []col{kv("field_constraint.length.min", cint(lmin)), kv("field_constraint.length.max", cint(lmax)),
		kv("field_constraint.precision", cint(int64(prec))), kv("field_constraint.scale", cint(int64(scale)))}
	if len(f.GetConstraint()) > 1 {
		// several constraints cannot be held by the single constraint of a row: nothing demanded
		c.multiConstr++
		for i := range cc {
			cc[i].any = true
		}
	}
	cols = append(cols, cc...)
	trig := "type=" + typeForm(f)
	if f.GetOpt() {
		trig += ",optional"
	}
	c.add("field", trig, nil, cols...)
	c.meta("field", []col{appCol, tn, fnCol}, f.GetAttrs(), nil, "")
}

// ---- annotations and tags ----

func attrForm(a *sysl.Attribute) string {
	switch x := a.GetAttribute().(type) {
	case *sysl.Attribute_S:
		if x.S == "" {
			return "empty"
		}
		return "string"
	case *sysl.Attribute_I, *sysl.Attribute_N:
		return "number"
	case *sysl.Attribute_A:
		if len(x.A.GetElt()) == 0 {
			return "empty"
		}
		for _, e := range x.A.GetElt() {
			if e.GetA() != nil {
				return "nested-array"
			}
		}
		return "array"
	}
	return "invalid"
}

func attrCanon(a *sysl.Attribute) string {
	switch x := a.GetAttribute().(type) {
	case *sysl.Attribute_S:
		if x.S == "" {
			return emptyVal
		}
		return q(x.S)
	case *sysl.Attribute_I:
		return cnum(float64(x.I))
	case *sysl.Attribute_N:
		return cnum(x.N)
	case *sysl.Attribute_A:
		if len(x.A.GetElt()) == 0 {
			return emptyVal
		}
		parts := make([]string, len(x.A.GetElt()))
		for i, e := range x.A.GetElt() {
			parts[i] = attrCanon(e)
		}
		return "[" + strings.Join(parts, ",") + "]"
	}
	return "invalid"
}

// meta lists the annotation and tag rows of one element: every attribute except "patterns"
// is an annotation, every element of "patterns" is a tag.
func (c *census) meta(prefix string, owner []col, attrs map[string]*sysl.Attribute, sm *stmtMeta, trigExtra string) {
	for _, name := range sortedKeys(attrs) {
		a := attrs[name]
		if name == "patterns" {
			for _, e := range a.GetA().GetElt() {
				cols := append(append([]col{}, owner...), kv(prefix+"_tag", q(e.GetS())))
				c.add("tag_"+prefix, "tag"+trigExtra, sm, cols...)
			}
			continue
		}
		form := attrForm(a)
		c.noteAnno(form)
		cols := append(append([]col{}, owner...), kv(prefix+"_anno_name", q(name)), kv(prefix+"_anno_value", attrCanon(a)))
		c.add("anno_"+prefix, "form="+form+trigExtra, sm, cols...)
	}
}

// ---- statements ----

func depthClass(d int) string {
	if d >= 8 {
		return "8+"
	}
	return fmt.Sprint(d)
}

// isSubscriberCall: the call the compiler adds to a publisher's event for each subscriber.
func isSubscriberCall(evName string, st *sysl.Statement) bool {
	call := st.GetCall()
	return call != nil && strings.HasSuffix(call.GetEndpoint(), " -> "+evName)
}

func (c *census) stmts(a *sysl.Application, an []string, appCol, epCol col, list []*sysl.Statement, prefix []int, parent, inEvent string) {
	depth := len(prefix) + 1
	real := 0
	for _, st := range list {
		if st.GetAction().GetAction() != placeholder {
			real++
		}
	}
	if real >= 3 {
		c.wideAtDepth[depth]++
		if depth >= 4 {
			c.wideGE4++
		}
	}
	for i, st := range list {
		if st.GetAction() != nil && st.GetAction().GetAction() == placeholder {
			continue
		}
		path := append(append([]int{}, prefix...), i)
		sm := &stmtMeta{depth: depth, parent: parent, nsib: len(list)}
		trig := "depth=" + depthClass(depth) + ",parent=" + parent
		if inEvent != "" {
			sm.inEvent = "statement-in-pubsub-event"
			if ev := strings.Trim(epCol.val, `"`); isSubscriberCall(ev, st) {
				sm.inEvent = "subscriber-call-in-pubsub-event"
			}
			trig = sm.inEvent
		}
		if alt := st.GetAlt(); alt != nil {
			// `one of` is a forest: each choice has its own row (the choice index extends the
			// path) and the statements of a choice are nested under it
			c.stmtKinds["alt"] = true
			for ci, ch := range alt.GetChoice() {
				cp := append(append([]int{}, path...), ci)
				csm := &stmtMeta{depth: depth + 1, parent: "alt", nsib: len(alt.GetChoice()), inEvent: sm.inEvent}
				ctrig := "depth=" + depthClass(depth+1) + ",parent=alt"
				if inEvent != "" {
					ctrig = sm.inEvent
				}
				c.noteDepth(depth + 1)
				c.stmtRow(an, appCol, epCol, cp, csm, ctrig, "stmt_alt", cmap(map[string]string{"choice": q(ch.GetCond())}), nil)
				c.stmts(a, an, appCol, epCol, ch.GetStmt(), cp, "alt-choice", inEvent)
			}
			c.stmtMeta(appCol, epCol, path, st, sm, trig)
			continue
		}
		c.noteDepth(depth)
		var kindCol, kindVal string
		var ret []col
		var children []*sysl.Statement
		childParent := ""
		switch x := st.GetStmt().(type) {
		case *sysl.Statement_Action:
			kindCol, kindVal = "stmt_action", q(x.Action.GetAction())
			c.stmtKinds["action"] = true
		case *sysl.Statement_Call:
			kindCol = "stmt_call"
			kindVal = cmap(map[string]string{"appName": qs(x.Call.GetTarget().GetPart()), "epName": q(x.Call.GetEndpoint())})
			c.stmtKinds["call"] = true
		case *sysl.Statement_Cond:
			kindCol, kindVal = "stmt_cond", cmap(map[string]string{"test": q(x.Cond.GetTest())})
			children, childParent = x.Cond.GetStmt(), "cond"
			c.stmtKinds["cond"] = true
		case *sysl.Statement_Loop:
			kindCol = "stmt_loop"
			kindVal = cmap(map[string]string{"mode": q(x.Loop.GetMode().String()), "criterion": q(x.Loop.GetCriterion())})
			children, childParent = x.Loop.GetStmt(), "loop"
			c.stmtKinds["loop"] = true
		case *sysl.Statement_LoopN:
			kindCol, kindVal = "stmt_loop_n", cmap(map[string]string{"count": cint(int64(x.LoopN.GetCount()))})
			children, childParent = x.LoopN.GetStmt(), "loopn"
			c.stmtKinds["loopn"] = true
		case *sysl.Statement_Foreach:
			kindCol, kindVal = "stmt_foreach", cmap(map[string]string{"coll": q(x.Foreach.GetCollection())})
			children, childParent = x.Foreach.GetStmt(), "foreach"
			c.stmtKinds["foreach"] = true
		case *sysl.Statement_Group:
			kindCol, kindVal = "stmt_group", cmap(map[string]string{"title": q(x.Group.GetTitle())})
			children, childParent = x.Group.GetStmt(), "group"
			c.stmtKinds["group"] = true
		case *sysl.Statement_Ret:
			c.stmtKinds["ret"] = true
			if p := x.Ret.GetPayload(); p != "" {
				ret = c.retCols(an, p)
			}
		}
		c.stmtRow(an, appCol, epCol, path, sm, trig, kindCol, kindVal, ret)
		if childParent != "" {
			c.stmts(a, an, appCol, epCol, children, path, childParent, inEvent)
		}
		c.stmtMeta(appCol, epCol, path, st, sm, trig)
	}
}

func (c *census) noteAnno(form string) {
	c.annoForms[form] = true
	switch form {
	case "array":
		c.annoArrays++
	case "nested-array":
		c.annoNested++
	}
}

func (c *census) noteDepth(d int) {
	if d > c.maxDepth {
		c.maxDepth = d
	}
	if d >= 5 {
		c.stmtsDepthGE5++
	}
}

func (c *census) retCols(an []string, payload string) []col {
	e := c.intents[payload]
	if e == nil {
		var ok bool
		e, ok = parsePayload(payload)
		if !ok {
			c.freeformRet++
			c.retForms["free-form"] = true
			return []col{{name: "stmt_ret.status", nonempty: true}, {name: "stmt_ret.attr.modifier", any: true},
				{name: "stmt_ret.attr.nvp", any: true}, {name: "stmt_ret.type", any: true}}
		}
	}
	c.retForms[e.Form] = true
	if e.Type != nil {
		c.typedRet++
		if len(e.Mods)+len(e.Nvp) > 0 {
			c.typedRetAttrs++
		}
	}
	return e.cols(an)
}

var stmtKindCols = []string{"stmt_action", "stmt_call", "stmt_cond", "stmt_loop", "stmt_loop_n", "stmt_foreach", "stmt_alt", "stmt_group"}

func (c *census) stmtRow(an []string, appCol, epCol col, path []int, sm *stmtMeta, trig, kindCol, kindVal string, ret []col) {
	cols := []col{appCol, epCol, kv("stmt_index", cints(path))}
	for _, k := range stmtKindCols {
		v := "map{}"
		if k == "stmt_action" {
			v = `""`
		}
		if k == kindCol {
			v = kindVal
		}
		cols = append(cols, kv(k, v))
	}
	if ret == nil {
		ret = []col{kv("stmt_ret.status", `""`), kv("stmt_ret.attr.modifier", "[]"), kv("stmt_ret.attr.nvp", "map{}"), kv("stmt_ret.type", "nil")}
	}
	cols = append(cols, ret...)
	c.add("stmt", trig, sm, cols...)
}

func (c *census) stmtMeta(appCol, epCol col, path []int, st *sysl.Statement, sm *stmtMeta, trig string) {
	extra := "," + trig
	tagTrig := func() string { return "tag" + extra }
	annoTrig := func(form string) string { return "form=" + form + extra }
	if sm.inEvent != "" {
		// the cause is the event, whatever the form
		tagTrig = func() string { return sm.inEvent }
		annoTrig = func(string) string { return sm.inEvent }
	}
	// column order of the relational form: anno rows carry the index last, tag rows before the tag
	for _, name := range sortedKeys(st.GetAttrs()) {
		a := st.Attrs[name]
		if name == "patterns" {
			for _, e := range a.GetA().GetElt() {
				c.add("tag_stmt", tagTrig(), sm, appCol, epCol, kv("stmt_index", cints(path)), kv("stmt_tag", q(e.GetS())))
			}
			continue
		}
		form := attrForm(a)
		c.noteAnno(form)
		c.add("anno_stmt", annoTrig(form), sm, appCol, epCol, kv("stmt_anno_name", q(name)), kv("stmt_anno_value", attrCanon(a)), kv("stmt_index", cints(path)))
	}
}
