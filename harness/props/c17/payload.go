package c17

import (
	"regexp"
	"sort"
	"strings"

	"verif/fw"
	"verif/gen"
)

// payType is the type part of a return payload as the specification writes it.
type payType struct {
	Coll   string   // "", "set", "sequence"
	Prim   string   // primitive name, or
	RefApp []string // application parts (nil: the declaring application)
	Ref    string   // type name
}

// retExp is what a return payload says: status, type, modifiers, name-value attributes.
type retExp struct {
	Status string
	Type   *payType
	Mods   []string
	Nvp    map[string]gen.AttrVal
	Form   string // evidence label
}

func attrValCanon(v gen.AttrVal) string {
	if !v.IsArr {
		if v.S == "" {
			return emptyVal
		}
		return q(v.S)
	}
	if len(v.Arr) == 0 {
		return emptyVal
	}
	parts := make([]string, len(v.Arr))
	for i, e := range v.Arr {
		parts[i] = attrValCanon(e)
	}
	return "[" + strings.Join(parts, ",") + "]"
}

func (t *payType) canon(owner []string) string {
	if t == nil {
		return "nil"
	}
	var s string
	if t.Prim != "" {
		s = "{Primitive:" + q(t.Prim) + "}"
	} else {
		app := t.RefApp
		if len(app) == 0 {
			app = owner
		}
		s = "{AppName:" + qs(app) + ",TypePath:" + qs([]string{t.Ref}) + "}"
	}
	switch t.Coll {
	case "set":
		s = "{Set:" + s + "}"
	case "sequence":
		s = "{Sequence:" + s + "}"
	}
	return s
}

// cols gives the expected stmt_ret.* columns for a payload declared in application owner.
func (e *retExp) cols(owner []string) []col {
	kv := map[string]string{}
	for k, v := range e.Nvp {
		kv[k] = attrValCanon(v)
	}
	return []col{
		{name: "stmt_ret.status", val: q(e.Status)},
		{name: "stmt_ret.attr.modifier", val: qs(sortedSet(e.Mods))},
		{name: "stmt_ret.attr.nvp", val: cmap(kv)},
		{name: "stmt_ret.type", val: e.Type.canon(owner)},
	}
}

var payPrims = []string{"int", "int32", "int64", "float", "float32", "float64", "decimal", "bool", "bytes", "string", "date", "datetime", "any"}
var payPrimSet = func() map[string]bool {
	m := map[string]bool{}
	for _, p := range payPrims {
		m[p] = true
	}
	return m
}()

var statusRe = regexp.MustCompile(`^(ok|error|[1-5][0-9][0-9])$`)
var partRe = regexp.MustCompile(`^[^\s.:\[\]~"'=,{}<]+$`)

// parsePayload reads a payload written in the documented form
//
//	[status] [<: type] [attributes]   or   type [attributes]
//
// with type = primitive | sequence of T | set of T | [Ns :: ]App.Type | Type and attributes =
// [~modifier, name="value", name=[...]]. ok=false means the text is free-form: the property
// then demands only that the statement has its row.
func parsePayload(p string) (*retExp, bool) {
	s := strings.TrimSpace(p)
	e := &retExp{}
	head := s
	if i := strings.IndexByte(s, '['); i >= 0 {
		head = strings.TrimSpace(s[:i])
		ap := &attrParser{s: s[i:]}
		if !ap.list(e) {
			return nil, false
		}
		ap.ws()
		if ap.i != len(ap.s) {
			return nil, false
		}
	}
	if head == "" {
		return nil, false
	}
	var ty string
	switch {
	case strings.Contains(head, "<:"):
		i := strings.Index(head, "<:")
		e.Status = strings.TrimSpace(head[:i])
		ty = strings.TrimSpace(head[i+2:])
		if !statusRe.MatchString(e.Status) || ty == "" {
			return nil, false
		}
	case statusRe.MatchString(head):
		e.Status = head
	default:
		e.Status = "ok"
		ty = head
	}
	if ty != "" {
		t, ok := parsePayType(ty)
		if !ok {
			return nil, false
		}
		e.Type = t
	}
	e.Form = e.form()
	return e, true
}

func parsePayType(ty string) (*payType, bool) {
	t := &payType{}
	switch {
	case strings.HasPrefix(ty, "sequence of "):
		t.Coll = "sequence"
		ty = strings.TrimSpace(strings.TrimPrefix(ty, "sequence of "))
	case strings.HasPrefix(ty, "set of "):
		t.Coll = "set"
		ty = strings.TrimSpace(strings.TrimPrefix(ty, "set of "))
	}
	if payPrimSet[ty] {
		t.Prim = ty
		return t, true
	}
	name := ty
	if i := strings.IndexByte(ty, '.'); i >= 0 {
		name = strings.TrimSpace(ty[i+1:])
		for _, part := range strings.Split(ty[:i], "::") {
			part = strings.TrimSpace(part)
			if !partRe.MatchString(part) {
				return nil, false
			}
			t.RefApp = append(t.RefApp, part)
		}
	}
	if !partRe.MatchString(name) {
		return nil, false
	}
	// a name that merely starts with a primitive or collection keyword is left alone: the
	// documented payload syntax does not say how such text is to be read
	for _, p := range payPrims {
		if strings.HasPrefix(name, p) && len(t.RefApp) == 0 {
			return nil, false
		}
	}
	if name == "sequence" || name == "set" {
		return nil, false
	}
	t.Ref = name
	return t, true
}

type attrParser struct {
	s string
	i int
}

func (a *attrParser) ws() {
	for a.i < len(a.s) && (a.s[a.i] == ' ' || a.s[a.i] == '\t') {
		a.i++
	}
}

func (a *attrParser) lit(c byte) bool {
	a.ws()
	if a.i < len(a.s) && a.s[a.i] == c {
		a.i++
		return true
	}
	return false
}

func isWord(c byte) bool {
	return c == '_' || c >= '0' && c <= '9' || c >= 'a' && c <= 'z' || c >= 'A' && c <= 'Z'
}

func (a *attrParser) word(extra string) string {
	a.ws()
	st := a.i
	for a.i < len(a.s) && (isWord(a.s[a.i]) || strings.IndexByte(extra, a.s[a.i]) >= 0) {
		a.i++
	}
	return a.s[st:a.i]
}

func (a *attrParser) list(e *retExp) bool {
	if !a.lit('[') {
		return false
	}
	for {
		if a.lit('~') {
			w := a.word("+")
			if w == "" {
				return false
			}
			e.Mods = append(e.Mods, w)
		} else {
			w := a.word("")
			if w == "" || !a.lit('=') {
				return false
			}
			v, ok := a.value()
			if !ok {
				return false
			}
			if e.Nvp == nil {
				e.Nvp = map[string]gen.AttrVal{}
			}
			if _, dup := e.Nvp[w]; dup {
				return false
			}
			e.Nvp[w] = v
		}
		if a.lit(',') {
			continue
		}
		return a.lit(']')
	}
}

func (a *attrParser) value() (gen.AttrVal, bool) {
	a.ws()
	if a.i >= len(a.s) {
		return gen.AttrVal{}, false
	}
	switch a.s[a.i] {
	case '"':
		a.i++
		var b strings.Builder
		for a.i < len(a.s) {
			c := a.s[a.i]
			a.i++
			switch c {
			case '"':
				return gen.AttrVal{S: b.String()}, true
			case '\\':
				if a.i >= len(a.s) {
					return gen.AttrVal{}, false
				}
				n := a.s[a.i]
				a.i++
				switch n {
				case '\\', '"', '\'':
					b.WriteByte(n)
				case 'n':
					b.WriteByte('\n')
				case 't':
					b.WriteByte('\t')
				case 'r':
					b.WriteByte('\r')
				default: // \b, \u…: left to free-form
					return gen.AttrVal{}, false
				}
			default:
				b.WriteByte(c)
			}
		}
		return gen.AttrVal{}, false
	case '\'':
		j := strings.IndexByte(a.s[a.i+1:], '\'')
		if j < 0 {
			return gen.AttrVal{}, false
		}
		v := a.s[a.i+1 : a.i+1+j]
		if strings.ContainsAny(v, "\\") {
			return gen.AttrVal{}, false
		}
		a.i += j + 2
		return gen.AttrVal{S: v}, true
	case '[':
		a.i++
		out := gen.AttrVal{IsArr: true}
		for {
			v, ok := a.value()
			if !ok {
				return gen.AttrVal{}, false
			}
			out.Arr = append(out.Arr, v)
			if a.lit(',') {
				continue
			}
			if a.lit(']') {
				return out, true
			}
			return gen.AttrVal{}, false
		}
	}
	return gen.AttrVal{}, false
}

func (e *retExp) form() string {
	f := "status-only"
	if e.Type != nil {
		k := "ref"
		if e.Type.Prim != "" {
			k = "prim"
		} else if len(e.Type.RefApp) > 1 {
			k = "ref-namespaced-app"
		} else if len(e.Type.RefApp) == 1 {
			k = "ref-other-app"
		}
		if e.Type.Coll != "" {
			k = e.Type.Coll + "-of-" + k
		}
		f = k
	}
	if len(e.Mods) > 0 {
		f += "+modifier"
	}
	hasArr, hasNest := false, false
	for _, v := range e.Nvp {
		if v.IsArr {
			hasArr = true
			for _, x := range v.Arr {
				if x.IsArr {
					hasNest = true
				}
			}
		}
	}
	switch {
	case hasNest:
		f += "+nvp-nested-array"
	case hasArr:
		f += "+nvp-array"
	case len(e.Nvp) > 0:
		f += "+nvp"
	}
	return f
}

// ---- generation ----

var nvpNames = []string{"mediatype", "encoding", "schema", "version", "cache", "lang"}
var nvpVals = []string{"application/json", "text/plain", "utf-8", "v1.2", "no-store", "a b c", "x+y", "en-AU", "it's", `say \"hi\"`, `back\\slash`}
var modNames = []string{"json", "xml", "stream", "gzip", "vnd+json", "paged"}

type typeRefCand struct {
	app  []string // nil: local
	name string
}

func payloadSafe(s string) bool { return partRe.MatchString(s) && !strings.Contains(s, "%") }

// refCands lists the types a payload written in application a can name: its own types and
// the types of other applications whose names can be written inside a payload as they are.
func refCands(s *gen.Spec, a *gen.App) []typeRefCand {
	var out []typeRefCand
	for _, x := range s.Apps {
		okApp := true
		for _, p := range x.Parts {
			if !payloadSafe(p) {
				okApp = false
			}
		}
		for _, t := range x.Types() {
			if !payloadSafe(t.Name) || gen.RenderName(t.Name) != t.Name {
				continue
			}
			startsPrim := false
			for _, p := range payPrims {
				if strings.HasPrefix(t.Name, p) {
					startsPrim = true
				}
			}
			if startsPrim {
				continue
			}
			if x == a {
				out = append(out, typeRefCand{nil, t.Name})
			}
			if okApp {
				out = append(out, typeRefCand{x.Parts, t.Name})
			}
		}
	}
	return out
}

func genNvpVal(r *fw.Rand, depth int) (gen.AttrVal, string) {
	if depth < 2 && r.Chance(1, 3) {
		n := r.Range(1, 3)
		v := gen.AttrVal{IsArr: true}
		parts := make([]string, n)
		for i := 0; i < n; i++ {
			var e gen.AttrVal
			e, parts[i] = genNvpVal(r, depth+1)
			v.Arr = append(v.Arr, e)
		}
		sep := []string{",", ", "}[r.Intn(2)]
		return v, "[" + strings.Join(parts, sep) + "]"
	}
	w := nvpVals[r.Intn(len(nvpVals))]
	// written form w (with its escapes) inside double quotes; value = unescaped
	val := strings.NewReplacer(`\"`, `"`, `\\`, `\`).Replace(w)
	if !strings.ContainsAny(w, `\'`) && r.Chance(1, 4) {
		return gen.AttrVal{S: val}, "'" + w + "'"
	}
	return gen.AttrVal{S: val}, `"` + w + `"`
}

// primitives whose payload form the relational form accepts on the pinned tree; the others
// (int32 int64 float32 float64 datetime) make it refuse the whole model, which the property
// allows, so they are used only in a small share of the cases (allPrims).
var payPrimsAccepted = []string{"int", "float", "decimal", "bool", "bytes", "string", "date", "any"}

// genPayload draws a payload text together with what it says.
func genPayload(r *fw.Rand, s *gen.Spec, a *gen.App, allPrims bool) (string, *retExp) {
	e := &retExp{Status: []string{"ok", "error", "200", "201", "404", "500"}[r.Intn(6)]}
	text := e.Status
	cands := refCands(s, a)
	form := r.Intn(10)
	if form >= 2 {
		t := &payType{}
		var ty string
		if len(cands) > 0 && r.Chance(3, 5) {
			c := cands[r.Intn(len(cands))]
			t.Ref, t.RefApp = c.name, c.app
			ty = c.name
			if c.app != nil {
				ty = strings.Join(c.app, []string{" :: ", "::"}[r.Intn(2)]) + "." + c.name
			}
		} else {
			pool := payPrimsAccepted
			if allPrims {
				pool = payPrims
			}
			t.Prim = pool[r.Intn(len(pool))]
			ty = t.Prim
		}
		switch r.Intn(4) {
		case 0:
			t.Coll, ty = "sequence", "sequence of "+ty
		case 1:
			t.Coll, ty = "set", "set of "+ty
		}
		e.Type = t
		if form == 2 && statusRe.MatchString(e.Status) && e.Status == "ok" {
			text = ty // `return Type`: the status defaults to ok
		} else {
			text += " <: " + ty
		}
	}
	if r.Chance(3, 5) {
		n := r.Range(1, 3)
		var items []string
		used := map[string]bool{}
		for i := 0; i < n; i++ {
			if r.Chance(2, 5) {
				m := modNames[r.Intn(len(modNames))]
				e.Mods = append(e.Mods, m)
				items = append(items, "~"+m)
				continue
			}
			k := nvpNames[r.Intn(len(nvpNames))]
			if used[k] {
				continue
			}
			used[k] = true
			v, txt := genNvpVal(r, 0)
			if e.Nvp == nil {
				e.Nvp = map[string]gen.AttrVal{}
			}
			e.Nvp[k] = v
			items = append(items, k+"="+txt)
		}
		if len(items) > 0 {
			text += " [" + strings.Join(items, ", ") + "]"
		}
	}
	sort.Strings(e.Mods)
	e.Form = e.form()
	return text, e
}
