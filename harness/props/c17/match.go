package c17

import (
	"fmt"
	"sort"
	"strconv"
	"strings"
)

func colMatch(e col, actual string) bool {
	switch {
	case e.any:
		return true
	case e.nonempty:
		return actual != `""`
	case e.val == actual:
		return true
	}
	for _, a := range e.alts {
		if a == actual {
			return true
		}
	}
	return false
}

// diffCols lists the columns in which an actual row does not say what the expected row demands.
// Columns are compared by name; a column that only one side has is reported as such.
func diffCols(e, a *row) []string {
	var out []string
	seen := map[string]bool{}
	for _, ec := range e.cols {
		seen[ec.name] = true
		ac, ok := a.get(ec.name)
		if !ok {
			out = append(out, ec.name+"(absent)")
			continue
		}
		if !colMatch(ec, ac.val) {
			out = append(out, ec.name)
		}
	}
	for _, ac := range a.cols {
		if !seen[ac.name] {
			out = append(out, ac.name+"(not-in-census)")
		}
	}
	return out
}

type mismatch struct {
	rel    string
	kind   string // missing | extra | value:<column>
	trig   string
	exp    *row
	act    *row
	detail string
}

func (m mismatch) sig() string { return "rows|" + m.rel + "|" + m.kind + "|" + m.trig }

func parsePath(s string) []int {
	s = strings.Trim(s, "[]")
	if s == "" {
		return nil
	}
	var out []int
	for _, p := range strings.Split(s, ",") {
		n, err := strconv.Atoi(p)
		if err != nil {
			return nil
		}
		out = append(out, n)
	}
	return out
}

// sharedPathPattern recognises the one specific way a position path can be wrong that has
// an identified cause (FINDINGS.md D1): a child path built by appending to the parent's path
// in place. Go's slice growth gives a path of length 3 capacity 4, of length 5-7 capacity 8,
// of length 9-15 capacity 16, so exactly the elements at (zero-based) positions 3, 5-7 and
// 9-15 can be overwritten by statements handled later; the length is kept, and the shallowest
// overwritten element holds the index of a later sibling (a larger number).
func sharedPathPattern(e, a *row) bool {
	if e.sm == nil || e.sm.depth < 4 {
		return false
	}
	ec, _ := e.get("stmt_index")
	ac, _ := a.get("stmt_index")
	ep, ap := parsePath(ec.val), parsePath(ac.val)
	if len(ep) != len(ap) || len(ep) < 4 {
		return false
	}
	first := true
	differs := false
	for i := range ep {
		if ep[i] == ap[i] {
			continue
		}
		if !(i == 3 || (i >= 5 && i <= 7) || (i >= 9 && i <= 15)) {
			return false
		}
		if first && ap[i] < ep[i] {
			return false
		}
		first = false
		differs = true
	}
	return differs
}

func actualTrig(a *row) string {
	switch a.rel {
	case "stmt", "anno_stmt", "tag_stmt":
		c, _ := a.get("stmt_index")
		return "depth=" + depthClass(len(parsePath(c.val)))
	case "param":
		c, _ := a.get("param_loc")
		return "loc=" + strings.Trim(c.val, `"`)
	}
	return "unexpected-row"
}

// compare matches the expected rows of one relation against the actual ones as multisets.
func compare(rel string, exp, act []*row) []mismatch {
	var out []mismatch
	actByKey := map[string][]int{}
	for i, a := range act {
		k := a.key()
		actByKey[k] = append(actByKey[k], i)
	}
	usedA := make([]bool, len(act))
	usedE := make([]bool, len(exp))
	// stage 1: same element, every demanded column right
	for ei, e := range exp {
		for _, ai := range actByKey[e.key()] {
			if !usedA[ai] && len(diffCols(e, act[ai])) == 0 {
				usedA[ai], usedE[ei] = true, true
				break
			}
		}
	}
	var le, la []int
	for i := range exp {
		if !usedE[i] {
			le = append(le, i)
		}
	}
	for i := range act {
		if !usedA[i] {
			la = append(la, i)
		}
	}
	report := func(ei, ai int, cols []string) {
		e, a := exp[ei], act[ai]
		usedE[ei], usedA[ai] = true, true
		trig := e.trig
		if cols[0] == "stmt_index" && len(cols) == 1 && sharedPathPattern(e, a) {
			trig = "siblings-at-depth>=4-share-path"
		}
		ec, _ := e.get(strings.TrimSuffix(strings.TrimSuffix(cols[0], "(absent)"), "(not-in-census)"))
		ac, _ := a.get(strings.TrimSuffix(strings.TrimSuffix(cols[0], "(absent)"), "(not-in-census)"))
		out = append(out, mismatch{rel: rel, kind: "value:" + cols[0], trig: trig, exp: e, act: a,
			detail: fmt.Sprintf("column %s: demanded %s, relational form has %s (differing columns: %s)", cols[0], (&row{cols: []col{ec}}).String(), ac.val, strings.Join(cols, ","))})
	}
	// stage 2a: statement rows whose only fault is a position path overwritten in the
	// identified way; a maximum matching so that rows with equal content are not crossed
	if (rel == "stmt" || rel == "anno_stmt" || rel == "tag_stmt") && len(le)*len(la) <= 4_000_000 {
		adj := make([][]int, len(le))
		for x, ei := range le {
			for y, ai := range la {
				if d := diffCols(exp[ei], act[ai]); len(d) == 1 && d[0] == "stmt_index" && sharedPathPattern(exp[ei], act[ai]) {
					adj[x] = append(adj[x], y)
				}
			}
		}
		matchA := make([]int, len(la))
		for i := range matchA {
			matchA[i] = -1
		}
		var try func(x int, seen []bool) bool
		try = func(x int, seen []bool) bool {
			for _, y := range adj[x] {
				if seen[y] {
					continue
				}
				seen[y] = true
				if matchA[y] < 0 || try(matchA[y], seen) {
					matchA[y] = x
					return true
				}
			}
			return false
		}
		for x := range le {
			try(x, make([]bool, len(la)))
		}
		for y, x := range matchA {
			if x >= 0 {
				report(le[x], la[y], []string{"stmt_index"})
			}
		}
	}
	// stage 2b: rows that differ in exactly one column (possibly an identifying one)
	if len(le)*len(la) <= 4_000_000 {
		for _, ei := range le {
			if usedE[ei] {
				continue
			}
			for _, ai := range la {
				if usedA[ai] {
					continue
				}
				if d := diffCols(exp[ei], act[ai]); len(d) == 1 {
					report(ei, ai, d)
					break
				}
			}
		}
	}
	// stage 3: same element, several columns differ
	for _, ei := range le {
		if usedE[ei] {
			continue
		}
		for _, ai := range actByKey[exp[ei].key()] {
			if !usedA[ai] {
				report(ei, ai, diffCols(exp[ei], act[ai]))
				break
			}
		}
	}
	for _, ei := range le {
		if !usedE[ei] {
			out = append(out, mismatch{rel: rel, kind: "missing", trig: exp[ei].trig, exp: exp[ei], detail: "no row for " + exp[ei].String()})
		}
	}
	for _, ai := range la {
		if !usedA[ai] {
			// the same row more often than the model has such elements, or a row for nothing
			trig, txt := actualTrig(act[ai]), act[ai].String()
			for aj := range act {
				if aj != ai && usedA[aj] && act[aj].String() == txt {
					trig = "duplicated-row"
					break
				}
			}
			out = append(out, mismatch{rel: rel, kind: "extra", trig: trig, act: act[ai], detail: "row without a model element (or repeated): " + txt})
		}
	}
	return out
}

func rowTexts(rows []*row) string {
	ss := make([]string, len(rows))
	for i, r := range rows {
		ss[i] = r.String()
	}
	sort.Strings(ss)
	return strings.Join(ss, "\n") + "\n"
}
