package c17

// Minimal reproducers of the defects listed in FINDINGS.md (D1-D4) and of the refusals
// (O1), run through the real parser and relmod.Normalize and judged by the same census the
// property uses. The test only reports (go test -tags verif -v -run TestReproducers
// ./props/c17/); it asserts nothing about /repo, so it passes on the pinned tree and on a
// repaired one. TestPayloadReader checks the oracle's own payload reader.

import (
	"context"
	"sort"
	"testing"

	"github.com/anz-bank/sysl/pkg/arrai/relmod"
	"github.com/anz-bank/sysl/pkg/sysl"

	"verif/fw"
)

const reproD1 = `App:
    Ep:
        if a:
            if b:
                if c:
                    s0
                    s1
                    s2
`

const reproD2 = `Pub:
    <-> Ev:
        tell the world [~loud]
Sub:
    Pub -> Ev:
        handle it
`

const reproD4 = `App [patterns=[["inner"], "outer"]]:
    Ep: ...
`

const reproO1 = `App:
    Ep:
        return ok <: int64
`

func report(t *testing.T, name string, m *sysl.Module) {
	t.Helper()
	var s *relmod.Schema
	var err error
	pi := fw.Guard(func() { s, err = relmod.Normalize(context.Background(), m) })
	if pi != nil {
		t.Logf("%s: CRASH %s  (signature %s)", name, crashValue(pi.Value), fw.CrashSig("panic", crashValue(pi.Value), pi.Stack))
		return
	}
	if err != nil {
		t.Logf("%s: refused: %s", name, firstLine(err.Error()))
		return
	}
	c := newCensus(nil)
	c.module(m)
	act := actualRows(s)
	sigs := map[string]string{}
	for _, rel := range relOrder {
		for _, mm := range compare(rel, c.rows[rel], act[rel]) {
			if _, ok := sigs[mm.sig()]; !ok {
				sigs[mm.sig()] = mm.detail
			}
		}
	}
	if len(sigs) == 0 {
		t.Logf("%s: every relation matches the census (%d statement rows)", name, len(c.rows["stmt"]))
		return
	}
	keys := make([]string, 0, len(sigs))
	for k := range sigs {
		keys = append(keys, k)
	}
	sort.Strings(keys)
	for _, k := range keys {
		t.Logf("%s: DEFECT %s\n      %s", name, k, sigs[k])
	}
}

func TestReproducers(t *testing.T) {
	for _, c := range []struct{ name, text string }{{"D1 shared position path", reproD1}, {"D2 statements of an event", reproD2},
		{"D4 nested-array patterns attribute", reproD4}, {"O1 refusal of int64 payload", reproO1}} {
		m, err, pi := compile(map[string]string{"root.sysl": c.text}, "root.sysl")
		if err != nil || pi != nil {
			t.Fatalf("%s: does not compile: %v %v", c.name, err, pi)
		}
		report(t, c.name, m)
	}
	// D3: an endpoint without source contexts in an application that has one (what a model
	// imported from a protobuf/JSON file without locations, then re-opened in a .sysl file, looks like)
	m := &sysl.Module{Apps: map[string]*sysl.Application{"App": {
		Name:           &sysl.AppName{Part: []string{"App"}},
		SourceContexts: []*sysl.SourceContext{{File: "x.sysl", Start: &sysl.SourceContext_Location{Line: 1}, End: &sysl.SourceContext_Location{Line: 1}}},
		Endpoints:      map[string]*sysl.Endpoint{"Ep": {Name: "Ep"}},
	}}}
	report(t, "D3 endpoint without source context", m)
}

func TestPayloadReader(t *testing.T) {
	for _, c := range []struct {
		in   string
		ok   bool
		want string
	}{
		{"ok", true, `"ok"|[]|map{}|nil`},
		{"404", true, `"404"|[]|map{}|nil`},
		{"ok <: Resp [~json, mediatype=\"application/json\"]", true, `"ok"|["json"]|map{"mediatype":"application/json"}|{AppName:["A"],TypePath:["Resp"]}`},
		{"200 <: sequence of Ns :: Other.T", true, `"200"|[]|map{}|{Sequence:{AppName:["Ns","Other"],TypePath:["T"]}}`},
		{"error <: set of string", true, `"error"|[]|map{}|{Set:{Primitive:"string"}}`},
		{"Resp", true, `"ok"|[]|map{}|{AppName:["A"],TypePath:["Resp"]}`},
		{"ok <: T [k=[\"a\", ['b']], ~m]", true, `"ok"|["m"]|map{"k":["a",["b"]]}|{AppName:["A"],TypePath:["T"]}`},
		{"whatever text here", false, ""},
		{"200, 500", false, ""},
		{"ok <: integer", false, ""},
		{"ok <: A.B.C", false, ""},
		{"ok <: T [k=v]", false, ""},
	} {
		e, ok := parsePayload(c.in)
		if ok != c.ok {
			t.Errorf("%q: ok=%v, want %v", c.in, ok, c.ok)
			continue
		}
		if !ok {
			continue
		}
		cols := e.cols([]string{"A"})
		got := cols[0].val + "|" + cols[1].val + "|" + cols[2].val + "|" + cols[3].val
		if got != c.want {
			t.Errorf("%q:\n got %s\nwant %s", c.in, got, c.want)
		}
	}
}
