package c17

import (
	"fmt"

	"verif/fw"
	"verif/gen"
)

// The generated workload: a random system description from the shared generator (wide
// statement blocks, depth bound 6, namespaced names, annotations), then
//   - one extra endpoint whose statement tree reaches position paths of length >= 6 with at
//     least three statements in every block on the way down,
//   - every return statement rewritten to a typed payload with attributes (the payload text
//     and what it says are recorded),
//   - array-valued and nested-array annotations on applications, types, fields, endpoints
//     and statements.

var arrWords = []string{"alpha", "beta", "gamma", "delta", "x y", "k:v", "1", "a,b", "ünï"}

func arrVal(r *fw.Rand, depth int, forceNest bool) gen.AttrVal {
	n := r.Range(2, 4)
	v := gen.AttrVal{IsArr: true}
	nested := false
	for i := 0; i < n; i++ {
		if depth < 2 && (r.Chance(1, 3) || (forceNest && !nested && i == n-2)) {
			v.Arr = append(v.Arr, arrVal(r, depth+1, false))
			nested = true
			continue
		}
		v.Arr = append(v.Arr, gen.AttrVal{S: arrWords[r.Intn(len(arrWords))]})
	}
	return v
}

func arrAttr(r *fw.Rand, name string, nest bool) gen.Attr {
	v := arrVal(r, 0, nest)
	if !nest {
		// flat array of strings
		for i := range v.Arr {
			if v.Arr[i].IsArr {
				v.Arr[i] = gen.AttrVal{S: arrWords[r.Intn(len(arrWords))]}
			}
		}
	}
	return gen.Attr{Name: name, Val: v}
}

type spineBuilder struct {
	r      *fw.Rand
	id     int
	epName string
	total  int
}

func (b *spineBuilder) nid() int { b.id++; return b.id }

func (b *spineBuilder) leaf(depth int) *gen.Stmt {
	b.total++
	switch b.r.Intn(5) {
	case 0:
		return &gen.Stmt{ID: b.nid(), Kind: "call", Self: true, Ep: b.epName}
	case 1:
		return &gen.Stmt{ID: b.nid(), Kind: "ret", Text: "ok"} // rewritten later
	}
	st := &gen.Stmt{ID: b.nid(), Kind: "action", Text: fmt.Sprintf("step d%d n%d", depth, b.total)}
	if b.r.Chance(1, 4) {
		st.Attrs = []gen.Attr{{Name: []string{"deep", "audit", "slow"}[b.r.Intn(3)], Tag: true}}
		if b.r.Chance(1, 2) {
			st.Attrs = append(st.Attrs, arrAttr(b.r, "c17_sa", b.r.Chance(1, 2)))
		}
	}
	return st
}

// block builds the statements at position-path length `depth`; `want` is the path length to reach.
func (b *spineBuilder) block(depth, want int) []*gen.Stmt {
	n := b.r.Range(3, 4)
	containers := 1
	if depth <= 2 || (b.r.Chance(1, 3) && b.total < 250) {
		containers = 2
	}
	if depth >= want {
		containers = 0
	}
	slots := b.r.Perm(n)
	isCont := map[int]bool{}
	for i := 0; i < containers; i++ {
		isCont[slots[i]] = true
	}
	var out []*gen.Stmt
	for i := 0; i < n; i++ {
		if !isCont[i] {
			out = append(out, b.leaf(depth))
			continue
		}
		b.total++
		kinds := []string{"if", "for", "foreach", "loop", "while", "until", "alt", "group", "oneof"}
		k := kinds[b.r.Intn(len(kinds))]
		text := fmt.Sprintf("cond d%d n%d", depth, b.total)
		switch k {
		case "if":
			out = append(out, &gen.Stmt{ID: b.nid(), Kind: "if", Text: text, Body: b.block(depth+1, want)})
			if b.r.Chance(1, 2) {
				b.total++
				out = append(out, &gen.Stmt{ID: b.nid(), Kind: "else", Body: b.block(depth+1, want)})
			}
		case "oneof":
			st := &gen.Stmt{ID: b.nid(), Kind: "oneof"}
			nc := b.r.Range(2, 3)
			for ci := 0; ci < nc; ci++ {
				b.total++
				body := b.block(depth+2, want)
				if ci > 0 && b.total > 200 {
					body = []*gen.Stmt{b.leaf(depth + 2), b.leaf(depth + 2), b.leaf(depth + 2)}
				}
				st.Cases = append(st.Cases, &gen.Stmt{ID: b.nid(), Kind: "case", Text: fmt.Sprintf("choice d%d c%d", depth, ci), Body: body})
			}
			out = append(out, st)
		case "group":
			out = append(out, &gen.Stmt{ID: b.nid(), Kind: "group", Text: "grp " + text, Body: b.block(depth+1, want)})
		default:
			out = append(out, &gen.Stmt{ID: b.nid(), Kind: k, Text: text, Body: b.block(depth+1, want)})
		}
	}
	return out
}

// enrich post-processes the description; it returns the recorded payload intents.
func enrich(spec *gen.Spec, r *fw.Rand, allPrims, nestedPatterns bool) map[string]*retExp {
	intents := map[string]*retExp{}

	// 1. the deep endpoint
	host := spec.Apps[r.Intn(len(spec.Apps))]
	sb := &spineBuilder{r: r.Fork(), id: 1_000_000, epName: "DeepNest"}
	want := r.Range(6, 7)
	deep := &gen.Endpoint{ID: sb.nid(), Name: "DeepNest", Stmts: sb.block(1, want)}
	deep.Attrs = []gen.Attr{arrAttr(r, "c17_ea", false)}
	if nestedPatterns {
		deep.Attrs = append(deep.Attrs, gen.Attr{Name: "patterns", Val: gen.AttrVal{IsArr: true, Arr: []gen.AttrVal{
			{IsArr: true, Arr: []gen.AttrVal{{S: "inner"}}}, {S: "outer"}}}})
	}
	pos := r.Intn(len(host.Members) + 1)
	ms := append([]gen.Member{}, host.Members[:pos]...)
	ms = append(ms, gen.Member{Ep: deep})
	host.Members = append(ms, host.Members[pos:]...)

	// 2. array-valued and nested-array annotations
	host.Members = append(host.Members, gen.Member{Anno: &gen.Attr{Name: "c17_flat", Val: arrAttr(r, "", false).Val}})
	other := spec.Apps[r.Intn(len(spec.Apps))]
	other.Members = append(other.Members, gen.Member{Anno: &gen.Attr{Name: "c17_nest", Val: arrAttr(r, "", true).Val}})
	for _, a := range spec.Apps {
		for _, t := range a.Types() {
			if (t.Kind == "type" || t.Kind == "table") && r.Chance(1, 2) {
				t.Annos = append(t.Annos, arrAttr(r, "c17_ta", r.Chance(1, 2)))
				if len(t.Fields) > 0 && r.Chance(1, 2) {
					f := t.Fields[r.Intn(len(t.Fields))]
					if f.Doc == "" {
						f.Annos = append(f.Annos, arrAttr(r, "c17_fa", r.Chance(1, 2)))
					}
				}
			}
		}
	}

	// 3. typed return payloads with attributes
	var walk func(a *gen.App, ss []*gen.Stmt)
	walk = func(a *gen.App, ss []*gen.Stmt) {
		for _, s := range ss {
			if s.Kind == "ret" {
				text, e := genPayload(r, spec, a, allPrims)
				s.Text = text
				intents[text] = e
			}
			walk(a, s.Body)
			for _, c := range s.Cases {
				walk(a, c.Body)
			}
		}
	}
	for _, a := range spec.Apps {
		for _, ep := range a.AllEndpoints() {
			walk(a, ep.Stmts)
		}
	}
	return intents
}
