// Package c17: the relational model handed to transforms is a lossless image of the model.
//
// For every compiled model, relmod.Normalize is run twice on the same module under a panic
// guard; the two results must hold the same relations, and every relation the property
// names must hold, as a multiset, exactly the rows an independent census of the module
// (census.go) demands.
package c17

import (
	"context"
	"fmt"
	"regexp"
	"sort"
	"strings"

	"github.com/anz-bank/sysl/pkg/arrai/relmod"
	"github.com/anz-bank/sysl/pkg/parse"
	"github.com/anz-bank/sysl/pkg/sysl"
	"github.com/spf13/afero"

	"verif/corpus"
	"verif/fw"
	"verif/gen"
)

type prop struct{}

func init() { fw.Register(prop{}) }

func (prop) ID() string { return "C17" }

func nGen(tier string) int {
	if tier == "thorough" {
		return 4000
	}
	return 300
}

func (prop) Cases(tier string) int { return len(corpus.Files()) + nGen(tier) }

func (prop) Info() fw.Info {
	return fw.Info{
		Level: "exploration",
		Rule:  "cases 0..N-1 = the repository's .sysl files (those that compile; the others are skipped); remaining cases = random system descriptions from the shared generator (>= 3 statements in every block, depth bound 6, namespaced and escaped application names, attributes and annotations incl. arrays) plus one endpoint whose statement tree reaches position paths of length 6-7 with >= 3 statements in every block on the way, every return rewritten to a typed payload (primitive / sequence of / set of / local, other-application and namespaced references) with ~modifiers and name=value attributes (strings, arrays, nested arrays), array-valued and nested-array annotations on applications, types, fields, endpoints and statements; 1 generated case in 20 draws payload primitives from all thirteen names (five of them make the relational form refuse the model, see FINDINGS O1), 1 in 30 carries an attribute named `patterns` holding a nested array; rendered with a random legal layout and compiled by the real parser. One model per case; relmod.Normalize is called twice on it. Non-trivial: generated: position path of length >= 6 reached, >= 1 typed payload with attributes and >= 1 array annotation; corpus: >= 1 statement or field row. Distinct by hash of the source text.",
		Assumptions: []string{
			"the census (props/c17/census.go) reads the compiled protobuf by hand; the mapping from Schema columns to model facts was read once from types.go/normalize.go: `...` (the empty-body placeholder) is neither a statement nor an endpoint; a `one of` has one row per choice whose path is the statement's path extended by the choice index, the statements of a choice are nested below it; primitive names are compared ignoring letter case; a method parameter's location may be any of its own tags; the empty string and the empty array are the same arr.ai value",
			"not demanded because the relational form has no column for it: call arguments, union members, bit widths and ranges, constraints/attributes of a collection's element type, the list wrapper, field docstrings, fields with more than one constraint, the text of a free-form return payload (one that is not `[status] [<: type] [attrs]`)",
			"for generated payloads the expectation is what the generator meant; for corpus payloads it is the reading of an independent strict parser of the documented payload form (props/c17/payload.go)",
		},
		CaseTimeout: 300,
		CountFloors: map[string]int{
			"rows_app": 500, "rows_ep": 1200, "rows_param": 1500, "rows_stmt": 35000, "rows_type": 1000, "rows_field": 2500, "rows_table": 250,
			"rows_enum": 70, "rows_alias": 130, "rows_event": 60, "rows_mixin": 30, "rows_anno": 6500, "rows_tag": 6000,
			"stmts_at_depth_ge5": 20000, "blocks_ge3_stmts_at_depth_ge4": 7000, "typed_payloads": 4500, "typed_payloads_with_attrs": 2500,
			"array_annotations": 300, "nested_array_annotations": 300, "namespaced_applications": 100,
			"normalized_generated": 250, "generated_success_margin": 1, "normalized_corpus": 300,
		},
		SetFloors: map[string]int{"constructs": 100},
	}
}

func compile(files map[string]string, root string) (m *sysl.Module, err error, pi *fw.PanicInfo) {
	pi = fw.Guard(func() {
		fs := afero.NewMemMapFs()
		for n, c := range files {
			_ = afero.WriteFile(fs, n, []byte(c), 0o644)
		}
		m, err = parse.NewParser().ParseFromFs(root, fs)
	})
	return
}

var hexRe = regexp.MustCompile(`0x[0-9a-f]+|&\{.*|\b[0-9a-f]{12,}\b`)

// crashValue strips addresses and dumped structures from a panic message so that the
// signature names the cause, not the case.
func crashValue(v string) string {
	return strings.TrimSpace(hexRe.ReplaceAllString(v, ""))
}

func (prop) Run(ctx *fw.Ctx, i int) fw.Result {
	r := ctx.Rng()
	var res fw.Result
	files := corpus.Files()
	var m *sysl.Module
	var label, text string
	var intents map[string]*retExp
	generated := i >= len(files)
	if !generated {
		label = files[i]
		tree, f, ok := corpus.Locate(files[i])
		if !ok {
			res.Verdict, res.Note = "skip", "corpus file does not compile on its own"
			return res
		}
		var err error
		var pi *fw.PanicInfo
		m, err, pi = tree.Compile(f)
		if err != nil || pi != nil || m == nil {
			res.Verdict = "skip"
			return res
		}
		text = tree.Files[f]
	} else {
		o := gen.DefaultOpts(r, ctx.Thorough())
		o.MaxDepth, o.WideStmts, o.Annos, o.Namespace = 6, true, true, true
		o.MaxStmts = 4
		o.Hostile = r.Chance(1, 2)
		spec := gen.Build(r.Fork(), o)
		// 1 case in 20 draws payload primitives from the whole list (some of them make the
		// relational form refuse the model, see payload.go)
		allPrims := r.Chance(1, 20)
		if allPrims {
			res.Count("generated_with_all_payload_primitives", 1)
		}
		// 1 case in 30 carries an attribute named `patterns` (the name under which tags are
		// kept) whose value is a nested array
		nestedPatterns := r.Chance(1, 30)
		if nestedPatterns {
			res.Count("generated_with_nested_patterns_attribute", 1)
		}
		intents = enrich(spec, r.Fork(), allPrims, nestedPatterns)
		rd := gen.Render(gen.JoinedPlan(spec, "root.sysl"), gen.RandomLayout(r.Fork()))
		text = rd.Files["root.sysl"]
		label = fmt.Sprintf("generated#%d", i)
		var err error
		var pi *fw.PanicInfo
		m, err, pi = compile(rd.Files, "root.sysl")
		if pi != nil || err != nil || m == nil {
			// a generated specification that does not compile is C02's business; here it only
			// means the case could not be evaluated
			res.Verdict = "inconclusive"
			res.Note = fmt.Sprintf("generated specification did not compile: %v %v", err, pi)
			return res
		}
	}
	res.Hash = fw.HashOf(label, text)
	src := map[string]string{"source.sysl": text, "label.txt": label}
	art := func(extra map[string]string) map[string]string {
		out := map[string]string{}
		for k, v := range src {
			out[k] = v
		}
		for k, v := range extra {
			out[k] = v
		}
		return out
	}
	// the input is on disk before the code under test runs (it may kill the process)
	_ = afero.WriteFile(afero.NewOsFs(), ctx.Dir+"/source.sysl", []byte(text), 0o644)

	// ---- the code under test, twice, same module ----
	var s1, s2 *relmod.Schema
	var e1, e2 error
	pi := fw.Guard(func() { s1, e1 = relmod.Normalize(context.Background(), m) })
	res.Count("normalize_calls", 1)
	res.Count("models", 1)
	if pi != nil {
		v := crashValue(pi.Value)
		res.Violate(fw.CrashSig("panic", v, pi.Stack), label+": building the relational form of a compiled model crashed: "+v, art(map[string]string{"stack.txt": pi.Stack}))
		return res
	}
	pi = fw.Guard(func() { s2, e2 = relmod.Normalize(context.Background(), m) })
	res.Count("normalize_calls", 1)
	if pi != nil {
		v := crashValue(pi.Value)
		res.Violate(fw.CrashSig("panic", v, pi.Stack), label+": the second run over the same model crashed: "+v, art(map[string]string{"stack.txt": pi.Stack}))
		return res
	}
	if (e1 == nil) != (e2 == nil) {
		res.Violate("unstable|refusal", fmt.Sprintf("%s: one run refused the model (%v), the other did not (%v)", label, e1, e2), art(nil))
		return res
	}
	if e1 != nil {
		// a clean refusal is allowed by the property
		res.Count("refused", 1)
		res.Add("refusal_classes", fw.MsgClass(firstLine(e1.Error())))
		if generated {
			res.Count("refused_generated", 1)
			res.Count("generated_success_margin", -9)
		} else {
			res.Count("refused_corpus", 1)
		}
		res.Sample = map[string]any{"case": i, "source": label, "refused": clip(e1.Error(), 600)}
		return res
	}
	if s1 == nil || s2 == nil {
		res.Violate("nil-schema", label+": no error and no relational form", art(nil))
		return res
	}
	if generated {
		res.Count("normalized_generated", 1)
		res.Count("generated_success_margin", 1)
	} else {
		res.Count("normalized_corpus", 1)
	}

	// ---- same relations every time ----
	f1, f2 := stableForm(s1), stableForm(s2)
	names := make([]string, 0, len(f1))
	for n := range f1 {
		names = append(names, n)
	}
	sort.Strings(names)
	for _, n := range names {
		a, b := f1[n], f2[n]
		res.Count("rows_compared_between_runs", len(a))
		if strings.Join(a, "\n") != strings.Join(b, "\n") {
			res.Violate("unstable|"+n, fmt.Sprintf("%s: two runs over the same model give different %s relations (%d vs %d rows)", label, n, len(a), len(b)),
				art(map[string]string{"run1_" + n + ".txt": strings.Join(a, "\n"), "run2_" + n + ".txt": strings.Join(b, "\n")}))
		}
	}

	// ---- the census ----
	c := newCensus(intents)
	c.module(m)
	act := actualRows(s1)
	type agg struct {
		n        int
		examples []string
		first    mismatch
	}
	found := map[string]*agg{}
	var order []string
	nAnno, nTag := 0, 0
	for _, rel := range relOrder {
		exp := c.rows[rel]
		res.Count("rows_"+rel, len(exp))
		switch {
		case strings.HasPrefix(rel, "anno_"):
			nAnno += len(exp)
		case strings.HasPrefix(rel, "tag_"):
			nTag += len(exp)
		}
		for _, mm := range compare(rel, exp, act[rel]) {
			sig := mm.sig()
			a := found[sig]
			if a == nil {
				a = &agg{first: mm}
				found[sig] = a
				order = append(order, sig)
			}
			a.n++
			if len(a.examples) < 3 {
				a.examples = append(a.examples, mm.detail)
			}
		}
	}
	res.Count("rows_anno", nAnno)
	res.Count("rows_tag", nTag)
	for _, sig := range order {
		a := found[sig]
		rel := a.first.rel
		res.Violate(sig, fmt.Sprintf("%s: relation %s: %d row(s) %s [%s]; e.g. %s", label, rel, a.n, a.first.kind, a.first.trig, clip(strings.Join(a.examples, " ;; "), 900)),
			art(map[string]string{"expected_" + rel + ".txt": clip(rowTexts(c.rows[rel]), 200000), "actual_" + rel + ".txt": clip(rowTexts(act[rel]), 200000)}))
	}

	// ---- what was observed ----
	res.Count("stmts_at_depth_ge5", c.stmtsDepthGE5)
	res.Count("blocks_ge3_stmts_at_depth_ge4", c.wideGE4)
	res.Count("array_annotations", c.annoArrays)
	res.Count("nested_array_annotations", c.annoNested)
	res.Count("namespaced_applications", c.nsApps)
	res.Count("typed_payloads", c.typedRet)
	res.Count("typed_payloads_with_attrs", c.typedRetAttrs)
	res.Count("freeform_payloads_not_demanded", c.freeformRet)
	res.Count("element_constraints_without_column", c.elemConstr)
	res.Count("fields_with_several_constraints_not_demanded", c.multiConstr)
	res.Count("list_wrappers_without_column", c.listTypes)
	res.Count("endpoint_key_differs_from_name", c.epKeyDiffers)
	for d := 1; d <= c.maxDepth; d++ {
		res.Add("constructs", "stmt-depth:"+depthClass(d))
	}
	for d, n := range c.wideAtDepth {
		if n > 0 {
			res.Add("constructs", ">=3-siblings@depth:"+depthClass(d))
		}
	}
	for k := range c.stmtKinds {
		res.Add("constructs", "stmt:"+k)
	}
	for k := range c.retForms {
		res.Add("constructs", "ret:"+k)
	}
	for k := range c.annoForms {
		res.Add("constructs", "anno:"+k)
	}
	for _, rel := range relOrder {
		if len(c.rows[rel]) > 0 {
			res.Add("constructs", "rel:"+rel)
		}
	}
	for n := range m.GetApps() {
		if strings.Contains(n, " :: ") {
			res.Add("constructs", "app:namespaced")
		}
	}
	if generated {
		res.NonTrivial = c.maxDepth >= 6 && c.typedRetAttrs >= 1 && (c.annoForms["array"] || c.annoForms["nested-array"])
	} else {
		res.NonTrivial = len(c.rows["stmt"])+len(c.rows["field"]) >= 1
	}
	res.Sample = map[string]any{"case": i, "source": label, "apps": len(m.GetApps()), "stmt_rows": len(c.rows["stmt"]), "field_rows": len(c.rows["field"]),
		"max_stmt_depth": c.maxDepth, "typed_payloads": c.typedRet, "text_head": head(text, 12)}
	return res
}

// firstLine gives the first non-blank line of an error message.
func firstLine(s string) string {
	for _, l := range strings.Split(s, "\n") {
		if strings.TrimSpace(l) != "" {
			return strings.TrimSpace(l)
		}
	}
	return ""
}

func clip(s string, n int) string {
	if len(s) > n {
		return s[:n] + "…"
	}
	return s
}

func head(s string, n int) string {
	ls := strings.Split(s, "\n")
	if len(ls) > n {
		ls = ls[:n]
	}
	return strings.Join(ls, "\n")
}
