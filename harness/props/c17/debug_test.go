package c17

import (
	"encoding/json"
	"fmt"
	"os"
	"strconv"
	"strings"
	"testing"

	"verif/fw"
)

// TestDebugCases runs the cases listed in C17_CASES (e.g. "500,501" or "500-520") in-process
// and prints verdicts, signatures and refusal classes. Development aid.
func TestDebugCases(t *testing.T) {
	spec := os.Getenv("C17_CASES")
	if spec == "" {
		t.Skip("C17_CASES not set")
	}
	seed := uint64(1)
	if s := os.Getenv("VERIF_SEED"); s != "" {
		n, _ := strconv.Atoi(s)
		seed = uint64(n)
	}
	var cases []int
	for _, part := range strings.Split(spec, ",") {
		if a, b, ok := strings.Cut(part, "-"); ok {
			lo, _ := strconv.Atoi(a)
			hi, _ := strconv.Atoi(b)
			for i := lo; i <= hi; i++ {
				cases = append(cases, i)
			}
		} else {
			n, _ := strconv.Atoi(part)
			cases = append(cases, n)
		}
	}
	dir := t.TempDir()
	sigs := map[string]int{}
	for _, i := range cases {
		ctx := &fw.Ctx{Prop: "C17", Seed: seed, Tier: "quick", Case: i, Dir: dir, Repo: "/repo", Verif: "/verif"}
		res := prop{}.Run(ctx, i)
		fmt.Printf("case %d verdict=%q note=%q nontrivial=%v\n", i, res.Verdict, res.Note, res.NonTrivial)
		for _, v := range res.Violations {
			sigs[v.Sig]++
			if os.Getenv("C17_VERBOSE") != "" {
				fmt.Printf("   VIOLATION %s\n      %s\n", v.Sig, v.Msg)
			}
		}
		if os.Getenv("C17_VERBOSE") != "" {
			b, _ := json.Marshal(res.Sets["refusal_classes"])
			fmt.Printf("   refusals=%s counts=%v sample=%v\n", b, res.Counts, res.Sample)
		}
		if d := os.Getenv("C17_DUMP"); d != "" {
			for _, v := range res.Violations {
				for n, c := range v.Files {
					_ = os.WriteFile(d+"/"+fmt.Sprint(i)+"_"+n, []byte(c), 0o644)
				}
			}
			b, _ := os.ReadFile(dir + "/source.sysl")
			_ = os.WriteFile(d+"/"+fmt.Sprint(i)+"_source.sysl", b, 0o644)
		}
	}
	for s, n := range sigs {
		fmt.Printf("SIG %4d  %s\n", n, s)
	}
}
