package c17

import (
	"encoding/hex"
	"fmt"
	"reflect"
	"sort"
	"strconv"
	"strings"
	"unicode"

	"github.com/anz-bank/sysl/pkg/arrai/relmod"
	"github.com/arr-ai/arrai/rel"
	"google.golang.org/protobuf/proto"
)

// A row of one relation in canonical text form. Both sides of the comparison (the census of
// the module and the Schema returned by the code under test) are brought into this form.
type col struct {
	name     string
	val      string
	alts     []string // further acceptable values (expected side only)
	any      bool     // the property demands nothing about this column for this row
	nonempty bool     // anything but the canonical empty string
}

type row struct {
	rel  string
	cols []col
	trig string    // trigger class computed from the model (expected side)
	sm   *stmtMeta // statement rows (and their annotation/tag rows)
}

func (r *row) get(name string) (col, bool) {
	for _, c := range r.cols {
		if c.name == name {
			return c, true
		}
	}
	return col{}, false
}

func (r *row) String() string {
	var b strings.Builder
	for i, c := range r.cols {
		if i > 0 {
			b.WriteString(" ")
		}
		b.WriteString(c.name)
		b.WriteString("=")
		switch {
		case c.any:
			b.WriteString("<not demanded>")
		case c.nonempty:
			b.WriteString("<non-empty>")
		default:
			b.WriteString(c.val)
			for _, a := range c.alts {
				b.WriteString("|" + a)
			}
		}
	}
	return b.String()
}

// keyCols lists, per relation, the columns that identify the model element a row stands for.
var keyCols = map[string][]string{
	"app":        {"app_name"},
	"mixin":      {"app_name", "mixin_name"},
	"ep":         {"app_name", "ep_name"},
	"param":      {"app_name", "ep_name", "param_index", "param_name"},
	"stmt":       {"app_name", "ep_name", "stmt_index"},
	"event":      {"app_name", "event_name"},
	"type":       {"app_name", "type_name"},
	"field":      {"app_name", "type_name", "field_name"},
	"table":      {"app_name", "type_name"},
	"alias":      {"app_name", "type_name"},
	"enum":       {"app_name", "type_name"},
	"anno_app":   {"app_name", "app_anno_name"},
	"anno_mixin": {"app_name", "mixin_name", "mixin_anno_name"},
	"anno_ep":    {"app_name", "ep_name", "ep_anno_name"},
	"anno_param": {"app_name", "ep_name", "param_index", "param_name", "param_anno_name"},
	"anno_stmt":  {"app_name", "ep_name", "stmt_index", "stmt_anno_name"},
	"anno_event": {"app_name", "event_name", "event_anno_name"},
	"anno_type":  {"app_name", "type_name", "type_anno_name"},
	"anno_field": {"app_name", "type_name", "field_name", "field_anno_name"},
	"anno_view":  {"app_name", "view_name", "view_anno_name"},
	"tag_app":    {"app_name", "app_tag"},
	"tag_mixin":  {"app_name", "mixin_name", "mixin_tag"},
	"tag_ep":     {"app_name", "ep_name", "ep_tag"},
	"tag_param":  {"app_name", "ep_name", "param_index", "param_name", "param_tag"},
	"tag_stmt":   {"app_name", "ep_name", "stmt_index", "stmt_tag"},
	"tag_event":  {"app_name", "event_name", "event_tag"},
	"tag_type":   {"app_name", "type_name", "type_tag"},
	"tag_field":  {"app_name", "type_name", "field_name", "field_tag"},
	"tag_view":   {"app_name", "view_name", "view_tag"},
}

// relations compared, in reporting order.
var relOrder = []string{"app", "mixin", "ep", "param", "stmt", "event", "type", "field", "table", "alias", "enum",
	"anno_app", "anno_mixin", "anno_ep", "anno_param", "anno_stmt", "anno_event", "anno_type", "anno_field", "anno_view",
	"tag_app", "tag_mixin", "tag_ep", "tag_param", "tag_stmt", "tag_event", "tag_type", "tag_field", "tag_view"}

func (r *row) key() string {
	var b strings.Builder
	for _, k := range keyCols[r.rel] {
		c, _ := r.get(k)
		b.WriteString(c.val)
		b.WriteByte(0)
	}
	return b.String()
}

// ---- canonical text of values (shared by both sides) ----

func q(s string) string { return strconv.Quote(s) }

func qs(ss []string) string {
	parts := make([]string, len(ss))
	for i, s := range ss {
		parts[i] = q(s)
	}
	return "[" + strings.Join(parts, ",") + "]"
}

func cints(is []int) string {
	parts := make([]string, len(is))
	for i, x := range is {
		parts[i] = strconv.Itoa(x)
	}
	return "[" + strings.Join(parts, ",") + "]"
}

func cbool(b bool) string { return strconv.FormatBool(b) }
func cint(i int64) string { return strconv.FormatInt(i, 10) }
func cnum(f float64) string {
	return "num:" + strconv.FormatFloat(f, 'g', -1, 64)
}

// cmap renders key/value pairs (values already canonical) sorted by key.
func cmap(kv map[string]string) string {
	keys := make([]string, 0, len(kv))
	for k := range kv {
		keys = append(keys, k)
	}
	sort.Strings(keys)
	parts := make([]string, len(keys))
	for i, k := range keys {
		parts[i] = q(k) + ":" + kv[k]
	}
	return "map{" + strings.Join(parts, ",") + "}"
}

func pbCanon(m proto.Message) string {
	if m == nil || !m.ProtoReflect().IsValid() {
		return "nil"
	}
	b, err := proto.MarshalOptions{Deterministic: true}.Marshal(m)
	if err != nil {
		return "pb-error:" + err.Error()
	}
	return "pb:" + hex.EncodeToString(b)
}

const emptyVal = "empty"

// relCanon renders an arr.ai value (annotation values): strings, numbers, arrays. The empty
// string and the empty array are the same arr.ai value (the empty set).
func relCanon(v rel.Value) string {
	switch t := v.(type) {
	case rel.String:
		return q(t.String())
	case rel.Number:
		return cnum(float64(t))
	case rel.Array:
		vals := t.Values()
		parts := make([]string, len(vals))
		for i, e := range vals {
			if e == nil {
				parts[i] = "hole"
			} else {
				parts[i] = relCanon(e)
			}
		}
		return "[" + strings.Join(parts, ",") + "]"
	}
	if v == nil {
		return "nil"
	}
	if !v.IsTrue() {
		return emptyVal
	}
	return "rel:" + v.String()
}

// canonAny renders any value found inside a Schema row.
func canonAny(x interface{}) string {
	switch t := x.(type) {
	case nil:
		return "nil"
	case rel.Value:
		return relCanon(t)
	case relmod.TypePrimitive:
		return "{Primitive:" + q(strings.ToLower(t.Primitive)) + "}"
	case relmod.TypeRef:
		return "{AppName:" + qs(t.AppName) + ",TypePath:" + qs(t.TypePath) + "}"
	case relmod.TypeSet:
		return "{Set:" + canonAny(t.Set) + "}"
	case relmod.TypeSequence:
		return "{Sequence:" + canonAny(t.Sequence) + "}"
	case relmod.TypeTuple:
		return "{Tuple:" + canonAny(t.Tuple) + "}"
	case proto.Message:
		return pbCanon(t)
	case string:
		return q(t)
	case bool:
		return cbool(t)
	case []string:
		return qs(t)
	case []int:
		return cints(t)
	}
	v := reflect.ValueOf(x)
	switch v.Kind() {
	case reflect.Int, reflect.Int8, reflect.Int16, reflect.Int32, reflect.Int64:
		return cint(v.Int())
	case reflect.Uint, reflect.Uint8, reflect.Uint16, reflect.Uint32, reflect.Uint64:
		return strconv.FormatUint(v.Uint(), 10)
	case reflect.Float32, reflect.Float64:
		return cnum(v.Float())
	case reflect.String:
		return q(v.String())
	case reflect.Bool:
		return cbool(v.Bool())
	case reflect.Slice, reflect.Array:
		parts := make([]string, v.Len())
		for i := range parts {
			parts[i] = canonAny(v.Index(i).Interface())
		}
		return "[" + strings.Join(parts, ",") + "]"
	case reflect.Map:
		kv := map[string]string{}
		for _, k := range v.MapKeys() {
			kv[fmt.Sprint(k.Interface())] = canonAny(v.MapIndex(k).Interface())
		}
		return cmap(kv)
	case reflect.Ptr, reflect.Interface:
		if v.IsNil() {
			return "nil"
		}
		return canonAny(v.Elem().Interface())
	case reflect.Struct:
		parts := make([]string, 0, v.NumField())
		for i := 0; i < v.NumField(); i++ {
			if !v.Type().Field(i).IsExported() {
				continue
			}
			parts = append(parts, v.Type().Field(i).Name+":"+canonAny(v.Field(i).Interface()))
		}
		return "{" + strings.Join(parts, ",") + "}"
	}
	return fmt.Sprintf("?%T:%v", x, x)
}

// nvpCanon renders a return-payload attribute value as exported by the code under test:
// strings stay strings, arrays arrive as {"a": [...]}.
func nvpCanon(x interface{}) string {
	switch t := x.(type) {
	case nil:
		return emptyVal // the empty string / empty array: arr.ai's empty set
	case string:
		if t == "" {
			return emptyVal
		}
		return q(t)
	case map[string]interface{}:
		if len(t) == 0 {
			return emptyVal
		}
		if a, ok := t["a"]; ok && len(t) == 1 {
			return nvpCanon(a)
		}
		kv := map[string]string{}
		for k, v := range t {
			kv[k] = nvpCanon(v)
		}
		return cmap(kv)
	case []interface{}:
		if len(t) == 0 {
			return emptyVal
		}
		parts := make([]string, len(t))
		for i, e := range t {
			parts[i] = nvpCanon(e)
		}
		return "[" + strings.Join(parts, ",") + "]"
	}
	return canonAny(x)
}

func snake(name string) string {
	rs := []rune(name)
	var b strings.Builder
	for i, r := range rs {
		if unicode.IsUpper(r) && i > 0 {
			prevLower := unicode.IsLower(rs[i-1]) || unicode.IsDigit(rs[i-1])
			nextLower := i+1 < len(rs) && unicode.IsLower(rs[i+1])
			if prevLower || (unicode.IsUpper(rs[i-1]) && nextLower) {
				b.WriteByte('_')
			}
		}
		b.WriteRune(unicode.ToLower(r))
	}
	return b.String()
}

var relmodPkg = reflect.TypeOf(relmod.Schema{}).PkgPath()

func isTypeStruct(t reflect.Type) bool {
	switch t.Name() {
	case "TypePrimitive", "TypeRef", "TypeSet", "TypeSequence", "TypeTuple":
		return true
	}
	return false
}

// columns of the Schema that never carry a fact of the model (always zero in normalize.go).
var noFact = map[string]bool{
	"stmt.stmt_parent.app_name": true, "stmt.stmt_parent.ep_name": true, "stmt.stmt_parent.stmt_index": true,
	"ep.rest.query_param": true, "ep.rest.url_param": true,
}

func flatten(relName string, v reflect.Value, name string, out *[]col) {
	if v.Kind() == reflect.Struct && v.Type().PkgPath() == relmodPkg && !isTypeStruct(v.Type()) {
		for i := 0; i < v.NumField(); i++ {
			n := snake(v.Type().Field(i).Name)
			if name != "" {
				n = name + "." + n
			}
			flatten(relName, v.Field(i), n, out)
		}
		return
	}
	if noFact[relName+"."+name] {
		return
	}
	var s string
	switch {
	case relName == "stmt" && name == "stmt_ret.attr.modifier":
		// a set in the relational form: order and repetition carry nothing
		s = qs(sortedSet(v.Interface().([]string)))
	case relName == "stmt" && name == "stmt_ret.attr.nvp":
		kv := map[string]string{}
		for k, x := range v.Interface().(map[string]interface{}) {
			kv[k] = nvpCanon(x)
		}
		s = cmap(kv)
	default:
		s = canonAny(v.Interface())
	}
	*out = append(*out, col{name: name, val: s})
}

func sortedSet(ss []string) []string {
	seen := map[string]bool{}
	var out []string
	for _, s := range ss {
		if !seen[s] {
			seen[s] = true
			out = append(out, s)
		}
	}
	sort.Strings(out)
	return out
}

// actualRows brings the Schema's relations that the property speaks about into row form.
func actualRows(s *relmod.Schema) map[string][]*row {
	out := map[string][]*row{}
	add := func(relName string, slice reflect.Value) {
		for i := 0; i < slice.Len(); i++ {
			r := &row{rel: relName}
			flatten(relName, slice.Index(i), "", &r.cols)
			out[relName] = append(out[relName], r)
		}
	}
	sv := reflect.ValueOf(s).Elem()
	for _, f := range []string{"App", "Mixin", "Ep", "Param", "Stmt", "Event", "Type", "Field", "Table", "Alias", "Enum"} {
		add(strings.ToLower(f), sv.FieldByName(f))
	}
	for _, grp := range []string{"Anno", "Tag"} {
		g := sv.FieldByName(grp)
		for i := 0; i < g.NumField(); i++ {
			add(strings.ToLower(grp)+"_"+strings.ToLower(g.Type().Field(i).Name), g.Field(i))
		}
	}
	return out
}

// stableForm renders every relation of the Schema (including imports, views and source
// contexts) as a sorted list of row texts, for the "same relations every time" comparison.
func stableForm(s *relmod.Schema) map[string][]string {
	out := map[string][]string{}
	var walk func(prefix string, v reflect.Value)
	walk = func(prefix string, v reflect.Value) {
		for i := 0; i < v.NumField(); i++ {
			f := v.Field(i)
			name := strings.ToLower(v.Type().Field(i).Name)
			if prefix != "" {
				name = prefix + "_" + name
			}
			switch f.Kind() {
			case reflect.Slice:
				rows := make([]string, f.Len())
				for j := range rows {
					rows[j] = canonAny(f.Index(j).Interface())
				}
				sort.Strings(rows)
				out[name] = rows
			case reflect.Struct:
				walk(name, f)
			}
		}
	}
	walk("", reflect.ValueOf(s).Elem())
	return out
}
