package c18

import (
	"fmt"
	"io"
	"os"
	"sort"
	"strings"
	"time"

	"github.com/anz-bank/sysl/pkg/syslutil"
	"github.com/spf13/afero"

	"verif/fw"
)

// ---------------------------------------------------------------------------------------
// Monitor A: recording filesystem underneath syslutil.ChrootFs, every wrapper operation
// driven with enumerated and random path spellings.
// ---------------------------------------------------------------------------------------

// the segment alphabet of the property
var alphabet = []string{"", ".", "..", "a", "b.c", "d e"}

// seqCount is the number of segment sequences of length 0..n over the alphabet.
func seqCount(base, n int) int {
	t, p := 0, 1
	for k := 0; k <= n; k++ {
		t += p
		p *= base
	}
	return t
}

// seqAt decodes the j-th sequence (shorter ones first, then lexicographic by alphabet index).
func seqAt(alpha []string, j int) []string {
	base := len(alpha)
	k, p := 0, 1
	for j >= p {
		j -= p
		p *= base
		k++
	}
	out := make([]string, k)
	for i := k - 1; i >= 0; i-- {
		out[i] = alpha[j%base]
		j /= base
	}
	return out
}

// roots driven by monitor A: depth 0..3 as stated by the property, then unclean spellings of
// such roots and relative roots (resolved against the working directory by NewChrootFs).
var rootsA = []string{"/", "/r", "/r/s", "/r/s/t", "/r/", "//r//s", "/r/./s/../s", "/r/s/t/..", "rel/root", "."}

type entry struct {
	rel     []string
	dir     bool
	content string
}

func insideContent(rel []string) string { return "C18|inside|" + strings.Join(rel, "/") }

// treeA is the content placed under every root: directories "a" and "d e" nested twice,
// "..." and "tmp"; a file "b.c" in each directory; files whose names begin with two dots.
func treeA() []entry {
	var es []entry
	dirs := [][]string{{"a"}, {"d e"}, {"a", "a"}, {"a", "d e"}, {"d e", "a"}, {"d e", "d e"}, {"..."}, {"tmp"}}
	for _, d := range dirs {
		es = append(es, entry{rel: d, dir: true})
	}
	fileDirs := append([][]string{{}}, dirs[:7]...)
	for _, d := range fileDirs {
		f := append(append([]string{}, d...), "b.c")
		es = append(es, entry{rel: f, content: insideContent(f)})
	}
	for _, f := range [][]string{{"..x"}, {"a", "..x"}, {"a", "a", "deep.txt"}} {
		es = append(es, entry{rel: f, content: insideContent(f)})
	}
	return es
}

type world struct {
	rootSpelling string
	cwd          []string
	root         []string // cleaned absolute location of the root (model)
	tree         []entry
	files        map[string]string // abs location -> content (inside files)
	dirs         map[string]bool   // abs location of inside directories
	decoys       map[string]string // abs location -> content (outside files)
	mem          afero.Fs
	rec          *recFs
	ch           *syslutil.ChrootFs
	resets       int
}

func cwdSegs() []string {
	wd, err := os.Getwd()
	if err != nil {
		wd = "/"
	}
	l, _ := walk(nil, segsOf(wd), 0)
	return l
}

func newWorld(rootSpelling string) *world {
	w := &world{rootSpelling: rootSpelling, cwd: cwdSegs(), tree: treeA()}
	w.root = absLoc(w.cwd, rootSpelling)
	w.files = map[string]string{}
	w.dirs = map[string]bool{locString(w.root): true}
	for _, e := range w.tree {
		l := locString(append(append([]string{}, w.root...), e.rel...))
		if e.dir {
			w.dirs[l] = true
		} else {
			w.files[l] = e.content
		}
	}
	// decoys: files outside the root, at every ancestor, in a sibling whose name merely has the
	// root's name as a prefix, and in an unrelated directory
	w.decoys = map[string]string{}
	add := func(loc []string) {
		if within(w.root, loc) {
			return
		}
		s := locString(loc)
		w.decoys[s] = "C18|DECOY|" + s
	}
	for d := 0; d < len(w.root); d++ {
		anc := w.root[:d]
		add(append(append([]string{}, anc...), "b.c"))
		add(append(append([]string{}, anc...), "..x"))
		add(append(append([]string{}, anc...), "a", "b.c"))
		add(append(append([]string{}, anc...), "tmp", "renamed"))
	}
	if n := len(w.root); n > 0 {
		sib := append(append([]string{}, w.root[:n-1]...), w.root[n-1]+"x")
		add(append(append([]string{}, sib...), "b.c"))
		add(append(append([]string{}, sib...), "a", "b.c"))
	}
	add([]string{"outside", "secret"})
	w.rec = newRecFs(nil)
	w.populate()
	w.ch = syslutil.NewChrootFs(w.rec, rootSpelling)
	return w
}

func (w *world) populate() {
	m := afero.NewMemMapFs()
	_ = m.MkdirAll(locString(w.root), 0o755)
	for d := range w.dirs {
		_ = m.MkdirAll(d, 0o755)
	}
	for f, c := range w.files {
		_ = afero.WriteFile(m, f, []byte(c), 0o644)
	}
	for f, c := range w.decoys {
		_ = afero.WriteFile(m, f, []byte(c), 0o644)
	}
	w.mem = m
	w.rec.swap(m)
	w.resets++
}

// opA is one way of driving the wrapper with a spelling p (and q for two-path operations).
type opA struct {
	name  string // name used in evidence
	under string // method expected to reach the underlying filesystem
	args  int    // 1 or 2 spellings
	run   func(w *world, p, q string) (afero.File, os.FileInfo, error)
}

var t0 = time.Unix(1_600_000_000, 0)

var opsA = []opA{
	{"Create", "Create", 1, func(w *world, p, _ string) (afero.File, os.FileInfo, error) {
		f, err := w.ch.Create(p)
		return f, nil, err
	}},
	{"Mkdir", "Mkdir", 1, func(w *world, p, _ string) (afero.File, os.FileInfo, error) { return nil, nil, w.ch.Mkdir(p, 0o755) }},
	{"MkdirAll", "MkdirAll", 1, func(w *world, p, _ string) (afero.File, os.FileInfo, error) {
		return nil, nil, w.ch.MkdirAll(p, 0o755)
	}},
	{"Open", "Open", 1, func(w *world, p, _ string) (afero.File, os.FileInfo, error) {
		f, err := w.ch.Open(p)
		return f, nil, err
	}},
	{"OpenFile(read)", "OpenFile", 1, func(w *world, p, _ string) (afero.File, os.FileInfo, error) {
		f, err := w.ch.OpenFile(p, os.O_RDONLY, 0)
		return f, nil, err
	}},
	{"OpenFile(write)", "OpenFile", 1, func(w *world, p, _ string) (afero.File, os.FileInfo, error) {
		f, err := w.ch.OpenFile(p, os.O_RDWR|os.O_CREATE|os.O_TRUNC, 0o644)
		return f, nil, err
	}},
	{"Remove", "Remove", 1, func(w *world, p, _ string) (afero.File, os.FileInfo, error) { return nil, nil, w.ch.Remove(p) }},
	{"RemoveAll", "RemoveAll", 1, func(w *world, p, _ string) (afero.File, os.FileInfo, error) { return nil, nil, w.ch.RemoveAll(p) }},
	{"Rename(old)", "Rename", 2, func(w *world, p, q string) (afero.File, os.FileInfo, error) { return nil, nil, w.ch.Rename(p, q) }},
	{"Rename(new)", "Rename", 2, func(w *world, p, q string) (afero.File, os.FileInfo, error) { return nil, nil, w.ch.Rename(q, p) }},
	{"Stat", "Stat", 1, func(w *world, p, _ string) (afero.File, os.FileInfo, error) {
		fi, err := w.ch.Stat(p)
		return nil, fi, err
	}},
	{"Chmod", "Chmod", 1, func(w *world, p, _ string) (afero.File, os.FileInfo, error) { return nil, nil, w.ch.Chmod(p, 0o600) }},
	{"Chown", "Chown", 1, func(w *world, p, _ string) (afero.File, os.FileInfo, error) { return nil, nil, w.ch.Chown(p, 1, 1) }},
	{"Chtimes", "Chtimes", 1, func(w *world, p, _ string) (afero.File, os.FileInfo, error) {
		return nil, nil, w.ch.Chtimes(p, t0, t0)
	}},
}

// helper-level operations (afero functions that take an afero.Fs and build paths themselves);
// driven in the random cases
var opsAHelpers = []opA{
	{"afero.ReadFile", "Open", 1, func(w *world, p, _ string) (afero.File, os.FileInfo, error) {
		_, err := afero.ReadFile(w.ch, p)
		return nil, nil, err
	}},
	{"afero.Exists", "Stat", 1, func(w *world, p, _ string) (afero.File, os.FileInfo, error) {
		_, err := afero.Exists(w.ch, p)
		return nil, nil, err
	}},
	{"afero.ReadDir", "Open", 1, func(w *world, p, _ string) (afero.File, os.FileInfo, error) {
		_, err := afero.ReadDir(w.ch, p)
		return nil, nil, err
	}},
	{"afero.Walk", "", 1, func(w *world, p, _ string) (afero.File, os.FileInfo, error) {
		n := 0
		err := afero.Walk(w.ch, p, func(string, os.FileInfo, error) error {
			n++
			if n > 200 {
				return io.EOF
			}
			return nil
		})
		return nil, nil, err
	}},
	{"afero.WriteFile", "OpenFile", 1, func(w *world, p, _ string) (afero.File, os.FileInfo, error) {
		return nil, nil, afero.WriteFile(w.ch, p, []byte("C18|helper-write"), 0o644)
	}},
}

// fixed inside counterparts of the two rename forms
const renameFixedNew = "tmp/renamed"
const renameFixedOld = "a/b.c"

// acc accumulates what monitor A observed in one case.
type acc struct {
	res       *fw.Result
	viol      map[string]*fw.Violation
	violN     map[string]int
	wrapper   int
	perOp     map[string]int
	cls       [3]int
	evInside  int
	evOutside int
	rejected  int // non-strict spellings that reached nothing
	clamped   int // non-strict spellings that reached something inside the root
	reads     int // content comparisons done
	wr        int // write-then-read comparisons done
	targets   int // underlying path == model location comparisons done
}

func newAcc(res *fw.Result) *acc {
	return &acc{res: res, viol: map[string]*fw.Violation{}, violN: map[string]int{}, perOp: map[string]int{}}
}

func (a *acc) violate(sig, msg string, files map[string]string) {
	a.violN[sig]++
	if _, ok := a.viol[sig]; !ok {
		a.viol[sig] = &fw.Violation{Sig: sig, Msg: msg, Files: files}
	}
}

func (a *acc) flush(prefix string) {
	sigs := make([]string, 0, len(a.viol))
	for s := range a.viol {
		sigs = append(sigs, s)
	}
	sort.Strings(sigs)
	for _, s := range sigs {
		v := a.viol[s]
		a.res.Violate(v.Sig, fmt.Sprintf("%s (%d occurrence(s) in this case)", v.Msg, a.violN[s]), v.Files)
	}
	a.res.Count(prefix+"wrapper_calls", a.wrapper)
	a.res.Count(prefix+"underlying_inside", a.evInside)
	a.res.Count(prefix+"underlying_outside", a.evOutside)
	a.res.Count(prefix+"spellings_strict_inside", a.cls[clStrict])
	a.res.Count(prefix+"spellings_transient", a.cls[clTransient])
	a.res.Count(prefix+"spellings_outside", a.cls[clOutside])
	a.res.Count(prefix+"nonstrict_rejected", a.rejected)
	a.res.Count(prefix+"nonstrict_kept_inside", a.clamped)
	a.res.Count(prefix+"content_reads_compared", a.reads)
	a.res.Count(prefix+"write_then_read_compared", a.wr)
	a.res.Count(prefix+"target_locations_compared", a.targets)
	for op, n := range a.perOp {
		a.res.Add("ops", op)
		a.res.Count("op:"+op, n)
	}
}

func describe(w *world, op, p, q string, evs []event, err error) map[string]string {
	var b strings.Builder
	fmt.Fprintf(&b, "root spelling : %q\nroot (model)  : %s\nworking dir   : %s\noperation     : %s\npath          : %q\n", w.rootSpelling, locString(w.root), locString(w.cwd), op, p)
	if q != "" {
		fmt.Fprintf(&b, "other path    : %q\n", q)
	}
	fmt.Fprintf(&b, "wrapper error : %v\nunderlying calls:\n", err)
	for _, e := range evs {
		fmt.Fprintf(&b, "  %s(%s=%q) -> location %s, inside root: %v, err: %v\n", e.Op, e.Arg, e.Path, locString(absLoc(w.cwd, e.Path)), within(w.root, absLoc(w.cwd, e.Path)), e.Err)
	}
	fmt.Fprintf(&b, "\nreproduce: fs := syslutil.NewChrootFs(<recording afero.Fs over afero.NewMemMapFs()>, %q); %s\n", w.rootSpelling, callText(op, p, q))
	return map[string]string{"escape.txt": b.String()}
}

// driveOne runs one wrapper operation with spelling p (q = the second path, "" if none) and
// lets the model judge everything that reached the recorder.
func (w *world) driveOne(a *acc, op *opA, p, q string, tokenSeed string) {
	w.rec.take()
	var f afero.File
	var fi os.FileInfo
	var err error
	pi := fw.Guard(func() { f, fi, err = op.run(w, p, q) })
	evs := w.rec.take()
	a.wrapper++
	a.perOp[op.name]++
	if pi != nil {
		a.violate(fw.CrashSig("panic", pi.Value, pi.Stack), fmt.Sprintf("%s(%q) on a chroot at %q panicked: %s", op.name, p, w.rootSpelling, pi.Value),
			map[string]string{"stack.txt": pi.Stack, "input.txt": fmt.Sprintf("root=%q op=%s path=%q other=%q", w.rootSpelling, op.name, p, q)})
		w.populate()
		return
	}
	// 1. confinement: nothing outside the root may be reached, whatever the spelling
	anyInside := false
	for _, e := range evs {
		loc := absLoc(w.cwd, e.Path)
		if within(w.root, loc) {
			a.evInside++
			anyInside = true
			continue
		}
		a.evOutside++
		a.violate("escape|"+e.Op+"|"+e.Arg,
			fmt.Sprintf("%s on a filesystem confined at %q reached the underlying filesystem with %s(%s=%q), which is outside the root (path given: %q%s)",
				op.name, w.rootSpelling, e.Op, e.Arg, e.Path, p, other(q)),
			describe(w, op.name, p, q, evs, err))
	}
	// 2. classification of the driven spelling(s)
	loc, cl := resolveIn(w.root, nil, p)
	a.cls[cl]++
	strict := cl == clStrict
	var qloc []string
	if op.args == 2 {
		var qcl int
		qloc, qcl = resolveIn(w.root, nil, q)
		strict = strict && qcl == clStrict
	}
	if !strict {
		if len(evs) == 0 {
			a.rejected++
		} else if anyInside {
			a.clamped++
		}
	} else if op.under != "" {
		// 3. an inside spelling must reach the underlying filesystem, at the location the model computes
		var hit []event
		for _, e := range evs {
			if e.Op == op.under {
				hit = append(hit, e)
			}
		}
		if len(hit) == 0 {
			a.violate("reject-inside|"+op.name, fmt.Sprintf("%s(%q%s) stays inside the root %q (model location %s) but never reached the underlying filesystem; wrapper error: %v",
				op.name, p, other(q), w.rootSpelling, locString(loc), err), describe(w, op.name, p, q, evs, err))
		}
		for _, e := range hit {
			want := loc
			if op.args == 2 {
				// Rename(old): p is the old name; Rename(new): p is the new name
				pIsOld := op.name != "Rename(new)"
				if (e.Arg == "oldname") != pIsOld {
					want = qloc
				}
			}
			a.targets++
			if got := absLoc(w.cwd, e.Path); !sameLoc(got, want) {
				a.violate("wrong-target|"+e.Op+"|"+e.Arg, fmt.Sprintf("%s(%q%s) under root %q reached %s but the spelling denotes %s",
					op.name, p, other(q), w.rootSpelling, locString(got), locString(want)), describe(w, op.name, p, q, evs, err))
			}
			if e.Err == nil && err != nil && !strings.HasPrefix(op.name, "afero.") {
				a.violate("inside-op-fails|"+op.name, fmt.Sprintf("%s(%q) under root %q: the underlying call succeeded but the wrapper returned %v", op.name, p, w.rootSpelling, err),
					describe(w, op.name, p, q, evs, err))
			}
		}
		// 4. same file: reading returns the content the model says lives at that location
		ls := locString(loc)
		switch op.name {
		case "Open", "OpenFile(read)":
			if want, ok := w.files[ls]; ok {
				a.reads++
				got, rerr := readAllFile(f, err)
				if rerr != nil || got != want {
					a.violate("wrong-content|"+op.name, fmt.Sprintf("%s(%q) under root %q should read %s (%q) but gave %q, err %v", op.name, p, w.rootSpelling, ls, want, got, rerr),
						describe(w, op.name, p, q, evs, err))
				}
			} else if w.dirs[ls] {
				a.reads++
				ok := false
				if err == nil && f != nil {
					if st, serr := f.Stat(); serr == nil && st.IsDir() {
						ok = true
					}
				}
				if !ok {
					a.violate("wrong-content|"+op.name, fmt.Sprintf("%s(%q) under root %q should open directory %s; err %v", op.name, p, w.rootSpelling, ls, err),
						describe(w, op.name, p, q, evs, err))
				}
			}
		case "Stat":
			if want, ok := w.files[ls]; ok {
				a.reads++
				if err != nil || fi == nil || fi.IsDir() || fi.Size() != int64(len(want)) {
					a.violate("wrong-content|Stat", fmt.Sprintf("Stat(%q) under root %q should describe file %s of %d bytes; got %v, err %v", p, w.rootSpelling, ls, len(want), fiString(fi), err),
						describe(w, op.name, p, q, evs, err))
				}
			} else if w.dirs[ls] {
				a.reads++
				if err != nil || fi == nil || !fi.IsDir() {
					a.violate("wrong-content|Stat", fmt.Sprintf("Stat(%q) under root %q should describe directory %s; got %v, err %v", p, w.rootSpelling, ls, fiString(fi), err),
						describe(w, op.name, p, q, evs, err))
				}
			}
		case "Create", "OpenFile(write)":
			if err == nil && f != nil {
				w.writeThenRead(a, op, f, p, loc, tokenSeed)
				f = nil
			}
		}
	}
	if f != nil {
		_ = f.Close()
	}
	if w.rec.isDirty() {
		w.populate()
	}
}

// callText renders the driven call as Go source.
func callText(op, p, q string) string {
	switch op {
	case "Rename(old)", "Rename(both)":
		return fmt.Sprintf("fs.Rename(%q, %q)", p, q)
	case "Rename(new)":
		return fmt.Sprintf("fs.Rename(%q, %q)", q, p)
	case "OpenFile(read)":
		return fmt.Sprintf("fs.OpenFile(%q, os.O_RDONLY, 0)", p)
	case "OpenFile(write)":
		return fmt.Sprintf("fs.OpenFile(%q, os.O_RDWR|os.O_CREATE|os.O_TRUNC, 0o644)", p)
	case "Mkdir", "MkdirAll":
		return fmt.Sprintf("fs.%s(%q, 0o755)", op, p)
	case "Chmod":
		return fmt.Sprintf("fs.Chmod(%q, 0o600)", p)
	case "Chown":
		return fmt.Sprintf("fs.Chown(%q, 1, 1)", p)
	case "Chtimes":
		return fmt.Sprintf("fs.Chtimes(%q, t, t)", p)
	}
	if strings.HasPrefix(op, "afero.") {
		return fmt.Sprintf("%s(fs, %q, ...)", op, p)
	}
	return fmt.Sprintf("fs.%s(%q)", op, p)
}

func other(q string) string {
	if q == "" {
		return ""
	}
	return fmt.Sprintf(", other path %q", q)
}

func fiString(fi os.FileInfo) string {
	if fi == nil {
		return "<nil>"
	}
	return fmt.Sprintf("{name %q dir %v size %d}", fi.Name(), fi.IsDir(), fi.Size())
}

func readAllFile(f afero.File, err error) (string, error) {
	if err != nil {
		return "", err
	}
	if f == nil {
		return "", fmt.Errorf("nil file")
	}
	b, rerr := io.ReadAll(f)
	return string(b), rerr
}

// writeThenRead writes a token through the handle obtained via spelling p and reads it back
// (a) straight from the in-memory filesystem at the model location, (b) through the wrapper
// with the canonical relative and absolute spellings and (c) with a deliberately different
// spelling of the same location.
func (w *world) writeThenRead(a *acc, op *opA, f afero.File, p string, loc []string, tokenSeed string) {
	token := "C18|written|" + tokenSeed + "|" + p
	_, werr := f.Write([]byte(token))
	_ = f.Close()
	a.wr++
	bad := func(how, got string, err error) {
		a.violate("write-read-disagree|"+op.name, fmt.Sprintf("wrote through %s(%q) under root %q (model location %s) but reading %s gave %q, err %v (write err %v)",
			op.name, p, w.rootSpelling, locString(loc), how, got, err, werr), map[string]string{"input.txt": fmt.Sprintf("root=%q op=%s path=%q model=%s", w.rootSpelling, op.name, p, locString(loc))})
	}
	b, err := afero.ReadFile(w.mem, locString(loc))
	if err != nil || string(b) != token {
		bad("the underlying filesystem at the model location", string(b), err)
		return
	}
	rel := relString(w.root, loc)
	alt := "./tmp/..//" + strings.Join(loc[len(w.root):], "/./") + "/."
	for _, sp := range []string{rel, "/" + rel, alt} {
		w.rec.take()
		b, err := afero.ReadFile(w.ch, sp)
		w.rec.take()
		a.wrapper++
		a.perOp["afero.ReadFile"]++
		if err != nil || string(b) != token {
			bad(fmt.Sprintf("through the wrapper with spelling %q", sp), string(b), err)
			return
		}
	}
}

// runEnumA drives sequences [lo,hi) of the enumeration under one root with every operation,
// in relative and absolute form.
func runEnumA(ctx *fw.Ctx, res *fw.Result, rootSpelling string, lo, hi int) {
	w := newWorld(rootSpelling)
	a := newAcc(res)
	_ = w.ch.Name()
	for j := lo; j < hi; j++ {
		segs := seqAt(alphabet, j)
		rel := strings.Join(segs, "/")
		for form := 0; form < 2; form++ {
			p := rel
			if form == 1 {
				p = "/" + rel
			}
			for k := range opsA {
				op := &opsA[k]
				q := ""
				switch op.name {
				case "Rename(old)":
					q = renameFixedNew
				case "Rename(new)":
					q = renameFixedOld
				}
				w.driveOne(a, op, p, q, fmt.Sprint(j))
			}
		}
	}
	res.Add("roots", rootSpelling+" => "+locString(w.root))
	res.Count("a_underlying_calls", w.rec.total)
	res.Count("a_fs_resets", w.resets)
	res.Count("a_memfs_panics_absorbed", w.rec.memPanics)
	res.Count("a_renames_recorded_not_forwarded", w.rec.renamesNotForwarded)
	for k, n := range w.rec.fileOp {
		res.Count("handle:"+k, n)
	}
	res.Count("a_enumerated_spellings", 2*(hi-lo))
	a.flush("a_")
}

// extended alphabet of the random cases: names that look like dot segments, the names of
// the root's own segments and a sibling whose name has the root's name as a prefix
func extAlphabet(w *world) []string {
	ext := []string{"", ".", "..", "a", "b.c", "d e", "..x", "...", "x..", ".a", "tmp", "..", "..", "a", "deep.txt", "outside", "secret", "renamed"}
	ext = append(ext, w.root...)
	if n := len(w.root); n > 0 {
		ext = append(ext, w.root[n-1]+"x", w.root[n-1]+"x")
	}
	return ext
}

func randSpelling(r *fw.Rand, w *world, ext []string) string {
	var b strings.Builder
	switch r.Intn(8) {
	case 0, 1:
		b.WriteString("/")
	case 2:
		b.WriteString("//")
	case 3:
		b.WriteString("./")
	case 4:
		b.WriteString("../")
	}
	n := r.Range(6, 16)
	// sometimes: climb exactly to the filesystem root, then re-enter (or nearly re-enter) the root by name
	if r.Chance(1, 4) {
		up := len(w.root) + r.Intn(2)
		for i := 0; i < up; i++ {
			b.WriteString("../")
		}
		k := len(w.root)
		if k > 0 && r.Chance(1, 2) {
			k -= r.Intn(2)
		}
		for i := 0; i < k; i++ {
			b.WriteString(w.root[i])
			if i == k-1 && r.Chance(1, 3) {
				b.WriteString("x")
			}
			b.WriteString("/")
		}
		n = r.Range(1, 5)
	}
	for i := 0; i < n; i++ {
		if i > 0 {
			switch r.Intn(10) {
			case 0:
				b.WriteString("//")
			case 1:
				b.WriteString("///")
			default:
				b.WriteString("/")
			}
		}
		b.WriteString(r.Pick(ext))
	}
	switch r.Intn(8) {
	case 0:
		b.WriteString("/")
	case 1:
		b.WriteString("/.")
	case 2:
		b.WriteString("/..")
	case 3:
		b.WriteString("//")
	}
	return b.String()
}

// runRandA: random longer spellings, random (also two-sided) renames, helper functions.
func runRandA(ctx *fw.Ctx, res *fw.Result, r *fw.Rand, n int) {
	var rootSpelling string
	if r.Chance(1, 2) {
		rootSpelling = r.Pick(rootsA)
	} else {
		names := []string{"r", "s", "t", "a", "b.c", "d e", "..x", "tmp"}
		d := r.Intn(4)
		rootSpelling = "/"
		for i := 0; i < d; i++ {
			if i > 0 {
				rootSpelling += "/"
			}
			rootSpelling += r.Pick(names)
		}
	}
	w := newWorld(rootSpelling)
	a := newAcc(res)
	ext := extAlphabet(w)
	all := append(append([]opA{}, opsA...), opsAHelpers...)
	all = append(all, opA{"Rename(both)", "Rename", 2, func(w *world, p, q string) (afero.File, os.FileInfo, error) { return nil, nil, w.ch.Rename(p, q) }})
	for i := 0; i < n; i++ {
		p := randSpelling(r, w, ext)
		for k := range all {
			op := &all[k]
			q := ""
			switch op.name {
			case "Rename(old)":
				q = renameFixedNew
			case "Rename(new)":
				q = renameFixedOld
			case "Rename(both)":
				q = randSpelling(r, w, ext)
			}
			w.driveOne(a, op, p, q, fmt.Sprint(i))
		}
	}
	res.Add("roots", rootSpelling+" => "+locString(w.root))
	res.Count("a_underlying_calls", w.rec.total)
	res.Count("a_fs_resets", w.resets)
	res.Count("a_memfs_panics_absorbed", w.rec.memPanics)
	res.Count("a_renames_recorded_not_forwarded", w.rec.renamesNotForwarded)
	for k, n := range w.rec.fileOp {
		res.Count("handle:"+k, n)
	}
	res.Count("a_random_spellings", n)
	a.flush("a_")
}
