package c18

import (
	"bytes"
	"fmt"
	"os"
	"os/exec"
	"path/filepath"
	"regexp"
	"sort"
	"strings"
	"syscall"
	"time"

	"verif/fw"
)

// ---------------------------------------------------------------------------------------
// Monitor C: the real command line under strace on real directories. The set of paths
// outside the root that a run with an escaping import (or module argument) touches must be
// contained in what benign baseline runs touch; nothing in the surroundings of the root
// (decoys, parents' siblings) may be touched at all.
// ---------------------------------------------------------------------------------------

func syslBin(ctx *fw.Ctx) string {
	if v := os.Getenv("VERIF_SYSL"); v != "" {
		return v
	}
	return filepath.Join(ctx.BinDir, "sysl")
}

// ensureSysl builds bin/sysl from the repository under test when it is missing.
func ensureSysl(ctx *fw.Ctx) error {
	bin := syslBin(ctx)
	if st, err := os.Stat(bin); err == nil && !st.IsDir() {
		return nil
	}
	if os.Getenv("VERIF_SYSL") != "" {
		return fmt.Errorf("VERIF_SYSL=%s does not exist", bin)
	}
	_ = os.MkdirAll(ctx.BinDir, 0o755)
	lock, err := os.OpenFile(filepath.Join(ctx.BinDir, ".buildlock"), os.O_CREATE|os.O_RDWR, 0o644)
	if err != nil {
		return err
	}
	defer lock.Close()
	if err := syscall.Flock(int(lock.Fd()), syscall.LOCK_EX); err != nil {
		return err
	}
	defer syscall.Flock(int(lock.Fd()), syscall.LOCK_UN)
	if st, err := os.Stat(bin); err == nil && !st.IsDir() {
		return nil
	}
	cmd := exec.Command("go", "build", "-tags", "verif", "-o", bin, "./cmd/sysl")
	cmd.Dir = ctx.Repo
	cmd.Env = append(os.Environ(), "GOFLAGS=-mod=mod", "GOPROXY=off", "GOSUMDB=off", "GOTOOLCHAIN=local", "CGO_ENABLED=1")
	if out, err := cmd.CombinedOutput(); err != nil {
		return fmt.Errorf("building sysl: %v: %s", err, clipS(string(out), 500))
	}
	return nil
}

func clipS(s string, n int) string {
	if len(s) > n {
		return s[:n]
	}
	return s
}

type touched struct {
	sys  string
	path string // as given to the system call
	loc  []string
}

var straceLine = regexp.MustCompile(`^\d+\s+(\w+)\((.*)$`)
var quoted = regexp.MustCompile(`"((?:[^"\\]|\\.)*)"`)
var dirfdRe = regexp.MustCompile(`^(AT_FDCWD|\d+)(?:<([^>]*)>)?,`)
var pidRe = regexp.MustCompile(`^/proc/\d+/`)
var taskRe = regexp.MustCompile(`/task/\d+/`)

// parseStrace extracts every path argument of the file-related system calls in an
// `strace -f -y -e trace=%file` log. cwd is the working directory of the traced process.
func parseStrace(log string, cwd []string) []touched {
	var out []touched
	for _, line := range strings.Split(log, "\n") {
		m := straceLine.FindStringSubmatch(line)
		if m == nil {
			continue
		}
		sys, args := m[1], m[2]
		base := cwd
		if d := dirfdRe.FindStringSubmatch(args); d != nil && d[1] != "AT_FDCWD" && d[2] != "" {
			base = absLoc(nil, d[2])
		}
		if i := strings.LastIndex(args, ") = "); i >= 0 {
			args = args[:i]
		}
		qs := quoted.FindAllStringSubmatch(args, -1)
		if sys == "execve" && len(qs) > 1 {
			qs = qs[:1] // the rest is argv
		}
		for _, q := range qs {
			p := q[1]
			if p == "" {
				continue
			}
			var loc []string
			if isAbsSpelling(p) {
				loc = absLoc(nil, p)
			} else {
				loc, _ = walk(base, segsOf(p), 0)
			}
			out = append(out, touched{sys: sys, path: p, loc: loc})
		}
	}
	return out
}

func normOutside(l []string) string {
	s := locString(l)
	s = pidRe.ReplaceAllString(s, "/proc/PID/")
	s = taskRe.ReplaceAllString(s, "/task/TID/")
	return s
}

// runtimeNoise: areas the Go runtime, the dynamic loader and the C library read on their own
// (not always in every run: thread start-up reads /sys and /proc lazily). A path there that
// no baseline touched is counted, not reported.
func runtimeNoise(loc []string) bool {
	if len(loc) == 0 {
		return true
	}
	switch loc[0] {
	case "proc", "sys", "dev", "lib", "lib64":
		return true
	case "etc":
		return true
	case "usr":
		return len(loc) > 1 && (loc[1] == "lib" || loc[1] == "lib64" || loc[1] == "share")
	}
	return false
}

type cRun struct {
	name    string
	kind    string // baseline | escape | inside
	module  string // module argument
	imp     string // import written into the module ("" = none)
	impDir  []string
	relRoot bool
	wantApp string // for kind inside: application that must be in the output
}

type cLayout struct {
	base, root, out string
	rootLoc         []string
	baseLoc         []string
	allowed         [][]string // locations outside the root that the command line itself names (output)
}

func writeFileP(path, content string) error {
	if err := os.MkdirAll(filepath.Dir(path), 0o755); err != nil {
		return err
	}
	return os.WriteFile(path, []byte(content), 0o644)
}

// runStrace performs one traced run and returns what it touched.
func runStrace(ctx *fw.Ctx, lay *cLayout, r cRun, idx int) (ts []touched, exit int, output string, stderr string, err error) {
	if r.imp != "" {
		mdir := filepath.Join(append([]string{lay.root}, r.impDir...)...)
		if e := writeFileP(filepath.Join(mdir, "m.sysl"), "import "+r.imp+"\n\nMain:\n    Ep:\n        ...\n"); e != nil {
			return nil, 0, "", "", e
		}
	}
	_ = os.Remove(lay.out)
	logf := filepath.Join(lay.base, fmt.Sprintf("strace-%d.log", idx))
	rootArg := lay.root
	cwd := lay.base
	if r.relRoot {
		rel := strings.TrimPrefix(lay.root, lay.base+"/")
		rootArg = rel
	}
	args := []string{"-f", "-y", "-s", "4096", "-e", "trace=%file", "-o", logf,
		syslBin(ctx), "pb", "--root", rootArg, "--cache-dir", filepath.Join(lay.base, "gitcache"), "-o", lay.out, r.module}
	cmd := exec.Command("strace", args...)
	cmd.Dir = cwd
	cmd.Env = append(os.Environ(), "HOME="+filepath.Join(lay.base, "home"), "SYSL_TOKENS=", "SYSL_SSH_KEYS=")
	var eb bytes.Buffer
	cmd.Stderr = &eb
	cmd.Stdout = &eb
	done := make(chan error, 1)
	if e := cmd.Start(); e != nil {
		return nil, 0, "", "", e
	}
	go func() { done <- cmd.Wait() }()
	select {
	case e := <-done:
		if ee, ok := e.(*exec.ExitError); ok {
			exit = ee.ExitCode()
		} else if e != nil {
			return nil, 0, "", eb.String(), e
		}
	case <-time.After(90 * time.Second):
		_ = cmd.Process.Kill()
		return nil, 0, "", eb.String(), fmt.Errorf("strace run did not finish in 90 s")
	}
	lb, e := os.ReadFile(logf)
	if e != nil {
		return nil, exit, "", eb.String(), fmt.Errorf("no strace log: %v (%s)", e, clipS(eb.String(), 300))
	}
	ob, _ := os.ReadFile(lay.out)
	return parseStrace(string(lb), absLoc(nil, cwd)), exit, string(ob), eb.String(), nil
}

// runC performs one group of traced runs: two baselines, then escape and inside spellings.
func runC(ctx *fw.Ctx, res *fw.Result, r *fw.Rand, nTests int) {
	if _, err := exec.LookPath("strace"); err != nil {
		res.Verdict = "skip"
		res.Note = "strace is not installed"
		return
	}
	if err := ensureSysl(ctx); err != nil {
		res.Verdict = "inconclusive"
		res.Note = err.Error()
		return
	}
	base, err := filepath.EvalSymlinks(ctx.Dir)
	if err != nil {
		base = ctx.Dir
	}
	base = filepath.Join(base, "c")
	depth := r.Intn(4) // project root 1..4 levels below the case directory
	rootNames := []string{"proj", "s", "t", "u v"}
	rootRel := rootNames[:depth+1]
	lay := &cLayout{base: base, root: filepath.Join(append([]string{base}, rootRel...)...), out: filepath.Join(base, "out", "out.textpb")}
	lay.rootLoc = absLoc(nil, lay.root)
	lay.baseLoc = absLoc(nil, lay.base)
	lay.allowed = [][]string{absLoc(nil, filepath.Dir(lay.out)), absLoc(nil, filepath.Join(base, "gitcache")), absLoc(nil, filepath.Join(base, "home"))}
	spec := func(app string) string { return app + ":\n    Ep:\n        ...\n" }
	files := map[string]string{
		filepath.Join(lay.root, "t.sysl"):               spec("TgtRoot"),
		filepath.Join(lay.root, "a", "t.sysl"):          spec("TgtA"),
		filepath.Join(lay.root, "a", "b.c", "t.sysl"):   spec("TgtAB"),
		filepath.Join(base, "outside", "secret.sysl"):   spec("Decoy"),
		filepath.Join(base, "outside", "t.sysl"):        spec("Decoy"),
		filepath.Join(base, "t.sysl"):                   spec("Decoy"),
		filepath.Join(lay.root+"x", "t.sysl"):           spec("Decoy"),
		filepath.Join(filepath.Dir(lay.root), "t.sysl"): spec("Decoy"),
		filepath.Join(base, "out", ".keep"):             "",
		filepath.Join(base, "home", ".keep"):            "",
	}
	for p, c := range files {
		if err := writeFileP(p, c); err != nil {
			res.Verdict = "inconclusive"
			res.Note = err.Error()
			return
		}
	}
	importerDirsC := [][]string{{}, {"a"}, {"a", "b.c"}}
	modOf := func(d []string) string { return strings.Join(append(append([]string{}, d...), "m.sysl"), "/") }
	up := func(n int) string { return strings.Repeat("../", n) }
	rootName := rootRel[len(rootRel)-1]
	relRoot := r.Chance(1, 3)

	var runs []cRun
	runs = append(runs,
		cRun{name: "baseline-ok", kind: "baseline", module: "m.sysl", imp: "a/t", wantApp: "TgtA", relRoot: relRoot},
		cRun{name: "baseline-missing", kind: "baseline", module: "m.sysl", imp: "a/nonexistent", relRoot: relRoot},
	)
	// candidate escapes (the lexical model confirms each below) and inside spellings
	var cands []cRun
	for _, d := range importerDirsC {
		toBase := len(d) + len(rootRel)
		if !strings.Contains(rootName, " ") {
			cands = append(cands, cRun{kind: "escape", module: modOf(d), impDir: d, imp: up(len(d)+1) + rootName + "x/t"})
		}
		cands = append(cands,
			cRun{kind: "escape", module: modOf(d), impDir: d, imp: up(toBase) + "outside/secret"},
			cRun{kind: "escape", module: modOf(d), impDir: d, imp: up(toBase) + "outside/secret.sysl"},
			cRun{kind: "escape", module: modOf(d), impDir: d, imp: up(toBase) + "t"},
			cRun{kind: "escape", module: modOf(d), impDir: d, imp: up(len(d)+1) + "t.sysl"},
			cRun{kind: "escape", module: modOf(d), impDir: d, imp: "a/.././" + up(toBase) + "outside//secret"},
			cRun{kind: "escape", module: modOf(d), impDir: d, imp: "/" + up(len(rootRel)) + "outside/secret"},
			cRun{kind: "escape", module: modOf(d), impDir: d, imp: "/../t"},
			cRun{kind: "escape", module: modOf(d), impDir: d, imp: "/a/../../t.sysl"},
			cRun{kind: "inside", module: modOf(d), impDir: d, imp: "/a/b.c/t", wantApp: "TgtAB"},
			cRun{kind: "inside", module: modOf(d), impDir: d, imp: "/a//b.c/../t.sysl", wantApp: "TgtA"},
			cRun{kind: "inside", module: modOf(d), impDir: d, imp: "./" + up(len(d)) + "a/./t", wantApp: "TgtA"},
			cRun{kind: "inside", module: modOf(d), impDir: d, imp: up(len(d)) + "t", wantApp: "TgtRoot"},
		)
		if !strings.ContainsAny(base, " \t:\\@") {
			// the decoy's real absolute path: under a root it means root/<that path>, which does not exist
			cands = append(cands, cRun{kind: "escape", module: modOf(d), impDir: d, imp: filepath.Join(base, "outside", "secret")})
		}
	}
	// module arguments that try to leave the root
	cands = append(cands,
		cRun{kind: "escape", module: up(len(rootRel)) + "outside/secret.sysl"},
		cRun{kind: "escape", module: "../t.sysl"},
		cRun{kind: "escape", module: "a/../../t"},
		cRun{kind: "escape", module: filepath.Join(base, "outside", "secret.sysl")},
		cRun{kind: "escape", module: "../" + rootName + "x/t.sysl"},
		cRun{kind: "inside", module: "a/../a/./b.c//t.sysl", wantApp: "TgtAB"},
		cRun{kind: "inside", module: "/a/t", wantApp: "TgtA"},
	)
	perm := r.Perm(len(cands))
	for _, k := range perm {
		if len(runs) >= nTests+2 {
			break
		}
		c := cands[k]
		c.relRoot = relRoot
		// the model must agree with the intended kind (escape = outside or absolute-under-root that does not exist)
		sp := c.imp
		b := c.impDir
		if sp == "" {
			sp = c.module
			b = nil
		}
		_, cl := resolveIn(lay.rootLoc, b, withExt(sp))
		if c.kind == "inside" && cl != clStrict {
			continue
		}
		c.name = fmt.Sprintf("%s import=%q module=%q", c.kind, c.imp, c.module)
		runs = append(runs, c)
	}

	baseline := map[string]bool{}
	var violN = map[string]int{}
	viol := map[string]*fw.Violation{}
	note := func(sig, msg string, files map[string]string) {
		violN[sig]++
		if viol[sig] == nil {
			viol[sig] = &fw.Violation{Sig: sig, Msg: msg, Files: files}
		}
	}
	nRuns, nOutsideCompared, nInsideTouched, nEscapeRuns, nInsideRuns, nNoise := 0, 0, 0, 0, 0, 0
	for idx, run := range runs {
		ts, exit, output, stderr, err := runStrace(ctx, lay, run, idx)
		if err != nil {
			res.Verdict = "inconclusive"
			res.Note = "strace unusable: " + err.Error()
			return
		}
		nRuns++
		var logb strings.Builder
		for _, t := range ts {
			fmt.Fprintf(&logb, "%s %q -> %s\n", t.sys, t.path, locString(t.loc))
		}
		art := map[string]string{
			"run.txt": fmt.Sprintf("root=%s (relative --root: %v)\ncwd=%s\nmodule argument=%q\nimport in %s/m.sysl: %q\nexit=%d\nstderr=%s\noutput=%s\n",
				lay.root, run.relRoot, lay.base, run.module, strings.Join(run.impDir, "/"), run.imp, exit, clipS(stderr, 2000), clipS(output, 2000)),
			"touched.txt": clipS(logb.String(), 200000),
		}
		sawModule := false
		for _, t := range ts {
			if within(lay.rootLoc, t.loc) {
				nInsideTouched++
				sawModule = true
				continue
			}
			key := normOutside(t.loc)
			if run.kind == "baseline" {
				baseline[key] = true
				continue
			}
			nOutsideCompared++
			// (1) the surroundings of the root: never, baseline or not
			if within(lay.baseLoc, t.loc) && !sameLoc(lay.baseLoc, t.loc) {
				ok := false
				for _, al := range lay.allowed {
					if within(al, t.loc) {
						ok = true
					}
				}
				// ancestors of the root are traversed by name in every path; touching the directory itself is benign only if the baseline does too
				if !ok && !baseline[key] {
					note("strace-escape|"+run.kind+"|"+t.sys, fmt.Sprintf("`sysl pb --root %s` with %s made the system call %s(%q), which is outside the root (and not made by the baseline runs)",
						lay.root, run.name, t.sys, t.path), art)
				}
				continue
			}
			// (2) anything else outside the root must also be touched by a baseline run
			if !baseline[key] {
				if runtimeNoise(t.loc) {
					nNoise++
					continue
				}
				note("strace-extra-outside|"+run.kind+"|"+t.sys, fmt.Sprintf("`sysl pb --root %s` with %s touched %s (%s), which no baseline run touches", lay.root, run.name, key, t.sys), art)
			}
		}
		if !sawModule && run.kind != "escape" {
			note("strace-blind", "the trace of a run shows no access inside the root: the monitor is not observing the loader", art)
		}
		switch run.kind {
		case "baseline":
			if run.wantApp != "" && (exit != 0 || !strings.Contains(output, run.wantApp)) {
				res.Verdict = "inconclusive"
				res.Note = fmt.Sprintf("baseline run failed (exit %d): %s", exit, clipS(stderr, 300))
				res.Violations = nil
				return
			}
		case "escape":
			nEscapeRuns++
			if strings.Contains(output, "Decoy") {
				note("strace-decoy-loaded", fmt.Sprintf("`sysl pb --root %s` with %s produced output containing the decoy application that lives outside the root", lay.root, run.name), art)
			}
		case "inside":
			nInsideRuns++
			if exit != 0 || !strings.Contains(output, run.wantApp) {
				note("cli-inside-broken", fmt.Sprintf("`sysl pb --root %s` with %s should compile %s but exited %d", lay.root, run.name, run.wantApp, exit), art)
			}
		}
	}
	sigs := make([]string, 0, len(viol))
	for s := range viol {
		sigs = append(sigs, s)
	}
	sort.Strings(sigs)
	for _, s := range sigs {
		res.Violate(s, fmt.Sprintf("%s (%d occurrence(s))", viol[s].Msg, violN[s]), viol[s].Files)
	}
	res.Count("c_strace_runs", nRuns)
	res.Count("c_escape_runs", nEscapeRuns)
	res.Count("c_inside_runs", nInsideRuns)
	res.Count("c_outside_paths_compared", nOutsideCompared)
	res.Count("c_baseline_outside_paths", len(baseline))
	res.Count("c_runtime_noise_ignored", nNoise)
	res.Count("c_inside_paths_touched", nInsideTouched)
	res.Add("ops", "sysl pb --root (strace)")
	res.Add("roots", fmt.Sprintf("real directory of depth %d below the case directory (relative --root: %v)", depth+1, relRoot))
}
