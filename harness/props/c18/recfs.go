package c18

import (
	"fmt"
	"os"
	"sync"
	"time"

	"github.com/spf13/afero"
)

// event is one call that reached the filesystem underneath the confinement wrapper.
type event struct {
	Op   string // method name
	Arg  string // which argument carried the path (name | oldname | newname)
	Path string // the path exactly as received
	Err  error  // what the underlying filesystem answered
}

// recFs is a recording afero.Fs: every method call is logged with every path argument
// before it is forwarded to the in-memory filesystem. It also implements the optional
// afero interfaces (Lstater, Symlinker, LinkReader) so that a wrapper that used them would
// be seen, and wraps returned files so that handle-level calls are counted.
type recFs struct {
	mu     sync.Mutex
	inner  afero.Fs
	events []event
	dirty  bool           // a content/structure-changing call was forwarded since the last reset
	fileOp map[string]int // handle-level call counts
	total  int
	// calls not forwarded / panics of the in-memory filesystem (trusted-base defects, not verdicts)
	memPanics, renamesNotForwarded int
	perOp                          map[string]int
}

func newRecFs(inner afero.Fs) *recFs {
	return &recFs{inner: inner, fileOp: map[string]int{}, perOp: map[string]int{}}
}

func (r *recFs) log(op, arg, path string, mut bool) int {
	r.mu.Lock()
	defer r.mu.Unlock()
	r.events = append(r.events, event{Op: op, Arg: arg, Path: path})
	r.total++
	r.perOp[op]++
	if mut {
		r.dirty = true
	}
	return len(r.events) - 1
}

func (r *recFs) setErr(i int, err error) {
	r.mu.Lock()
	if i < len(r.events) {
		r.events[i].Err = err
	}
	r.mu.Unlock()
}

// take returns the events since the last take and clears the log.
func (r *recFs) take() []event {
	r.mu.Lock()
	defer r.mu.Unlock()
	ev := r.events
	r.events = nil
	return ev
}

func (r *recFs) isDirty() bool { r.mu.Lock(); defer r.mu.Unlock(); return r.dirty }

func (r *recFs) swap(inner afero.Fs) {
	r.mu.Lock()
	r.inner = inner
	r.dirty = false
	r.events = nil
	r.mu.Unlock()
}

func (r *recFs) fs() afero.Fs { r.mu.Lock(); defer r.mu.Unlock(); return r.inner }

func (r *recFs) Name() string { return "recFs" }

// guard isolates the verdicts from defects of the in-memory filesystem itself (afero's
// MemMapFs panics on some directory renames): a panic below the recorder becomes an error
// of the underlying call and forces a fresh filesystem.
func (r *recFs) guard(f func() error) (err error) {
	defer func() {
		if x := recover(); x != nil {
			r.mu.Lock()
			r.dirty = true
			r.memPanics++
			r.mu.Unlock()
			err = fmt.Errorf("recFs: the in-memory filesystem panicked: %v", x)
		}
	}()
	return f()
}

func (r *recFs) wrapFile(f afero.File, err error, write bool) (afero.File, error) {
	if f == nil || err != nil {
		return f, err
	}
	return &recFile{File: f, r: r, write: write}, err
}

func (r *recFs) Create(name string) (f afero.File, err error) {
	i := r.log("Create", "name", name, true)
	err = r.guard(func() (e error) { f, e = r.fs().Create(name); return })
	r.setErr(i, err)
	return r.wrapFile(f, err, true)
}
func (r *recFs) Mkdir(name string, perm os.FileMode) error {
	i := r.log("Mkdir", "name", name, true)
	err := r.guard(func() error { return r.fs().Mkdir(name, perm) })
	r.setErr(i, err)
	return err
}
func (r *recFs) MkdirAll(path string, perm os.FileMode) error {
	i := r.log("MkdirAll", "name", path, true)
	err := r.guard(func() error { return r.fs().MkdirAll(path, perm) })
	r.setErr(i, err)
	return err
}
func (r *recFs) Open(name string) (f afero.File, err error) {
	i := r.log("Open", "name", name, false)
	err = r.guard(func() (e error) { f, e = r.fs().Open(name); return })
	r.setErr(i, err)
	return r.wrapFile(f, err, false)
}
func (r *recFs) OpenFile(name string, flag int, perm os.FileMode) (f afero.File, err error) {
	mut := flag&(os.O_WRONLY|os.O_RDWR|os.O_CREATE|os.O_TRUNC|os.O_APPEND) != 0
	i := r.log("OpenFile", "name", name, mut)
	err = r.guard(func() (e error) { f, e = r.fs().OpenFile(name, flag, perm); return })
	r.setErr(i, err)
	return r.wrapFile(f, err, mut)
}
func (r *recFs) Remove(name string) error {
	i := r.log("Remove", "name", name, true)
	err := r.guard(func() error { return r.fs().Remove(name) })
	r.setErr(i, err)
	return err
}
func (r *recFs) RemoveAll(path string) error {
	i := r.log("RemoveAll", "name", path, true)
	err := r.guard(func() error { return r.fs().RemoveAll(path) })
	r.setErr(i, err)
	return err
}

// Rename records both arguments. afero's MemMapFs corrupts its lock (a fatal error, not a
// panic) when a directory is renamed or when the new name lies below the old one, so only
// renames of an existing regular file to a location that is not below it are forwarded; the
// others are answered with an error after being recorded. The verdicts depend only on the
// recorded arguments.
func (r *recFs) Rename(oldname, newname string) error {
	i := r.log("Rename", "oldname", oldname, true)
	r.log("Rename", "newname", newname, true)
	var err error
	fi, serr := r.fs().Stat(oldname)
	ol, nl := absLoc(nil, oldname), absLoc(nil, newname)
	switch {
	case serr != nil:
		err = &os.LinkError{Op: "rename", Old: oldname, New: newname, Err: os.ErrNotExist}
	case fi.IsDir() || within(ol, nl) || !isAbsSpelling(oldname) || !isAbsSpelling(newname):
		r.mu.Lock()
		r.renamesNotForwarded++
		r.mu.Unlock()
		err = &os.LinkError{Op: "rename", Old: oldname, New: newname, Err: fmt.Errorf("recFs: not forwarded to the in-memory filesystem")}
	default:
		err = r.guard(func() error { return r.fs().Rename(oldname, newname) })
	}
	r.setErr(i, err)
	r.setErr(i+1, err)
	return err
}
func (r *recFs) Stat(name string) (fi os.FileInfo, err error) {
	i := r.log("Stat", "name", name, false)
	err = r.guard(func() (e error) { fi, e = r.fs().Stat(name); return })
	r.setErr(i, err)
	return fi, err
}
func (r *recFs) Chmod(name string, mode os.FileMode) error {
	i := r.log("Chmod", "name", name, false)
	err := r.guard(func() error { return r.fs().Chmod(name, mode) })
	r.setErr(i, err)
	return err
}
func (r *recFs) Chown(name string, uid, gid int) error {
	i := r.log("Chown", "name", name, false)
	err := r.guard(func() error { return r.fs().Chown(name, uid, gid) })
	r.setErr(i, err)
	return err
}
func (r *recFs) Chtimes(name string, atime, mtime time.Time) error {
	i := r.log("Chtimes", "name", name, false)
	err := r.guard(func() error { return r.fs().Chtimes(name, atime, mtime) })
	r.setErr(i, err)
	return err
}

// optional afero interfaces
func (r *recFs) LstatIfPossible(name string) (os.FileInfo, bool, error) {
	i := r.log("LstatIfPossible", "name", name, false)
	if l, ok := r.fs().(afero.Lstater); ok {
		fi, b, err := l.LstatIfPossible(name)
		r.setErr(i, err)
		return fi, b, err
	}
	fi, err := r.fs().Stat(name)
	r.setErr(i, err)
	return fi, false, err
}
func (r *recFs) SymlinkIfPossible(oldname, newname string) error {
	r.log("SymlinkIfPossible", "oldname", oldname, true)
	r.log("SymlinkIfPossible", "newname", newname, true)
	return &os.LinkError{Op: "symlink", Old: oldname, New: newname, Err: afero.ErrNoSymlink}
}
func (r *recFs) ReadlinkIfPossible(name string) (string, error) {
	r.log("ReadlinkIfPossible", "name", name, false)
	return "", &os.PathError{Op: "readlink", Path: name, Err: afero.ErrNoReadlink}
}

// recFile counts handle-level calls (none of afero.File's methods takes a path) and marks
// the filesystem dirty when the handle is written.
type recFile struct {
	afero.File
	r     *recFs
	write bool
}

func (f *recFile) note(op string, mut bool) {
	f.r.mu.Lock()
	f.r.fileOp[op]++
	if mut {
		f.r.dirty = true
	}
	f.r.mu.Unlock()
}

func (f *recFile) Read(p []byte) (int, error) { f.note("File.Read", false); return f.File.Read(p) }
func (f *recFile) ReadAt(p []byte, o int64) (int, error) {
	f.note("File.ReadAt", false)
	return f.File.ReadAt(p, o)
}
func (f *recFile) Write(p []byte) (int, error) { f.note("File.Write", true); return f.File.Write(p) }
func (f *recFile) WriteAt(p []byte, o int64) (int, error) {
	f.note("File.WriteAt", true)
	return f.File.WriteAt(p, o)
}
func (f *recFile) WriteString(s string) (int, error) {
	f.note("File.WriteString", true)
	return f.File.WriteString(s)
}
func (f *recFile) Truncate(n int64) error { f.note("File.Truncate", true); return f.File.Truncate(n) }
func (f *recFile) Readdir(n int) ([]os.FileInfo, error) {
	f.note("File.Readdir", false)
	return f.File.Readdir(n)
}
func (f *recFile) Readdirnames(n int) ([]string, error) {
	f.note("File.Readdirnames", false)
	return f.File.Readdirnames(n)
}
func (f *recFile) Stat() (os.FileInfo, error) { f.note("File.Stat", false); return f.File.Stat() }
func (f *recFile) Close() error               { f.note("File.Close", false); return f.File.Close() }
