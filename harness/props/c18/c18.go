// Package c18: file access never escapes the project root.
//
// Three monitors watch real executions:
//
//	A  a recording afero.Fs underneath syslutil.ChrootFs, every wrapper operation driven
//	   with every spelling over the property's segment alphabet (and random longer ones);
//	B  the same recorder underneath loader.LoadSyslModule, driven by real import statements
//	   and module arguments, with decoy specifications outside the root;
//	C  the real command line under strace on real directories.
//
// The oracle is a lexical path model (model.go) that shares no code with the implementation.
//
// Signatures: escape|<underlying method>|<argument> (A), reject-inside|<op>, wrong-target|…,
// wrong-content|<op>, write-read-disagree|<op>, inside-op-fails|<op> (A, inside spellings);
// loader-escape|<import|module>|<method>, loader-decoy-loaded|…, loader-inside-broken|… (B);
// strace-escape|…, strace-extra-outside|…, strace-decoy-loaded, cli-inside-broken (C).
//
// Known on the pinned tree: escape|Rename|newname — ChrootFs.Rename joins the new name under
// the root but never range-checks it:
//
//	syslutil.NewChrootFs(mem, "/r").Rename("a/b.c", "../outside/victim") // nil; reaches mem.Rename("/r/a/b.c", "/outside/victim")
//
// The check is not loosened for it; every other escape has a different signature.
package c18

import (
	"fmt"
	"sync"

	"verif/fw"
)

type prop struct{}

func init() { fw.Register(prop{}) }

func (prop) ID() string { return "C18" }

type caseSpec struct {
	kind   string // a-enum | a-rand | b-import | b-module | b-rand | c-strace
	root   string
	depth  int
	lo, hi int
	n      int
}

type tierPlan struct {
	nA, nImp, nMod int // maximal number of segments
	cases          []caseSpec
}

func chunks(total, size int, f func(lo, hi int)) {
	for lo := 0; lo < total; lo += size {
		hi := lo + size
		if hi > total {
			hi = total
		}
		f(lo, hi)
	}
}

func buildPlan(tier string) *tierPlan {
	p := &tierPlan{}
	var chunkA, randA, randAN, chunkImp, chunkMod, randB, randBN, cCases, cRuns int
	if tier == "thorough" {
		p.nA, p.nImp, p.nMod = 7, 6, 5
		chunkA, randA, randAN = 3000, 400, 1000
		chunkImp, chunkMod, randB, randBN = 500, 600, 150, 400
		cCases, cRuns = 50, 10
	} else {
		p.nA, p.nImp, p.nMod = 5, 4, 3
		chunkA, randA, randAN = 1000, 40, 400
		chunkImp, chunkMod, randB, randBN = 200, 130, 15, 150
		cCases, cRuns = 4, 8
	}
	// the strace groups first: they are the slowest cases and spread over the workers
	for i := 0; i < cCases; i++ {
		p.cases = append(p.cases, caseSpec{kind: "c-strace", n: cRuns})
	}
	for _, root := range rootsA {
		root := root
		chunks(seqCount(len(alphabet), p.nA), chunkA, func(lo, hi int) {
			p.cases = append(p.cases, caseSpec{kind: "a-enum", root: root, lo: lo, hi: hi})
		})
	}
	for _, root := range rootsB {
		root := root
		for d := range importerDirs {
			d := d
			chunks(seqCount(len(alphabetImport), p.nImp), chunkImp, func(lo, hi int) {
				p.cases = append(p.cases, caseSpec{kind: "b-import", root: root, depth: d, lo: lo, hi: hi})
			})
		}
		chunks(seqCount(len(alphabet), p.nMod), chunkMod, func(lo, hi int) {
			p.cases = append(p.cases, caseSpec{kind: "b-module", root: root, lo: lo, hi: hi})
		})
	}
	for i := 0; i < randA; i++ {
		p.cases = append(p.cases, caseSpec{kind: "a-rand", n: randAN})
	}
	for i := 0; i < randB; i++ {
		p.cases = append(p.cases, caseSpec{kind: "b-rand", n: randBN})
	}
	return p
}

var (
	planMu sync.Mutex
	plans  = map[string]*tierPlan{}
)

func planFor(tier string) *tierPlan {
	if tier != "thorough" {
		tier = "quick"
	}
	planMu.Lock()
	defer planMu.Unlock()
	if plans[tier] == nil {
		plans[tier] = buildPlan(tier)
	}
	return plans[tier]
}

func (prop) Cases(tier string) int { return len(planFor(tier).cases) }

func (prop) Info() fw.Info {
	return fw.Info{
		Level: "exploration",
		Rule: "Monitor A (a-enum, exhaustive): every segment sequence over {'', '.', '..', 'a', 'b.c', 'd e'} of length 0..N (quick N=5: 9 331 sequences, thorough N=7: 335 923), joined with '/', in relative and absolute form " +
			"(empty segments give the doubled, leading and trailing slashes) x roots '/', '/r', '/r/s', '/r/s/t' plus unclean and relative root spellings x 14 ways of calling the wrapper " +
			"(Create, Mkdir, MkdirAll, Open, OpenFile read/write, Remove, RemoveAll, Rename with the spelling as old and as new name, Stat, Chmod, Chown, Chtimes); case = one root x one slice of the enumeration. " +
			"a-rand: PRNG(seed,case) spellings of 6..16 segments over an extended alphabet ('..x', '...', the root's own names, a sibling named <root>x, runs of slashes), also both rename arguments random and afero helper functions. " +
			"A recording afero.Fs under syslutil.NewChrootFs logs every call with every path argument; a lexical segment-stack model decides for each logged path whether it is the root or below, and for spellings that never leave the root " +
			"requires the call to arrive at exactly the model's location, reads to return that file's unique content and write-then-read through other spellings to agree. " +
			"Monitor B (b-import exhaustive over {'', '.', '..', 'a', 'b.c'} up to M directory segments (quick 4, thorough 6) + file name, relative/absolute, importer at depth 0..2, directly or through a chain; b-module: module arguments over the full alphabet; b-rand: random): " +
			"loader.LoadSyslModule over the recorder, decoy specification placed exactly where an escaping spelling would land; logged paths judged as in A, the compiled module must not contain the decoy and an inside spelling must compile exactly the file the model names. " +
			"Monitor C (c-strace, sampled): `strace -f -y -e trace=%file sysl pb --root R` on real directories; paths outside R touched by a run whose import or module argument tries to leave R must be a subset of what two benign baseline runs touch, and nothing around R (decoys, siblings) may be touched. " +
			"Non-trivial: the case drove at least one spelling the model classifies as outside the root and at least one strictly inside (A, B), or completed at least one escape run (C); distinct by (kind, root, slice) or by seed for random cases.",
		Assumptions: []string{
			"symbolic links are out of scope: the confinement is lexical by design and the in-memory filesystem has none (monitor C creates none)",
			"a name given to the confined filesystem, absolute or relative, is read relative to the root ('/x' is root/x); '..' at the filesystem root '/' stays there",
			"a spelling that leaves the root on the way but whose cleaned location is inside again (e.g. '../r/x' under '/r') may be accepted or rejected; only confinement is demanded of it",
			"remote-import syntax (leading '//' or host.tld/org/repo/path) selects git retrieval, a different feature; such spellings are skipped and counted",
			"an import statement cannot spell blanks, backslashes, colons, trailing or triple slashes (grammar of IMPORT_PATH); those spellings are driven through monitor A and as module arguments only",
			"paths the recorder receives are interpreted like the operating system would (relative ones against the working directory)",
			"the strace comparison treats /proc/<pid> and /task/<tid> as equal across runs",
		},
		CaseTimeout: 600,
		SetFloors:   map[string]int{"ops": 15, "roots": 10},
		CountFloors: map[string]int{
			"a_wrapper_calls": 500000, "a_underlying_calls": 100000, "a_underlying_inside": 100000,
			"a_spellings_strict_inside": 5000, "a_spellings_outside": 5000, "a_spellings_transient": 100,
			"a_target_locations_compared": 50000, "a_content_reads_compared": 1000, "a_write_then_read_compared": 1000,
			"op:Rename(old)": 10000, "op:Rename(new)": 10000,
			"b_loads": 5000, "b_underlying_calls": 5000, "b_inside_loaded_right_file": 300, "b_spellings_outside": 1000, "b_decoys_placed": 1000,
			"c_strace_runs": 30, "c_escape_runs": 15, "c_outside_paths_compared": 200, "c_inside_paths_touched": 30,
		},
		Exhaustive: true,
	}
}

func (prop) Run(ctx *fw.Ctx, i int) fw.Result {
	plan := planFor(ctx.Tier)
	var res fw.Result
	if i < 0 || i >= len(plan.cases) {
		res.Verdict = "skip"
		res.Note = "no such case"
		return res
	}
	cs := plan.cases[i]
	res.Add("case_kinds", cs.kind)
	switch cs.kind {
	case "a-enum":
		res.Hash = fw.HashOf(cs.kind, cs.root, fmt.Sprint(cs.lo), fmt.Sprint(cs.hi))
		runEnumA(ctx, &res, cs.root, cs.lo, cs.hi)
	case "a-rand":
		res.Hash = fw.HashOf(cs.kind, fmt.Sprint(ctx.Seed), fmt.Sprint(i))
		runRandA(ctx, &res, ctx.Rng(), cs.n)
	case "b-import", "b-module":
		res.Hash = fw.HashOf(cs.kind, cs.root, fmt.Sprint(cs.depth), fmt.Sprint(cs.lo), fmt.Sprint(cs.hi))
		kind := "import"
		if cs.kind == "b-module" {
			kind = "module"
		}
		runEnumB(ctx, &res, kind, cs.root, cs.depth, cs.lo, cs.hi)
	case "b-rand":
		res.Hash = fw.HashOf(cs.kind, fmt.Sprint(ctx.Seed), fmt.Sprint(i))
		runRandB(ctx, &res, ctx.Rng(), cs.n)
	case "c-strace":
		res.Hash = fw.HashOf(cs.kind, fmt.Sprint(ctx.Seed), fmt.Sprint(i))
		runC(ctx, &res, ctx.Rng(), cs.n)
	}
	c := res.Counts
	switch cs.kind[0] {
	case 'a':
		res.NonTrivial = c["a_spellings_outside"] > 0 && c["a_spellings_strict_inside"] > 0
	case 'b':
		res.NonTrivial = c["b_spellings_outside"] > 0 && c["b_spellings_strict_inside"] > 0
	case 'c':
		res.NonTrivial = c["c_escape_runs"] > 0
	}
	res.Sample = map[string]any{"case": i, "kind": cs.kind, "root": cs.root, "importer_depth": cs.depth, "slice": []int{cs.lo, cs.hi}, "n": cs.n, "counts": res.Counts}
	return res
}
