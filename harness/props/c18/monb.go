package c18

import (
	"fmt"
	"io"
	"path/filepath"
	"regexp"
	"sort"
	"strings"

	"github.com/anz-bank/golden-retriever/reader/remotefs"
	"github.com/anz-bank/sysl/pkg/loader"
	"github.com/anz-bank/sysl/pkg/sysl"
	"github.com/sirupsen/logrus"
	"github.com/spf13/afero"

	"verif/fw"
)

// ---------------------------------------------------------------------------------------
// Monitor B: the same recorder underneath loader.LoadSyslModule; real import statements and
// module arguments spell the paths; decoy specifications sit exactly where an escaping
// access would land.
// ---------------------------------------------------------------------------------------

// segment alphabet usable inside an import statement (the grammar's IMPORT_PATH admits no
// blanks, so "d e" cannot be written there)
var alphabetImport = []string{"", ".", "..", "a", "b.c"}

var rootsB = []string{"/", "/r", "/r/s", "/r/s/t", "rel/root"}

// directories that contain an importing module m.sysl, by depth
var importerDirs = [][]string{{}, {"a"}, {"a", "b.c"}}

// remoteLike restates the documented syntax of a remote import (host.tld/org/repo/path[@ref]);
// such spellings select a different feature (git retrieval) and are skipped.
var remoteLike = regexp.MustCompile(`^(\w+\.)+\w+(/[\w-]+){2}(/[\w.-]+)+(@[\w./-]+)?$`)

type bworld struct {
	rootSpelling string
	cwd, root    []string
	mem          afero.Fs
	rec          *recFs
	targets      map[string]string // abs location of an inside specification -> its application name
	log          *logrus.Logger
}

func specText(app string) string {
	return app + ":\n    Ep:\n        ...\n"
}

func newBWorld(rootSpelling string) *bworld {
	w := &bworld{rootSpelling: rootSpelling, cwd: cwdSegs(), targets: map[string]string{}}
	w.root = absLoc(w.cwd, rootSpelling)
	w.mem = afero.NewMemMapFs()
	w.rec = newRecFs(w.mem)
	w.log = logrus.New()
	w.log.SetOutput(io.Discard)
	logrus.SetOutput(io.Discard)
	var dirs [][]string
	var gen func(prefix []string, d int)
	gen = func(prefix []string, d int) {
		dirs = append(dirs, append([]string{}, prefix...))
		if d == 3 {
			return
		}
		for _, n := range []string{"a", "b.c"} {
			gen(append(append([]string{}, prefix...), n), d+1)
		}
	}
	gen(nil, 0)
	dirs = append(dirs, []string{"d e"}, []string{"d e", "a"})
	for i, d := range dirs {
		loc := append(append(append([]string{}, w.root...), d...), "t.sysl")
		app := fmt.Sprintf("T%d", i)
		w.targets[locString(loc)] = app
		w.put(loc, specText(app))
	}
	if dl := []string{"outside", "secret.sysl"}; !within(w.root, dl) {
		w.put(dl, specText("Decoy"))
	}
	return w
}

func (w *bworld) put(loc []string, content string) {
	_ = w.mem.MkdirAll(locString(loc[:len(loc)-1]), 0o755)
	_ = afero.WriteFile(w.mem, locString(loc), []byte(content), 0o644)
}

func withExt(s string) string {
	last := s
	if i := strings.LastIndexByte(s, '/'); i >= 0 {
		last = s[i+1:]
	}
	if !strings.Contains(last, ".") {
		return s + ".sysl"
	}
	return s
}

// relClean is the lexical relative form of base/p (leading ".." kept), used only to decide
// whether the reader would take the spelling for a remote import.
func relClean(base []string, p string) string {
	var st []string
	up := 0
	for _, s := range append(append([]string{}, base...), segsOf(p)...) {
		switch s {
		case "", ".":
		case "..":
			if len(st) > 0 {
				st = st[:len(st)-1]
			} else {
				up++
			}
		default:
			st = append(st, s)
		}
	}
	return strings.Repeat("../", up) + strings.Join(st, "/")
}

type bacc struct {
	*acc
	loads, loadedOK, missing, skippedRemote, skippedGrammar int
	decoysPlaced                                            int
}

func appNames(m *sysl.Module) []string {
	var out []string
	if m != nil {
		for k := range m.Apps {
			out = append(out, k)
		}
	}
	sort.Strings(out)
	return out
}

// importable reports whether s can be written after "import " (IMPORT_PATH: one or more of
// NAME, "/" NAME, "//" NAME; NAME has no blank, backslash, slash or colon).
func importable(s string) bool {
	if s == "" || strings.HasSuffix(s, "/") || strings.Contains(s, "///") || strings.ContainsAny(s, " \t\\:@") {
		return false
	}
	return true
}

// loadOne performs one load and judges it. kind is "import" or "module". For "import", s is
// written in the module m.sysl of importerDirs[depth]; for "module", s is the module argument.
func (w *bworld) loadOne(a *bacc, kind string, depth int, chain bool, s string) {
	var base []string
	module := s
	full := withExt(s)
	if kind == "import" {
		base = importerDirs[depth]
		if !importable(s) {
			a.skippedGrammar++
			return
		}
		if strings.HasPrefix(s, "//") || remoteLike.MatchString(s) || (len(base) > 0 && !isAbsSpelling(s) && remoteLike.MatchString(relClean(base, full))) {
			a.skippedRemote++
			return
		}
		mloc := append(append(append([]string{}, w.root...), base...), "m.sysl")
		w.put(mloc, "import "+s+"\n\nMain:\n    Ep:\n        ...\n")
		module = strings.Join(append(append([]string{}, base...), "m.sysl"), "/")
		if chain {
			w.put(append(append([]string{}, w.root...), "c.sysl"), "import "+strings.TrimSuffix(module, ".sysl")+"\n\nChain:\n    Ep:\n        ...\n")
			module = "c.sysl"
		}
	} else {
		if strings.HasPrefix(s, "//") || remoteLike.MatchString(s) || remoteLike.MatchString(full) {
			a.skippedRemote++
			return
		}
	}
	loc, cl := resolveIn(w.root, base, full)
	a.cls[cl]++
	files := map[string]string{"case.txt": fmt.Sprintf("root=%q (model %s)\nkind=%s importer-depth=%d chain=%v\nspelling=%q\nmodel location=%s class=%s\nmodule argument=%q\n",
		w.rootSpelling, locString(w.root), kind, depth, chain, s, locString(loc), className[cl], module)}
	// decoys exactly where an escape would land
	if cl == clOutside {
		w.put(loc, specText("Decoy"))
		a.decoysPlaced++
	}
	if isAbsSpelling(full) {
		if lit := absLoc(nil, full); !within(w.root, lit) && len(lit) > 0 {
			w.put(lit, specText("Decoy"))
			a.decoysPlaced++
		}
	}
	w.rec.take()
	var m *sysl.Module
	var err error
	pi := fw.Guard(func() { m, _, err = loader.LoadSyslModule(w.rootSpelling, module, w.rec, w.log) })
	evs := w.rec.take()
	a.loads++
	a.wrapper++
	a.perOp["LoadSyslModule("+kind+")"]++
	if pi != nil {
		files["stack.txt"] = pi.Stack
		a.violate(fw.CrashSig("panic", pi.Value, pi.Stack), fmt.Sprintf("loading with %s spelling %q under root %q panicked: %s", kind, s, w.rootSpelling, pi.Value), files)
		return
	}
	var b strings.Builder
	for _, e := range evs {
		l := absLoc(w.cwd, e.Path)
		fmt.Fprintf(&b, "%s(%s=%q) -> %s inside=%v err=%v\n", e.Op, e.Arg, e.Path, locString(l), within(w.root, l), e.Err)
	}
	files["underlying_calls.txt"] = b.String()
	files["result.txt"] = fmt.Sprintf("error: %v\napplications: %v\n", err, appNames(m))
	for _, e := range evs {
		l := absLoc(w.cwd, e.Path)
		if within(w.root, l) {
			a.evInside++
			continue
		}
		a.evOutside++
		a.violate("loader-escape|"+kind+"|"+e.Op, fmt.Sprintf("loading under root %q with %s spelling %q made the loader call %s(%q) on the underlying filesystem, outside the root",
			w.rootSpelling, kind, s, e.Op, e.Path), files)
	}
	apps := appNames(m)
	for _, n := range apps {
		if n == "Decoy" {
			a.violate("loader-decoy-loaded|"+kind, fmt.Sprintf("loading under root %q with %s spelling %q compiled the decoy specification that lives outside the root", w.rootSpelling, kind, s), files)
		}
	}
	if cl != clStrict {
		if err != nil {
			a.rejected++
		} else {
			a.clamped++
		}
		return
	}
	want, exists := w.targets[locString(loc)]
	if !exists {
		a.missing++
		if err == nil {
			a.violate("loader-inside-broken|"+kind+"|phantom", fmt.Sprintf("under root %q the %s spelling %q denotes %s where no file exists, yet the load succeeded with applications %v",
				w.rootSpelling, kind, s, locString(loc), apps), files)
		}
		return
	}
	if err != nil {
		a.violate("loader-inside-broken|"+kind+"|error", fmt.Sprintf("under root %q the %s spelling %q stays inside the root and denotes %s, but the load failed: %v",
			w.rootSpelling, kind, s, locString(loc), firstLine(err.Error())), files)
		return
	}
	a.loadedOK++
	a.reads++
	ok := false
	for _, n := range apps {
		if n == want {
			ok = true
		} else if strings.HasPrefix(n, "T") {
			ok = false
			break
		}
	}
	if !ok {
		a.violate("loader-inside-broken|"+kind+"|wrong-file", fmt.Sprintf("under root %q the %s spelling %q denotes %s (application %s) but the module has applications %v",
			w.rootSpelling, kind, s, locString(loc), want, apps), files)
	}
}

func firstLine(s string) string {
	if i := strings.IndexByte(s, '\n'); i >= 0 {
		return s[:i]
	}
	return s
}

func (a *bacc) flushB(res *fw.Result) {
	res.Count("b_loads", a.loads)
	res.Count("b_inside_loaded_right_file", a.loadedOK)
	res.Count("b_inside_no_such_file", a.missing)
	res.Count("b_skipped_remote_syntax", a.skippedRemote)
	res.Count("b_skipped_not_writable_as_import", a.skippedGrammar)
	res.Count("b_decoys_placed", a.decoysPlaced)
	a.flush("b_")
}

func setCacheDir(ctx *fw.Ctx) {
	// a remote import (not generated here) would clone into this directory; keep it in the scratch dir
	remotefs.CacheDir = filepath.Join(ctx.Dir, "gitcache")
}

// runEnumB: kind "import": sequences [lo,hi) over alphabetImport as directory part, final
// name "t" or "t.sysl", relative and absolute, from the importer at the given depth.
// kind "module": sequences over the full alphabet as module argument.
func runEnumB(ctx *fw.Ctx, res *fw.Result, kind, rootSpelling string, depth, lo, hi int) {
	setCacheDir(ctx)
	w := newBWorld(rootSpelling)
	a := &bacc{acc: newAcc(res)}
	alpha := alphabetImport
	if kind == "module" {
		alpha = alphabet
	}
	for j := lo; j < hi; j++ {
		segs := seqAt(alpha, j)
		final := "t"
		if j%2 == 1 {
			final = "t.sysl"
		}
		rel := strings.Join(append(append([]string{}, segs...), final), "/")
		for form := 0; form < 2; form++ {
			s := rel
			if form == 1 {
				s = "/" + rel
			}
			w.loadOne(a, kind, depth, kind == "import" && depth > 0 && j%3 == 0, s)
		}
	}
	res.Add("roots", rootSpelling+" => "+locString(w.root))
	res.Count("b_underlying_calls", w.rec.total)
	res.Count("b_enumerated_spellings", 2*(hi-lo))
	a.flushB(res)
}

func runRandB(ctx *fw.Ctx, res *fw.Result, r *fw.Rand, n int) {
	setCacheDir(ctx)
	rootSpelling := r.Pick(rootsB)
	w := newBWorld(rootSpelling)
	a := &bacc{acc: newAcc(res)}
	ext := []string{"", ".", "..", "..", "..", "a", "b.c", "a", "b.c", "..x", "...", "outside", "d-e"}
	ext = append(ext, w.root...)
	if k := len(w.root); k > 0 {
		ext = append(ext, w.root[k-1]+"x")
	}
	for i := 0; i < n; i++ {
		var b strings.Builder
		if r.Chance(1, 3) {
			b.WriteString("/")
		}
		if r.Chance(1, 3) {
			up := len(w.root) + r.Intn(3)
			for k := 0; k < up; k++ {
				b.WriteString("../")
			}
			k := len(w.root)
			if k > 0 {
				k -= r.Intn(2)
			}
			for q := 0; q < k; q++ {
				b.WriteString(w.root[q] + "/")
			}
		}
		for k, n := 0, r.Range(0, 9); k < n; k++ {
			b.WriteString(r.Pick(ext))
			if r.Chance(1, 8) {
				b.WriteString("//")
			} else {
				b.WriteString("/")
			}
		}
		switch r.Intn(4) {
		case 0:
			b.WriteString("t")
		case 1:
			b.WriteString("t.sysl")
		case 2:
			b.WriteString("secret")
		default:
			b.WriteString("u")
		}
		s := b.String()
		if r.Chance(1, 4) {
			w.loadOne(a, "module", 0, false, s)
		} else {
			d := r.Intn(3)
			w.loadOne(a, "import", d, d > 0 && r.Chance(1, 2), s)
		}
	}
	res.Add("roots", rootSpelling+" => "+locString(w.root))
	res.Count("b_underlying_calls", w.rec.total)
	res.Count("b_random_spellings", n)
	a.flushB(res)
}
