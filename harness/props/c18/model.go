package c18

import "strings"

// The reference path model. It is purely lexical (a segment stack) and shares no code
// with the implementation under test: no filepath.Clean / Join / Rel / Abs is used to
// compute an expectation.

// segsOf splits a path spelling at every '/'. Empty strings stand for doubled, leading
// and trailing slashes.
func segsOf(p string) []string {
	if p == "" {
		return nil
	}
	return strings.Split(p, "/")
}

func isAbsSpelling(p string) bool { return len(p) > 0 && p[0] == '/' }

// class of a spelling relative to a root
const (
	clStrict    = 0 // never leaves the root while being read left to right
	clTransient = 1 // leaves the root on the way but its cleaned location is the root or below
	clOutside   = 2 // its cleaned location is not the root or below
)

var className = [...]string{"strict-inside", "transient", "outside"}

// walk applies segs to the absolute location `start` (a stack of names below "/").
// floor is the depth of the confinement root (len of its stack); climbed reports whether
// the walk ever went above that depth. ".." at "/" stays at "/" (POSIX).
func walk(start []string, segs []string, floor int) (loc []string, climbed bool) {
	loc = append(make([]string, 0, len(start)+len(segs)), start...)
	for _, s := range segs {
		switch s {
		case "", ".":
		case "..":
			if len(loc) > 0 {
				loc = loc[:len(loc)-1]
				if len(loc) < floor {
					climbed = true
				}
			}
		default:
			loc = append(loc, s)
		}
	}
	return loc, climbed
}

// absLoc gives the cleaned absolute location of an arbitrary path string as the operating
// system (or an in-memory filesystem) would interpret it: absolute from "/", relative from cwd.
func absLoc(cwd []string, p string) []string {
	if isAbsSpelling(p) {
		l, _ := walk(nil, segsOf(p), 0)
		return l
	}
	l, _ := walk(cwd, segsOf(p), 0)
	return l
}

// within reports whether loc is root or below it.
func within(root, loc []string) bool {
	if len(loc) < len(root) {
		return false
	}
	for i := range root {
		if loc[i] != root[i] {
			return false
		}
	}
	return true
}

// resolveIn interprets a spelling handed to a filesystem confined at `root`: every name,
// absolute or relative, is read relative to the root ("/x" is root/x, "x" is root/x). If
// base is non-nil, a relative spelling starts at root/base instead (an import written in
// a file that lives in root/base).
func resolveIn(root []string, base []string, p string) (loc []string, class int) {
	start := root
	if !isAbsSpelling(p) && len(base) > 0 {
		start = append(append([]string{}, root...), base...)
	}
	loc, climbed := walk(start, segsOf(p), len(root))
	switch {
	case !within(root, loc):
		return loc, clOutside
	case climbed:
		// it came back, but only because the names above the root happen to match; the
		// property does not fix whether such a spelling is accepted
		return loc, clTransient
	}
	return loc, clStrict
}

func locString(loc []string) string { return "/" + strings.Join(loc, "/") }

func relString(root, loc []string) string { return strings.Join(loc[len(root):], "/") }

func sameLoc(a, b []string) bool {
	if len(a) != len(b) {
		return false
	}
	for i := range a {
		if a[i] != b[i] {
			return false
		}
	}
	return true
}
