package c20

import (
	"fmt"
	"sort"
	"strings"

	"verif/fw"
)

// A small text-level model of a Sysl specification: enough structure to add members,
// fields and statements to things that already exist. Everything the untidiness
// operators below add is something the compiler accepts (at most with a lint warning).

type mType struct {
	Kind  string // type table enum alias union
	Name  string
	Attrs string
	Lines []string // body lines (relative indent 0)
}

type mEp struct {
	Name   string // endpoint name, or "GET ?q=string" for a REST method
	Params string // "(x <: T)" or ""
	Attrs  string // "[~hidden]" or ""
	Stmts  []string
}

type mRest struct {
	Path    string
	Methods []*mEp
}

type mApp struct {
	Name   string
	Attrs  []string
	Annos  []string
	Mixins []string
	Types  []*mType
	Eps    []*mEp
	Rests  []*mRest
	Raw    []string // other member blocks (views, events, collectors), lines joined by \n
}

type model struct {
	Apps  []*mApp
	Kinds []string // untidiness kinds applied
}

func (a *mApp) findType(kind string) *mType {
	for _, t := range a.Types {
		if t.Kind == kind {
			return t
		}
	}
	return nil
}

func (m *model) app(name string) *mApp {
	for _, a := range m.Apps {
		if a.Name == name {
			return a
		}
	}
	return nil
}

func (m *model) clone() *model {
	out := &model{Kinds: append([]string{}, m.Kinds...)}
	for _, a := range m.Apps {
		b := &mApp{Name: a.Name, Attrs: append([]string{}, a.Attrs...), Annos: append([]string{}, a.Annos...),
			Mixins: append([]string{}, a.Mixins...), Raw: append([]string{}, a.Raw...)}
		for _, t := range a.Types {
			b.Types = append(b.Types, &mType{t.Kind, t.Name, t.Attrs, append([]string{}, t.Lines...)})
		}
		for _, e := range a.Eps {
			b.Eps = append(b.Eps, &mEp{e.Name, e.Params, e.Attrs, append([]string{}, e.Stmts...)})
		}
		for _, rs := range a.Rests {
			nr := &mRest{Path: rs.Path}
			for _, e := range rs.Methods {
				nr.Methods = append(nr.Methods, &mEp{e.Name, e.Params, e.Attrs, append([]string{}, e.Stmts...)})
			}
			b.Rests = append(b.Rests, nr)
		}
		out.Apps = append(out.Apps, b)
	}
	return out
}

func indent(n int, block string) string {
	pad := strings.Repeat(" ", n)
	ls := strings.Split(block, "\n")
	for i, l := range ls {
		if strings.TrimSpace(l) != "" {
			ls[i] = pad + l
		}
	}
	return strings.Join(ls, "\n")
}

func (e *mEp) render(b *strings.Builder, level int) {
	head := e.Name
	if e.Params != "" {
		head += " " + e.Params
	}
	if e.Attrs != "" {
		head += " " + e.Attrs
	}
	b.WriteString(indent(level, head+":") + "\n")
	if len(e.Stmts) == 0 {
		b.WriteString(indent(level+4, "...") + "\n")
		return
	}
	for _, s := range e.Stmts {
		b.WriteString(indent(level+4, s) + "\n")
	}
}

func (m *model) render() string {
	var b strings.Builder
	for _, a := range m.Apps {
		head := a.Name
		if len(a.Attrs) > 0 {
			head += " [" + strings.Join(a.Attrs, ", ") + "]"
		}
		b.WriteString(head + ":\n")
		n := 0
		for _, x := range a.Annos {
			b.WriteString(indent(4, x) + "\n")
			n++
		}
		for _, x := range a.Mixins {
			b.WriteString(indent(4, "-|> "+x) + "\n")
			n++
		}
		for _, t := range a.Types {
			head := "!" + t.Kind + " " + t.Name
			if t.Attrs != "" {
				head += " " + t.Attrs
			}
			b.WriteString(indent(4, head+":") + "\n")
			if len(t.Lines) == 0 {
				b.WriteString(indent(8, "...") + "\n")
			}
			for _, l := range t.Lines {
				b.WriteString(indent(8, l) + "\n")
			}
			n++
		}
		for _, e := range a.Eps {
			e.render(&b, 4)
			n++
		}
		for _, rs := range a.Rests {
			b.WriteString(indent(4, rs.Path+":") + "\n")
			for _, e := range rs.Methods {
				e.render(&b, 8)
			}
			n++
		}
		for _, x := range a.Raw {
			b.WriteString(indent(4, x) + "\n")
			n++
		}
		if n == 0 {
			b.WriteString("    ...\n")
		}
		b.WriteString("\n")
	}
	return b.String()
}

var svcWords = []string{"Acct", "Bank", "Cust", "Dept", "Gate", "Hub", "Jrnl", "Kiosk", "Ledger", "Mkt", "Node", "Ord", "Pay", "Quote", "Risk", "Vault"}
var tyWords = []string{"Addr", "Batch", "Card", "Deal", "Entry", "Fund", "Grant", "Hold", "Item", "Job", "Loan", "Memo", "Note", "Offer", "Plan", "Rule"}
var fldWords = []string{"acct", "bal", "ccy", "descr", "email", "fee", "grp", "hash", "idx", "lim", "num", "own", "pct", "qty", "rate", "tax", "usr", "ver", "wgt", "zip"}
var primWords = []string{"int", "string", "bool", "float", "decimal", "date", "datetime", "int32", "int64", "string(10)", "decimal(12.2)", "bytes", "any"}
var actWords = []string{"check the ledger", "store record", "validate input", "lookup customer", "notify", "compute balance"}

type mgen struct {
	r   *fw.Rand
	m   *model
	seq int
}

func (g *mgen) n() int { g.seq++; return g.seq }

// services returns the ordinary applications (not the project / sequence pseudo-apps).
func (g *mgen) services() []*mApp {
	var out []*mApp
	for _, a := range g.m.Apps {
		if a.Name != projectApp && a.Name != seqsApp && !strings.HasPrefix(a.Name, "Empty") {
			out = append(out, a)
		}
	}
	return out
}

func (g *mgen) pickSvc() *mApp { s := g.services(); return s[g.r.Intn(len(s))] }

func (g *mgen) pickEp() (*mApp, *mEp) {
	for tries := 0; tries < 20; tries++ {
		a := g.pickSvc()
		var all []*mEp
		all = append(all, a.Eps...)
		for _, rs := range a.Rests {
			all = append(all, rs.Methods...)
		}
		if len(all) > 0 {
			return a, all[g.r.Intn(len(all))]
		}
	}
	a := g.pickSvc()
	e := &mEp{Name: fmt.Sprintf("Ep%d", g.n())}
	a.Eps = append(a.Eps, e)
	return a, e
}

func (g *mgen) pickType(kind string) (*mApp, *mType) {
	var apps []*mApp
	for _, a := range g.services() {
		if a.findType(kind) != nil {
			apps = append(apps, a)
		}
	}
	if len(apps) == 0 {
		a := g.pickSvc()
		t := g.newType(a, kind)
		return a, t
	}
	a := apps[g.r.Intn(len(apps))]
	var ts []*mType
	for _, t := range a.Types {
		if t.Kind == kind {
			ts = append(ts, t)
		}
	}
	return a, ts[g.r.Intn(len(ts))]
}

func (g *mgen) newType(a *mApp, kind string) *mType {
	t := &mType{Kind: kind, Name: fmt.Sprintf("%s%d", g.r.Pick(tyWords), g.n())}
	switch kind {
	case "table":
		t.Lines = append(t.Lines, "id <: int [~pk]")
		fallthrough
	case "type":
		for k := g.r.Range(1, 3); k > 0; k-- {
			t.Lines = append(t.Lines, fmt.Sprintf("%s%d <: %s", g.r.Pick(fldWords), g.n(), g.r.Pick(primWords)))
		}
	}
	a.Types = append(a.Types, t)
	return t
}

func (g *mgen) fld() string { return fmt.Sprintf("%s%d", g.r.Pick(fldWords), g.n()) }

const projectApp = "Project"
const seqsApp = "Seqs"

// base builds a tidy model: every call and reference resolves, calls form a DAG.
func (g *mgen) base() {
	r := g.r
	nApps := r.Range(2, 4)
	used := map[string]bool{}
	for i := 0; i < nApps; i++ {
		name := r.Pick(svcWords)
		for used[name] {
			name = r.Pick(svcWords) + fmt.Sprint(r.Intn(90)+2)
		}
		used[name] = true
		a := &mApp{Name: name}
		if r.Chance(2, 3) {
			a.Attrs = append(a.Attrs, fmt.Sprintf(`owner="team%d"`, r.Intn(2)))
		}
		if r.Chance(1, 5) {
			a.Attrs = append(a.Attrs, "~db")
		}
		if r.Chance(1, 4) {
			a.Annos = append(a.Annos, `@version = "1.2"`)
		}
		g.m.Apps = append(g.m.Apps, a)
	}
	// flavours: mixed, database-only (tables, no other types), API-only (REST endpoints and
	// types, no simple endpoints): several generators stop at the first shape they do not
	// expect, so not every application should carry every shape
	flavour := map[*mApp]int{}
	for _, a := range g.m.Apps {
		flavour[a] = []int{0, 0, 1, 2}[r.Intn(4)]
	}
	for _, a := range g.m.Apps {
		nTy, nTab := r.Range(0, 2), r.Range(0, 2)
		switch flavour[a] {
		case 1:
			nTy, nTab = 0, r.Range(1, 3)
		case 2:
			nTy, nTab = r.Range(1, 2), 0
		}
		for k := nTy; k > 0; k-- {
			t := g.newType(a, "type")
			if len(a.Types) > 1 && r.Chance(1, 2) {
				t.Lines = append(t.Lines, fmt.Sprintf("%s <: %s", g.fld(), a.Types[0].Name))
			}
			if r.Chance(1, 3) {
				t.Lines = append(t.Lines, fmt.Sprintf("%s <: sequence of %s", g.fld(), r.Pick(primWords[:4])))
			}
			if r.Chance(1, 4) {
				t.Lines = append(t.Lines, fmt.Sprintf("%s <: string?", g.fld()))
			}
		}
		var tabs []*mType
		for k := nTab; k > 0; k-- {
			t := g.newType(a, "table")
			if len(tabs) > 0 && r.Chance(2, 3) {
				t.Lines = append(t.Lines, fmt.Sprintf("%s <: %s.id", g.fld(), tabs[r.Intn(len(tabs))].Name))
			}
			tabs = append(tabs, t)
		}
	}
	// endpoints: names first, then bodies calling later applications only
	for _, a := range g.m.Apps {
		nEp, nRest := r.Range(1, 3), 0
		if r.Chance(1, 3) {
			nRest = 1
		}
		switch flavour[a] {
		case 1:
			nEp, nRest = r.Range(0, 1), 0
		case 2:
			nEp, nRest = 0, r.Range(1, 2)
		}
		for k := nEp; k > 0; k-- {
			a.Eps = append(a.Eps, &mEp{Name: fmt.Sprintf("Ep%d", g.n())})
		}
		for k := nRest; k > 0; k-- {
			rs := &mRest{Path: fmt.Sprintf("/things%d/{id <: int}", g.n())}
			if r.Chance(1, 3) {
				rs.Path = fmt.Sprintf("/things%d", g.n())
			}
			rs.Methods = append(rs.Methods, &mEp{Name: r.Pick([]string{"GET ?q=string", "GET", "GET ?limit=int&after=string?"})})
			if r.Chance(1, 2) {
				rs.Methods = append(rs.Methods, &mEp{Name: r.Pick([]string{"POST", "PUT", "DELETE"})})
			}
			a.Rests = append(a.Rests, rs)
		}
	}
	for i, a := range g.m.Apps {
		var all []*mEp
		all = append(all, a.Eps...)
		for _, rs := range a.Rests {
			all = append(all, rs.Methods...)
		}
		for _, e := range all {
			if r.Chance(1, 2) {
				e.Stmts = append(e.Stmts, r.Pick(actWords))
			}
			for k := r.Range(0, 2); k > 0 && i+1 < len(g.m.Apps); k-- {
				b := g.m.Apps[r.Range(i+1, len(g.m.Apps)-1)]
				call := g.callTo(b)
				switch r.Intn(5) {
				case 0:
					e.Stmts = append(e.Stmts, "if ready:\n    "+call+"\nelse:\n    fail")
				case 1:
					e.Stmts = append(e.Stmts, "for each item in list:\n    "+call)
				default:
					e.Stmts = append(e.Stmts, call)
				}
			}
			if t := a.findType("type"); t != nil && r.Chance(2, 3) {
				e.Stmts = append(e.Stmts, "return ok <: "+t.Name)
			} else if r.Chance(1, 3) {
				e.Stmts = append(e.Stmts, "return ok <: string")
			}
			if t := a.findType("type"); t != nil && e.Params == "" && strings.HasPrefix(e.Name, "Ep") && r.Chance(1, 3) {
				e.Params = "(req <: " + t.Name + ")"
			}
		}
	}
	// project pseudo-app (integration and data-model views)
	p := &mApp{Name: projectApp, Attrs: []string{`appfmt="%(appname)"`}}
	allEp := &mEp{Name: "_"}
	for _, a := range g.m.Apps {
		allEp.Stmts = append(allEp.Stmts, a.Name)
	}
	p.Eps = append(p.Eps, allEp)
	if r.Chance(2, 3) {
		sub := &mEp{Name: "Part"}
		for _, a := range g.m.Apps {
			if r.Chance(1, 2) || len(sub.Stmts) == 0 {
				sub.Stmts = append(sub.Stmts, a.Name)
			}
		}
		p.Eps = append(p.Eps, sub)
	}
	// sequence pseudo-app (sd -a): endpoints whose statements are calls
	s := &mApp{Name: seqsApp}
	for k := r.Range(1, 2); k > 0; k-- {
		e := &mEp{Name: fmt.Sprintf("Seq%d", k)}
		for j := r.Range(1, 2); j > 0; j-- {
			e.Stmts = append(e.Stmts, g.callTo(g.m.Apps[r.Intn(len(g.m.Apps))]))
		}
		s.Eps = append(s.Eps, e)
	}
	g.m.Apps = append(g.m.Apps, p, s)
}

// callTo writes a call statement to some endpoint of b.
func (g *mgen) callTo(b *mApp) string {
	var names []string
	for _, e := range b.Eps {
		names = append(names, e.Name)
	}
	for _, rs := range b.Rests {
		for _, e := range rs.Methods {
			names = append(names, restKey(rs.Path, e.Name))
		}
	}
	if len(names) == 0 {
		e := &mEp{Name: fmt.Sprintf("Ep%d", g.n())}
		b.Eps = append(b.Eps, e)
		names = append(names, e.Name)
	}
	return b.Name + " <- " + names[g.r.Intn(len(names))]
}

// restKey gives the endpoint name the compiler derives for a REST method: the method and
// the path with the types of its variables removed.
func restKey(path, method string) string {
	var b strings.Builder
	depth := 0
	skip := false
	for _, c := range path {
		switch {
		case c == '{':
			depth++
			skip = false
			b.WriteRune(c)
		case c == '}':
			depth--
			skip = false
			b.WriteRune(c)
		case depth > 0 && (c == '<' || c == ' '):
			skip = true
		case skip:
		default:
			b.WriteRune(c)
		}
	}
	return strings.Fields(method)[0] + " " + b.String()
}

type untidy struct {
	name string
	f    func(g *mgen)
}

var untidies = []untidy{
	{"call-undefined-app", func(g *mgen) {
		_, e := g.pickEp()
		e.Stmts = append(e.Stmts, g.r.Pick([]string{"Ghost <- Nope", "Ghost <- GET /none", "Ghost :: Deep <- Nope"}))
	}},
	{"call-undefined-endpoint", func(g *mgen) {
		_, e := g.pickEp()
		b := g.pickSvc()
		e.Stmts = append(e.Stmts, b.Name+" <- "+g.r.Pick([]string{"NoSuchEp", "GET /no/such", "Ep0"}))
	}},
	{"call-undefined-in-nested-block", func(g *mgen) {
		_, e := g.pickEp()
		tgt := g.r.Pick([]string{"Ghost <- Nope", g.pickSvc().Name + " <- NoSuchEp"})
		e.Stmts = append(e.Stmts, g.r.Pick([]string{
			"if cond:\n    " + tgt + "\nelse:\n    other",
			"alt first:\n    " + tgt,
			"one of:\n    case1:\n        " + tgt + "\n    case2:\n        nothing",
			"loop until done:\n    " + tgt,
			"for each x in xs:\n    if deep:\n        " + tgt,
			"until ready:\n    " + tgt,
			"while busy:\n    " + tgt,
		}))
	}},
	{"trailing-block-call-to-quiet-endpoint", func(g *mgen) {
		// an endpoint whose LAST statement is a control block whose last statement is a call to an
		// endpoint of another application that draws no reply (no return / primitive return)
		a, b := g.pickSvc(), g.pickSvc()
		for tries := 0; tries < 8 && b == a; tries++ {
			b = g.pickSvc()
		}
		q := &mEp{Name: fmt.Sprintf("Quiet%d", g.n()), Stmts: []string{g.r.Pick([]string{"log it", "log it\nreturn ok <: string", "..."})}}
		b.Eps = append(b.Eps, q)
		call := b.Name + " <- " + q.Name
		t := &mEp{Name: fmt.Sprintf("Tail%d", g.n()), Stmts: []string{"prepare", g.r.Pick([]string{
			"if cond:\n    " + call,
			"if cond:\n    other\nelse:\n    " + call,
			"loop until done:\n    step\n    " + call,
			"for each x in xs:\n    if deep:\n        " + call,
			"one of:\n    case1:\n        nothing\n    case2:\n        " + call,
			"while busy:\n    " + call,
			"until ready:\n    " + call,
		})}}
		a.Eps = append(a.Eps, t)
		if s := g.m.app(seqsApp); s != nil {
			s.Eps = append(s.Eps, &mEp{Name: fmt.Sprintf("SEQ-Tail%d", g.n()), Stmts: []string{a.Name + " <- " + t.Name}})
		}
		if _, e := g.pickEp(); e != t && e != q {
			e.Stmts = append([]string{a.Name + " <- " + t.Name}, e.Stmts...)
		}
	}},
	{"type-ref-dangling", func(g *mgen) {
		_, t := g.pickType(g.r.Pick([]string{"type", "type", "table"}))
		t.Lines = append(t.Lines, g.fld()+" <: "+g.r.Pick([]string{"Nowhere", "Nowhere?", "Nowhere.id"}))
	}},
	{"type-ref-dangling-other-app", func(g *mgen) {
		_, t := g.pickType(g.r.Pick([]string{"type", "type", "table"}))
		other := g.pickSvc()
		t.Lines = append(t.Lines, g.fld()+" <: "+g.r.Pick([]string{other.Name + ".Missing", "Ghost.Thing", other.Name + ".Missing.id", "Ghost :: Deep.Thing"}))
	}},
	{"type-ref-cross-app", func(g *mgen) {
		// resolves, but crosses applications
		a, t := g.pickType(g.r.Pick([]string{"type", "table"}))
		var others []*mApp
		for _, b := range g.services() {
			if b != a && len(b.Types) > 0 {
				others = append(others, b)
			}
		}
		if len(others) == 0 {
			b := g.pickSvc()
			g.newType(b, "type")
			others = append(others, b)
		}
		b := others[g.r.Intn(len(others))]
		u := b.Types[g.r.Intn(len(b.Types))]
		ref := b.Name + "." + u.Name
		if u.Kind == "table" && g.r.Chance(1, 2) {
			ref += ".id"
		}
		t.Lines = append(t.Lines, g.fld()+" <: "+ref)
	}},
	{"type-ref-cycle", func(g *mgen) {
		a := g.pickSvc()
		b := a
		if g.r.Chance(1, 3) {
			b = g.pickSvc()
		}
		t, u := g.newType(a, "type"), g.newType(b, "type")
		refT, refU := t.Name, u.Name
		if a != b {
			refT, refU = a.Name+"."+t.Name, b.Name+"."+u.Name
		}
		t.Lines = append(t.Lines, g.fld()+" <: "+refU)
		u.Lines = append(u.Lines, g.fld()+" <: "+g.r.Pick([]string{refT, "sequence of " + refT, "set of " + refT}))
	}},
	{"type-ref-self", func(g *mgen) {
		_, t := g.pickType("type")
		t.Lines = append(t.Lines, g.fld()+" <: "+g.r.Pick([]string{t.Name, "sequence of " + t.Name, t.Name + "?", "set of " + t.Name}))
	}},
	{"table-ref-without-field", func(g *mgen) {
		a, t := g.pickType("table")
		o := g.newType(a, g.r.Pick([]string{"table", "table", "type"}))
		t.Lines = append(t.Lines, g.fld()+" <: "+o.Name)
	}},
	{"foreign-key-cycle", func(g *mgen) {
		a := g.pickSvc()
		t, u := g.newType(a, "table"), g.newType(a, "table")
		f1, f2 := g.fld(), g.fld()
		pk := g.r.Pick([]string{"", " [~pk]"})
		t.Lines = append(t.Lines, f1+" <: "+u.Name+"."+f2+pk)
		u.Lines = append(u.Lines, f2+" <: "+t.Name+"."+f1+pk)
	}},
	{"foreign-key-self", func(g *mgen) {
		_, t := g.pickType("table")
		f := g.fld()
		t.Lines = append(t.Lines, f+" <: "+t.Name+"."+g.r.Pick([]string{f, "id", f}))
	}},
	{"foreign-key-dangling", func(g *mgen) {
		_, t := g.pickType("table")
		t.Lines = append(t.Lines, g.fld()+" <: "+g.r.Pick([]string{"NoTable.id", t.Name + ".nocol", "Ghost.NoTable.id"}))
	}},
	{"table-without-key", func(g *mgen) {
		a := g.pickSvc()
		t := &mType{Kind: "table", Name: fmt.Sprintf("Bare%d", g.n())}
		if g.r.Chance(2, 3) {
			t.Lines = append(t.Lines, g.fld()+" <: "+g.r.Pick(primWords))
		}
		if g.r.Chance(1, 2) {
			if o := a.findType("table"); o != nil {
				t.Lines = append(t.Lines, g.fld()+" <: "+o.Name+".id")
			}
		}
		a.Types = append(a.Types, t)
	}},
	{"table-without-columns", func(g *mgen) {
		// a table (or two) whose body is only `...`, alone or referred to by another table
		a := g.pickSvc()
		t := &mType{Kind: "table", Name: fmt.Sprintf("Hollow%d", g.n())}
		a.Types = append(a.Types, t)
		if g.r.Chance(1, 3) {
			a.Types = append(a.Types, &mType{Kind: "table", Name: fmt.Sprintf("Hollow%d", g.n())})
		}
		if g.r.Chance(1, 3) {
			if o := a.findType("table"); o != nil && o != t {
				o.Lines = append(o.Lines, g.fld()+" <: "+t.Name)
			}
		}
	}},
	{"table-odd-columns", func(g *mgen) {
		_, t := g.pickType("table")
		for k := g.r.Range(1, 3); k > 0; k-- {
			t.Lines = append(t.Lines, g.fld()+" <: "+g.r.Pick([]string{"int [~autoinc]", "int [~pk, ~autoinc]", "string(5..10)", "decimal(5.2)?",
				"sequence of string", "set of int", "datetime [~pk]", "bytes", "any", "float64", "string [name=\"odd name\"]"}))
		}
	}},
	{"empty-application", func(g *mgen) {
		g.m.Apps = append(g.m.Apps, &mApp{Name: fmt.Sprintf("Empty%d", g.n()), Annos: []string{`@note = "nothing here"`}})
		if g.r.Chance(1, 2) {
			if p := g.m.app(projectApp); p != nil {
				p.Eps[0].Stmts = append(p.Eps[0].Stmts, g.m.Apps[len(g.m.Apps)-1].Name)
			}
		}
	}},
	{"call-cycle", func(g *mgen) {
		a, b := g.pickSvc(), g.pickSvc()
		e1, e2 := &mEp{Name: fmt.Sprintf("Cyc%d", g.n())}, &mEp{Name: fmt.Sprintf("Cyc%d", g.n())}
		e1.Stmts = []string{b.Name + " <- " + e2.Name}
		e2.Stmts = []string{a.Name + " <- " + e1.Name}
		if g.r.Chance(1, 2) {
			if t := a.findType("type"); t != nil {
				e1.Stmts = append(e1.Stmts, "return ok <: "+t.Name)
			}
		}
		a.Eps = append(a.Eps, e1)
		b.Eps = append(b.Eps, e2)
		if s := g.m.app(seqsApp); s != nil {
			s.Eps[0].Stmts = append(s.Eps[0].Stmts, a.Name+" <- "+e1.Name)
		}
	}},
	{"call-self", func(g *mgen) {
		a := g.pickSvc()
		e := &mEp{Name: fmt.Sprintf("Self%d", g.n())}
		e.Stmts = []string{g.r.Pick([]string{". <- " + e.Name, a.Name + " <- " + e.Name})}
		if g.r.Chance(1, 2) {
			e.Stmts = append(e.Stmts, "return ok <: string")
		}
		a.Eps = append(a.Eps, e)
	}},
	{"passthrough-cycle", func(g *mgen) {
		a, b := g.pickSvc(), g.pickSvc()
		e1, e2 := &mEp{Name: fmt.Sprintf("Pass%d", g.n())}, &mEp{Name: fmt.Sprintf("Pass%d", g.n())}
		e1.Stmts = []string{b.Name + " <- " + e2.Name}
		e2.Stmts = []string{a.Name + " <- " + e1.Name}
		a.Eps = append(a.Eps, e1)
		b.Eps = append(b.Eps, e2)
		c := g.pickSvc()
		_, ce := g.pickEp()
		ce.Stmts = append(ce.Stmts, a.Name+" <- "+e1.Name)
		if p := g.m.app(projectApp); p != nil {
			p.Eps = append(p.Eps, &mEp{Name: fmt.Sprintf("Through%d", g.n()),
				Attrs: fmt.Sprintf(`[passthrough=["%s", "%s"]]`, a.Name, b.Name), Stmts: []string{c.Name, g.pickSvc().Name}})
		}
	}},
	{"passthrough-missing-app", func(g *mgen) {
		if p := g.m.app(projectApp); p != nil {
			p.Eps = append(p.Eps, &mEp{Name: fmt.Sprintf("Through%d", g.n()),
				Attrs: g.r.Pick([]string{`[passthrough=["Ghost"]]`, `[exclude=["Ghost"]]`, `[passthrough=["Ghost"], exclude=["` + g.pickSvc().Name + `"]]`}),
				Stmts: []string{g.pickSvc().Name, g.pickSvc().Name}})
		}
	}},
	{"project-names-missing-app", func(g *mgen) {
		if p := g.m.app(projectApp); p != nil {
			if g.r.Chance(1, 2) {
				p.Eps[0].Stmts = append(p.Eps[0].Stmts, "Ghost")
			} else {
				p.Eps = append(p.Eps, &mEp{Name: fmt.Sprintf("Lost%d", g.n()), Stmts: []string{"Ghost", "Phantom"}})
			}
		}
	}},
	{"project-endpoint-without-statements", func(g *mgen) {
		if p := g.m.app(projectApp); p != nil {
			p.Eps = append(p.Eps, &mEp{Name: fmt.Sprintf("Blank%d", g.n())})
		}
	}},
	{"endpoint-without-statements", func(g *mgen) {
		a := g.pickSvc()
		e := &mEp{Name: fmt.Sprintf("Stub%d", g.n())}
		a.Eps = append(a.Eps, e)
		_, caller := g.pickEp()
		if caller != e {
			caller.Stmts = append(caller.Stmts, a.Name+" <- "+e.Name)
		}
	}},
	{"rest-unusual-params", func(g *mgen) {
		a := g.pickSvc()
		path := g.r.Pick([]string{"/odd/{key <: Missing}", "/odd/{a <: int}/x/{b <: string}", "/odd/{id <: string}/{id <: string}", "/odd%20path/{id <: Ghost.Thing}", "/", "/odd/{id <: int}/{id2 <: int}"})
		rs := &mRest{Path: path}
		meth := g.r.Pick([]string{"GET ?q=Missing", "GET ?q=string?&r=int", "POST (body <: Missing [~body])", "DELETE", "PUT ?a=Missing?", "PATCH (h <: string [~header])", "GET (x <: sequence of Missing)"})
		e := &mEp{Name: meth}
		if g.r.Chance(1, 2) {
			e.Stmts = []string{"return ok <: string"}
		}
		rs.Methods = append(rs.Methods, e)
		a.Rests = append(a.Rests, rs)
	}},
	{"rest-endpoint-plain", func(g *mgen) {
		a := g.pickSvc()
		rs := &mRest{Path: fmt.Sprintf("/plain%d", g.n())}
		for _, mth := range []string{"GET", "POST"} {
			e := &mEp{Name: mth}
			if t := a.findType("type"); t != nil && g.r.Chance(1, 2) {
				e.Stmts = []string{"return 200 <: " + t.Name}
			} else {
				e.Stmts = []string{g.r.Pick([]string{"return 200 <: string", "return ok <: sequence of string", "do it", "return 500 <: string\nreturn 200 <: int"})}
			}
			rs.Methods = append(rs.Methods, e)
		}
		a.Rests = append(a.Rests, rs)
	}},
	{"return-bare", func(g *mgen) {
		_, e := g.pickEp()
		if g.r.Chance(1, 2) {
			e.Stmts = append([]string{"return"}, e.Stmts...)
		} else {
			e.Stmts = append(e.Stmts, "return")
		}
	}},
	{"return-missing-type", func(g *mgen) {
		_, e := g.pickEp()
		e.Stmts = append(e.Stmts, "return "+g.r.Pick([]string{"ok <: Missing", "error <: Ghost.Thing", "ok <: " + g.pickSvc().Name + ".Missing", "Missing", "ok"}))
	}},
	{"return-odd-payload", func(g *mgen) {
		_, e := g.pickEp()
		e.Stmts = append(e.Stmts, "return "+g.r.Pick([]string{"200 <: sequence of Missing", "404", "error <: set of Ghost.Thing", "200 <: string [mediatype=\"text/plain\"]",
			"ok <: sequence of string", "500 <: Missing.field", "ok <: int?"}))
	}},
	{"return-first", func(g *mgen) {
		// a return with no statements before it, followed by more statements
		_, e := g.pickEp()
		e.Stmts = append([]string{"return ok <: string"}, e.Stmts...)
	}},
	{"enum", func(g *mgen) {
		a := g.pickSvc()
		t := &mType{Kind: "enum", Name: fmt.Sprintf("Color%d", g.n()), Lines: []string{"RED: 1", "GREEN: 2"}}
		a.Types = append(a.Types, t)
		if u := a.findType(g.r.Pick([]string{"type", "table"})); u != nil {
			u.Lines = append(u.Lines, g.fld()+" <: "+t.Name)
		}
		if g.r.Chance(1, 3) {
			_, e := g.pickEp()
			e.Stmts = append(e.Stmts, "return ok <: "+a.Name+"."+t.Name)
		}
	}},
	{"union", func(g *mgen) {
		a := g.pickSvc()
		t := &mType{Kind: "union", Name: fmt.Sprintf("Either%d", g.n())}
		if u := a.findType("type"); u != nil {
			t.Lines = append(t.Lines, u.Name)
		}
		t.Lines = append(t.Lines, g.r.Pick([]string{"Missing", "string", "int", "Ghost.Thing"}))
		a.Types = append(a.Types, t)
		if u := a.findType("type"); u != nil && g.r.Chance(1, 2) {
			u.Lines = append(u.Lines, g.fld()+" <: "+t.Name)
		}
	}},
	{"alias-missing-type", func(g *mgen) {
		a := g.pickSvc()
		t := &mType{Kind: "alias", Name: fmt.Sprintf("Aka%d", g.n()), Lines: []string{g.r.Pick([]string{"Missing", "sequence of Missing", "Ghost.Thing", "set of Ghost.Thing", "string"})}}
		a.Types = append(a.Types, t)
		if u := a.findType(g.r.Pick([]string{"type", "table"})); u != nil && g.r.Chance(2, 3) {
			u.Lines = append(u.Lines, g.fld()+" <: "+t.Name)
		}
		if g.r.Chance(1, 3) {
			_, e := g.pickEp()
			e.Stmts = append(e.Stmts, "return ok <: "+t.Name)
		}
	}},
	{"alias-cycle", func(g *mgen) {
		a := g.pickSvc()
		n1, n2 := fmt.Sprintf("Loop%d", g.n()), fmt.Sprintf("Loop%d", g.n())
		a.Types = append(a.Types, &mType{Kind: "alias", Name: n1, Lines: []string{n2}}, &mType{Kind: "alias", Name: n2, Lines: []string{g.r.Pick([]string{n1, "sequence of " + n1})}})
		if u := a.findType("type"); u != nil {
			u.Lines = append(u.Lines, g.fld()+" <: "+n1)
		}
	}},
	{"view", func(g *mgen) {
		a := g.pickSvc()
		a.Raw = append(a.Raw, fmt.Sprintf("!view Show%d(n <: int) -> int:\n    n -> (:\n        out = n + 1\n    )", g.n()))
	}},
	{"mixin-missing-app", func(g *mgen) {
		a := g.pickSvc()
		a.Mixins = append(a.Mixins, g.r.Pick([]string{"Ghost", "Ghost :: Deep"}))
	}},
	{"mixin", func(g *mgen) {
		a, b := g.pickSvc(), g.pickSvc()
		if a != b {
			a.Mixins = append(a.Mixins, b.Name)
		}
	}},
	{"param-missing-type", func(g *mgen) {
		a := g.pickSvc()
		e := &mEp{Name: fmt.Sprintf("Take%d", g.n()), Params: "(" + g.r.Pick([]string{"x <: Missing", "x <: Ghost.Thing, y <: int", "x <: sequence of Missing", "x", "x <: Missing.field"}) + ")"}
		if g.r.Chance(1, 2) {
			e.Stmts = []string{"return ok <: string"}
		}
		a.Eps = append(a.Eps, e)
		_, caller := g.pickEp()
		if caller != e {
			caller.Stmts = append(caller.Stmts, a.Name+" <- "+e.Name)
		}
	}},
	{"event-and-subscriber", func(g *mgen) {
		a, b := g.pickSvc(), g.pickSvc()
		ev := fmt.Sprintf("Happened%d", g.n())
		a.Raw = append(a.Raw, "<-> "+ev+":\n    ...")
		if a != b {
			b.Raw = append(b.Raw, a.Name+" -> "+ev+":\n    "+g.r.Pick([]string{"handle it", "Ghost <- Nope", g.callTo(a)}))
		}
		if g.r.Chance(1, 2) {
			_, e := g.pickEp()
			e.Stmts = append(e.Stmts, a.Name+" <- "+ev)
		}
	}},
	{"field-collection-of-missing", func(g *mgen) {
		_, t := g.pickType("type")
		t.Lines = append(t.Lines, g.fld()+" <: "+g.r.Pick([]string{"set of Missing", "sequence of Ghost.Thing", "sequence of Missing?"}))
	}},
	{"type-without-fields", func(g *mgen) {
		a := g.pickSvc()
		t := &mType{Kind: g.r.Pick([]string{"type", "table"}), Name: fmt.Sprintf("Void%d", g.n())}
		a.Types = append(a.Types, t)
		if u := a.findType("type"); u != nil && u != t && g.r.Chance(1, 2) {
			u.Lines = append(u.Lines, g.fld()+" <: "+t.Name)
		}
		if g.r.Chance(1, 2) {
			_, e := g.pickEp()
			e.Stmts = append(e.Stmts, "return ok <: "+t.Name)
		}
	}},
	{"namespaced-application", func(g *mgen) {
		name := fmt.Sprintf("Corp :: Unit%d", g.n())
		a := &mApp{Name: name}
		t := g.newType(a, "type")
		tab := g.newType(a, "table")
		_ = tab
		e := &mEp{Name: fmt.Sprintf("Ep%d", g.n()), Stmts: []string{"return ok <: " + t.Name}}
		a.Eps = append(a.Eps, e)
		// insert before the pseudo-apps
		g.m.Apps = append([]*mApp{a}, g.m.Apps...)
		_, caller := g.pickEp()
		if caller != e {
			caller.Stmts = append(caller.Stmts, name+" <- "+e.Name)
		}
		if p := g.m.app(projectApp); p != nil {
			p.Eps[0].Stmts = append(p.Eps[0].Stmts, name)
		}
		if g.r.Chance(1, 2) {
			_, u := g.pickType("type")
			if u != t {
				u.Lines = append(u.Lines, g.fld()+" <: "+name+"."+t.Name)
			}
		}
	}},
	{"application-name-with-space", func(g *mgen) {
		name := fmt.Sprintf("Back%%20Office%d", g.n())
		a := &mApp{Name: name}
		t := g.newType(a, "type")
		g.newType(a, "table")
		a.Eps = append(a.Eps, &mEp{Name: "Do%20It", Stmts: []string{"return ok <: " + t.Name}}, &mEp{Name: "Plain", Stmts: []string{"work"}})
		g.m.Apps = append([]*mApp{a}, g.m.Apps...)
		if p := g.m.app(projectApp); p != nil {
			p.Eps[0].Stmts = append(p.Eps[0].Stmts, strings.ReplaceAll(name, "%20", " "))
		}
		_, caller := g.pickEp()
		caller.Stmts = append(caller.Stmts, name+" <- Plain")
	}},
	{"deep-reference-path", func(g *mgen) {
		a, t := g.pickType("type")
		u := g.newType(a, "type")
		f := g.fld()
		u.Lines = append(u.Lines, f+" <: int")
		t.Lines = append(t.Lines, g.fld()+" <: "+g.r.Pick([]string{u.Name + "." + f, a.Name + "." + u.Name + "." + f, u.Name + "." + f + ".deeper", u.Name + ".nofield"}))
	}},
	{"sequence-view-attributes", func(g *mgen) {
		if s := g.m.app(seqsApp); s != nil {
			switch g.r.Intn(4) {
			case 0:
				s.Eps[0].Attrs = `[blackboxes=[["Ghost <- Nope", "hidden away"]]]`
			case 1:
				s.Attrs = append(s.Attrs, `blackboxes=[["`+g.pickSvc().Name+`", "opaque"]]`)
			case 2:
				s.Attrs = append(s.Attrs, `seqtitle="%(epname) of %(@nothing)"`, `epfmt="%(epname) %(@missing)"`)
			default:
				s.Eps[0].Attrs = `[groupby="owner"]`
			}
		}
	}},
	{"format-attributes", func(g *mgen) {
		if p := g.m.app(projectApp); p != nil {
			p.Attrs = []string{g.r.Pick([]string{`appfmt="%(@nothing)"`, `appfmt="%(appname) %(@owner? by %(@owner))"`, `appfmt="**%(appname)**"`, `epfmt="%(epname)"`, `title="%(epname) view"`,
				`appfmt="%(appname"`, `highlight_color="red"`, `indirect_arrow_color="blue"`})}
		}
	}},
	{"human-and-hidden", func(g *mgen) {
		a := g.pickSvc()
		a.Attrs = append(a.Attrs, g.r.Pick([]string{"~human", "~ui", "~external"}))
		_, e := g.pickEp()
		if e.Attrs == "" {
			e.Attrs = "[~hidden]"
		}
	}},
	{"collector", func(g *mgen) {
		a := g.pickSvc()
		tgt := g.r.Pick([]string{"Ghost <- Nope", g.pickSvc().Name + " <- NoSuchEp", g.callTo(g.pickSvc())})
		a.Raw = append(a.Raw, ".. * <- *:\n    "+tgt+" [~tagged]")
	}},
	{"call-with-arguments", func(g *mgen) {
		_, e := g.pickEp()
		b := g.pickSvc()
		call := g.callTo(b)
		e.Stmts = append(e.Stmts, call+g.r.Pick([]string{"(x)", "(x <: Missing)", "(a, b <: Missing)"}))
	}},
	{"rest-nested-paths", func(g *mgen) {
		a := g.pickSvc()
		n := g.n()
		body := "return ok <: string"
		if t := a.findType("type"); t != nil {
			body = "return ok <: " + t.Name
		}
		a.Raw = append(a.Raw, fmt.Sprintf("/outer%d [~rest]:\n    /inner/{k <: int}:\n        GET:\n            %s\n        /leaf:\n            POST (b <: %s [~body]):\n                %s\n    DELETE:\n        gone",
			n, body, g.r.Pick([]string{"string", "Missing", "int"}), g.r.Pick([]string{"return 201", "Ghost <- Nope", "stored"})))
	}},
	{"docstrings-and-field-annotations", func(g *mgen) {
		_, e := g.pickEp()
		e.Stmts = append([]string{"| what this endpoint does", "| in two lines"}, e.Stmts...)
		_, t := g.pickType(g.r.Pick([]string{"type", "table"}))
		t.Lines = append(t.Lines, g.fld()+" <: string:\n    @sensitive = \"true\"\n    @description = \"a \\\"quoted\\\" thing\"")
	}},
	{"publish-to-event", func(g *mgen) {
		a, b := g.pickSvc(), g.pickSvc()
		ev := fmt.Sprintf("Changed%d", g.n())
		a.Raw = append(a.Raw, "<-> "+ev+":\n    ...")
		e := &mEp{Name: fmt.Sprintf("Emit%d", g.n()), Stmts: []string{". <- " + ev}}
		a.Eps = append(a.Eps, e)
		if a != b {
			b.Raw = append(b.Raw, a.Name+" -> "+ev+":\n    "+g.callTo(a))
		}
		if s := g.m.app(seqsApp); s != nil {
			s.Eps[0].Stmts = append(s.Eps[0].Stmts, a.Name+" <- "+e.Name)
		}
	}},
	{"annotations-odd", func(g *mgen) {
		a := g.pickSvc()
		a.Annos = append(a.Annos, g.r.Pick([]string{`@package = "odd pkg"`, `@basePath = "/v1"`, `@description =:` + "\n" + `    | multi line` + "\n" + `    | text`,
			`@go_package = "x/y"`, `@spanner_spec = "1"`, `@host = ""`}))
	}},
}

// buildOwn builds a model of our own generator with k untidiness kinds applied.
func buildOwn(r *fw.Rand, force []string) *model {
	g := &mgen{r: r, m: &model{}}
	g.base()
	k := []int{0, 1, 1, 1, 2, 2, 3, 4}[r.Intn(8)]
	seen := map[string]bool{}
	if len(force) > 0 && r.Chance(1, 2) {
		k = 0
	}
	for _, f := range force {
		for _, u := range untidies {
			if u.name == f {
				u.f(g)
				seen[u.name] = true
			}
		}
	}
	for ; k > 0; k-- {
		u := untidies[r.Intn(len(untidies))]
		u.f(g)
		seen[u.name] = true
	}
	for n := range seen {
		g.m.Kinds = append(g.m.Kinds, n)
	}
	sort.Strings(g.m.Kinds)
	if len(g.m.Kinds) == 0 {
		g.m.Kinds = []string{"tidy"}
	}
	return g.m
}

// deltaVariant gives a changed copy of the model's tables (for generate-db-scripts-delta).
func deltaVariant(r *fw.Rand, m *model) *model {
	v := m.clone()
	g := &mgen{r: r, m: v, seq: 900}
	for _, a := range v.Apps {
		for _, t := range a.Types {
			if t.Kind != "table" {
				continue
			}
			switch r.Intn(5) {
			case 0:
				t.Lines = append(t.Lines, g.fld()+" <: "+r.Pick(primWords))
			case 1:
				if len(t.Lines) > 1 {
					t.Lines = t.Lines[:len(t.Lines)-1]
				}
			case 2:
				if len(t.Lines) > 1 {
					i := r.Intn(len(t.Lines))
					if f := strings.SplitN(t.Lines[i], " <: ", 2); len(f) == 2 {
						t.Lines[i] = f[0] + " <: " + r.Pick(primWords)
					}
				}
			case 3:
				t.Name += "R"
			}
		}
		if r.Chance(1, 3) && a.Name != projectApp && a.Name != seqsApp {
			g.newType(a, "table")
		}
		if r.Chance(1, 6) && a.Name != projectApp && a.Name != seqsApp {
			// the new version adds a table without columns
			a.Types = append(a.Types, &mType{Kind: "table", Name: fmt.Sprintf("Hollow%d", g.n())})
		}
	}
	return v
}
