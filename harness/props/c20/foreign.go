package c20

import (
	"fmt"
	"strings"

	"verif/fw"
)

// Small generated foreign specifications for `sysl import`. Each is a well-formed
// document of its format; the shapes (recursion, dangling references, empty sections,
// nesting) are chosen by the PRNG.

type foreignDoc struct {
	file   string // file name (extension selects the importer)
	format string // evidence label
	text   string
	slow   bool // arr.ai based importer (seconds per document)
	shape  string
}

func oasSchemas(r *fw.Rand, refPrefix string) (string, []string, string) {
	var b strings.Builder
	n := r.Range(0, 3)
	var names []string
	for i := 0; i < n; i++ {
		names = append(names, fmt.Sprintf("%s%d", r.Pick(tyWords), i))
	}
	shape := fmt.Sprintf("schemas=%d", n)
	for i, name := range names {
		fmt.Fprintf(&b, "  %s:\n", name)
		switch r.Intn(7) {
		case 0:
			b.WriteString("    type: string\n")
			shape += ",prim"
		case 1:
			b.WriteString("    type: array\n    items:\n      type: integer\n")
			shape += ",array"
		case 2:
			b.WriteString("    type: object\n")
			shape += ",empty-object"
		default:
			b.WriteString("    type: object\n    properties:\n")
			for k := r.Range(1, 3); k > 0; k-- {
				f := fmt.Sprintf("%s%d", r.Pick(fldWords), k)
				switch r.Intn(8) {
				case 0:
					fmt.Fprintf(&b, "      %s:\n        $ref: '%s%s'\n", f, refPrefix, names[r.Intn(len(names))])
					shape += ",ref"
				case 1:
					fmt.Fprintf(&b, "      %s:\n        $ref: '%s%s'\n", f, refPrefix, name)
					shape += ",self-ref"
				case 2:
					fmt.Fprintf(&b, "      %s:\n        type: array\n        items:\n          $ref: '%s%s'\n", f, refPrefix, names[r.Intn(len(names))])
					shape += ",array-ref"
				case 3:
					fmt.Fprintf(&b, "      %s:\n        type: object\n        properties:\n          inner:\n            type: string\n", f)
					shape += ",nested"
				case 4:
					fmt.Fprintf(&b, "      %s:\n        type: array\n        items:\n          type: array\n          items:\n            type: string\n", f)
					shape += ",array-array"
				case 5:
					fmt.Fprintf(&b, "      %s:\n        type: string\n        enum: [a, b]\n", f)
					shape += ",enum"
				default:
					fmt.Fprintf(&b, "      %s:\n        type: %s\n", f, r.Pick([]string{"string", "integer", "boolean", "number"}))
				}
			}
			if r.Chance(1, 3) {
				b.WriteString("    required: [nosuchfield]\n")
				shape += ",required-missing"
			}
		}
		_ = i
	}
	return b.String(), names, shape
}

func genOAS2(r *fw.Rand) foreignDoc {
	defs, names, shape := oasSchemas(r, "#/definitions/")
	var b strings.Builder
	b.WriteString("swagger: \"2.0\"\ninfo:\n  title: Gen\n  version: \"1.0\"\n")
	if r.Chance(1, 2) {
		b.WriteString("basePath: /api\n")
	}
	b.WriteString("paths:\n")
	np := r.Range(0, 2)
	if np == 0 {
		b.WriteString("  {}\n")
		shape += ",no-paths"
	}
	for i := 0; i < np; i++ {
		fmt.Fprintf(&b, "  /items%d/{id}:\n    %s:\n", i, r.Pick([]string{"get", "post", "delete"}))
		b.WriteString("      parameters:\n        - name: id\n          in: path\n          required: true\n          type: string\n")
		if r.Chance(1, 3) {
			b.WriteString("        - name: q\n          in: query\n          type: array\n          items:\n            type: string\n")
		}
		if len(names) > 0 && r.Chance(1, 3) {
			fmt.Fprintf(&b, "        - name: body\n          in: body\n          schema:\n            $ref: '#/definitions/%s'\n", names[r.Intn(len(names))])
		}
		b.WriteString("      responses:\n        200:\n          description: ok\n")
		switch {
		case len(names) > 0 && r.Chance(1, 2):
			fmt.Fprintf(&b, "          schema:\n            $ref: '#/definitions/%s'\n", names[r.Intn(len(names))])
		case r.Chance(1, 3):
			b.WriteString("          schema:\n            type: array\n            items:\n              type: string\n")
		}
		if r.Chance(1, 3) {
			b.WriteString("        default:\n          description: failure\n")
		}
	}
	if len(names) > 0 {
		b.WriteString("definitions:\n" + defs)
	}
	return foreignDoc{file: "foreign_oas2.yaml", format: "openapi2", text: b.String(), shape: shape}
}

func genOAS3(r *fw.Rand) foreignDoc {
	defs, names, shape := oasSchemas(r, "#/components/schemas/")
	var b strings.Builder
	b.WriteString("openapi: \"3.0.0\"\ninfo:\n  title: Gen\n  version: \"1.0\"\npaths:\n")
	np := r.Range(0, 2)
	if np == 0 {
		b.WriteString("  {}\n")
		shape += ",no-paths"
	}
	for i := 0; i < np; i++ {
		fmt.Fprintf(&b, "  /items%d/{id}:\n    %s:\n", i, r.Pick([]string{"get", "post", "put"}))
		b.WriteString("      parameters:\n        - name: id\n          in: path\n          required: true\n          schema:\n            type: string\n")
		b.WriteString("      responses:\n        '200':\n          description: ok\n")
		if len(names) > 0 && r.Chance(2, 3) {
			fmt.Fprintf(&b, "          content:\n            application/json:\n              schema:\n                $ref: '#/components/schemas/%s'\n", names[r.Intn(len(names))])
		}
	}
	if len(names) > 0 {
		b.WriteString("components:\n  schemas:\n" + indent(2, strings.TrimRight(defs, "\n")) + "\n")
	}
	return foreignDoc{file: "foreign_oas3.yaml", format: "openapi3", text: b.String(), slow: true, shape: shape}
}

func genXSD(r *fw.Rand) foreignDoc {
	var b strings.Builder
	shape := ""
	b.WriteString(`<?xml version="1.0" encoding="UTF-8"?>` + "\n" + `<xs:schema xmlns:xs="http://www.w3.org/2001/XMLSchema">` + "\n")
	n := r.Range(1, 3)
	var names []string
	for i := 0; i < n; i++ {
		names = append(names, fmt.Sprintf("%s%d", r.Pick(tyWords), i))
	}
	fmt.Fprintf(&b, "  <xs:element name=\"root\" type=\"%s\"/>\n", names[0])
	for i, name := range names {
		fmt.Fprintf(&b, "  <xs:complexType name=\"%s\">\n    <xs:sequence>\n", name)
		for k := r.Range(0, 3); k > 0; k-- {
			f := fmt.Sprintf("%s%d", r.Pick(fldWords), k)
			switch r.Intn(6) {
			case 0:
				// reference to a later type only (recursion through complex types overflows the
				// importer's stack: known, reported by the import check)
				if i+1 < len(names) {
					fmt.Fprintf(&b, "      <xs:element name=\"%s\" type=\"%s\"/>\n", f, names[i+1])
					shape += ",ref"
				}
			case 1:
				fmt.Fprintf(&b, "      <xs:element name=\"%s\" type=\"xs:string\" minOccurs=\"0\" maxOccurs=\"unbounded\"/>\n", f)
				shape += ",list"
			case 2:
				fmt.Fprintf(&b, "      <xs:element name=\"%s\">\n        <xs:simpleType>\n          <xs:restriction base=\"xs:string\">\n            <xs:maxLength value=\"5\"/>\n          </xs:restriction>\n        </xs:simpleType>\n      </xs:element>\n", f)
				shape += ",restriction"
			case 3:
				fmt.Fprintf(&b, "      <xs:element name=\"%s\" type=\"NoSuchType\"/>\n", f)
				shape += ",dangling-type"
			default:
				fmt.Fprintf(&b, "      <xs:element name=\"%s\" type=\"xs:%s\"/>\n", f, r.Pick([]string{"string", "int", "date", "decimal", "dateTime"}))
			}
		}
		b.WriteString("    </xs:sequence>\n")
		if r.Chance(1, 3) {
			b.WriteString("    <xs:attribute name=\"code\" type=\"xs:string\"/>\n")
			shape += ",attribute"
		}
		b.WriteString("  </xs:complexType>\n")
	}
	b.WriteString("</xs:schema>\n")
	return foreignDoc{file: "foreign.xsd", format: "xsd", text: b.String(), shape: fmt.Sprintf("types=%d%s", n, shape)}
}

func genSQL(r *fw.Rand) foreignDoc {
	var b strings.Builder
	n := r.Range(1, 3)
	shape := fmt.Sprintf("tables=%d", n)
	var names []string
	for i := 0; i < n; i++ {
		name := fmt.Sprintf("%s%d", r.Pick(tyWords), i)
		fmt.Fprintf(&b, "CREATE TABLE %s (\n  id INT64 NOT NULL,\n", name)
		for k := r.Range(0, 3); k > 0; k-- {
			fmt.Fprintf(&b, "  %s%d %s,\n", r.Pick(fldWords), k, r.Pick([]string{"STRING(MAX)", "STRING(20) NOT NULL", "BOOL", "FLOAT64", "TIMESTAMP", "DATE", "BYTES(10)", "ARRAY<STRING(5)>"}))
		}
		if len(names) > 0 && r.Chance(1, 2) {
			fmt.Fprintf(&b, "  parent INT64,\n  CONSTRAINT fk_%d FOREIGN KEY (parent) REFERENCES %s (id),\n", i, names[r.Intn(len(names))])
			shape += ",fk"
		}
		b.WriteString(") PRIMARY KEY (id);\n\n")
		names = append(names, name)
	}
	if r.Chance(1, 3) {
		fmt.Fprintf(&b, "CREATE INDEX idx0 ON %s (id);\n", names[0])
		shape += ",index"
	}
	return foreignDoc{file: "foreign_spanner.sql", format: "spannerSQL", text: b.String(), slow: true, shape: shape}
}
