// Package c20: every command ends with output or an error on every valid model.
//
// The oracle is a process supervisor over the real binary (<verif>/bin/sysl, built from the
// working tree): each command line runs in the case's scratch directory with stdout and
// stderr captured and a bound on its running time. A Go panic, a runtime fatal error, a
// goroutine dump, death by signal, exit status 0 without the promised output, or no return
// within the bound refute the property; an error message with a non-zero status is fine.
package c20

import (
	"context"
	"encoding/json"
	"fmt"
	"os"
	"os/exec"
	"path/filepath"
	"regexp"
	"sort"
	"strconv"
	"strings"
	"syscall"
	"time"

	"verif/fw"
)

type prop struct{}

func init() { fw.Register(prop{}) }

func (prop) ID() string { return "C20" }
func (prop) Cases(tier string) int {
	// development aid: C20_CASES=n overrides the number of cases of either tier
	if v, err := strconv.Atoi(os.Getenv("C20_CASES")); err == nil && v > 0 {
		return v
	}
	if tier == "thorough" {
		return 3000
	}
	return 60
}

func (prop) Info() fw.Info {
	return fw.Info{
		Level: "exploration",
		Rule:  "case i = one model from PRNG(seed,i): two thirds from the check's own generator (2-4 services with types, tables, simple and REST endpoints, a DAG of calls, a project pseudo-app and a sequence pseudo-app) with 0-4 untidiness operators applied (calls to undefined applications/endpoints, dangling/cyclic/self type references, table references without a field, cyclic/self/dangling foreign keys, empty applications, call cycles, self calls, pass-through cycles, project apps naming missing apps, endpoints without statements, unusual REST parameters, odd return payloads, enums, unions, aliases of missing types, views, mixins of missing apps, ...: the list is props/c20/models.go `untidies`), one third from the shared generator edited before rendering (retargeted calls, dangling and self references) plus a project app. The model is first given to `sysl pb`; a rejected model is counted and skipped. An accepted model is run through ~25 (quick) / ~40 (thorough) command lines of the real binary: pb (textpb/json/pb, --compact), validate, sd for the endpoints (plain, -b, -g, -a), ints (plain/--clustered/--epa/--exclude/--filter), datamodel (-d, -j), export (swagger, openapi3, spanner, proto x yaml/json), generate-db-scripts, generate-db-scripts-delta against a changed copy, import (of the model's own pb and exported documents and of generated OpenAPI 2/3, XSD and SQL documents), template, transform, diagram (generator stage), info/env. Each invocation is judged by the supervisor. Non-trivial: the model was accepted and >= 15 command lines ran; distinct by hash of the model text.",
		Assumptions: []string{
			"a Go crash is recognised by `panic: `, `fatal error: ` or `goroutine N [` at the start of a line of stdout/stderr (the runtime's own format); a panic that the program recovers and reports as an error message is not a crash",
			"`sysl diagram` needs a headless browser that the sandbox lacks: its run ends in mermaid-go's Init panicking (`google-chrome` not found) after the Mermaid generator has returned; that one panic is counted as 'generator returned', any other crash of the command is a violation",
			"`sysl codegen` (needs a grammar and a transform written for it), `repl`, `lsp` and `test-rig` (interactive / servers / docker) are not run",
			"timeouts: 60 s per invocation, retried once while no other invocation of this run is executing (file lock shared by the workers)",
			"the binary runs with GOMAXPROCS=2, GOTRACEBACK=single and a dummy SYSL_PLANTUML (only .puml text output is requested, which never contacts the server)",
		},
		CaseTimeout: 1500,
		SetFloors:   map[string]int{"commands": 12, "untidiness": 8, "exit_statuses": 2},
		CountFloors: map[string]int{"invocations": 1000, "models_accepted": 40},
	}
}

// ---------------------------------------------------------------------------------------
// supervisor

type outSpec struct {
	glob     string // relative to the case directory
	nonEmpty bool
}

type inv struct {
	label string   // evidence label: command and mode
	cmd   string   // command name used in signatures
	args  []string // arguments after the binary
	outs  []outSpec
	// browser: the command ends by starting a headless browser (sysl diagram); mermaid-go's
	// Init panicking because there is none is the sandbox, not the model
	browser bool
}

type outcome struct {
	code     int
	signal   string
	timedOut bool
	text     string // stderr + stdout (clipped)
	secs     float64
}

const invTimeout = 60 * time.Second

// lockFiles returns the two lock files shared by all workers of this run.
func lockFiles(ctx *fw.Ctx) (gate, main string) {
	root := filepath.Dir(filepath.Dir(ctx.Dir))
	return filepath.Join(root, "c20.gate.lock"), filepath.Join(root, "c20.main.lock")
}

func flock(path string, how int) *os.File {
	f, err := os.OpenFile(path, os.O_CREATE|os.O_RDWR, 0o644)
	if err != nil {
		return nil
	}
	if err := syscall.Flock(int(f.Fd()), how); err != nil {
		f.Close()
		return nil
	}
	return f
}

func unlock(f *os.File) {
	if f != nil {
		_ = syscall.Flock(int(f.Fd()), syscall.LOCK_UN)
		f.Close()
	}
}

func readClip(path string, n int) string {
	f, err := os.Open(path)
	if err != nil {
		return ""
	}
	defer f.Close()
	buf := make([]byte, n)
	k, _ := f.Read(buf)
	return string(buf[:k])
}

// runOnce executes one command line. alone=true waits until no other invocation of the run
// executes and keeps the others out while it runs.
func runOnce(ctx *fw.Ctx, seq int, args []string, alone bool) outcome {
	gatePath, mainPath := lockFiles(ctx)
	var gate, mainL *os.File
	if alone {
		gate = flock(gatePath, syscall.LOCK_EX)
		mainL = flock(mainPath, syscall.LOCK_EX)
	} else {
		gate = flock(gatePath, syscall.LOCK_SH)
		mainL = flock(mainPath, syscall.LOCK_SH)
		unlock(gate)
		gate = nil
	}
	defer unlock(gate)
	defer unlock(mainL)

	outPath := filepath.Join(ctx.Dir, fmt.Sprintf("inv-%03d.out", seq))
	errPath := filepath.Join(ctx.Dir, fmt.Sprintf("inv-%03d.err", seq))
	of, _ := os.Create(outPath)
	ef, _ := os.Create(errPath)
	defer os.Remove(outPath)
	defer os.Remove(errPath)
	cctx, cancel := context.WithTimeout(context.Background(), invTimeout)
	defer cancel()
	cmd := exec.CommandContext(cctx, filepath.Join(ctx.BinDir, "sysl"), args...)
	cmd.Dir = ctx.Dir
	cmd.Stdout, cmd.Stderr = of, ef
	cmd.Stdin = nil
	env := []string{}
	for _, e := range os.Environ() {
		if strings.HasPrefix(e, "GOTRACEBACK=") || strings.HasPrefix(e, "SYSL_") || strings.HasPrefix(e, "GORACE=") || strings.HasPrefix(e, "GOMAXPROCS=") {
			continue
		}
		env = append(env, e)
	}
	// .puml output never contacts the server; the value only has to be present
	// GOMAXPROCS=2: sixteen supervisors run side by side; a child that spreads its garbage
	// collector over every core costs three times the CPU for the same result
	cmd.Env = append(env, "SYSL_PLANTUML=http://plantuml.invalid/plantuml", "GOTRACEBACK=single", "GOMAXPROCS=2")
	cmd.SysProcAttr = &syscall.SysProcAttr{Setpgid: true}
	cmd.Cancel = func() error {
		if cmd.Process != nil {
			_ = syscall.Kill(-cmd.Process.Pid, syscall.SIGKILL)
		}
		return nil
	}
	cmd.WaitDelay = 5 * time.Second
	t0 := time.Now()
	err := cmd.Run()
	o := outcome{secs: time.Since(t0).Seconds()}
	of.Close()
	ef.Close()
	o.text = readClip(errPath, 400000)
	if so := readClip(outPath, 100000); so != "" {
		o.text += "\n--- stdout ---\n" + so
	}
	if cctx.Err() == context.DeadlineExceeded {
		o.timedOut = true
		o.code = -1
		return o
	}
	if err != nil {
		if ee, ok := err.(*exec.ExitError); ok {
			if ws, ok := ee.Sys().(syscall.WaitStatus); ok && ws.Signaled() {
				o.signal = ws.Signal().String()
				o.code = -1
				return o
			}
			o.code = ee.ExitCode()
			return o
		}
		o.code = -2
		o.text += "\n--- supervisor ---\n" + err.Error()
	}
	return o
}

var crashRe = regexp.MustCompile(`(?m)^(panic: |fatal error: |goroutine \d+ \[)`)
var hexRe = regexp.MustCompile(`0x[0-9a-fA-F]+`)
var frameRe = regexp.MustCompile(`(?m)^(github\.com/anz-bank/sysl/[^\s(]+(?:\(\*[^)]+\))?[^\s(]*)\(`)

const browserMsg = `exec: "google-chrome": executable file not found`

// crashOf recognises a Go crash in the captured output: kind, first line of the message
// and the text from the crash marker on.
func crashOf(text string) (kind, first, stack string, ok bool) {
	loc := crashRe.FindStringIndex(text)
	if loc == nil {
		return "", "", "", false
	}
	rest := text[loc[0]:]
	line := rest
	if i := strings.IndexByte(line, '\n'); i >= 0 {
		line = line[:i]
	}
	switch {
	case strings.HasPrefix(rest, "panic: "):
		return "panic", strings.TrimPrefix(line, "panic: "), rest, true
	case strings.HasPrefix(rest, "fatal error: "):
		return "fatal", strings.TrimPrefix(line, "fatal error: "), rest, true
	}
	return "dump", "goroutine dump", rest, true
}

// mostFrequentSyslFrame: for a stack overflow the innermost frame varies with where the
// stack happened to run out; the function that recurs most often does not.
func mostFrequentSyslFrame(stack string) string {
	count := map[string]int{}
	for _, m := range frameRe.FindAllStringSubmatch(stack, -1) {
		count[strings.TrimPrefix(m[1], "github.com/anz-bank/sysl/")]++
	}
	best, bn := "?", 0
	for f, n := range count {
		if n > bn || (n == bn && f < best) {
			best, bn = f, n
		}
	}
	return best
}

// crashSig = command | kind | sysl frame | message class.
func crashSig(cmd, kind, first, stack string, names []string) string {
	msg := hexRe.ReplaceAllString(first, "PTR")
	msg = strings.TrimSuffix(msg, " [recovered]")
	// names from the model (applications, endpoints, types, fields) are not part of the class
	for _, n := range names {
		if len(n) >= 3 {
			msg = replaceWord(msg, n, "ID")
		}
	}
	if kind == "fatal" && strings.Contains(first, "stack overflow") {
		return cmd + "|fatal|" + mostFrequentSyslFrame(stack) + "|stack overflow"
	}
	return cmd + "|" + fw.CrashSig(kind, msg, stack)
}

func isWordByte(c byte) bool {
	return c >= 'a' && c <= 'z' || c >= 'A' && c <= 'Z' || c >= '0' && c <= '9' || c == '_'
}

// replaceWord replaces occurrences of name that are not part of a longer word.
func replaceWord(s, name, with string) string {
	var b strings.Builder
	for {
		i := strings.Index(s, name)
		if i < 0 {
			b.WriteString(s)
			return b.String()
		}
		j := i + len(name)
		if (i > 0 && isWordByte(s[i-1]) && isWordByte(name[0])) || (j < len(s) && isWordByte(s[j]) && isWordByte(name[len(name)-1])) {
			b.WriteString(s[:j])
		} else {
			b.WriteString(s[:i] + with)
		}
		s = s[j:]
	}
}

func shellQuote(args []string) string {
	var b strings.Builder
	b.WriteString("sysl")
	for _, a := range args {
		b.WriteByte(' ')
		if a != "" && strings.IndexFunc(a, func(c rune) bool {
			return !(c >= 'a' && c <= 'z' || c >= 'A' && c <= 'Z' || c >= '0' && c <= '9' || strings.ContainsRune("-_./=,:", c))
		}) < 0 {
			b.WriteString(a)
		} else {
			b.WriteString("'" + strings.ReplaceAll(a, "'", `'\''`) + "'")
		}
	}
	return b.String()
}

func clip(s string, n int) string {
	if len(s) > n {
		return s[:n] + "\n...[clipped]"
	}
	return s
}

// ---------------------------------------------------------------------------------------
// what the compiled model contains (read from `sysl pb --mode json`), to choose commands

type pbModel struct {
	Apps map[string]struct {
		Attrs     map[string]json.RawMessage `json:"attrs"`
		Endpoints map[string]struct {
			Stmt []json.RawMessage `json:"stmt"`
		} `json:"endpoints"`
		Types map[string]struct {
			Relation *struct {
				AttrDefs map[string]json.RawMessage `json:"attrDefs"`
			} `json:"relation"`
			Tuple *struct {
				AttrDefs map[string]json.RawMessage `json:"attrDefs"`
			} `json:"tuple"`
		} `json:"types"`
	} `json:"apps"`
}

type appInfo struct {
	name   string
	eps    []string
	types  int
	tables int
	simple bool // name is a plain identifier
	// restOnly: every endpoint is a REST method; tablesOnly: every type is a table
	restOnly, tablesOnly bool
}

type modelInfo struct {
	apps  []*appInfo
	names []string // every application, endpoint, type and field name, longest first
}

var identRe = regexp.MustCompile(`^[A-Za-z_][A-Za-z0-9_]*$`)

func readModelInfo(path string) (*modelInfo, error) {
	b, err := os.ReadFile(path)
	if err != nil {
		return nil, err
	}
	var pm pbModel
	if err := json.Unmarshal(b, &pm); err != nil {
		return nil, err
	}
	mi := &modelInfo{}
	nameSet := map[string]bool{}
	var appNames []string
	for n := range pm.Apps {
		appNames = append(appNames, n)
	}
	sort.Strings(appNames)
	for _, n := range appNames {
		a := pm.Apps[n]
		ai := &appInfo{name: n, simple: identRe.MatchString(n)}
		nameSet[n] = true
		for e := range a.Endpoints {
			ai.eps = append(ai.eps, e)
			nameSet[e] = true
		}
		sort.Strings(ai.eps)
		for tn, t := range a.Types {
			ai.types++
			nameSet[tn] = true
			if t.Relation != nil {
				ai.tables++
				for f := range t.Relation.AttrDefs {
					nameSet[f] = true
				}
			}
			if t.Tuple != nil {
				for f := range t.Tuple.AttrDefs {
					nameSet[f] = true
				}
			}
		}
		ai.restOnly = len(ai.eps) > 0
		for _, e := range ai.eps {
			if !strings.Contains(e, " /") {
				ai.restOnly = false
			}
		}
		ai.tablesOnly = ai.tables > 0 && ai.tables == ai.types
		mi.apps = append(mi.apps, ai)
	}
	for n := range nameSet {
		mi.names = append(mi.names, n)
	}
	sort.Slice(mi.names, func(i, j int) bool {
		if len(mi.names[i]) != len(mi.names[j]) {
			return len(mi.names[i]) > len(mi.names[j])
		}
		return mi.names[i] < mi.names[j]
	})
	return mi, nil
}

func (mi *modelInfo) app(name string) *appInfo {
	for _, a := range mi.apps {
		if a.name == name {
			return a
		}
	}
	return nil
}

// services: applications other than the pseudo-apps.
func (mi *modelInfo) services() []*appInfo {
	var out []*appInfo
	for _, a := range mi.apps {
		if a.name != projectApp && a.name != seqsApp {
			out = append(out, a)
		}
	}
	return out
}

// ---------------------------------------------------------------------------------------
// the command lines for one model

const tmplText = `Tmpl:
  !view start(module <: sysl.TemplateInput) -> sysl.TemplateResult:
    module -> (:
      apps = module.Apps -> <set of string> (app:
        app = buildApp(app)
      )
    )

  !view buildApp(app <: sysl.App) -> sysl.TemplateResult:
    app -> (:
      Data = "app " + app.name + "\n"
      Filename = "tmpl_out.txt"
    )
`

const arraiText = "\\input (output: $`apps: ${input.models >> (.rel.app => .appName) count}`)\n"

func plan(ctx *fw.Ctx, r *fw.Rand, mi *modelInfo, haveDelta bool, docs []foreignDoc) []inv {
	th := ctx.Thorough()
	root := ctx.Dir
	var out []inv
	add := func(label, cmd string, outs []outSpec, args ...string) {
		full := []string{cmd, "--root", root}
		full = append(full, args...)
		out = append(out, inv{label: label, cmd: cmd, args: full, outs: outs})
	}
	file := func(name string) []outSpec { return []outSpec{{name, true}} }
	svcs := mi.services()
	pickSvc := func() *appInfo {
		if len(svcs) == 0 {
			return &appInfo{name: "Nothing"}
		}
		return svcs[r.Intn(len(svcs))]
	}

	// pb (json ran first as the acceptance gate), validate
	add("pb:textpb", "pb", file("out/m.textpb"), "--mode", "textpb", "-o", "out/m.textpb", "root.sysl")
	add("pb:pb", "pb", file("out/m.pb"), "--mode", "pb", "-o", "out/m.pb", "root.sysl")
	switch r.Intn(3) {
	case 0:
		add("pb:json-compact", "pb", file("out/mc.json"), "--mode", "json", "--compact", "-o", "out/mc.json", "root.sysl")
	case 1:
		add("pb:textpb-compact", "pb", file("out/mc.textpb"), "--mode", "textpb", "--compact", "-o", "out/mc.textpb", "root.sysl")
	default:
		add("pb:json-stdout", "pb", nil, "--mode", "json", "root.sysl")
	}
	if th || r.Chance(1, 3) {
		add("pb:split-apps", "pb", nil, "--mode", "json", "--split-apps", "out/split", "root.sysl")
	}
	if th && r.Chance(1, 2) {
		add("pb:filter", "pb", file("out/mf.textpb"), "--filter", pickSvc().name, "-o", "out/mf.textpb", "root.sysl")
	}
	add("validate", "validate", nil, "root.sysl")
	if th && r.Chance(1, 4) {
		add("display-summary", "display-summary", nil, "root.sysl")
	}

	// sd: the endpoints of the service applications
	type appEp struct{ app, ep string }
	var eps []appEp
	for _, a := range svcs {
		for _, e := range a.eps {
			if e != ".. * <- *" {
				eps = append(eps, appEp{a.name, e})
			}
		}
	}
	maxSd := 6
	if th {
		maxSd = 16
	}
	perm := r.Perm(len(eps))
	for k, j := range perm {
		if k >= maxSd {
			break
		}
		e := eps[j]
		o := fmt.Sprintf("out/sd%d.puml", k)
		args := []string{"-s", e.app + " <- " + e.ep, "-o", o}
		label := "sd:plain"
		switch r.Intn(8) {
		case 0, 1:
			if len(eps) > 1 {
				bb := eps[r.Intn(len(eps))]
				args = append(args, "-b", bb.app+" <- "+bb.ep+"=opaque here")
				label = "sd:blackbox"
			}
		case 2, 3:
			args = append(args, "-g", "owner")
			label = "sd:groupby"
		case 4:
			args = append(args, "-t", "Title of it", "--endpoint_format", "%(epname) %(args)", "--app_format", "%(appname) %(@owner)")
			label = "sd:formats"
		}
		args = append(args, "root.sysl")
		add(label, "sd", file(o), args...)
	}
	if s := mi.app(seqsApp); s != nil && len(s.eps) > 0 {
		add("sd:app", "sd", []outSpec{{"out/sda_*.puml", true}}, "-a", seqsApp, "-o", "out/sda_%(epname).puml", "root.sysl")
	}
	if th && len(svcs) > 0 && r.Chance(1, 2) {
		// templated output for an ordinary application: every endpoint must have calls, else an error
		add("sd:app-service", "sd", nil, "-a", pickSvc().name, "-o", "out/sdsvc/%(epname).puml", "root.sysl")
	}

	// ints
	if p := mi.app(projectApp); p != nil {
		promise := []outSpec{}
		for _, v := range []struct {
			label string
			args  []string
		}{{"ints:plain", nil}, {"ints:clustered", []string{"--clustered"}}, {"ints:epa", []string{"--epa"}}} {
			pre := "out/" + strings.ReplaceAll(v.label, ":", "_")
			if len(p.eps) > 0 {
				promise = []outSpec{{pre + "_*.puml", true}}
			}
			args := append([]string{"-j", projectApp, "-o", pre + "_%(epname).puml"}, v.args...)
			add(v.label, "ints", promise, append(args, "root.sysl")...)
		}
		if th || r.Chance(1, 4) {
			add("ints:exclude", "ints", nil, "-j", projectApp, "-e", pickSvc().name, "-t", "Some title", "-o", "out/intsx_%(epname).puml", "root.sysl")
		}
		if th && r.Chance(1, 2) {
			add("ints:filter", "ints", nil, "-j", projectApp, "--filter", "Part", "--epa", "--clustered", "-o", "out/intsf_%(epname).puml", "root.sysl")
		}
		// datamodel
		add("datamodel:project", "datamodel", nil, "-j", projectApp, "-o", "out/dmp_%(epname).puml", "root.sysl")
	}
	add("datamodel:direct", "datamodel", file("out/dmd.puml"), "-d", "-o", "out/dmd.puml", "root.sysl")
	if th || r.Chance(1, 3) {
		add("datamodel:direct-per-app", "datamodel", []outSpec{{"out/dma_*.puml", true}}, "-d", "-t", "Data", "--class_format", "%(classname) of %(@owner)", "-o", "out/dma_%(epname).puml", "root.sysl")
	}

	// export
	ext := func() string { return r.Pick([]string{"yaml", "json"}) }
	{
		a := pickSvc()
		if r.Chance(1, 2) {
			for _, j := range r.Perm(len(svcs)) {
				if svcs[j].restOnly {
					a = svcs[j]
					break
				}
			}
		}
		e := ext()
		add("export:swagger-"+e, "export", file("out/sw."+e), "-f", "swagger", "-a", a.name, "-o", "out/sw."+e, "root.sysl")
		e = ext()
		add("export:openapi3-"+e, "export", file("out/oa3."+e), "-f", "openapi3", "-a", a.name, "-o", "out/oa3."+e, "root.sysl")
		e = ext()
		add("export:openapi3-all-"+e, "export", []outSpec{{"out/oa3all.*." + e, true}}, "-f", "openapi3", "-o", "out/oa3all."+e, "root.sysl")
		if th || r.Chance(1, 3) {
			e = ext()
			add("export:openapi2-all-"+e, "export", []outSpec{{"out/oa2all.*." + e, true}}, "-f", "openapi2", "-o", "out/oa2all."+e, "root.sysl")
		}
	}
	// arr.ai based commands take seconds each: every second model (quick), every fifth (thorough)
	slowDen := 2
	if th {
		slowDen = 5
	}
	if r.Chance(1, slowDen) {
		add("export:spanner", "export", []outSpec{{"out/sp.sql", false}}, "-f", "spanner", "-o", "out/sp.sql", "root.sysl")
	}
	if r.Chance(1, slowDen) {
		add("export:proto", "export", []outSpec{{"out/pr.proto", false}}, "-f", "proto", "-o", "out/pr.proto", "root.sysl")
	}

	// database scripts
	{
		var withTables []*appInfo
		for _, a := range svcs {
			if a.tables > 0 {
				withTables = append(withTables, a)
			}
		}
		a := pickSvc()
		if len(withTables) > 0 && r.Chance(3, 4) {
			a = withTables[r.Intn(len(withTables))]
			if r.Chance(1, 2) {
				for _, j := range r.Perm(len(withTables)) {
					if withTables[j].tablesOnly {
						a = withTables[j]
						break
					}
				}
			}
		}
		promise := []outSpec{{"out/db/" + a.name + ".sql", true}}
		if !a.simple {
			promise = nil
		}
		add("generate-db-scripts", "generate-db-scripts", promise, "-a", a.name, "-t", "Create it", "-o", "out/db", "-d", "postgres", "root.sysl")
		if th && len(svcs) > 1 {
			names := []string{}
			for _, s := range svcs {
				names = append(names, s.name)
			}
			add("generate-db-scripts:all-apps", "generate-db-scripts", nil, "-a", strings.Join(names, ","), "-t", "All", "-o", "out/dball", "-d", r.Pick([]string{"postgres", "mysql", "other"}), "root.sysl")
		}
		// every other application that owns tables gets its scripts too (an untidy table may sit
		// in any of them; these runs take milliseconds)
		for k, o := range withTables {
			if o == a || k >= 4 {
				continue
			}
			add("generate-db-scripts:other-app", "generate-db-scripts", nil, "-a", o.name, "-t", "Create it", "-o", fmt.Sprintf("out/db%d", k), "-d", "postgres", "root.sysl")
			if haveDelta {
				add("generate-db-scripts-delta:other-app", "generate-db-scripts-delta", nil, "-a", o.name, "-t", "Change it", "-o", fmt.Sprintf("out/dbd%d", k), "-d", "postgres", "root.sysl", "root2.sysl")
			}
		}
		if haveDelta {
			add("generate-db-scripts-delta", "generate-db-scripts-delta", nil, "-a", a.name, "-t", "Change it", "-o", "out/dbd", "-d", "postgres", "root.sysl", "root2.sysl")
			if th || r.Chance(1, 3) {
				add("generate-db-scripts-delta:reverse", "generate-db-scripts-delta", nil, "-a", a.name, "-t", "Change back", "-o", "out/dbr", "-d", "postgres", "root2.sysl", "root.sysl")
			}
		} else {
			add("generate-db-scripts-delta:same", "generate-db-scripts-delta", nil, "-a", a.name, "-t", "No change", "-o", "out/dbd", "-d", "postgres", "root.sysl", "root.sysl")
		}
	}

	// template / transform
	{
		a := pickSvc()
		add("template", "template", nil, "--root-template", root, "--template", "tmpl.sysl", "--start", "start", "-a", a.name, "-o", "out/tmpl", "root.sysl")
		if th && r.Chance(1, 4) {
			add("template:no-app-name", "template", nil, "--root-template", root, "--template", "tmpl.sysl", "--start", "start", "-o", "out/tmpl", "root.sysl")
		}
		if r.Chance(1, slowDen) {
			add("transform", "transform", file("out/tr.txt"), "-s", "id.arrai", "-o", "out/tr.txt", "root.sysl")
		}
	}

	// diagram (Mermaid): generator stage only (no browser here)
	{
		var modes [][]string
		modes = append(modes, []string{"diagram:integration", "-i"}, []string{"diagram:data", "-d"})
		if len(svcs) > 0 {
			modes = append(modes, []string{"diagram:integration-app", "-i", "-a", pickSvc().name})
		}
		if len(eps) > 0 {
			e := eps[r.Intn(len(eps))]
			modes = append(modes, []string{"diagram:sequence", "-s", "-a", e.app, "-e", e.ep})
			e = eps[r.Intn(len(eps))]
			modes = append(modes, []string{"diagram:sequence", "-s", "-a", e.app, "-e", e.ep})
		}
		n := 2
		if th {
			n = 4
		}
		for k, j := range r.Perm(len(modes)) {
			if k >= n {
				break
			}
			m := modes[j]
			args := append([]string{}, m[1:]...)
			args = append(args, "-o", "out/diagram.svg", "root.sysl")
			add(m[0], "diagram", nil, args...)
			out[len(out)-1].browser = true
		}
	}

	// import: the model's own compiled form, and generated foreign documents
	imp := func(label, in, o string, extra ...string) {
		args := append([]string{"import", "-i", in, "-a", "Imported", "-o", o}, extra...)
		out = append(out, inv{label: label, cmd: "import", args: args, outs: file(o)})
	}
	imp("import:sysl.pb", "out/m.pb", "out/imp_pb.sysl")
	if th && r.Chance(1, 2) {
		imp("import:sysl.textpb", "out/m.textpb", "out/imp_textpb.sysl")
	}
	for _, d := range docs {
		extra := []string{}
		if d.format == "spannerSQL" {
			extra = []string{"-f", "spannerSQL"}
		}
		imp("import:"+d.format, d.file, "out/imp_"+d.format+".sysl", extra...)
	}
	// model-independent commands
	if ctx.Case%8 == 0 {
		out = append(out, inv{label: "info", cmd: "info", args: []string{"info"}}, inv{label: "env", cmd: "env", args: []string{"env"}})
	}
	return out
}

// importsOfExports: documents the export commands wrote are foreign specifications too.
func importsOfExports(ctx *fw.Ctx) []inv {
	var out []inv
	for _, c := range []struct{ glob, label string }{{"out/sw.*", "import:exported-swagger"}} {
		ms, _ := filepath.Glob(filepath.Join(ctx.Dir, c.glob))
		for _, m := range ms {
			rel, _ := filepath.Rel(ctx.Dir, m)
			o := "out/imp_" + strings.ReplaceAll(filepath.Base(m), ".", "_") + ".sysl"
			out = append(out, inv{label: c.label, cmd: "import", args: []string{"import", "-i", rel, "-a", "Back", "-o", o}, outs: []outSpec{{o, true}}})
		}
	}
	return out
}

// ---------------------------------------------------------------------------------------

func (prop) Run(ctx *fw.Ctx, i int) fw.Result {
	r := ctx.Rng()
	var res fw.Result
	// the model
	var text, text2 string
	var kinds []string
	source := "own"
	if i%3 == 2 {
		source = "shared"
		text, kinds = buildShared(r.Fork(), ctx.Thorough())
	} else {
		// every operator gets its turn regardless of the draw: the j-th model of the own
		// generator is given operator j (cyclically); the operators beyond the number of own
		// models of the quick tier ride along as a second one, so that one quick run applies all
		j := 2*(i/3) + i%3
		const ownQuick = 40
		force := []string{untidies[j%len(untidies)].name}
		if j < ownQuick && j+ownQuick < len(untidies) {
			force = append(force, untidies[j+ownQuick].name)
		}
		if f := os.Getenv("C20_FORCE"); f != "" {
			force = []string{f} // development aid: this operator in every model of the own generator
		}
		m := buildOwn(r.Fork(), force)
		text, kinds = m.render(), m.Kinds
		text2 = deltaVariant(r.Fork(), m).render()
	}
	res.Hash = fw.HashOf(text)
	_ = os.MkdirAll(filepath.Join(ctx.Dir, "out", "db"), 0o755)
	for _, d := range []string{"dball", "dbd", "dbr", "tmpl", "split", "sdsvc"} {
		_ = os.MkdirAll(filepath.Join(ctx.Dir, "out", d), 0o755)
	}
	write := func(name, content string) { _ = os.WriteFile(filepath.Join(ctx.Dir, name), []byte(content), 0o644) }
	write("root.sysl", text)
	write("tmpl.sysl", tmplText)
	write("id.arrai", arraiText)

	seq := 0
	var cmdlog []string
	seenSig := map[string]bool{}
	noReturn := 0
	violate := func(sig, msg string, v inv, o outcome) {
		if seenSig[sig] {
			return
		}
		seenSig[sig] = true
		files := map[string]string{
			"root.sysl":   text,
			"cmdline.txt": "cd <dir containing root.sysl>; mkdir -p out/db out/dbd out/tmpl\n" + strings.ReplaceAll(shellQuote(v.args), ctx.Dir, ".") + "\n",
			"output.txt":  clip(o.text, 30000),
			"kinds.txt":   strings.Join(kinds, "\n") + "\n",
		}
		if text2 != "" && strings.Contains(v.cmd, "delta") {
			files["root2.sysl"] = text2
		}
		for _, a := range v.args {
			if strings.HasPrefix(a, "foreign") {
				if b, err := os.ReadFile(filepath.Join(ctx.Dir, a)); err == nil {
					files[a] = string(b)
				}
			}
		}
		res.Violate(sig, msg, files)
	}
	var names []string
	// judge runs one invocation and applies the oracle; returns the outcome
	judge := func(v inv) outcome {
		seq++
		o := runOnce(ctx, seq, v.args, false)
		if o.timedOut {
			res.Count("timeouts_first", 1)
			o = runOnce(ctx, seq, v.args, true)
		}
		res.Count("invocations", 1)
		res.Count("cmd:"+v.cmd, 1)
		res.Add("commands", v.label)
		line := strings.ReplaceAll(shellQuote(v.args), ctx.Dir, ".")
		switch {
		case o.timedOut:
			res.Add("exit_statuses", "timeout")
		case o.signal != "":
			res.Add("exit_statuses", "signal:"+o.signal)
		default:
			res.Add("exit_statuses", strconv.Itoa(o.code))
		}
		cmdlog = append(cmdlog, fmt.Sprintf("%s -> %d (%.2fs)", line, o.code, o.secs))
		if o.timedOut {
			noReturn++
			violate("no-return|"+v.cmd, fmt.Sprintf("`%s` did not return within %v, twice (second time with nothing else running)", line, invTimeout), v, o)
			return o
		}
		if kind, first, stack, ok := crashOf(o.text); ok {
			if v.browser && kind == "panic" && strings.Contains(first, browserMsg) && strings.Contains(stack, "mermaid-go") {
				res.Count("diagram_generator_returned", 1)
				return o
			}
			res.Count("crashes", 1)
			sig := crashSig(v.cmd, kind, first, stack, names)
			res.Add("crash_sigs", sig)
			violate(sig, fmt.Sprintf("`%s` crashed (%s: %s) on a model the compiler accepts [%s]", line, kind, first, strings.Join(kinds, ",")), v, o)
			return o
		}
		if o.signal != "" {
			violate("signal|"+v.cmd+"|"+o.signal, fmt.Sprintf("`%s` was killed by signal %s", line, o.signal), v, o)
			return o
		}
		if o.code == 0 {
			for _, want := range v.outs {
				ms, _ := filepath.Glob(filepath.Join(ctx.Dir, want.glob))
				okOut := false
				for _, m := range ms {
					if fi, err := os.Stat(m); err == nil && (!want.nonEmpty || fi.Size() > 0) {
						okOut = true
					}
				}
				if !okOut {
					what := "missing"
					if len(ms) > 0 {
						what = "empty"
					}
					violate("no-output|"+v.label+"|"+what, fmt.Sprintf("`%s` exited with status 0 but the output %s is %s", line, want.glob, what), v, o)
				} else {
					res.Count("outputs_present", 1)
				}
			}
		} else {
			res.Count("error_exits", 1)
			if strings.TrimSpace(o.text) == "" {
				// status != 0 and not a word of explanation
				violate("silent-failure|"+v.label, fmt.Sprintf("`%s` exited with status %d without any message", line, o.code), v, o)
			}
		}
		return o
	}

	// gate: the compiler must accept the model
	gate := inv{label: "pb:json", cmd: "pb", args: []string{"pb", "--root", ctx.Dir, "--mode", "json", "-o", "out/m.json", "root.sysl"}, outs: []outSpec{{"out/m.json", true}}}
	g := judge(gate)
	if res.Verdict == "violation" {
		res.NonTrivial = true
		return res
	}
	if g.code != 0 {
		res.Count("models_rejected", 1)
		res.Add("rejected_kinds", source+":"+strings.Join(kinds, "+"))
		res.Add("rejected_messages", fw.MsgClass(lastLine(g.text)))
		res.Verdict = "skip"
		res.Note = "model rejected by the compiler: " + clip(lastLine(g.text), 200)
		if lf := os.Getenv("C20_LOG"); lf != "" {
			if f, err := os.OpenFile(lf, os.O_APPEND|os.O_CREATE|os.O_WRONLY, 0o644); err == nil {
				fmt.Fprintf(f, "## case %d [%s] %s REJECTED %s\n", i, source, strings.Join(kinds, ","), clip(lastLine(g.text), 300))
				f.Close()
				_ = os.WriteFile(fmt.Sprintf("%s.case-%d.sysl", lf, i), []byte(text), 0o644)
			}
		}
		return res
	}
	res.Count("models_accepted", 1)
	res.Add("sources", source)
	for _, k := range kinds {
		res.Add("untidiness", k)
	}
	mi, err := readModelInfo(filepath.Join(ctx.Dir, "out", "m.json"))
	if err != nil {
		res.Violate("pb|json-unreadable", "the JSON written by `sysl pb --mode json` cannot be decoded: "+err.Error(), map[string]string{"root.sysl": text})
		return res
	}
	names = mi.names
	haveDelta := false
	if text2 != "" {
		write("root2.sysl", text2)
		// the changed copy must be a valid model too
		o := runOnce(ctx, 0, []string{"validate", "--root", ctx.Dir, "root2.sysl"}, false)
		haveDelta = o.code == 0 && !o.timedOut
	}
	// foreign documents
	fr := r.Fork()
	docs := []foreignDoc{genOAS2(fr), genXSD(fr)}
	slow := 4
	if ctx.Thorough() {
		slow = 8
	}
	if fr.Chance(1, slow) {
		docs = append(docs, genOAS3(fr))
	}
	if fr.Chance(1, slow) {
		docs = append(docs, genSQL(fr))
	}
	for _, d := range docs {
		write(d.file, d.text)
		res.Add("foreign_shapes", d.format)
	}
	invs := plan(ctx, r.Fork(), mi, haveDelta, docs)
	for _, v := range invs {
		if noReturn >= 2 {
			break
		}
		judge(v)
	}
	for _, v := range importsOfExports(ctx) {
		if noReturn >= 2 {
			break
		}
		judge(v)
	}
	res.NonTrivial = seq >= 15
	if lf := os.Getenv("C20_LOG"); lf != "" {
		// development aid: the command lines of every case with their status and time
		if f, err := os.OpenFile(lf, os.O_APPEND|os.O_CREATE|os.O_WRONLY, 0o644); err == nil {
			fmt.Fprintf(f, "## case %d [%s] %s\n%s\n", i, source, strings.Join(kinds, ","), strings.Join(cmdlog, "\n"))
			f.Close()
		}
	}
	res.Sample = map[string]any{"case": i, "source": source, "untidiness": kinds, "invocations": seq, "model_head": head(text, 30), "commands": headN(cmdlog, 12)}
	return res
}

func lastLine(s string) string {
	ls := strings.Split(strings.TrimSpace(s), "\n")
	return ls[len(ls)-1]
}

func head(s string, n int) string {
	ls := strings.Split(s, "\n")
	if len(ls) > n {
		ls = ls[:n]
	}
	return strings.Join(ls, "\n")
}

func headN(xs []string, n int) []string {
	if len(xs) > n {
		return xs[:n]
	}
	return xs
}
