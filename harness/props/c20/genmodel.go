package c20

import (
	"sort"
	"strings"

	"verif/fw"
	"verif/gen"
)

// Models from the shared generator (tidy: every reference and call resolves), made
// untidy by editing the description before it is rendered, plus a project pseudo-app.

func walkStmts(ss []*gen.Stmt, f func(s *gen.Stmt)) {
	for _, s := range ss {
		f(s)
		walkStmts(s.Body, f)
		for _, c := range s.Cases {
			walkStmts(c.Body, f)
		}
	}
}

func buildShared(r *fw.Rand, thorough bool) (string, []string) {
	o := gen.DefaultOpts(r, thorough)
	o.Hostile, o.HostileNames = false, false
	// sd expands every call path: keep the call trees small enough that a run stays far
	// below the supervisor's bound (the bound is for runs that do not return, not slow ones)
	o.MaxApps, o.MaxEps, o.MaxStmts, o.MaxDepth = 4, 3, 3, 2
	if thorough {
		o.MaxTypes, o.MaxFields = 6, 8
	}
	spec := gen.Build(r.Fork(), o)
	kinds := map[string]bool{}
	var calls []*gen.Stmt
	var refs []*gen.Field
	var tuples []*gen.Type
	for _, a := range spec.Apps {
		for _, ep := range a.AllEndpoints() {
			walkStmts(ep.Stmts, func(s *gen.Stmt) {
				if s.Kind == "call" {
					calls = append(calls, s)
				}
			})
		}
		for _, t := range a.Types() {
			if t.Kind == "type" || t.Kind == "table" {
				tuples = append(tuples, t)
				for _, f := range t.Fields {
					if f.T.Prim == "" {
						refs = append(refs, f)
					}
				}
			}
		}
	}
	for k := []int{0, 1, 1, 2, 3}[r.Intn(5)]; k > 0; k-- {
		switch r.Intn(5) {
		case 0:
			if len(calls) > 0 {
				c := calls[r.Intn(len(calls))]
				c.Target, c.Self = []string{"Ghost"}, false
				kinds["shared:call-undefined-app"] = true
			}
		case 1:
			if len(calls) > 0 {
				c := calls[r.Intn(len(calls))]
				c.Ep = "NoSuchEp"
				kinds["shared:call-undefined-endpoint"] = true
			}
		case 2:
			if len(refs) > 0 {
				f := refs[r.Intn(len(refs))]
				f.T.RefPath = []string{"Missing"}
				kinds["shared:type-ref-dangling"] = true
			}
		case 3:
			if len(refs) > 0 {
				f := refs[r.Intn(len(refs))]
				f.T.RefApp = []string{"Ghost"}
				kinds["shared:type-ref-dangling-other-app"] = true
			}
		case 4:
			if len(tuples) > 0 {
				t := tuples[r.Intn(len(tuples))]
				t.Fields = append(t.Fields, &gen.Field{ID: 999000 + k, Name: "again", T: gen.TypeExpr{RefPath: []string{t.Name}}})
				kinds["shared:type-ref-self"] = true
			}
		}
	}
	rd := gen.Render(gen.JoinedPlan(spec, "root.sysl"), gen.PlainLayout())
	text := rd.Files["root.sysl"]
	if !strings.HasSuffix(text, "\n") {
		text += "\n"
	}
	// project pseudo-app naming every application (action text = application name)
	var b strings.Builder
	b.WriteString("\n" + projectApp + " [appfmt=\"%(appname)\"]:\n    _:\n")
	listed := 0
	for _, a := range spec.Apps {
		// an action line is free text, but not every character may appear in it
		plain := true
		for _, p := range a.Parts {
			if !identRe.MatchString(p) {
				plain = false
			}
		}
		if plain {
			b.WriteString("        " + a.Name() + "\n")
			listed++
		}
	}
	if listed == 0 {
		b.WriteString("        Nobody\n")
		kinds["shared:project-names-missing-app"] = true
	}
	if r.Chance(1, 3) {
		b.WriteString("        Ghost\n")
		kinds["shared:project-names-missing-app"] = true
	}
	var ks []string
	for k := range kinds {
		ks = append(ks, k)
	}
	sort.Strings(ks)
	if len(ks) == 0 {
		ks = []string{"shared:tidy"}
	}
	return text + b.String(), ks
}
