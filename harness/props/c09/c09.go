// Package c09: serialised models round-trip, and importing a compiled model reproduces it.
package c09

import (
	"bytes"
	"encoding/json"
	"fmt"
	"os"
	"os/exec"
	"path/filepath"
	"sort"
	"strings"

	"github.com/anz-bank/sysl/pkg/parse"
	"github.com/anz-bank/sysl/pkg/pbutil"
	"github.com/anz-bank/sysl/pkg/sysl"
	"github.com/spf13/afero"
	"google.golang.org/protobuf/proto"

	"verif/corpus"
	"verif/fw"
	"verif/gen"
	"verif/oracle"
)

type prop struct{}

func init() { fw.Register(prop{}) }

func (prop) ID() string { return "C09" }

func nGen(tier string) int {
	if tier == "thorough" {
		return 2000
	}
	return 400
}
func (prop) Cases(tier string) int { return len(corpus.Files()) + nGen(tier) }
func (prop) Info() fw.Info {
	return fw.Info{
		Level: "exploration",
		Rule: "cases 0..N-1 = the repository's .sysl files (those that compile), remaining cases = generated specifications with hostile strings (quotes, backslashes, newlines, non-ASCII, key-like text such as `k\":  v`) in attribute values, long names and — %xx-escaped — in application, type and field names. Each model is written with pkg/pbutil as binary, JSON and text, indented and compact; the bytes are decoded with pkg/pbutil and must give a model proto-equal to the original (compact JSON as written by the CLI: equal after dropping locations); JSON bytes must satisfy encoding/json; then for each encoding a specification consisting only of `import model.<ext>` is compiled and its apps must equal the original apps (source contexts cleared); 1 case in 8 also runs `sysl pb --mode json|textpb|pb [--compact]` and decodes its output; 1 in 8 checks that `import x.json as App` still reaches the OpenAPI importer. Non-trivial: model has >= 2 apps or >= 5 string attributes; distinct by text hash.",
		Assumptions: []string{"proto.Equal is the equality the property means", "the hostile string pool is listed in gen/build.go (hostileStrings, hostileNameBits)"},
		CountFloors: map[string]int{"roundtrips_equal": 2000, "reimports_equal": 600, "json_documents_valid": 500, "hostile_strings_in_models": 200},
		SetFloors:   map[string]int{"encodings": 6},
		CaseTimeout: 300,
	}
}

func clone(m *sysl.Module) *sysl.Module { return proto.Clone(m).(*sysl.Module) }

type enc struct {
	name    string
	ext     string
	compact bool
	write   func(m *sysl.Module, w *bytes.Buffer) error
}

var encs = []enc{
	{"json", ".pb.json", false, func(m *sysl.Module, w *bytes.Buffer) error { return pbutil.FJSONPBWithOpt(w, m, pbutil.OutputOptions{}) }},
	{"json-compact", ".pb.json", true, func(m *sysl.Module, w *bytes.Buffer) error {
		return pbutil.FJSONPBWithOpt(w, m, pbutil.OutputOptions{Compact: true})
	}},
	{"textpb", ".textpb", false, func(m *sysl.Module, w *bytes.Buffer) error { return pbutil.FTextPBWithOpt(w, m, pbutil.OutputOptions{}) }},
	{"textpb-compact", ".textpb", true, func(m *sysl.Module, w *bytes.Buffer) error {
		return pbutil.FTextPBWithOpt(w, m, pbutil.OutputOptions{Compact: true})
	}},
	{"pb", ".pb", false, func(m *sysl.Module, w *bytes.Buffer) error { return pbutil.GeneratePBBinaryMessage(w, m) }},
}

func countHostile(m *sysl.Module) int {
	b, _ := proto.Marshal(m)
	n := 0
	for _, h := range []string{`":  `, `\`, "\n", `ü`, `": `, `"`} {
		n += bytes.Count(b, []byte(h))
	}
	return n
}

const swaggerJSON = `{"swagger":"2.0","info":{"title":"Leaf","version":"1"},"paths":{},"definitions":{"Thing":{"type":"object","properties":{"id":{"type":"string"}}}}}`

func (prop) Run(ctx *fw.Ctx, i int) fw.Result {
	r := ctx.Rng()
	var res fw.Result
	files := corpus.Files()
	var m *sysl.Module
	var label, text string
	if i < len(files) {
		label = files[i]
		tree, f, ok := corpus.Locate(files[i])
		if !ok {
			res.Verdict = "skip"
			res.Note = "corpus file does not compile on its own"
			return res
		}
		var err error
		var pi *fw.PanicInfo
		m, err, pi = tree.Compile(f)
		if err != nil || pi != nil {
			res.Verdict = "skip"
			return res
		}
		text = tree.Files[f]
	} else {
		o := gen.DefaultOpts(r, ctx.Thorough())
		o.Hostile, o.HostileNames = true, true
		spec := gen.Build(r.Fork(), o)
		rd := gen.Render(gen.JoinedPlan(spec, "root.sysl"), gen.RandomLayout(r.Fork()))
		text = rd.Files["root.sysl"]
		label = fmt.Sprintf("generated#%d", i)
		var err error
		pi := fw.Guard(func() {
			fs := afero.NewMemMapFs()
			_ = afero.WriteFile(fs, "root.sysl", []byte(text), 0o644)
			m, err = parse.NewParser().ParseFromFs("root.sysl", fs)
		})
		if pi != nil || err != nil {
			res.Violate("compile|hostile-spec-rejected|"+fw.MsgClass(fmt.Sprint(err, pi)), fmt.Sprintf("%s: generated specification with hostile (escaped) strings does not compile: %v %v", label, err, pi), map[string]string{"root.sysl": text})
			return res
		}
	}
	res.Hash = fw.HashOf(label, text)
	nattr := 0
	for _, a := range m.Apps {
		nattr += len(a.Attrs)
	}
	res.NonTrivial = len(m.Apps) >= 2 || nattr >= 5
	res.Count("hostile_strings_in_models", countHostile(m))
	res.Sample = map[string]any{"case": i, "source": label, "apps": len(m.Apps), "hostile_hits": countHostile(m)}
	art := func(extra map[string]string) map[string]string {
		out := map[string]string{"source.sysl": text, "label.txt": label}
		for k, v := range extra {
			out[k] = v
		}
		return out
	}
	stripped := clone(m)
	oracle.ClearSourceContexts(stripped)
	for _, e := range encs {
		res.Add("encodings", e.name)
		var buf bytes.Buffer
		orig := clone(m)
		if err := e.write(orig, &buf); err != nil {
			res.Violate("encode|error|"+e.name, fmt.Sprintf("%s: encoding %s failed: %v", label, e.name, err), art(nil))
			continue
		}
		if !proto.Equal(orig, m) {
			res.Violate("encode|mutates-model|"+e.name, label+": encoding changed the model it was given", art(nil))
		}
		if strings.HasPrefix(e.name, "json") {
			if !json.Valid(buf.Bytes()) {
				res.Violate("json|not-well-formed|"+e.name, label+": emitted JSON is rejected by encoding/json", art(map[string]string{"out" + e.ext: buf.String()}))
				continue
			}
			res.Count("json_documents_valid", 1)
		}
		back, err := pbutil.FromPBByteContents("model"+e.ext, buf.Bytes())
		if err != nil {
			res.Violate("decode|error|"+e.name, fmt.Sprintf("%s: decoding the emitted %s failed: %v", label, e.name, err), art(map[string]string{"out" + e.ext: buf.String()}))
			continue
		}
		if !proto.Equal(back, m) {
			d := oracle.Diff(m, back, 6)
			cls := "?"
			if len(d) > 0 {
				cls = oracle.PathClass(d[0])
			}
			res.Violate("roundtrip|"+e.name+"|"+cls, fmt.Sprintf("%s: decode(encode(m)) != m for %s: %s", label, e.name, strings.Join(d, " ;; ")), art(map[string]string{"out" + e.ext: buf.String(), "diff.txt": strings.Join(d, "\n")}))
			continue
		}
		res.Count("roundtrips_equal", 1)
		// re-import through an import statement
		var m2 *sysl.Module
		var err2 error
		pi := fw.Guard(func() {
			fs := afero.NewMemMapFs()
			_ = afero.WriteFile(fs, "model"+e.ext, buf.Bytes(), 0o644)
			_ = afero.WriteFile(fs, "root.sysl", []byte("import model"+e.ext+"\n"), 0o644)
			m2, err2 = parse.NewParser().ParseFromFs("root.sysl", fs)
		})
		switch {
		case pi != nil:
			res.Violate(fw.CrashSig("reimport-panic|"+e.name, pi.Value, pi.Stack), fmt.Sprintf("%s: importing the compiled model (%s) panics: %s", label, e.name, pi.Value), art(map[string]string{"model" + e.ext: buf.String(), "stack.txt": pi.Stack}))
		case err2 != nil:
			res.Violate("reimport|error|"+e.name, fmt.Sprintf("%s: `import model%s` fails: %v", label, e.ext, err2), art(map[string]string{"model" + e.ext: buf.String()}))
		default:
			oracle.ClearSourceContexts(m2)
			got := &sysl.Module{Apps: m2.Apps}
			want := &sysl.Module{Apps: stripped.Apps}
			if !proto.Equal(want, got) {
				d := oracle.Diff(want, got, 6)
				cls := "?"
				if len(d) > 0 {
					cls = reimportCause(m, d)
				}
				res.Violate("reimport|apps-differ|"+cls, fmt.Sprintf("%s: a specification that only imports the compiled model (%s) compiles to different applications: %s", label, e.name, strings.Join(d, " ;; ")), art(map[string]string{"model" + e.ext: buf.String(), "diff.txt": strings.Join(d, "\n")}))
			} else {
				res.Count("reimports_equal", 1)
			}
		}
	}
	// `.json` must still reach the OpenAPI importer, not the compiled-model decoder
	if i%8 == 3 {
		var m3 *sysl.Module
		var err3 error
		pi := fw.Guard(func() {
			fs := afero.NewMemMapFs()
			_ = afero.WriteFile(fs, "leaf.json", []byte(swaggerJSON), 0o644)
			_ = afero.WriteFile(fs, "root.sysl", []byte("import leaf.json as Foreign :: Leaf\n"), 0o644)
			m3, err3 = parse.NewParser().ParseFromFs("root.sysl", fs)
		})
		res.Count("foreign_json_imports", 1)
		if pi != nil || err3 != nil || m3 == nil || m3.Apps["Foreign :: Leaf"].GetTypes()["Thing"] == nil {
			res.Violate("dispatch|dot-json-not-openapi", fmt.Sprintf("`import leaf.json as Foreign :: Leaf` (an OpenAPI 2 document) no longer yields type Thing: err=%v panic=%v", err3, pi), map[string]string{"leaf.json": swaggerJSON})
		}
	}
	// CLI: sysl pb in every mode
	if i%8 == 5 && i >= len(files) {
		dir := ctx.Dir
		_ = os.WriteFile(filepath.Join(dir, "root.sysl"), []byte(text), 0o644)
		for _, mode := range []string{"json", "textpb", "pb"} {
			for _, compact := range []bool{false, true} {
				ext := map[string]string{"json": ".pb.json", "textpb": ".textpb", "pb": ".pb"}[mode]
				out := filepath.Join(dir, "out"+ext)
				args := []string{"pb", "--root", dir, "--mode", mode, "-o", "out" + ext}
				if compact {
					args = append(args, "--compact")
				}
				args = append(args, "root.sysl")
				cmd := exec.Command(filepath.Join(ctx.BinDir, "sysl"), args...)
				cmd.Dir = dir
				msg, err := cmd.CombinedOutput()
				res.Count("cli_runs", 1)
				name := mode
				if compact {
					name += "-compact"
				}
				res.Add("encodings", "cli:"+name)
				if err != nil {
					res.Violate("cli|error|"+name, fmt.Sprintf("%s: sysl %v failed: %v: %s", label, args, err, clip(string(msg))), art(nil))
					continue
				}
				b, _ := os.ReadFile(out)
				if mode == "json" && !json.Valid(b) {
					res.Violate("json|not-well-formed|cli:"+name, label+": JSON written by the CLI is rejected by encoding/json", art(map[string]string{"out" + ext: string(b)}))
					continue
				}
				back, err := pbutil.FromPBByteContents("out"+ext, b)
				if err != nil {
					res.Violate("decode|error|cli:"+name, fmt.Sprintf("%s: decoding CLI output failed: %v", label, err), art(map[string]string{"out" + ext: string(b)}))
					continue
				}
				oracle.ClearSourceContexts(back)
				if !proto.Equal(&sysl.Module{Apps: back.Apps}, &sysl.Module{Apps: stripped.Apps}) {
					d := oracle.Diff(&sysl.Module{Apps: stripped.Apps}, &sysl.Module{Apps: back.Apps}, 6)
					res.Violate("roundtrip|cli:"+name, fmt.Sprintf("%s: CLI output decodes to a different model: %s", label, strings.Join(d, " ;; ")), art(map[string]string{"out" + ext: string(b)}))
				} else {
					res.Count("roundtrips_equal", 1)
				}
			}
		}
	}
	return res
}

// reimportCause names the specific trigger of a re-import difference when it is one of the
// two known non-idempotent post-processing steps; otherwise the path class of the first
// difference.
func reimportCause(m *sysl.Module, d []string) string {
	appOf := func(line string) *sysl.Application {
		const p = `apps["`
		if !strings.HasPrefix(line, p) {
			return nil
		}
		rest := line[len(p):]
		if k := strings.Index(rest, `"]`); k > 0 {
			var name string
			if json.Unmarshal([]byte(`"`+rest[:k]+`"`), &name) == nil {
				return m.Apps[name]
			}
		}
		return nil
	}
	allCollector, allMixin, allEither := true, true, true
	for _, line := range d {
		a := appOf(line)
		cls := oracle.PathClass(line)
		// (1) collector attributes are merged into endpoints/calls again on every post-processing
		if !(a != nil && a.Endpoints[".. * <- *"] != nil && strings.Contains(cls, "attrs[]")) {
			allCollector = false
		}
		// (2) a mixin chain A -|> B -|> C propagates C's types to A only on the second pass
		chain := false
		if a != nil && strings.HasPrefix(cls, "apps[].types[]") && strings.HasSuffix(line, ": unexpected") {
			for _, mx := range a.Mixin2 {
				if src := m.Apps[strings.Join(mx.GetName().GetPart(), " :: ")]; src != nil && len(src.Mixin2) > 0 {
					chain = true
				}
			}
		}
		if !chain {
			allMixin = false
		}
		if !chain && !(a != nil && a.Endpoints[".. * <- *"] != nil && strings.Contains(cls, "attrs[]")) {
			allEither = false
		}
	}
	switch {
	case allCollector:
		return "collector-attributes-applied-again"
	case allMixin:
		return "mixin-chain-propagates-further"
	case allEither:
		// a model with both shapes: every differing line is explained by one of the two listed causes
		return "collector-attributes-applied-again+mixin-chain-propagates-further"
	}
	return oracle.PathClass(d[0])
}

func clip(s string) string {
	if len(s) > 400 {
		return s[:400]
	}
	return s
}

var _ = sort.Strings
