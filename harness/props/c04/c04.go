// Package c04: splitting declarations across blocks or imported files merges losslessly.
package c04

import (
	"fmt"
	"sort"
	"strings"

	"github.com/anz-bank/sysl/pkg/sysl"
	"google.golang.org/protobuf/proto"

	"verif/fw"
	"verif/gen"
	"verif/oracle"
	"verif/props/c02"
)

type prop struct{}

func init() { fw.Register(prop{}) }

func (prop) ID() string { return "C04" }
func (prop) Cases(tier string) int {
	if tier == "thorough" {
		return 1200
	}
	return 400
}
func (prop) Info() fw.Info {
	return fw.Info{
		Level: "exploration",
		Rule: "case i = random description (as C02) compiled once as a single file with one block per application, and then under P random partitions (quick 5, thorough 12): each application's types, enums, endpoints, REST trees, events (and the fields of one type / the methods of one REST path) spread over 1..6 blocks, blocks assigned to 1..4 files linked by a random import graph (relative, ../ and root-relative spellings; cycles and diamonds), block order and import order permuted; attributes, annotations and mixins stay on the header block. Oracle: proto.Equal of the two modules after clearing source contexts and the import list. Non-trivial: some application is split into >= 2 blocks and >= 2 files are used; distinct by hash of the split texts.",
		Assumptions: []string{"attributes live on one block only (the documented precedence rule makes other placements order-dependent by design)", "a subscribed event has no statements of its own and one subscriber", "primary keys are compared as column sets"},
		CountFloors: map[string]int{"pairs_equal": 300, "apps_reopened_3plus": 20, "types_split": 20},
	}
}

func (prop) Run(ctx *fw.Ctx, i int) fw.Result {
	r := ctx.Rng()
	spec := gen.Build(r.Fork(), gen.DefaultOpts(r, ctx.Thorough()))
	joined := gen.Render(gen.JoinedPlan(spec, "root.sysl"), gen.PlainLayout())
	var res fw.Result
	var m0 *sysl.Module
	var err0 error
	if pi := fw.Guard(func() { m0, err0 = c02.Compile(joined.Files, "root.sysl") }); pi != nil || err0 != nil {
		res.Verdict = "skip"
		res.Note = fmt.Sprint("joined form does not compile (C02's business): ", err0)
		return res
	}
	oracle.ClearSourceContexts(m0)
	m0.Imports = nil
	normKeys(m0)
	nPart := 5
	if ctx.Thorough() {
		nPart = 12
	}
	var hashParts []string
	for k := 0; k < nPart; k++ {
		pr := r.Fork()
		plan := gen.SplitPlan(spec, pr, gen.SplitOpts{MaxBlocks: 6, MaxFiles: 4, SplitTypes: true, SplitRest: true})
		lay := gen.PlainLayout()
		if k%2 == 1 {
			lay = gen.RandomLayout(pr.Fork())
		}
		rd := gen.Render(plan, lay)
		// measure the partition
		blocksPerApp := map[int]int{}
		typeDecls := map[int]int{}
		filesUsed := 0
		for _, f := range plan.Files {
			if len(f.Blocks) > 0 {
				filesUsed++
			}
			for _, b := range f.Blocks {
				blocksPerApp[b.App.ID]++
				for _, m := range b.Members {
					if m.Type != nil {
						typeDecls[m.Type.ID]++
					}
				}
			}
		}
		maxBlocks := 0
		for _, n := range blocksPerApp {
			if n > maxBlocks {
				maxBlocks = n
			}
			if n >= 3 {
				res.Count("apps_reopened_3plus", 1)
			}
		}
		for _, n := range typeDecls {
			if n >= 2 {
				res.Count("types_split", 1)
			}
		}
		if maxBlocks >= 2 && filesUsed >= 2 {
			res.NonTrivial = true
		}
		res.Add("files_used", fmt.Sprint(filesUsed))
		res.Add("max_blocks", fmt.Sprint(maxBlocks))
		names := rd.SortedFileNames()
		for _, n := range names {
			hashParts = append(hashParts, n, rd.Files[n])
		}
		var m1 *sysl.Module
		var err1 error
		pi := fw.Guard(func() { m1, err1 = c02.Compile(rd.Files, "root.sysl") })
		files := map[string]string{"joined/root.sysl": joined.Files["root.sysl"]}
		for _, n := range names {
			files["split/"+n] = rd.Files[n]
		}
		switch {
		case pi != nil:
			files["stack.txt"] = pi.Stack
			res.Violate(fw.CrashSig("panic", pi.Value, pi.Stack), "split form makes the compiler panic: "+pi.Value, files)
		case err1 != nil:
			res.Violate("split-rejected|"+fw.MsgClass(err1.Error()), "split form is rejected while the joined form compiles: "+err1.Error(), files)
		default:
			oracle.ClearSourceContexts(m1)
			m1.Imports = nil
			normKeys(m1)
			if !proto.Equal(m0, m1) {
				d := oracle.Diff(m0, m1, 10)
				files["diff.txt"] = strings.Join(d, "\n")
				cls := map[string]bool{}
				for _, x := range d {
					cls[oracle.PathClass(x)] = true
				}
				var cl []string
				for c := range cls {
					cl = append(cl, c)
				}
				sort.Strings(cl)
				res.Violate("merge-differs|"+cl[0], "split form compiles to a different model than the joined form: "+strings.Join(d, " ;; "), files)
			} else {
				res.Count("pairs_equal", 1)
			}
		}
		if k == 0 {
			res.Sample = map[string]any{"case": i, "files": names, "blocks_per_app_max": maxBlocks, "root_head": head(rd.Files["root.sysl"], 12)}
		}
	}
	res.Hash = fw.HashOf(hashParts...)
	return res
}

// normKeys sorts primary-key column lists: a key is a set of columns, and the order in
// which re-opening blocks are processed is exactly what the property quantifies over.
func normKeys(m *sysl.Module) {
	for _, a := range m.Apps {
		for _, t := range a.Types {
			if k := t.GetRelation().GetPrimaryKey(); k != nil {
				sort.Strings(k.AttrName)
			}
		}
	}
}

func head(s string, n int) string {
	ls := strings.Split(s, "\n")
	if len(ls) > n {
		ls = ls[:n]
	}
	return strings.Join(ls, "\n")
}
