// Package c01: compilation is total — any input yields a model or an error, never a crash.
package c01

import (
	"fmt"
	"os"
	"os/exec"
	"path/filepath"
	"sort"
	"strings"
	"sync"

	"github.com/anz-bank/sysl/pkg/parse"
	"github.com/anz-bank/sysl/pkg/sysl"
	"github.com/spf13/afero"

	"verif/corpus"
	"verif/fw"
	"verif/gen"
)

type prop struct{}

func init() { fw.Register(prop{}) }

func (prop) ID() string { return "C01" }
func (prop) Cases(tier string) int {
	if tier == "thorough" {
		return 40000
	}
	return 3000
}
func (prop) Info() fw.Info {
	return fw.Info{
		Level: "exploration",
		Rule: "case i mod 4: (0) grammar-directed odd program: a type expression (every native type x size/array spec incl. 20-digit numbers x wrappers, local/cross-app/namespaced/column references) dropped into each of 20 positions (field, table field, parameter, alias, union, REST path/query/parameter, list field, in-place tuple, view, event, re-opened type changing kind, docstrings nested in REST blocks, annotations around every member kind, REST-style calls to simple/missing endpoints, nested untyped transforms, mixins of dotted local references, collector and pub/sub forms, facades and dotted type names — the last six are judged by the linter and post-processing, after the tree walk), enumerated by index; (1) 1-4 text mutations (byte/odd-character insertion, span deletion, line duplicate/remove/swap/splice from another file, indentation perturbation, digit inflation, size-spec insertion, keyword substitution, decorations, truncation, %-escape corruption, block re-indent) of a repository .sysl file; (2) the same mutations of a generated specification or of an odd program; (3) an import closure of 2-4 files (split generated specification) with one file mutated. Each input is compiled in-process by the real parser inside a guarded, journaled worker (input saved first). Violation: Go panic, fatal error, process exit from library code, bounded-progress failure, or a listener stack left non-empty after a file was walked (verif hook). Every 16th case is replayed through `sysl pb`: exit status must be 0 with output or 1/2 with a message, never a panic trace. Non-trivial: the input reaches the tree walk (at least one grammar rule entered) or is rejected with a named file; distinct by input hash.",
		Assumptions: []string{"termination is checked as bounded progress (300 s per case, re-run alone before a verdict)", "inputs <= 64 KiB"},
		CountFloors: map[string]int{"compiled_ok": 300, "rejected": 300, "walks_observed": 1000},
		SetFloors:   map[string]int{"rules_entered": 120, "mutators": 12, "odd_positions": 18},
	}
}

var (
	hookMu    sync.Mutex
	rules     = map[int]bool{}
	stackBad  []string
	walks     int
	hooksOnce sync.Once
)

func installHooks() {
	hooksOnce.Do(func() {
		parse.VerifRuleHook = func(i int) {
			hookMu.Lock()
			defer hookMu.Unlock()
			rules[i] = true
		}
		parse.VerifWalkHook = func(file string, depths map[string]int) {
			hookMu.Lock()
			walks++
			for k, v := range depths {
				if v != 0 {
					stackBad = append(stackBad, fmt.Sprintf("%s=%d", k, v))
				}
			}
			hookMu.Unlock()
		}
	})
}

func (prop) Run(ctx *fw.Ctx, i int) fw.Result {
	installHooks()
	r := ctx.Rng()
	var res fw.Result
	files := map[string]string{}
	root := "root.sysl"
	var what string
	cf := corpus.Files()
	otherText := func() string {
		b, _ := os.ReadFile(filepath.Join(ctx.Repo, cf[r.Intn(len(cf))]))
		return string(b)
	}
	mutateN := func(t string) string {
		k := r.Range(1, 4)
		for ; k > 0; k-- {
			var name string
			t, name = gen.Mutate(t, r, otherText())
			res.Add("mutators", name)
			what += "+" + name
		}
		if len(t) > 64<<10 {
			t = t[:64<<10]
		}
		return t
	}
	switch i % 4 {
	case 0:
		t, name := gen.OddProgram(i/4+int(ctx.Seed)*7919, r)
		files[root] = t
		what = "odd:" + name
		res.Add("odd_positions", strings.SplitN(name, ":", 2)[0])
	case 1:
		rel := cf[r.Intn(len(cf))]
		tree, f, _ := corpus.Locate(rel)
		for n, c := range tree.Files {
			if len(tree.Files) < 60 {
				files[n] = c
			}
		}
		files[f] = tree.Files[f]
		root = f
		what = "corpus:" + rel
		files[f] = mutateN(files[f])
	case 2:
		var t string
		if r.Chance(1, 2) {
			spec := gen.Build(r.Fork(), gen.DefaultOpts(r, false))
			t = gen.Render(gen.JoinedPlan(spec, root), gen.RandomLayout(r.Fork())).Files[root]
			what = "generated"
		} else {
			var name string
			t, name = gen.OddProgram(r.Intn(1<<20), r)
			what = "odd:" + name
		}
		files[root] = mutateN(t)
	default:
		spec := gen.Build(r.Fork(), gen.DefaultOpts(r, false))
		rd := gen.Render(gen.SplitPlan(spec, r.Fork(), gen.SplitOpts{MaxBlocks: 3, MaxFiles: 4, SplitTypes: true, SplitRest: true}), gen.RandomLayout(r.Fork()))
		for n, c := range rd.Files {
			files[n] = c
		}
		names := rd.SortedFileNames()
		victim := names[r.Intn(len(names))]
		what = "closure:" + victim
		files[victim] = mutateN(files[victim])
	}
	// save the input before running it: a fatal error kills the worker
	var hp []string
	names := make([]string, 0, len(files))
	for n := range files {
		names = append(names, n)
	}
	sort.Strings(names)
	for _, n := range names {
		p := filepath.Join(ctx.Dir, "input", n)
		_ = os.MkdirAll(filepath.Dir(p), 0o755)
		_ = os.WriteFile(p, []byte(files[n]), 0o644)
		hp = append(hp, n, files[n])
	}
	_ = os.WriteFile(filepath.Join(ctx.Dir, "what.txt"), []byte(what+"\nroot="+root+"\n"), 0o644)
	res.Hash = fw.HashOf(hp...)
	hookMu.Lock()
	rules = map[int]bool{}
	stackBad = nil
	walks = 0
	hookMu.Unlock()
	var m *sysl.Module
	var err error
	pi := fw.Guard(func() {
		fs := afero.NewMemMapFs()
		for n, c := range files {
			_ = afero.WriteFile(fs, n, []byte(c), 0o644)
		}
		m, err = parse.NewParser().ParseFromFs(root, fs)
	})
	hookMu.Lock()
	nrules := len(rules)
	for k := range rules {
		res.Add("rules_entered", fmt.Sprint(k))
	}
	bad := append([]string{}, stackBad...)
	res.Count("walks_observed", walks)
	hookMu.Unlock()
	art := map[string]string{"what.txt": what + "\nroot=" + root}
	for n, c := range files {
		if len(files) <= 8 || n == root {
			art["input/"+n] = c
		}
	}
	switch {
	case pi != nil:
		art["stack.txt"] = pi.Stack
		res.Violate(fw.CrashSig("panic", pi.Value, pi.Stack), fmt.Sprintf("compilation panicked (%s): %s", what, pi.Value), art)
	case err == nil && m == nil:
		res.Violate("nil-nil", "compilation returned neither a model nor an error ("+what+")", art)
	case err == nil:
		res.Count("compiled_ok", 1)
		if len(bad) > 0 {
			sort.Strings(bad)
			res.Violate("listener-stack-not-empty|"+strings.Join(uniq(stripNums(bad)), ","), fmt.Sprintf("after a successful walk the listener's stacks are not empty: %v (%s)", bad, what), art)
		}
	default:
		res.Count("rejected", 1)
		if strings.TrimSpace(err.Error()) == "" {
			res.Violate("empty-error", "compilation failed with an empty error message ("+what+")", art)
		}
	}
	res.NonTrivial = nrules > 0 || err != nil
	res.Sample = map[string]any{"case": i, "what": what, "rules_entered": nrules, "result": fmt.Sprint(err)}
	// CLI replay
	if i%16 == 5 {
		cmd := exec.Command(filepath.Join(ctx.BinDir, "sysl"), "pb", "--root", filepath.Join(ctx.Dir, "input"), "-o", filepath.Join(ctx.Dir, "out.textpb"), root)
		cmd.Dir = filepath.Join(ctx.Dir, "input")
		out, cerr := cmd.CombinedOutput()
		res.Count("cli_replays", 1)
		code := 0
		if ee, ok := cerr.(*exec.ExitError); ok {
			code = ee.ExitCode()
		} else if cerr != nil {
			code = -1
		}
		res.Add("cli_exit_codes", fmt.Sprint(code))
		s := string(out)
		art["cli-output.txt"] = clip(s)
		switch {
		case strings.Contains(s, "panic:") || strings.Contains(s, "fatal error:") || strings.Contains(s, "goroutine 1 ["):
			kind, val := "panic", ""
			if k := strings.Index(s, "panic: "); k >= 0 {
				val = firstLine(s[k+7:])
			} else if k := strings.Index(s, "fatal error: "); k >= 0 {
				kind, val = "fatal", firstLine(s[k+13:])
			}
			res.Violate("cli|"+fw.CrashSig(kind, val, s), "`sysl pb` died with a Go crash trace ("+what+"): "+val, art)
		case code == 0:
			if fi, e := os.Stat(filepath.Join(ctx.Dir, "out.textpb")); e != nil || fi.Size() == 0 {
				if err == nil && m != nil && len(m.Apps) > 0 {
					res.Violate("cli|exit0-without-output", "`sysl pb` exited 0 without writing its output ("+what+")", art)
				}
			}
		case code == 1 || code == 2:
			if strings.TrimSpace(s) == "" {
				res.Violate("cli|silent-failure", fmt.Sprintf("`sysl pb` exited %d without any message (%s)", code, what), art)
			}
		default:
			res.Violate(fmt.Sprintf("cli|exit-status-%d", code), fmt.Sprintf("`sysl pb` ended with status %d (%s): %s", code, what, clip(s)), art)
		}
		if (code == 0) != (err == nil) {
			res.Add("cli_vs_library", "disagree")
		}
	}
	return res
}

func clip(s string) string {
	if len(s) > 3000 {
		return s[:3000]
	}
	return s
}

func firstLine(s string) string {
	if i := strings.IndexByte(s, '\n'); i >= 0 {
		return s[:i]
	}
	return s
}

func stripNums(xs []string) []string {
	out := make([]string, len(xs))
	for i, x := range xs {
		out[i] = x[:strings.IndexByte(x, '=')]
	}
	return out
}

func uniq(xs []string) []string {
	sort.Strings(xs)
	var out []string
	for i, x := range xs {
		if i == 0 || x != xs[i-1] {
			out = append(out, x)
		}
	}
	return out
}
