package c19

// The generators under observation. Every entry of this file calls the real library
// entry point that the corresponding `sysl` command calls (the call sequences are those of
// cmd/sysl/cmd_*.go) and returns the produced bytes in one canonical container: outputs
// that consist of several files are concatenated in the order of their SORTED file names
// (the set of files is part of the output, the order in which a Go map hands them out is
// not).

import (
	"bytes"
	"context"
	"encoding/json"
	"fmt"
	"io"
	"os"
	"sort"
	"strings"

	"github.com/anz-bank/sysl/pkg/arrai/relmod"
	"github.com/anz-bank/sysl/pkg/arrai/transform"
	"github.com/anz-bank/sysl/pkg/cmdutils"
	"github.com/anz-bank/sysl/pkg/database"
	"github.com/anz-bank/sysl/pkg/datamodeldiagram"
	"github.com/anz-bank/sysl/pkg/exporter"
	"github.com/anz-bank/sysl/pkg/importer"
	"github.com/anz-bank/sysl/pkg/integrationdiagram"
	mmdata "github.com/anz-bank/sysl/pkg/mermaid/datamodeldiagram"
	mmepa "github.com/anz-bank/sysl/pkg/mermaid/endpointanalysisdiagram"
	mmints "github.com/anz-bank/sysl/pkg/mermaid/integrationdiagram"
	mmsd "github.com/anz-bank/sysl/pkg/mermaid/sequencediagram"
	"github.com/anz-bank/sysl/pkg/pbutil"
	"github.com/anz-bank/sysl/pkg/sequencediagram"
	"github.com/anz-bank/sysl/pkg/sysl"
	"github.com/anz-bank/sysl/pkg/syslutil"
	"github.com/anz-bank/sysl/pkg/syslwrapper"
	"github.com/sirupsen/logrus"
	"github.com/spf13/afero"
)

func quietLogger() *logrus.Logger {
	l := logrus.New()
	l.SetOutput(io.Discard)
	l.SetLevel(logrus.PanicLevel)
	return l
}

// family decides which vocabulary the difference classifier uses.
const (
	famPB      = "pb"
	famPuml    = "puml"
	famMermaid = "mermaid"
	famOAS     = "oas"
	famSQL     = "sql"
	famSysl    = "sysl"
	famArrai   = "arrai"
	famJSON    = "json"
	famText    = "text"
)

// inv is one generator with one option set, bound to one model (or foreign document).
type inv struct {
	gen    string // generator: pb sd ints datamodel export db-scripts import relmod
	opt    string // option set (never contains case-specific names)
	family string
	arg    string // case-specific argument (start endpoint, application, ...) for messages and replays
	slow   bool
	wide   bool                                 // the maps this generator walks have >= 3 entries in this model
	run    func(m *sysl.Module) ([]byte, error) // m may be nil for importers
	// cli, when set, gives the arguments of the equivalent `sysl` command; the command runs in a
	// directory that holds the model's files and must write below "out/" (or to stdout when
	// stdout is true).
	cli    []string
	stdout bool
}

func (v *inv) key() string { return v.gen + ":" + v.opt }

// joinFiles is the canonical container of a multi-file output.
func joinFiles(m map[string]string) []byte {
	ks := make([]string, 0, len(m))
	for k := range m {
		ks = append(ks, k)
	}
	sort.Strings(ks)
	var b bytes.Buffer
	for _, k := range ks {
		fmt.Fprintf(&b, "=== file %s ===\n", k)
		b.WriteString(m[k])
		if !strings.HasSuffix(m[k], "\n") {
			b.WriteByte('\n')
		}
	}
	return b.Bytes()
}

func fsFiles(fs afero.Fs, root string) map[string]string {
	out := map[string]string{}
	_ = afero.Walk(fs, root, func(p string, fi os.FileInfo, err error) error {
		if err != nil || fi.IsDir() {
			return nil
		}
		b, _ := afero.ReadFile(fs, p)
		out[p] = string(b)
		return nil
	})
	return out
}

// ------------------------------------------------------------------ pb / json / textpb

func pbInvs(hasCLI bool) []*inv {
	mk := func(opt, fam string, f func(m *sysl.Module, w *bytes.Buffer) error, cli []string) *inv {
		v := &inv{gen: "pb", opt: opt, family: fam, run: func(m *sysl.Module) ([]byte, error) {
			var b bytes.Buffer
			err := f(m, &b)
			return b.Bytes(), err
		}}
		if hasCLI {
			v.cli = cli
		}
		return v
	}
	split := func(opt, mode, file string, compact bool) *inv {
		v := &inv{gen: "pb", opt: opt, family: famPB, run: func(m *sysl.Module) ([]byte, error) {
			fs := afero.NewMemMapFs()
			if err := pbutil.OutputSplitApplications(m, mode, pbutil.OutputOptions{Compact: compact}, "/split", file, fs); err != nil {
				return nil, err
			}
			return joinFiles(fsFiles(fs, "/split")), nil
		}}
		if hasCLI {
			v.cli = []string{"pb", "--mode", mode, "--split-apps", "out", "ROOTFILE"}
			if compact {
				v.cli = []string{"pb", "--mode", mode, "--compact", "--split-apps", "out", "ROOTFILE"}
			}
		}
		return v
	}
	return []*inv{
		mk("json", famPB, func(m *sysl.Module, w *bytes.Buffer) error {
			return pbutil.FJSONPBWithOpt(w, m, pbutil.OutputOptions{})
		},
			[]string{"pb", "--mode", "json", "-o", "out/model.json", "ROOTFILE"}),
		mk("json-compact", famPB, func(m *sysl.Module, w *bytes.Buffer) error {
			return pbutil.FJSONPBWithOpt(w, m, pbutil.OutputOptions{Compact: true})
		}, []string{"pb", "--mode", "json", "--compact", "-o", "out/model.json", "ROOTFILE"}),
		mk("textpb", famPB, func(m *sysl.Module, w *bytes.Buffer) error {
			return pbutil.FTextPBWithOpt(w, m, pbutil.OutputOptions{})
		},
			[]string{"pb", "--mode", "textpb", "-o", "out/model.textpb", "ROOTFILE"}),
		mk("textpb-compact", famPB, func(m *sysl.Module, w *bytes.Buffer) error {
			return pbutil.FTextPBWithOpt(w, m, pbutil.OutputOptions{Compact: true})
		}, []string{"pb", "--mode", "textpb", "--compact", "-o", "out/model.textpb", "ROOTFILE"}),
		mk("binary", famPB, func(m *sysl.Module, w *bytes.Buffer) error { return pbutil.GeneratePBBinaryMessage(w, m) },
			[]string{"pb", "--mode", "pb", "-o", "out/model.pb", "ROOTFILE"}),
		split("split-json", "json", "data.json", false),
		split("split-json-compact", "json", "data.json", true),
		split("split-textpb", "textpb", "data.textpb", false),
		split("split-binary", "pb", "data.pb", false),
	}
}

// ------------------------------------------------------------------ sequence diagrams

func sdPuml(start []string, group string, bb map[string]string) func(m *sysl.Module) ([]byte, error) {
	return func(m *sysl.Module) ([]byte, error) {
		p := &cmdutils.CmdContextParamSeqgen{
			EndpointFormat: "%(epname)", AppFormat: "%(appname)", Output: "out.puml",
			EndpointsFlag: append([]string(nil), start...), BlackboxesFlag: map[string]string{}, Group: group,
		}
		for k, v := range bb {
			p.BlackboxesFlag[k] = v
		}
		out, err := sequencediagram.DoConstructSequenceDiagrams(p, m, quietLogger())
		if err != nil {
			return nil, err
		}
		return joinFiles(out), nil
	}
}

// Label formats that print every variable the labelers offer (patterns, arguments, controls ...).
const (
	sdFullEpFmt  = "%(epname)%(patterns? [%(patterns)])%(args? (%(args)))%(controls? {%(controls)})%(needs_int? *)%(human? H)"
	sdFullAppFmt = "%(appname)%(controls? {%(controls)})"
)

// sdPumlFmt is sdPuml with explicit endpoint and application label formats.
func sdPumlFmt(start []string, group, epfmt, appfmt string) func(m *sysl.Module) ([]byte, error) {
	return func(m *sysl.Module) ([]byte, error) {
		p := &cmdutils.CmdContextParamSeqgen{
			EndpointFormat: epfmt, AppFormat: appfmt, Output: "out.puml",
			EndpointsFlag: append([]string(nil), start...), BlackboxesFlag: map[string]string{}, Group: group,
		}
		out, err := sequencediagram.DoConstructSequenceDiagrams(p, m, quietLogger())
		if err != nil {
			return nil, err
		}
		return joinFiles(out), nil
	}
}

// sdProject is `sysl sd -a <project> -o "%(epname).puml"`: one diagram per endpoint of the
// project application, start points taken from its call statements.
func sdProject(project, group string) func(m *sysl.Module) ([]byte, error) {
	return func(m *sysl.Module) ([]byte, error) {
		p := &cmdutils.CmdContextParamSeqgen{
			EndpointFormat: "%(epname)", AppFormat: "%(appname)", Output: "%(epname).puml",
			AppsFlag: []string{project}, BlackboxesFlag: map[string]string{}, Group: group,
		}
		out, err := sequencediagram.DoConstructSequenceDiagrams(p, m, quietLogger())
		if err != nil {
			return nil, err
		}
		return joinFiles(out), nil
	}
}

// ------------------------------------------------------------------ integration diagrams

func intsPuml(project string, clustered, epa bool, exclude []string) func(m *sysl.Module) ([]byte, error) {
	return func(m *sysl.Module) ([]byte, error) {
		p := &cmdutils.CmdContextParamIntgen{Output: "%(epname).puml", Project: project,
			Exclude: append([]string(nil), exclude...), Clustered: clustered, EPA: epa}
		out, err := integrationdiagram.GenerateIntegrations(p, m, quietLogger())
		if err != nil {
			return nil, err
		}
		return joinFiles(out), nil
	}
}

// ------------------------------------------------------------------ data-model diagrams

func dataPuml(project, output string, direct bool) func(m *sysl.Module) ([]byte, error) {
	return func(m *sysl.Module) ([]byte, error) {
		p := &cmdutils.CmdContextParamDatagen{Title: "T", Output: output, Project: project, Direct: direct, ClassFormat: "%(classname)"}
		out, err := datamodeldiagram.GenerateDataModels(p, m, quietLogger())
		if err != nil {
			return nil, err
		}
		return joinFiles(out), nil
	}
}

// ------------------------------------------------------------------ exporters

func exportDoc(appName, format, mode string) func(m *sysl.Module) ([]byte, error) {
	return func(m *sysl.Module) ([]byte, error) {
		app := m.GetApps()[appName]
		if app == nil {
			return nil, fmt.Errorf("no application %q", appName)
		}
		logger := quietLogger()
		switch format {
		case "swagger":
			x := exporter.MakeSwaggerExporter(app, logger)
			if err := x.GenerateSwagger(); err != nil {
				return nil, err
			}
			return x.SerializeOutput(mode)
		default:
			mod := &sysl.Module{Apps: map[string]*sysl.Application{syslutil.GetAppName(app.Name): app}}
			mapper := syslwrapper.MakeAppMapper(mod)
			mapper.IndexTypes()
			simple, err := mapper.Map()
			if err != nil {
				return nil, err
			}
			x := exporter.MakeOpenAPI3Exporter(simple, logger)
			if err := x.Export(); err != nil {
				return nil, err
			}
			return x.SerializeOutput(syslutil.GetAppName(app.Name), mode)
		}
	}
}

// transformExport is `sysl export -f <spanner|proto>` (embedded arr.ai transform).
func transformExport(format string) func(m *sysl.Module) ([]byte, error) {
	return func(m *sysl.Module) ([]byte, error) {
		x := exporter.MakeTransformExporter(afero.NewMemMapFs(), quietLogger(), "/", "out."+format, format)
		var b bytes.Buffer
		err := x.ExportToWriter(&b, []*sysl.Module{m}, []string{"model.sysl"})
		return b.Bytes(), err
	}
}

// ------------------------------------------------------------------ database scripts

func dbCreate(apps []string) func(m *sysl.Module) ([]byte, error) {
	return func(m *sysl.Module) ([]byte, error) {
		out := map[string]string{}
		for _, a := range apps {
			app := m.GetApps()[a]
			if app == nil {
				continue
			}
			v := database.MakeDatabaseScriptView("T", quietLogger())
			out[a+".sql"] = v.GenerateDatabaseScriptCreate(app.GetTypes(), "postgres", a)
		}
		return joinFiles(out), nil
	}
}

func dbDelta(old *sysl.Module, apps []string) func(m *sysl.Module) ([]byte, error) {
	return func(m *sysl.Module) ([]byte, error) {
		lg := quietLogger()
		v := database.MakeDatabaseScriptView("T", lg)
		outs := v.ProcessModSysls(old.GetApps(), m.GetApps(), apps, "/out", "postgres")
		fs := afero.NewMemMapFs()
		if err := database.GenerateFromSQLMap(outs, fs, lg); err != nil {
			return nil, err
		}
		return joinFiles(fsFiles(fs, "/out")), nil
	}
}

// ------------------------------------------------------------------ importers

func importDoc(path, formatName, content string) func(*sysl.Module) ([]byte, error) {
	return func(*sysl.Module) ([]byte, error) {
		imp, err := importer.Factory(path, false, formatName, []byte(content), quietLogger())
		if err != nil {
			return nil, err
		}
		imp, err = imp.Configure(&importer.ImporterArg{AppName: "ImpApp", PackageName: "com.verif.c19"})
		if err != nil {
			return nil, err
		}
		s, err := imp.Load(content)
		return []byte(s), err
	}
}

// ------------------------------------------------------------------ relational model

// relmodRows renders the schema with every relation's rows in the order Normalize returned
// them; relmodSorted renders each relation's rows sorted (the relational reading: a
// relation is a set of rows).
func relmodRows(sorted bool) func(m *sysl.Module) ([]byte, error) {
	return func(m *sysl.Module) ([]byte, error) {
		s, err := relmod.Normalize(context.Background(), m)
		if err != nil {
			return nil, err
		}
		return renderSchema(s, sorted)
	}
}

func renderSchema(s *relmod.Schema, sorted bool) ([]byte, error) {
	// Schema is a struct of slices of plain structs: encoding/json renders struct fields in
	// declaration order and map keys sorted, so the rendering itself adds no variation.
	raw, err := json.Marshal(s)
	if err != nil {
		return nil, err
	}
	var top map[string]json.RawMessage
	if err := json.Unmarshal(raw, &top); err != nil {
		return nil, err
	}
	names := make([]string, 0, len(top))
	for k := range top {
		names = append(names, k)
	}
	sort.Strings(names)
	var b bytes.Buffer
	var emit func(name string, msg json.RawMessage)
	emit = func(name string, msg json.RawMessage) {
		var rows []json.RawMessage
		if json.Unmarshal(msg, &rows) == nil {
			lines := make([]string, len(rows))
			for i, r := range rows {
				lines[i] = string(r)
			}
			if sorted {
				sort.Strings(lines)
			}
			fmt.Fprintf(&b, "relation %s (%d rows)\n", name, len(lines))
			for _, l := range lines {
				b.WriteString("  " + l + "\n")
			}
			return
		}
		var sub map[string]json.RawMessage
		if json.Unmarshal(msg, &sub) == nil {
			ks := make([]string, 0, len(sub))
			for k := range sub {
				ks = append(ks, k)
			}
			sort.Strings(ks)
			for _, k := range ks {
				emit(name+"."+k, sub[k])
			}
			return
		}
		fmt.Fprintf(&b, "value %s %s\n", name, string(msg))
	}
	for _, n := range names {
		emit(n, top[n])
	}
	return b.Bytes(), nil
}

// transformInput is the value every `sysl transform` script and every arr.ai exporter
// receives (pkg/arrai/transform/utils.go BuildTransformInput), rendered as arr.ai text.
func transformInput(m *sysl.Module) ([]byte, error) {
	in, err := transform.BuildTransformInput([]*sysl.Module{m}, []string{"model.sysl"})
	if err != nil {
		return nil, err
	}
	return []byte(in.String()), nil
}

// ------------------------------------------------------------------ Mermaid

func mermaid(f func(m *sysl.Module) (string, error)) func(m *sysl.Module) ([]byte, error) {
	return func(m *sysl.Module) ([]byte, error) {
		s, err := f(m)
		return []byte(s), err
	}
}

func mermaidSD(app, ep string) func(m *sysl.Module) ([]byte, error) {
	return mermaid(func(m *sysl.Module) (string, error) { return mmsd.GenerateSequenceDiagram(m, app, ep) })
}
func mermaidIntsFull() func(m *sysl.Module) ([]byte, error) {
	return mermaid(mmints.GenerateFullIntegrationDiagram)
}
func mermaidIntsApp(app string) func(m *sysl.Module) ([]byte, error) {
	return mermaid(func(m *sysl.Module) (string, error) { return mmints.GenerateIntegrationDiagram(m, app) })
}
func mermaidIntsMulti(apps []string) func(m *sysl.Module) ([]byte, error) {
	return mermaid(func(m *sysl.Module) (string, error) {
		return mmints.GenerateMultipleAppIntegrationDiagram(m, append([]string(nil), apps...))
	})
}
func mermaidEPA() func(m *sysl.Module) ([]byte, error) {
	return mermaid(mmepa.GenerateEndpointAnalysisDiagram)
}
func mermaidDataFull() func(m *sysl.Module) ([]byte, error) {
	return mermaid(mmdata.GenerateFullDataDiagram)
}
func mermaidDataType(app, typ string) func(m *sysl.Module) ([]byte, error) {
	return mermaid(func(m *sysl.Module) (string, error) { return mmdata.GenerateDataDiagramWithAppAndType(m, app, typ) })
}
