package c19

// The workload: repository models, generated models (shared generator, larger sizes) and
// targeted models in which every map that a generator walks has at least three entries.

import (
	"fmt"
	"path/filepath"
	"strings"

	"github.com/anz-bank/sysl/pkg/parse"
	"github.com/anz-bank/sysl/pkg/sysl"
	"github.com/spf13/afero"

	"verif/corpus"
	"verif/fw"
	"verif/gen"
)

// corpusQuick: repository models that the diagram, export and script commands are tested
// or documented with (one per feature), used by the quick tier. The thorough tier walks the
// whole corpus.
var corpusQuick = []string{
	"tests/sequence_diagram_project.sysl",
	"tests/groupby.sysl",
	"tests/integration_with_cluster.sysl",
	"tests/integration_with_deep_cluster.sysl",
	"tests/integration_with_epa.sysl",
	"tests/integration_with_restrict_by.sysl",
	"tests/integration_passthrough_test.sysl",
	"tests/integration_with_pubsub.sysl",
	"tests/indirect_1.sysl",
	"tests/datareferences.sysl",
	"tests/reviewdatamodelcmd.sysl",
	"tests/multiple-app-datamodel.sysl",
	"tests/table.sysl",
	"tests/data.sysl",
	"tests/sequence_diagram_test.sysl",
	"tests/petshop.sysl",
	"demo/petshop/petshop.sysl",
	"pkg/exporter/test-data/openapi3/SIMPLE_SWAGGER_EXAMPLE.sysl",
	"pkg/arrai/all.sysl",
	"pkg/arrai/model.sysl",
	"pkg/database/tests/postgres-create-script.sysl",
	"pkg/importer/tests/openapi3/complex-schemas.sysl",
	"pkg/importer/tests/openapi2/petstore-expanded.sysl",
	"tests/all_stmts.sysl",
	"tests/ints_stmts.sysl",
}

func compileFiles(files map[string]string, root string) (m *sysl.Module, err error, pi *fw.PanicInfo) {
	pi = fw.Guard(func() {
		fs := afero.NewMemMapFs()
		for n, c := range files {
			_ = afero.WriteFile(fs, n, []byte(c), 0o644)
		}
		m, err = parse.NewParser().ParseFromFs(root, fs)
	})
	return
}

// corpusModel compiles one repository file; nil when it does not compile on its own.
func corpusModel(rel string) *model {
	tree, f, ok := corpus.Locate(rel)
	if !ok {
		return nil
	}
	m, err, pi := tree.Compile(f)
	if err != nil || pi != nil || m == nil {
		return nil
	}
	return &model{label: "corpus:" + rel, kind: "corpus", mod: m, cliRoot: tree.Root, cliFile: f}
}

// existingCorpusQuick filters corpusQuick to files that exist in this tree.
func existingCorpusQuick() []string {
	have := map[string]bool{}
	for _, f := range corpus.Files() {
		have[f] = true
	}
	var out []string
	for _, f := range corpusQuick {
		if have[f] {
			out = append(out, f)
		}
	}
	return out
}

// generatedModel uses the shared generator with sizes that give every collection several
// members.
func generatedModel(r *fw.Rand, i int, thorough bool) (*model, error) {
	o := gen.DefaultOpts(r, thorough)
	o.MaxApps, o.MaxTypes, o.MaxFields, o.MaxEps = 6, 7, 8, 5
	if thorough {
		o.MaxApps, o.MaxTypes, o.MaxFields, o.MaxEps = 8, 9, 10, 6
	}
	o.MaxStmts, o.MaxDepth = 4, 3
	o.WideStmts = r.Chance(1, 2)
	spec := gen.Build(r.Fork(), o)
	rd := gen.Render(gen.JoinedPlan(spec, "root.sysl"), gen.RandomLayout(r.Fork()))
	files := map[string]string{"root.sysl": rd.Files["root.sysl"]}
	m, err, pi := compileFiles(files, "root.sysl")
	if pi != nil {
		return nil, fmt.Errorf("parser panicked: %s", pi.Value)
	}
	if err != nil {
		return nil, err
	}
	return &model{label: fmt.Sprintf("generated#%d", i), kind: "generated", files: files, root: "root.sysl", mod: m}, nil
}

// ---------------------------------------------------------------------------
// targeted models

var nsWords = []string{"Core", "Edge", "Back", "Front", "Data", "Ops", "Risk", "Pay"}
var appWords = []string{"Ledger", "Vault", "Quote", "Gate", "Kiosk", "Node", "Hub", "Mkt", "Ord", "Txn", "Acct", "Cust", "Dept", "Zone"}
var epWords = []string{"fetch", "store", "check", "notify", "merge", "lookup", "settle", "audit", "route", "price"}
var typeWords = []string{"Addr", "Batch", "Card", "Deal", "Entry", "Fund", "Grant", "Hold", "Item", "Job", "Loan", "Memo", "Note", "Offer", "Plan"}
var fieldWords = []string{"acct", "bal", "ccy", "descr", "email", "fee", "grp", "hash", "idx", "key", "lim", "memo", "num", "own", "pct", "qty", "rate", "tax", "usr", "ver", "wgt", "zip"}
var tagWords = []string{"core", "beta", "ext", "gold", "legacy", "audit", "fast", "pii", "ro", "soap", "rest", "mq", "batch", "sync"}
var teamWords = []string{"red", "blue", "green", "amber", "violet"}

func distinct(r *fw.Rand, pool []string, n int) []string {
	p := r.Perm(len(pool))
	out := make([]string, 0, n)
	for i := 0; i < n; i++ {
		w := pool[p[i%len(pool)]]
		if i >= len(pool) {
			w += fmt.Sprint(i / len(pool))
		}
		out = append(out, w)
	}
	return out
}

// callGraphModel: nc clusters x na applications x ne endpoints that call each other
// (acyclic by application index plus one self call), with group-by attributes, pattern
// tags on endpoints and on call statements, parameters, an integration project (plain /
// exclude / passthrough endpoints), and a sequence project.
func callGraphModel(r *fw.Rand, i int) *model {
	nc, na, ne := r.Range(3, 4), r.Range(3, 4), r.Range(3, 4)
	nss := distinct(r, nsWords, nc)
	teams := distinct(r, teamWords, r.Range(3, 4))
	var b strings.Builder
	type appT struct {
		name string
		eps  []string
	}
	var apps []appT
	aw := distinct(r, appWords, nc*na+1)
	for c := 0; c < nc; c++ {
		for a := 0; a < na; a++ {
			apps = append(apps, appT{name: nss[c] + " :: " + aw[c*na+a], eps: distinct(r, epWords, ne)})
		}
	}
	apps = append(apps, appT{name: aw[nc*na], eps: distinct(r, epWords, ne)}) // one un-clustered
	tags := func(n int) string {
		ts := distinct(r, tagWords, n)
		for k := range ts {
			ts[k] = "~" + ts[k]
		}
		return strings.Join(ts, ", ")
	}
	for ai, a := range apps {
		fmt.Fprintf(&b, "%s [owner=%q, zone=%q, tier=%q, %s]:\n", a.name, teams[ai%len(teams)], "z"+fmt.Sprint(ai%3), "t"+fmt.Sprint(ai%4), tags(3))
		for ei, e := range a.eps {
			fmt.Fprintf(&b, "    %s (p1 <: string, p2 <: int, p3 <: bool) [%s, note=%q, rank=%q]:\n", e, tags(3), "n"+fmt.Sprint(ei), fmt.Sprint(ei))
			n := 0
			call := func(ind string, t, te int, k int) {
				ta := apps[t]
				fmt.Fprintf(&b, "%s%s <- %s [%s, via=%q]\n", ind, ta.name, ta.eps[te%len(ta.eps)], tags(3), "v"+fmt.Sprint(k))
				n++
			}
			last := len(apps) - 1
			if ei == 0 {
				// the spine: endpoint 0 calls endpoint 0 of the next application and leaf endpoints
				// of the two after it, so that an expansion grows linearly with the chain
				if ai+1 <= last {
					call("        ", ai+1, 0, 1)
				}
				if ai+2 <= last {
					fmt.Fprintf(&b, "        if cond%d:\n", ai)
					call("            ", ai+2, 1, 2)
				}
				if ai+3 <= last && r.Chance(1, 2) {
					call("        ", ai+3, 2, 3)
				}
				if len(a.eps) > 1 {
					fmt.Fprintf(&b, "        . <- %s\n", a.eps[1])
					n++
				}
			} else if ai != last {
				// leaves: one call into the sink application (which calls nobody)
				call("        ", last, ei, 4)
			}
			if n == 0 {
				b.WriteString("        done\n")
			}
			b.WriteString("        return ok <: string\n")
		}
		b.WriteString("\n")
	}
	// integration project
	fmt.Fprintf(&b, "Project [appfmt=\"%%(appname)\", epfmt=\"%%(patterns) %%(epname)%%(needs_int? needsInt)\"]:\n")
	b.WriteString("    All:\n")
	for _, a := range apps {
		fmt.Fprintf(&b, "        %s\n", a.name)
	}
	fmt.Fprintf(&b, "    Part [exclude=[%q]]:\n", apps[1].name)
	for ai, a := range apps {
		if ai%2 == 0 || ai < 4 {
			fmt.Fprintf(&b, "        %s\n", a.name)
		}
	}
	fmt.Fprintf(&b, "    Through [passthrough=[%q, %q]]:\n", apps[1].name, apps[2].name)
	fmt.Fprintf(&b, "        %s\n        %s\n        %s\n\n", apps[0].name, apps[len(apps)-1].name, apps[len(apps)-2].name)
	// sequence project
	b.WriteString("SeqProject [seqtitle=\"%(epname)\"]:\n")
	for k := 0; k < 3; k++ {
		fmt.Fprintf(&b, "    SEQ-%d [groupby=\"owner\"]:\n        %s <- %s\n", k, apps[k].name, apps[k].eps[0])
	}
	text := b.String()
	files := map[string]string{"root.sysl": text}
	m, err, pi := compileFiles(files, "root.sysl")
	if err != nil || pi != nil {
		return &model{label: fmt.Sprintf("targeted-callgraph#%d: DOES NOT COMPILE: %v %v", i, err, pi), kind: "targeted", files: files, root: "root.sysl"}
	}
	return &model{label: fmt.Sprintf("targeted-callgraph#%d", i), kind: "targeted", files: files, root: "root.sysl", mod: m, groupAttr: "owner"}
}

var primTypes = []string{"int", "string", "bool", "date", "datetime", "decimal", "float", "string(30)", "int64", "bytes"}

// dataModel: three applications, each with a chain of tables (foreign keys, depth >= 3),
// tuples with >= 4 fields of which >= 3 are required, references, sets and sequences,
// enums with >= 3 items, aliases, a union, REST endpoints with >= 3 query / header
// parameters and typed returns, attributes and annotations everywhere, and a data project.
// Returns the model with a previous version (fewer columns / tables) for the delta script.
func dataModel(r *fw.Rand, i int) *model {
	nApps := 3
	aw := distinct(r, appWords, nApps)
	nameSeed := r.U64()
	build := func(older bool) string {
		rr := fw.NewRand(nameSeed, 5) // both versions draw the same names
		var b strings.Builder
		for ai := 0; ai < nApps; ai++ {
			tw := distinct(rr, typeWords, 12)
			fmt.Fprintf(&b, "%s [version=\"1.%d\", owner=%q, description=%q, ~%s, ~%s, ~%s]:\n", aw[ai], ai, teamWords[ai%len(teamWords)], "d"+fmt.Sprint(ai), tagWords[ai], tagWords[ai+3], tagWords[ai+6])
			// tables: chain T0 <- T1 <- T2 <- T3
			nT := 4
			for t := 0; t < nT; t++ {
				if older && t == nT-1 {
					continue
				}
				fws := distinct(rr, fieldWords, 6)
				fmt.Fprintf(&b, "    !table %s [~%s, kind=%q, rank=%q]:\n", tw[t], tagWords[t], "k"+fmt.Sprint(t), fmt.Sprint(t))
				fmt.Fprintf(&b, "        %s_id <: int [~pk, ~autoinc]\n", strings.ToLower(tw[t]))
				for k, f := range fws[:4] {
					if older && k == 3 {
						continue
					}
					opt := ""
					if k == 2 {
						opt = "?"
					}
					fmt.Fprintf(&b, "        %s <: %s%s [note=%q, ~%s, seq=%q]\n", f, primTypes[(t+k)%len(primTypes)], opt, "n"+fmt.Sprint(k), tagWords[k], fmt.Sprint(k))
				}
				if t > 0 {
					fmt.Fprintf(&b, "        %s_ref <: %s.%s_id\n", strings.ToLower(tw[t-1]), tw[t-1], strings.ToLower(tw[t-1]))
				}
				if t > 1 {
					fmt.Fprintf(&b, "        %s_ref <: %s.%s_id?\n", strings.ToLower(tw[t-2]), tw[t-2], strings.ToLower(tw[t-2]))
				}
			}
			// tuples
			for t := 4; t < 8; t++ {
				fws := distinct(rr, fieldWords, 6)
				fmt.Fprintf(&b, "    !type %s [~%s, ~%s, kind=%q]:\n", tw[t], tagWords[t], tagWords[t+1], "k"+fmt.Sprint(t))
				for k, f := range fws[:5] {
					opt := ""
					if k == 3 {
						opt = "?"
					}
					ty := primTypes[(t+k)%len(primTypes)]
					switch {
					case k == 1 && t > 4:
						ty = tw[t-1]
					case k == 2 && t > 5:
						ty = "set of " + tw[t-2]
					case k == 4:
						ty = "sequence of " + primTypes[(t)%len(primTypes)]
					case k == 0 && t == 7 && ai > 0:
						ty = aw[ai-1] + "." + "Shared"
					}
					fmt.Fprintf(&b, "        %s <: %s%s [note=%q, ~%s, seq=%q]\n", f, ty, opt, "n"+fmt.Sprint(k), tagWords[k+2], fmt.Sprint(k))
				}
			}
			fmt.Fprintf(&b, "    !type Shared:\n        code <: string\n        label <: string\n        weight <: int\n        extra <: string?\n")
			// a map type (json_map_key): several value fields, references among them
			fmt.Fprintf(&b, "    !type Lookup%d [json_map_key=\"code\"]:\n        code <: string\n        first <: %s\n        second <: %s\n        price <: decimal\n        note <: string?\n        third <: Shared\n", ai, tw[4], tw[5])
			fmt.Fprintf(&b, "    !enum %s:\n        ALPHA: 1\n        BRAVO: 2\n        CHARLIE: 3\n        DELTA: 4\n", tw[8])
			fmt.Fprintf(&b, "    !alias %s:\n        sequence of %s\n", tw[9], tw[4])
			fmt.Fprintf(&b, "    !alias %s:\n        string\n", tw[10])
			fmt.Fprintf(&b, "    !union %s:\n        %s\n        %s\n        %s\n", tw[11], tw[4], tw[5], tw[6])
			// REST
			fmt.Fprintf(&b, "    /%s:\n", strings.ToLower(tw[4]))
			fmt.Fprintf(&b, "        GET ?q1=string&q2=int&q3=string?&q4=bool [~%s, ~%s, ~%s]:\n            return ok <: sequence of %s\n            return error <: Shared\n", tagWords[0], tagWords[1], tagWords[2], tw[4])
			fmt.Fprintf(&b, "        POST (body <: %s [~body], h1 <: string [~header, name=\"X-One\"], h2 <: string [~header, name=\"X-Two\"], h3 <: int [~header, name=\"X-Three\"]):\n            return ok <: %s\n            return 400 <: Shared\n            return 500 <: Shared\n", tw[5], tw[5])
			fmt.Fprintf(&b, "        /{id <: int}:\n            GET ?a=string&b=string&c=int:\n                return ok <: %s\n            DELETE:\n                return ok\n            PUT (body <: %s [~body]):\n                return ok <: %s\n", tw[6], tw[6], tw[6])
			fmt.Fprintf(&b, "    /%s/{key <: string}/items/{n <: int}:\n        GET ?x=int&y=int&z=int:\n            return ok <: %s\n\n", strings.ToLower(tw[7]), tw[7])
		}
		b.WriteString("DataProject:\n    Everything:\n")
		for _, a := range aw {
			fmt.Fprintf(&b, "        %s\n", a)
		}
		fmt.Fprintf(&b, "    First:\n        %s\n    Last:\n        %s\n", aw[0], aw[nApps-1])
		return b.String()
	}
	files := map[string]string{"root.sysl": build(false), "old/root.sysl": build(true)}
	m, err, pi := compileFiles(map[string]string{"root.sysl": files["root.sysl"]}, "root.sysl")
	if err != nil || pi != nil {
		return &model{label: fmt.Sprintf("targeted-data#%d: DOES NOT COMPILE: %v %v", i, err, pi), kind: "targeted", files: files, root: "root.sysl"}
	}
	old, err, pi := compileFiles(map[string]string{"root.sysl": files["old/root.sysl"]}, "root.sysl")
	if err != nil || pi != nil {
		return &model{label: fmt.Sprintf("targeted-data#%d: OLD VERSION DOES NOT COMPILE: %v %v", i, err, pi), kind: "targeted", files: files, root: "root.sysl"}
	}
	return &model{label: fmt.Sprintf("targeted-data#%d", i), kind: "targeted", files: files, root: "root.sysl", mod: m, old: old, oldRoot: "old/root.sysl"}
}

func relPath(root, abs string) string {
	r, err := filepath.Rel(root, abs)
	if err != nil {
		return abs
	}
	return r
}
