package c19

// The cross-process half: the equivalent `sysl` command line is run in `procs` separate
// processes; exit status, stdout and every file written below out/ must be identical.

import (
	"bytes"
	"fmt"
	"os"
	"os/exec"
	"path/filepath"
	"strings"

	"verif/fw"
)

func writeTree(dir string, files map[string]string) {
	for n, c := range files {
		p := filepath.Join(dir, n)
		_ = os.MkdirAll(filepath.Dir(p), 0o755)
		_ = os.WriteFile(p, []byte(c), 0o644)
	}
}

func readTree(dir string) map[string]string {
	out := map[string]string{}
	_ = filepath.Walk(dir, func(p string, fi os.FileInfo, err error) error {
		if err != nil || fi.IsDir() {
			return nil
		}
		b, _ := os.ReadFile(p)
		rel, _ := filepath.Rel(dir, p)
		out[rel] = string(b)
		return nil
	})
	return out
}

// processes runs v.cli procs times. md gives the model sources (or doc the foreign
// document).
func (rn *runner) processes(ctx *fw.Ctx, md *model, doc *foreignDoc, v *inv) {
	if v.cli == nil {
		return
	}
	res := rn.res
	src := filepath.Join(ctx.Dir, "src")
	root, rootFile, oldFile, docFile := src, "", "", ""
	switch {
	case doc != nil:
		writeTree(src, map[string]string{doc.file: doc.text})
		docFile = filepath.Join(src, doc.file)
	case md.files != nil:
		writeTree(src, md.files)
		rootFile, oldFile = md.root, md.oldRoot
	default:
		root, rootFile = md.cliRoot, md.cliFile
	}
	args := []string{v.cli[0]}
	if doc == nil {
		args = append(args, "--root", root)
	}
	for _, a := range v.cli[1:] {
		switch a {
		case "ROOTFILE":
			a = rootFile
		case "OLDFILE":
			a = oldFile
		case "DOCFILE":
			a = docFile
		}
		args = append(args, a)
	}
	rn.nproc++
	// the binary under test must be the same file for all processes of one command (the
	// protobuf encoders salt their whitespace with a hash of the executable, and a rebuild
	// in the middle would compare two different programs)
	bin := filepath.Join(ctx.BinDir, "sysl")
	before, _ := os.Stat(bin)
	outs := make([]outcome, procs)
	for k := 0; k < procs; k++ {
		dir := filepath.Join(ctx.Dir, "cli", fmt.Sprintf("%d-%d", rn.nproc, k))
		_ = os.MkdirAll(filepath.Join(dir, "out"), 0o755)
		cmd := exec.Command(bin, args...)
		cmd.Dir = dir
		var so, se bytes.Buffer
		cmd.Stdout, cmd.Stderr = &so, &se
		cmd.Env = append(os.Environ(), "SYSL_PLANTUML=http://localhost:1/plantuml", "NO_COLOR=1")
		err := cmd.Run()
		res.Count("process_runs", 1)
		var b bytes.Buffer
		status := 0
		if err != nil {
			status = -1
			if ee, ok := err.(*exec.ExitError); ok {
				status = ee.ExitCode()
			}
		}
		fmt.Fprintf(&b, "=== stdout ===\n%s\n", so.String())
		b.Write(joinFiles(readTree(filepath.Join(dir, "out"))))
		outs[k] = outcome{out: b.Bytes()}
		if status != 0 {
			outs[k].err = fmt.Sprintf("ERROR: exit status %d", status)
			outs[k].stderr = clipStr(se.String(), 4000)
		}
		_ = os.RemoveAll(dir)
	}
	if after, _ := os.Stat(bin); before == nil || after == nil || before.Size() != after.Size() || !before.ModTime().Equal(after.ModTime()) {
		res.Count("process_comparisons_discarded_binary_changed", 1)
		return
	}
	res.Add("commands", v.cli[0]+":"+v.opt)
	a := outs[0]
	for k := 1; k < procs; k++ {
		b := outs[k]
		res.Count("process_outputs_compared", 1)
		res.Count("bytes_compared", len(a.out)+len(b.out))
		if a.err == b.err && bytes.Equal(a.out, b.out) {
			continue
		}
		res.Count("process_outputs_differing", 1)
		cmdline := "sysl " + strings.Join(args, " ")
		for _, c := range classify(v.family, a, b) {
			res.Add("differences_seen_across_processes", v.key()+"|"+c)
			rn.violate(v, "process", c,
				fmt.Sprintf("%s: `%s`: process %d of %d ended differently from process 0 (%s; %s vs %s); first difference: %s", rn.label, cmdline, k, procs, c, orOK(a.err), orOK(b.err), firstDiffText(a.out, b.out)),
				map[string]string{"command.txt": cmdline + "\n", "out.proc0": a.err + "\n" + string(a.out) + a.stderr, fmt.Sprintf("out.proc%d", k): b.err + "\n" + string(b.out) + b.stderr, "diff.txt": diffText(a.out, b.out)})
		}
	}
}

func orOK(s string) string {
	if s == "" {
		return "exit status 0"
	}
	return s
}
