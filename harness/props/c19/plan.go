package c19

// From a compiled model to the list of generator invocations to repeat, and the
// measurement of how many entries the maps have that each generator walks.

import (
	"sort"
	"strings"

	"github.com/anz-bank/sysl/pkg/sysl"
	"google.golang.org/protobuf/proto"

	"verif/fw"
)

// model is one workload item: a compiled module plus what is needed to run the CLI on it.
type model struct {
	label string
	kind  string            // corpus | generated | targeted
	files map[string]string // source files to write for the CLI (nil: cliRoot/cliFile point into the repository)
	root  string            // root file inside files
	// corpus models: run the CLI against the repository copy
	cliRoot, cliFile string
	mod              *sysl.Module
	// previous version for the delta script (files under "old/" in files when generated)
	old     *sysl.Module
	oldRoot string
	// hints given by the targeted models (empty: derived from the module)
	groupAttr string
}

// dims: sizes of the maps that generators walk, measured on the compiled module.
type dims struct {
	Apps, MaxEps, MaxTypes, MaxFields, MaxRequired, MaxParams, MaxAttrs, MaxEnum int
	MaxPatterns, Tables, FKDepth, Clusters, MaxClusterApps, RestEps, Calls       int
	GroupVals                                                                    map[string]int // attr name -> distinct values over apps
	Imports                                                                      int
}

func appNameOf(a *sysl.Application) string { return strings.Join(a.GetName().GetPart(), " :: ") }

func sortedApps(m *sysl.Module) []string {
	ks := make([]string, 0, len(m.GetApps()))
	for k := range m.GetApps() {
		ks = append(ks, k)
	}
	sort.Strings(ks)
	return ks
}

func sortedEps(a *sysl.Application) []string {
	ks := make([]string, 0, len(a.GetEndpoints()))
	for k := range a.GetEndpoints() {
		ks = append(ks, k)
	}
	sort.Strings(ks)
	return ks
}

func sortedTypes(a *sysl.Application) []string {
	ks := make([]string, 0, len(a.GetTypes()))
	for k := range a.GetTypes() {
		ks = append(ks, k)
	}
	sort.Strings(ks)
	return ks
}

func walkStmts(ss []*sysl.Statement, f func(s *sysl.Statement)) {
	for _, s := range ss {
		f(s)
		switch x := s.GetStmt().(type) {
		case *sysl.Statement_Cond:
			walkStmts(x.Cond.GetStmt(), f)
		case *sysl.Statement_Loop:
			walkStmts(x.Loop.GetStmt(), f)
		case *sysl.Statement_LoopN:
			walkStmts(x.LoopN.GetStmt(), f)
		case *sysl.Statement_Foreach:
			walkStmts(x.Foreach.GetStmt(), f)
		case *sysl.Statement_Group:
			walkStmts(x.Group.GetStmt(), f)
		case *sysl.Statement_Alt:
			for _, c := range x.Alt.GetChoice() {
				walkStmts(c.GetStmt(), f)
			}
		}
	}
}

func attrFields(t *sysl.Type) map[string]*sysl.Type {
	if r := t.GetRelation(); r != nil {
		return r.GetAttrDefs()
	}
	if tu := t.GetTuple(); tu != nil {
		return tu.GetAttrDefs()
	}
	return nil
}

func patternsOf(attrs map[string]*sysl.Attribute) int {
	return len(attrs["patterns"].GetA().GetElt())
}

func measure(m *sysl.Module) dims {
	d := dims{Apps: len(m.GetApps()), GroupVals: map[string]int{}, Imports: len(m.GetImports())}
	mx := func(p *int, v int) {
		if v > *p {
			*p = v
		}
	}
	groupVals := map[string]map[string]bool{}
	clusters := map[string]int{}
	for name, a := range m.GetApps() {
		mx(&d.MaxEps, len(a.GetEndpoints()))
		mx(&d.MaxTypes, len(a.GetTypes()))
		mx(&d.MaxAttrs, len(a.GetAttrs()))
		mx(&d.MaxPatterns, patternsOf(a.GetAttrs()))
		for k, v := range a.GetAttrs() {
			if s := v.GetS(); s != "" {
				if groupVals[k] == nil {
					groupVals[k] = map[string]bool{}
				}
				groupVals[k][s] = true
			}
		}
		if parts := a.GetName().GetPart(); len(parts) > 1 {
			clusters[strings.Join(parts[:len(parts)-1], " :: ")]++
		}
		_ = name
		depth := map[string]int{}
		var fkDepth func(tn string, seen map[string]bool) int
		fkDepth = func(tn string, seen map[string]bool) int {
			if v, ok := depth[tn]; ok {
				return v
			}
			if seen[tn] {
				return 0
			}
			seen[tn] = true
			best := 0
			for _, f := range a.GetTypes()[tn].GetRelation().GetAttrDefs() {
				if p := f.GetTypeRef().GetRef().GetPath(); len(p) >= 1 && a.GetTypes()[p[0]].GetRelation() != nil && p[0] != tn {
					if v := 1 + fkDepth(p[0], seen); v > best {
						best = v
					}
				}
			}
			depth[tn] = best
			return best
		}
		for tn, t := range a.GetTypes() {
			fs := attrFields(t)
			mx(&d.MaxFields, len(fs))
			mx(&d.MaxAttrs, len(t.GetAttrs()))
			req := 0
			for _, f := range fs {
				if !f.GetOpt() {
					req++
				}
				mx(&d.MaxAttrs, len(f.GetAttrs()))
			}
			mx(&d.MaxRequired, req)
			mx(&d.MaxEnum, len(t.GetEnum().GetItems()))
			if t.GetRelation() != nil {
				d.Tables++
				mx(&d.FKDepth, 1+fkDepth(tn, map[string]bool{}))
			}
		}
		for _, ep := range a.GetEndpoints() {
			n := len(ep.GetParam()) + len(ep.GetRestParams().GetQueryParam()) + len(ep.GetRestParams().GetUrlParam())
			mx(&d.MaxParams, n)
			mx(&d.MaxAttrs, len(ep.GetAttrs()))
			mx(&d.MaxPatterns, patternsOf(ep.GetAttrs()))
			if ep.GetRestParams() != nil {
				d.RestEps++
			}
			walkStmts(ep.GetStmt(), func(s *sysl.Statement) {
				if s.GetCall() != nil {
					d.Calls++
					mx(&d.MaxPatterns, patternsOf(s.GetAttrs()))
				}
				mx(&d.MaxAttrs, len(s.GetAttrs()))
			})
		}
	}
	for k, vs := range groupVals {
		d.GroupVals[k] = len(vs)
	}
	for _, n := range clusters {
		if n >= 2 {
			d.Clusters++
		}
		mx(&d.MaxClusterApps, n)
	}
	return d
}

// wide: does this model give the maps that generator `gen` walks at least three entries?
func (d dims) wideFor(gen, opt string) bool {
	switch gen {
	case "pb":
		return d.Apps >= 3 && (d.MaxEps >= 3 || d.MaxTypes >= 3) && d.MaxAttrs >= 3
	case "sd":
		if strings.Contains(opt, "groupby") {
			best := 0
			for _, n := range d.GroupVals {
				if n > best {
					best = n
				}
			}
			return d.Apps >= 3 && best >= 3 && d.Calls >= 3
		}
		return d.Apps >= 3 && d.Calls >= 3
	case "ints":
		switch {
		case strings.Contains(opt, "clustered"):
			return d.Apps >= 3 && d.Calls >= 3 && d.Clusters >= 2 && d.MaxClusterApps >= 3
		case strings.Contains(opt, "epa"):
			return d.Apps >= 3 && d.Calls >= 3 && d.MaxEps >= 3
		}
		return d.Apps >= 3 && d.Calls >= 3
	case "datamodel":
		return d.MaxTypes >= 3 && d.MaxFields >= 3
	case "export":
		if opt == "spanner" {
			return d.Tables >= 3 && d.MaxFields >= 3
		}
		return d.MaxTypes >= 3 && d.MaxFields >= 3 && d.MaxRequired >= 3 && (d.MaxParams >= 3 || opt == "proto")
	case "db-scripts":
		return d.Tables >= 3 && d.MaxFields >= 3 && d.FKDepth >= 3
	case "relmod":
		return d.Apps >= 3 && (d.MaxEps >= 3 || d.MaxTypes >= 3) && d.MaxFields >= 3 && d.MaxAttrs >= 3
	}
	return false
}

// ---------------------------------------------------------------------------

func hasCalls(ep *sysl.Endpoint) int {
	n := 0
	walkStmts(ep.GetStmt(), func(s *sysl.Statement) {
		if s.GetCall() != nil {
			n++
		}
	})
	return n
}

const sdArrowCap = 1500

// sdCost estimates the number of call arrows of the sequence diagram that starts at
// app.ep: calls are expanded recursively, a call to an endpoint already in progress is
// drawn but not expanded. Stops counting at cap.
func sdCost(m *sysl.Module, app, ep string, cap int) int {
	n := 0
	inProgress := map[string]bool{}
	var visit func(app, ep string)
	visit = func(app, ep string) {
		k := app + " <- " + ep
		if inProgress[k] || n >= cap {
			return
		}
		e := m.GetApps()[app].GetEndpoints()[ep]
		if e == nil {
			return
		}
		inProgress[k] = true
		walkStmts(e.GetStmt(), func(s *sysl.Statement) {
			if c := s.GetCall(); c != nil && n < cap {
				n++
				visit(strings.Join(c.GetTarget().GetPart(), " :: "), c.GetEndpoint())
			}
		})
		delete(inProgress, k)
	}
	visit(app, ep)
	return n
}

// projectApps finds applications written "in the project manner": every endpoint's
// statements are actions that name applications of the module.
func projectApps(m *sysl.Module, needTypes bool) []string {
	var out []string
	for _, an := range sortedApps(m) {
		a := m.GetApps()[an]
		if len(a.GetEndpoints()) == 0 {
			continue
		}
		named, other := 0, 0
		for _, ep := range a.GetEndpoints() {
			for _, s := range ep.GetStmt() {
				if act := s.GetAction(); act != nil {
					if t := m.GetApps()[act.GetAction()]; t != nil && (!needTypes || len(t.GetTypes()) > 0) {
						named++
						continue
					}
				}
				other++
			}
		}
		if named >= 1 && other <= named/2 {
			out = append(out, an)
		}
	}
	return out
}

// seqProjects: applications whose endpoints consist of call statements only (the
// `sysl sd -a` manner).
func seqProjects(m *sysl.Module) []string {
	var out []string
	for _, an := range sortedApps(m) {
		a := m.GetApps()[an]
		if len(a.GetEndpoints()) == 0 {
			continue
		}
		ok := true
		for _, ep := range a.GetEndpoints() {
			if len(ep.GetStmt()) == 0 {
				ok = false
			}
			for _, s := range ep.GetStmt() {
				if s.GetCall() == nil {
					ok = false
				}
			}
		}
		if ok && (strings.Contains(an, "Seq") || a.GetAttrs()["seqtitle"] != nil || a.GetAttrs()["epfmt"] != nil) {
			out = append(out, an)
		}
	}
	return out
}

func pickN(r *fw.Rand, xs []string, n int) []string {
	if len(xs) <= n {
		return xs
	}
	p := r.Perm(len(xs))
	out := make([]string, 0, n)
	for _, i := range p[:n] {
		out = append(out, xs[i])
	}
	sort.Strings(out)
	return out
}

// caps bound the number of invocations derived from one model.
type caps struct {
	sdStarts, exportApps, intsProjects, mermaidApps, dataTypes int
}

var quickCaps = caps{sdStarts: 2, exportApps: 2, intsProjects: 2, mermaidApps: 2, dataTypes: 2}

// derive lists the invocations for one model. Everything random comes from r.
func derive(md *model, r *fw.Rand, c caps) []*inv {
	m := md.mod
	d := measure(m)
	hasCLI := true
	var out []*inv
	add := func(v *inv) {
		if v.family == "" {
			v.family = famText
		}
		v.wide = d.wideFor(v.gen, v.opt)
		out = append(out, v)
	}
	for _, v := range pbInvs(hasCLI) {
		add(v)
	}

	// ---- sequence diagrams
	var starts []string
	startEp := map[string][2]string{}
	cost := map[string]int{}
	for _, an := range sortedApps(m) {
		a := m.GetApps()[an]
		for _, en := range sortedEps(a) {
			if en == "..." || strings.HasPrefix(en, ".. ") {
				continue
			}
			if c := sdCost(m, an, en, sdArrowCap); c >= 1 && c < sdArrowCap {
				k := an + " <- " + en
				starts = append(starts, k)
				startEp[k] = [2]string{an, en}
				cost[k] = c
			}
		}
	}
	// prefer the richest diagrams: the six most expensive starts below the cap
	sort.SliceStable(starts, func(i, j int) bool { return cost[starts[i]] > cost[starts[j]] })
	if len(starts) > 6 {
		starts = starts[:6]
	}
	sort.Strings(starts)
	group := md.groupAttr
	if group == "" {
		best := 0
		for _, k := range sortedKeys(d.GroupVals) {
			if d.GroupVals[k] > best && k != "package" {
				group, best = k, d.GroupVals[k]
			}
		}
		if group == "" {
			group = "owner"
		}
	}
	for _, s := range pickN(r, starts, c.sdStarts) {
		ae := startEp[s]
		add(&inv{gen: "sd", opt: "plantuml", family: famPuml, arg: s, run: sdPuml([]string{s}, "", nil),
			cli: []string{"sd", "-o", "out/sd.puml", "-s", s, "ROOTFILE"}})
		add(&inv{gen: "sd", opt: "plantuml-groupby", family: famPuml, arg: s + " -g " + group, run: sdPuml([]string{s}, group, nil),
			cli: []string{"sd", "-o", "out/sd.puml", "-s", s, "-g", group, "ROOTFILE"}})
		add(&inv{gen: "sd", opt: "plantuml-full-label-formats", family: famPuml, arg: s, run: sdPumlFmt([]string{s}, "", sdFullEpFmt, sdFullAppFmt),
			cli: []string{"sd", "-o", "out/sd.puml", "-s", s, "--endpoint_format", sdFullEpFmt, "--app_format", sdFullAppFmt, "ROOTFILE"}})
		// a blackbox: the first call target of the start endpoint
		bb := ""
		walkStmts(m.GetApps()[ae[0]].GetEndpoints()[ae[1]].GetStmt(), func(st *sysl.Statement) {
			if c := st.GetCall(); c != nil && bb == "" {
				bb = strings.Join(c.GetTarget().GetPart(), " :: ") + " <- " + c.GetEndpoint()
			}
		})
		if bb != "" && bb != s {
			add(&inv{gen: "sd", opt: "plantuml-blackbox-groupby", family: famPuml, arg: s + " -b " + bb,
				run: sdPuml([]string{s}, group, map[string]string{bb: "black box"}),
				cli: []string{"sd", "-o", "out/sd.puml", "-s", s, "-g", group, "-b", bb + "=black box", "ROOTFILE"}})
		}
		add(&inv{gen: "sd", opt: "mermaid", family: famMermaid, arg: s, run: mermaidSD(ae[0], ae[1])})
	}
	if len(starts) >= 2 {
		two := pickN(r, starts, 3)
		add(&inv{gen: "sd", opt: "plantuml-multi-start-groupby", family: famPuml, arg: strings.Join(two, " ; "), run: sdPuml(two, group, nil)})
	}
	for _, p := range pickN(r, seqProjects(m), 1) {
		add(&inv{gen: "sd", opt: "plantuml-project-epname", family: famPuml, arg: p, run: sdProject(p, group),
			cli: []string{"sd", "-a", p, "-o", "out/%(epname).puml", "-g", group, "ROOTFILE"}})
	}

	// ---- integration diagrams
	for _, p := range pickN(r, projectApps(m, false), c.intsProjects) {
		add(&inv{gen: "ints", opt: "plain", family: famPuml, arg: p, run: intsPuml(p, false, false, nil),
			cli: []string{"ints", "-j", p, "-o", "out/%(epname).puml", "ROOTFILE"}})
		add(&inv{gen: "ints", opt: "clustered", family: famPuml, arg: p, run: intsPuml(p, true, false, nil),
			cli: []string{"ints", "-j", p, "-o", "out/%(epname).puml", "--clustered", "ROOTFILE"}})
		add(&inv{gen: "ints", opt: "epa", family: famPuml, arg: p, run: intsPuml(p, false, true, nil),
			cli: []string{"ints", "-j", p, "-o", "out/%(epname).puml", "--epa", "ROOTFILE"}})
	}
	if d.Calls >= 1 {
		add(&inv{gen: "ints", opt: "mermaid-full", family: famMermaid, run: mermaidIntsFull()})
		add(&inv{gen: "ints", opt: "mermaid-epa", family: famMermaid, run: mermaidEPA()})
		var callers []string
		for _, an := range sortedApps(m) {
			n := 0
			for _, ep := range m.GetApps()[an].GetEndpoints() {
				n += hasCalls(ep)
			}
			if n > 0 {
				callers = append(callers, an)
			}
		}
		for _, a := range pickN(r, callers, c.mermaidApps) {
			add(&inv{gen: "ints", opt: "mermaid-app", family: famMermaid, arg: a, run: mermaidIntsApp(a)})
		}
		if len(callers) >= 2 {
			three := pickN(r, callers, 3)
			add(&inv{gen: "ints", opt: "mermaid-multi-app", family: famMermaid, arg: strings.Join(three, ","), run: mermaidIntsMulti(three)})
		}
	}

	// ---- data-model diagrams
	nTypes := 0
	var typed []string
	for _, an := range sortedApps(m) {
		if n := len(m.GetApps()[an].GetTypes()); n > 0 {
			nTypes += n
			typed = append(typed, an)
		}
	}
	if nTypes > 0 {
		add(&inv{gen: "datamodel", opt: "plantuml-direct-epname", family: famPuml, run: dataPuml("", "%(epname).puml", true),
			cli: []string{"datamodel", "-d", "-t", "T", "-o", "out/%(epname).puml", "ROOTFILE"}})
		add(&inv{gen: "datamodel", opt: "plantuml-direct-fixed", family: famPuml, run: dataPuml("", "all.puml", true),
			cli: []string{"datamodel", "-d", "-t", "T", "-o", "out/all.puml", "ROOTFILE"}})
		for _, p := range pickN(r, projectApps(m, true), 1) {
			add(&inv{gen: "datamodel", opt: "plantuml-project-epname", family: famPuml, arg: p, run: dataPuml(p, "%(epname).puml", false),
				cli: []string{"datamodel", "-j", p, "-t", "T", "-o", "out/%(epname).puml", "ROOTFILE"}})
			add(&inv{gen: "datamodel", opt: "plantuml-project-fixed", family: famPuml, arg: p, run: dataPuml(p, "all.puml", false)})
		}
		add(&inv{gen: "datamodel", opt: "mermaid-full", family: famMermaid, run: mermaidDataFull()})
		var tks []string
		tk := map[string][2]string{}
		for _, an := range typed {
			for _, tn := range sortedTypes(m.GetApps()[an]) {
				if len(attrFields(m.GetApps()[an].GetTypes()[tn])) > 0 {
					k := an + "." + tn
					tks = append(tks, k)
					tk[k] = [2]string{an, tn}
				}
			}
		}
		for _, k := range pickN(r, tks, c.dataTypes) {
			add(&inv{gen: "datamodel", opt: "mermaid-type", family: famMermaid, arg: k, run: mermaidDataType(tk[k][0], tk[k][1])})
		}
	}

	// ---- exporters
	var exportable []string
	for _, an := range sortedApps(m) {
		a := m.GetApps()[an]
		rest := 0
		for _, ep := range a.GetEndpoints() {
			if ep.GetRestParams() != nil {
				rest++
			}
		}
		if len(a.GetTypes()) > 0 || rest > 0 {
			exportable = append(exportable, an)
		}
	}
	for _, a := range pickN(r, exportable, c.exportApps) {
		for _, f := range []string{"swagger", "openapi3"} {
			for _, mode := range []string{"yaml", "json"} {
				add(&inv{gen: "export", opt: f + "-" + mode, family: famOAS, arg: a, run: exportDoc(a, f, mode),
					cli: []string{"export", "-f", f, "-a", a, "-o", "out/api." + mode, "ROOTFILE"}})
			}
		}
	}
	add(&inv{gen: "export", opt: "spanner", family: famSQL, slow: true, run: transformExport("spanner"),
		cli: []string{"export", "-o", "out/model.sql", "ROOTFILE"}})
	add(&inv{gen: "export", opt: "proto", family: famText, slow: true, run: transformExport("proto"),
		cli: []string{"export", "-o", "out/model.proto", "ROOTFILE"}})

	// ---- database scripts
	var dbApps []string
	for _, an := range sortedApps(m) {
		for _, t := range m.GetApps()[an].GetTypes() {
			if t.GetRelation() != nil {
				if dbSafe(m.GetApps()[an]) && !strings.Contains(an, ",") {
					dbApps = append(dbApps, an)
				}
				break
			}
		}
	}
	if len(dbApps) > 0 {
		dbApps = pickN(r, dbApps, 3)
		add(&inv{gen: "db-scripts", opt: "create", family: famSQL, arg: strings.Join(dbApps, ","), run: dbCreate(dbApps),
			cli: []string{"generate-db-scripts", "-t", "T", "-o", "out", "-a", strings.Join(dbApps, ","), "-d", "postgres", "ROOTFILE"}})
		old := md.old
		derived := false
		if old == nil {
			old, derived = olderVersion(m, dbApps), true
		}
		for _, a := range dbApps {
			if oa := old.GetApps()[a]; oa != nil && !dbSafe(oa) {
				old = olderVersion(m, nil) // = the model itself: delta of equal versions
			}
		}
		v := &inv{gen: "db-scripts", opt: "delta", family: famSQL, arg: strings.Join(dbApps, ","), run: dbDelta(old, dbApps)}
		if !derived && md.oldRoot != "" {
			v.cli = []string{"generate-db-scripts-delta", "-t", "T", "-o", "out", "-a", strings.Join(dbApps, ","), "-d", "postgres", "OLDFILE", "ROOTFILE"}
		}
		add(v)
	}

	// ---- relational model
	add(&inv{gen: "relmod", opt: "schema-rows-as-returned", family: famJSON, slow: true, run: relmodRows(false)})
	add(&inv{gen: "relmod", opt: "schema-rows-sorted", family: famJSON, slow: true, run: relmodRows(true)})
	add(&inv{gen: "relmod", opt: "transform-input-arrai", family: famArrai, slow: true, run: transformInput})
	return out
}

// dbSafe: the script generator's table-depth computation recurses without end unless every
// referencing column names `Table.column` of a table of the same application and the
// references form no cycle (that is C16's and C20's subject). Only such applications are
// given to it here.
func dbSafe(a *sysl.Application) bool {
	edges := map[string][]string{}
	for tn, t := range a.GetTypes() {
		rel := t.GetRelation()
		if rel == nil {
			continue
		}
		for _, f := range rel.GetAttrDefs() {
			tr := f.GetTypeRef()
			if tr == nil {
				continue
			}
			p := tr.GetRef().GetPath()
			if len(p) != 2 || tr.GetRef().GetAppname() != nil && len(tr.GetRef().GetAppname().GetPart()) > 0 {
				return false
			}
			target := a.GetTypes()[p[0]].GetRelation()
			if target == nil || target.GetAttrDefs()[p[1]] == nil || p[0] == tn {
				return false
			}
			edges[tn] = append(edges[tn], p[0])
		}
	}
	state := map[string]int{}
	var visit func(n string) bool
	visit = func(n string) bool {
		switch state[n] {
		case 1:
			return false
		case 2:
			return true
		}
		state[n] = 1
		for _, t := range edges[n] {
			if !visit(t) {
				return false
			}
		}
		state[n] = 2
		return true
	}
	for n := range edges {
		if !visit(n) {
			return false
		}
	}
	return true
}

func sortedKeys(m map[string]int) []string {
	ks := make([]string, 0, len(m))
	for k := range m {
		ks = append(ks, k)
	}
	sort.Strings(ks)
	return ks
}

// olderVersion derives a "previous version" of the model for the delta script: in every
// chosen application the alphabetically last column of each table with >= 3 columns is
// absent (unless it is a key or referenced) and the alphabetically last unreferenced table
// is absent. Deterministic: names are visited sorted.
func olderVersion(m *sysl.Module, apps []string) *sysl.Module {
	old := proto.Clone(m).(*sysl.Module)
	for _, an := range apps {
		a := old.GetApps()[an]
		if a == nil {
			continue
		}
		referenced := map[string]bool{}
		for _, t := range a.GetTypes() {
			for _, f := range t.GetRelation().GetAttrDefs() {
				if p := f.GetTypeRef().GetRef().GetPath(); len(p) >= 1 {
					referenced[p[0]] = true
					if len(p) >= 2 {
						referenced[p[0]+"."+p[1]] = true
					}
				}
			}
		}
		tns := sortedTypes(a)
		for _, tn := range tns {
			rel := a.GetTypes()[tn].GetRelation()
			if rel == nil || len(rel.GetAttrDefs()) < 3 {
				continue
			}
			cols := make([]string, 0, len(rel.GetAttrDefs()))
			for c := range rel.GetAttrDefs() {
				cols = append(cols, c)
			}
			sort.Strings(cols)
			pk := map[string]bool{}
			for _, k := range rel.GetPrimaryKey().GetAttrName() {
				pk[k] = true
			}
			for i := len(cols) - 1; i >= 0; i-- {
				c := cols[i]
				if !pk[c] && !referenced[tn+"."+c] && rel.GetAttrDefs()[c].GetTypeRef() == nil {
					delete(rel.AttrDefs, c)
					break
				}
			}
		}
		for i := len(tns) - 1; i >= 0; i-- {
			if a.GetTypes()[tns[i]].GetRelation() != nil && !referenced[tns[i]] {
				delete(a.Types, tns[i])
				break
			}
		}
	}
	return old
}
