package c19

// Classification of a difference between two outputs of the same invocation. The class is
// the last component of the violation signature; it names WHAT differs (which kind of
// line moved or changed), with every model-specific identifier stripped, so that one cause
// has one signature and another cause in the same generator has a different one.

import (
	"fmt"
	"regexp"
	"sort"
	"strings"
	"unicode/utf8"
)

// hunk is a maximal run of differing lines after removing the longest common
// subsequence: lines only in a, lines only in b, and the context (index in a).
type hunk struct {
	at   int // index in a of the first line of the hunk
	a, b []string
}

func splitLines(b []byte) []string {
	s := strings.Split(string(b), "\n")
	if len(s) > 0 && s[len(s)-1] == "" {
		s = s[:len(s)-1]
	}
	return s
}

// hunks computes a line diff (common prefix/suffix stripped, LCS on the middle when it is
// small enough, otherwise the whole middle is one hunk).
func hunks(a, b []string) []hunk {
	p := 0
	for p < len(a) && p < len(b) && a[p] == b[p] {
		p++
	}
	s := 0
	for s < len(a)-p && s < len(b)-p && a[len(a)-1-s] == b[len(b)-1-s] {
		s++
	}
	ma, mb := a[p:len(a)-s], b[p:len(b)-s]
	if len(ma) == 0 && len(mb) == 0 {
		return nil
	}
	if len(ma)*len(mb) > 4_000_000 || len(ma) == 0 || len(mb) == 0 {
		return []hunk{{at: p, a: ma, b: mb}}
	}
	// LCS table
	n, m := len(ma), len(mb)
	t := make([][]int32, n+1)
	for i := range t {
		t[i] = make([]int32, m+1)
	}
	for i := n - 1; i >= 0; i-- {
		for j := m - 1; j >= 0; j-- {
			if ma[i] == mb[j] {
				t[i][j] = t[i+1][j+1] + 1
			} else if t[i+1][j] >= t[i][j+1] {
				t[i][j] = t[i+1][j]
			} else {
				t[i][j] = t[i][j+1]
			}
		}
	}
	var out []hunk
	var cur *hunk
	flush := func() {
		if cur != nil {
			out = append(out, *cur)
			cur = nil
		}
	}
	i, j := 0, 0
	for i < n || j < m {
		switch {
		case i < n && j < m && ma[i] == mb[j]:
			flush()
			i++
			j++
		case j >= m || (i < n && t[i+1][j] >= t[i][j+1]):
			if cur == nil {
				cur = &hunk{at: p + i}
			}
			cur.a = append(cur.a, ma[i])
			i++
		default:
			if cur == nil {
				cur = &hunk{at: p + i}
			}
			cur.b = append(cur.b, mb[j])
			j++
		}
	}
	flush()
	return out
}

func firstDiffText(a, b []byte) string {
	la, lb := splitLines(a), splitLines(b)
	for i := 0; i < len(la) || i < len(lb); i++ {
		var x, y string
		if i < len(la) {
			x = la[i]
		}
		if i < len(lb) {
			y = lb[i]
		}
		if x != y {
			return fmt.Sprintf("line %d: %q vs %q", i+1, clipStr(x, 160), clipStr(y, 160))
		}
	}
	return "none"
}

func diffText(a, b []byte) string {
	if !utf8.Valid(a) || !utf8.Valid(b) {
		i := 0
		for i < len(a) && i < len(b) && a[i] == b[i] {
			i++
		}
		return fmt.Sprintf("binary outputs, %d and %d bytes, first difference at offset %d\n", len(a), len(b), i)
	}
	var sb strings.Builder
	for n, h := range hunks(splitLines(a), splitLines(b)) {
		if n >= 40 {
			sb.WriteString("...\n")
			break
		}
		fmt.Fprintf(&sb, "@@ line %d\n", h.at+1)
		for _, l := range h.a {
			sb.WriteString("- " + clipStr(l, 300) + "\n")
		}
		for _, l := range h.b {
			sb.WriteString("+ " + clipStr(l, 300) + "\n")
		}
	}
	return sb.String()
}

var (
	reQuoted  = regexp.MustCompile(`"(?:[^"\\]|\\.)*"|'(?:[^'\\]|\\.)*'`)
	reNumber  = regexp.MustCompile(`\b\d+(\.\d+)?\b`)
	reWord    = regexp.MustCompile(`[A-Za-z_][A-Za-z0-9_]*`)
	reSpaces  = regexp.MustCompile(`\s+`)
	reIdRun   = regexp.MustCompile(`_(?:[:.\-_/+&%]*[_N])+`)
	rePumlArr = regexp.MustCompile(`^\s*\S+\s+[-.<|*o}{]*(?:\[#\w+\])?[-.]*[->|*o}{]+\s*\S+(.*)$`)
	reListRun = regexp.MustCompile(`_(?:, _)+`)
	reFirstW  = regexp.MustCompile(`^[-!@"' ]*([A-Za-z_$][A-Za-z0-9_$-]*)`)
)

// skeleton keeps the words of vocab and the punctuation of a line; quoted text becomes Q,
// numbers N, every other word _, runs of identifiers joined by : . - / collapse to one _
// and comma lists of identifiers to `_,..`.
func skeleton(line string, vocab map[string]bool) string {
	s := strings.TrimSpace(line)
	s = reQuoted.ReplaceAllString(s, "Q")
	s = reWord.ReplaceAllStringFunc(s, func(w string) string {
		if w == "Q" || vocab[w] {
			return w
		}
		return "_"
	})
	s = reNumber.ReplaceAllString(s, "N")
	s = reSpaces.ReplaceAllString(s, " ")
	for strings.Contains(s, "_ _") {
		s = strings.ReplaceAll(s, "_ _", "_")
	}
	s = reIdRun.ReplaceAllString(s, "_")
	s = reListRun.ReplaceAllString(s, "_,..")
	if len(s) > 48 {
		s = s[:48]
	}
	return s
}

// lineKind is the skeleton, except that arrow lines of the diagram languages are reduced
// to `arrow` / `arrow-with-label` (their labels are free text of the model).
func lineKind(family, line string, voc map[string]bool) string {
	t := strings.TrimSpace(line)
	switch family {
	case famPuml:
		if strings.HasPrefix(t, "=== ") {
			break
		}
		if strings.HasPrefix(t, "[") && strings.Contains(t, "] as ") {
			return "component"
		}
		if m := rePumlArr.FindStringSubmatch(t); m != nil && (strings.Contains(t, "->") || strings.Contains(t, "--") || strings.Contains(t, "]>")) {
			if strings.TrimSpace(m[1]) != "" {
				return "arrow-with-label"
			}
			return "arrow"
		}
	case famSysl:
		if strings.HasPrefix(t, "!") {
			if m := reFirstW.FindStringSubmatch(t); m != nil {
				return "!" + m[1]
			}
		}
	case famMermaid:
		if strings.Contains(t, "-->") || strings.Contains(t, "<--") || strings.Contains(t, "->>") {
			return "arrow"
		}
	}
	if family == famPuml || family == famMermaid {
		// declarations: the keyword is the kind (names may contain anything)
		if m := reFirstW.FindStringSubmatch(t); m != nil && voc[m[1]] && !strings.HasPrefix(t, "=== ") {
			return m[1]
		}
	}
	return skeleton(line, voc)
}

func words(ws ...string) map[string]bool {
	m := map[string]bool{}
	for _, w := range ws {
		for _, x := range strings.Fields(w) {
			m[x] = true
		}
	}
	return m
}

// vocab: the structural words of each output family. Only these survive in a class; type
// names, HTTP methods and anything model-specific do not.
var vocab = map[string]map[string]bool{
	famPuml: words("box participant end actor control database boundary entity collections queue activate deactivate note over left right of alt else opt loop group",
		"package state component class as title skinparam hide show together interface abstract enum legend startuml enduml indirect highlight client file"),
	famMermaid: words("graph TD subgraph end classDiagram class sequenceDiagram participant activate deactivate loop alt opt else note List Map"),
	// OpenAPI / Swagger: the keys whose value is a collection; a difference is named by the
	// nearest of them
	famOAS:  words("paths parameters responses definitions schemas properties required enum tags servers consumes produces schemes security allOf oneOf anyOf file"),
	famSQL:  words("CREATE TABLE ALTER DROP ADD COLUMN CONSTRAINT PRIMARY KEY FOREIGN REFERENCES SEQUENCE INDEX NOT NULL DEFAULT UNIQUE ON TYPE SET INTERLEAVE IN PARENT TITLE Relation Model file"),
	famSysl: words("type table enum alias union return sequence set of import file"),
	famPB: words("apps key value name part attrs endpoints types tuple relation attr_defs primitive type_ref ref path appname stmt call action ret param source_context source_contexts file start end line col",
		"text long_name docstring s a elt i n opt set sequence list enum items one_of constraint rest_params method query_param url_param primary_key attr_name mixin2 views wrapped imports target"),
	famJSON:  words("relation value rows file"),
	famArrai: words("models rel doc path file"),
	famText:  words("file"),
}

// classify names the difference between two outcomes of one invocation: the kind of line
// at which the two outputs part (first differing line, both sides), within its enclosing
// structural keywords. A line whose tokens are merely permuted is named by what precedes
// the permuted part.
func classify(family string, x, y outcome) []string {
	if x.err != y.err {
		if (x.err == "") != (y.err == "") {
			return []string{"outcome:error-vs-output"}
		}
		return []string{"outcome:error-text"}
	}
	a, b := x.out, y.out
	if !utf8.Valid(a) || !utf8.Valid(b) {
		return []string{"binary-bytes"}
	}
	voc := vocab[family]
	la, lb := splitLines(a), splitLines(b)
	norm := func(l string) string { return strings.TrimSuffix(strings.TrimRight(l, " \t\r"), ",") }
	switch family {
	case famOAS:
		// parsed comparison: every differing list / value is named by the nearest collection
		// keyword on its path (schemas > T > required  ->  required); `order-in` when a list
		// holds the same elements in another order, `content-in` otherwise
		if c := oasClasses(x.out, y.out); len(c) > 0 {
			return c
		}
	case famJSON:
		// relational schema: name the relations whose rows differ
		if c := regionClasses(la, lb, norm, func(lines []string, at int) string {
			for i := at; i >= 0; i-- {
				if strings.HasPrefix(lines[i], "relation ") || strings.HasPrefix(lines[i], "value ") {
					return strings.Fields(lines[i])[1]
				}
			}
			return "?"
		}); len(c) > 0 {
			return c
		}
	}
	i := 0
	for i < len(la) && i < len(lb) && norm(la[i]) == norm(lb[i]) {
		i++
	}
	if i >= len(la) && i >= len(lb) {
		return []string{"line-ends-only"}
	}
	src, at := la, i
	if at >= len(src) {
		src = lb
	}
	pre := "line:"
	if ctx := enclosing(src, at, voc); ctx != "" {
		pre = "line:" + ctx + ">"
	}
	if i >= len(la) || i >= len(lb) {
		return []string{pre + "<end-of-output>"}
	}
	x1, y1 := norm(la[i]), norm(lb[i])
	if sameTokens(x1, y1) {
		// same tokens in another order: name what precedes the permuted part
		p := 0
		for p < len(x1) && p < len(y1) && x1[p] == y1[p] {
			p++
		}
		for p > 0 && !strings.ContainsRune(" ,[(:=", rune(x1[p-1])) {
			p--
		}
		k := lineKind(family, x1, voc)
		if family == famMermaid && k == "arrow" {
			return []string{pre + k}
		}
		if strings.HasPrefix(k, "arrow") {
			return []string{"within-" + pre + k + "<permuted>"}
		}
		if sk := strings.ReplaceAll(skeleton(x1[:p], voc), "_,..", "_"); sk != "" {
			return []string{"within-" + pre + sk + "<permuted>"}
		}
	}
	if len(x1) > 300 || len(y1) > 300 {
		// single-line (compact) outputs: the line itself says nothing
		return []string{pre + "<long-line>"}
	}
	s1, s2 := lineKind(family, x1, voc), lineKind(family, y1, voc)
	if family == famSQL && strings.HasSuffix(pre, "CREATE>") {
		// inside CREATE TABLE (...): a line that does not start with a keyword is a column
		if strings.HasPrefix(s1, "_") {
			s1 = "column"
		}
		if strings.HasPrefix(s2, "_") {
			s2 = "column"
		}
	}
	if family == famMermaid && strings.HasSuffix(pre, "class>") && s1 != "}" && s2 != "}" {
		s1, s2 = "member", "member" // a field or enum item of a class
	}
	if s1 == s2 {
		return []string{pre + s1}
	}
	if s2 < s1 {
		s1, s2 = s2, s1
	}
	return []string{pre + s1 + " | " + s2}
}

// regionClasses: line diff; every removed / added line is attributed to a region name
// (ctx of the line in its own document); per region the class is order-in:<region> when
// the removed and the added lines are the same multiset, content-in:<region> otherwise.
func regionClasses(la, lb []string, norm func(string) string, region func(lines []string, at int) string) []string {
	na, nb := make([]string, len(la)), make([]string, len(lb))
	for i := range la {
		na[i] = norm(la[i])
	}
	for i := range lb {
		nb[i] = norm(lb[i])
	}
	removed, added := map[string][]string{}, map[string][]string{}
	// positions: walk both documents with the hunks
	ia, ib := 0, 0
	for _, h := range hunks(na, nb) {
		// h.at indexes a; the matching index in b advances by the common lines in between
		ib += h.at - ia
		ia = h.at
		for k := range h.a {
			r := region(na, ia+k)
			removed[r] = append(removed[r], strings.TrimSpace(h.a[k]))
		}
		for k := range h.b {
			r := region(nb, ib+k)
			added[r] = append(added[r], strings.TrimSpace(h.b[k]))
		}
		ia += len(h.a)
		ib += len(h.b)
	}
	set := map[string]bool{}
	for r := range removed {
		set[r] = true
	}
	for r := range added {
		set[r] = true
	}
	var out []string
	for r := range set {
		x, y := append([]string(nil), removed[r]...), append([]string(nil), added[r]...)
		sort.Strings(x)
		sort.Strings(y)
		kind := "order-in:"
		if len(x) != len(y) {
			kind = "content-in:"
		} else {
			for i := range x {
				if x[i] != y[i] {
					kind = "content-in:"
					break
				}
			}
		}
		out = append(out, kind+r)
	}
	sort.Strings(out)
	if len(out) > 8 {
		out = out[:8]
	}
	return out
}

var reToken = regexp.MustCompile(`[A-Za-z0-9_.$#/{}@%~-]+|"(?:[^"\\]|\\.)*"`)

func sameTokens(a, b string) bool {
	if a == b {
		return false
	}
	ta, tb := reToken.FindAllString(a, -1), reToken.FindAllString(b, -1)
	if len(ta) != len(tb) || len(ta) < 2 {
		return false
	}
	sort.Strings(ta)
	sort.Strings(tb)
	for i := range ta {
		if ta[i] != tb[i] {
			return false
		}
	}
	return true
}

func indentOf(l string) int {
	n := 0
	for _, c := range l {
		if c == ' ' {
			n++
		} else if c == '\t' {
			n += 4
		} else {
			break
		}
	}
	return n
}

// enclosing walks up from line `at` through lines of strictly smaller indentation and
// returns the (at most two) nearest ones whose first word belongs to the vocabulary,
// outermost first.
func enclosing(lines []string, at int, voc map[string]bool) string {
	return enclosingN(lines, at, voc, 2)
}

func enclosingN(lines []string, at int, voc map[string]bool, depth int) string {
	if at >= len(lines) {
		at = len(lines) - 1
	}
	if at < 0 {
		return ""
	}
	ind := indentOf(lines[at])
	if strings.HasPrefix(strings.TrimSpace(lines[at]), "- ") {
		ind++ // a YAML list item belongs to the key written at the same indentation
	}
	var path []string
	for i := at - 1; i >= 0 && len(path) < depth; i-- {
		l := lines[i]
		if strings.TrimSpace(l) == "" {
			continue
		}
		if strings.HasPrefix(l, "=== file ") {
			break
		}
		if in := indentOf(l); in < ind {
			ind = in
			if m := reFirstW.FindStringSubmatch(strings.TrimSpace(l)); m != nil && voc[m[1]] {
				path = append([]string{m[1]}, path...)
			}
			if strings.HasPrefix(strings.TrimSpace(l), "- ") {
				ind++
			}
		}
	}
	return strings.Join(path, ".")
}
