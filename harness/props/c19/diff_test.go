package c19

import (
	"os"
	"strings"
	"testing"
)

// TestClassifyFiles is a development aid: C19_A and C19_B name two output files, C19_FAM the family.
func TestClassifyFiles(t *testing.T) {
	a, b := os.Getenv("C19_A"), os.Getenv("C19_B")
	if a == "" {
		t.Skip("no files given")
	}
	x, _ := os.ReadFile(a)
	y, _ := os.ReadFile(b)
	t.Log(classify(os.Getenv("C19_FAM"), outcome{out: x}, outcome{out: y}))
}

func TestClassifyKnownShapes(t *testing.T) {
	cases := []struct{ fam, a, b, want string }{
		{famOAS, "components:\n  schemas:\n    T:\n      required:\n      - a\n      - b\n      - c\n", "components:\n  schemas:\n    T:\n      required:\n      - b\n      - c\n      - a\n", "order-in:required"},
		{famOAS, "paths:\n  /x:\n    get:\n      parameters:\n      - in: query\n        name: a\n        schema:\n          items:\n            type: string\n          type: array\n      - in: header\n        name: b\n", "paths:\n  /x:\n    get:\n      parameters:\n      - in: header\n        name: b\n      - in: query\n        name: a\n        schema:\n          items:\n            type: string\n          type: array\n", "order-in:parameters"},
		{famPuml, "@startuml\nbox \"a\" #LightBlue\n\tparticipant _1\nend box\nbox \"b\" #LightBlue\n\tparticipant _2\nend box\n", "@startuml\nbox \"b\" #LightBlue\n\tparticipant _2\nend box\nbox \"a\" #LightBlue\n\tparticipant _1\nend box\n", "line:box"},
		{famPuml, "_1 -[#black]> _2 : x, y → p, q needsInt\n", "_1 -[#black]> _2 : x, y → q, p needsInt\n", "within-line:arrow-with-label<permuted>"},
		{famMermaid, "graph TD\n A[\"A\"] --> B[\"B\"]\n B[\"B\"] --> A[\"A\"]\n", "graph TD\n B[\"B\"] --> A[\"A\"]\n A[\"A\"] --> B[\"B\"]\n", "line:graph>arrow"},
		{famSysl, "App:\n    !type T:\n        f <: string [min=\"1\", max=\"2\", regex=\"x\"]\n", "App:\n    !type T:\n        f <: string [regex=\"x\", min=\"1\", max=\"2\"]\n", "within-line:type>_ <: _ [<permuted>"},
	}
	for _, c := range cases {
		got := strings.Join(classify(c.fam, outcome{out: []byte(c.a)}, outcome{out: []byte(c.b)}), " ; ")
		if got != c.want {
			t.Errorf("%s: got %q want %q", c.fam, got, c.want)
		}
	}
}

func TestClassifyRelationRows(t *testing.T) {
	a := "relation App (2 rows)\n  {\"a\":1}\n  {\"a\":2}\nrelation Ep (3 rows)\n  {\"e\":1}\n  {\"e\":2}\n  {\"e\":3}\n"
	b := "relation App (2 rows)\n  {\"a\":1}\n  {\"a\":2}\nrelation Ep (3 rows)\n  {\"e\":2}\n  {\"e\":1}\n  {\"e\":3}\n"
	got := strings.Join(classify(famJSON, outcome{out: []byte(a)}, outcome{out: []byte(b)}), " ; ")
	if got != "order-in:Ep" {
		t.Errorf("got %q", got)
	}
}
