package c19

// Foreign documents for the importers: generated documents in which every collection has
// at least three members (properties, string/array constraints, parameters, responses,
// columns, tables) plus the repository's own importer test inputs.

import (
	"fmt"
	"os"
	"path/filepath"
	"sort"
	"strings"

	"verif/fw"
)

type foreignDoc struct {
	label  string
	file   string // file name the importer sees (decides the format when formatName is empty)
	format string // generator option: openapi2 openapi3 xsd sql-postgres sql-spanner sql-mysql avro protobuf
	fmtArg string // --format argument ("" = autodetect)
	text   string
	slow   bool
	wide   bool
}

func (d *foreignDoc) inv() *inv {
	abs := "/c19/" + d.file
	v := &inv{gen: "import", opt: d.format, family: famSysl, arg: d.label, slow: d.slow, wide: d.wide, run: importDoc(abs, d.fmtArg, d.text)}
	v.cli = []string{"import", "-i", "DOCFILE", "-a", "ImpApp", "-p", "com.verif.c19", "-o", "out/imported.sysl"}
	if d.fmtArg != "" {
		v.cli = append(v.cli, "-f", d.fmtArg)
	}
	return v
}

func genOpenAPI2(r *fw.Rand, i int) *foreignDoc {
	tw := distinct(r, typeWords, 4)
	var b strings.Builder
	b.WriteString("swagger: \"2.0\"\ninfo:\n  title: Gen API\n  version: \"1.0\"\n  description: generated\nhost: example.com\nbasePath: /v1\nschemes:\n  - https\nconsumes:\n  - application/json\nproduces:\n  - application/json\npaths:\n")
	for k, t := range tw[:3] {
		fmt.Fprintf(&b, "  /%s:\n    get:\n      summary: list %s\n      parameters:\n", strings.ToLower(t), t)
		for q := 0; q < 3; q++ {
			fmt.Fprintf(&b, "        - name: q%d\n          in: query\n          type: %s\n          required: %v\n", q, []string{"string", "integer", "boolean"}[q], q == 0)
		}
		fmt.Fprintf(&b, "        - name: X-Trace\n          in: header\n          type: string\n          required: true\n        - name: X-Span\n          in: header\n          type: string\n        - name: X-Tenant\n          in: header\n          type: string\n")
		fmt.Fprintf(&b, "      responses:\n        200:\n          description: ok\n          schema:\n            type: array\n            items:\n              $ref: '#/definitions/%s'\n        400:\n          description: bad\n          schema:\n            $ref: '#/definitions/Problem'\n        404:\n          description: missing\n          schema:\n            $ref: '#/definitions/Problem'\n        500:\n          description: broken\n          schema:\n            $ref: '#/definitions/Problem'\n", t)
		fmt.Fprintf(&b, "    post:\n      parameters:\n        - name: body\n          in: body\n          required: true\n          schema:\n            $ref: '#/definitions/%s'\n      responses:\n        201:\n          description: created\n          schema:\n            $ref: '#/definitions/%s'\n        default:\n          description: error\n          schema:\n            $ref: '#/definitions/Problem'\n", t, t)
		fmt.Fprintf(&b, "  /%s/{id}:\n    parameters:\n      - name: id\n        in: path\n        type: integer\n        required: true\n    get:\n      responses:\n        200:\n          description: ok\n          schema:\n            $ref: '#/definitions/%s'\n    delete:\n      responses:\n        204:\n          description: gone\n    put:\n      parameters:\n        - name: body\n          in: body\n          schema:\n            $ref: '#/definitions/%s'\n      responses:\n        200:\n          description: ok\n", strings.ToLower(t), t, tw[(k+1)%3])
	}
	b.WriteString("definitions:\n")
	for k, t := range tw {
		fws := distinct(r, fieldWords, 6)
		fmt.Fprintf(&b, "  %s:\n    type: object\n    required:\n      - %s\n      - %s\n      - %s\n    properties:\n", t, fws[0], fws[1], fws[2])
		fmt.Fprintf(&b, "      %s:\n        type: string\n        minLength: %d\n        maxLength: %d\n        pattern: '^[a-z]{%d}$'\n", fws[0], k+1, k+20, k+2)
		fmt.Fprintf(&b, "      %s:\n        type: string\n        minLength: 2\n        maxLength: 9\n        pattern: '^x+$'\n        enum:\n          - aa\n          - bb\n          - cc\n", fws[1])
		fmt.Fprintf(&b, "      %s:\n        type: array\n        minItems: 1\n        maxItems: %d\n        items:\n          type: string\n          minLength: 1\n          maxLength: 5\n", fws[2], k+3)
		fmt.Fprintf(&b, "      %s:\n        type: integer\n        format: int64\n      %s:\n        type: number\n      %s:\n        $ref: '#/definitions/%s'\n", fws[3], fws[4], fws[5], tw[(k+1)%len(tw)])
	}
	// top-level array definitions with both bounds (the importer turns the bounds into attributes)
	for k, t := range tw[:3] {
		fmt.Fprintf(&b, "  %sList:\n    type: array\n    minItems: %d\n    maxItems: %d\n    items:\n      $ref: '#/definitions/%s'\n", t, k+1, k+10, t)
	}
	b.WriteString("  Codes:\n    type: array\n    minItems: 2\n    maxItems: 7\n    items:\n      type: string\n")
	b.WriteString("  Problem:\n    type: object\n    properties:\n      code:\n        type: integer\n      message:\n        type: string\n        minLength: 1\n        maxLength: 200\n        pattern: '.*'\n      detail:\n        type: array\n        minItems: 0\n        maxItems: 10\n        items:\n          type: string\n")
	return &foreignDoc{label: fmt.Sprintf("generated-openapi2#%d", i), file: "api.yaml", format: "openapi2", text: b.String(), wide: true}
}

func genOpenAPI3(r *fw.Rand, i int) *foreignDoc {
	tw := distinct(r, typeWords, 4)
	var b strings.Builder
	b.WriteString("openapi: \"3.0.0\"\ninfo:\n  title: Gen API\n  version: \"1.0\"\n  description: generated\nservers:\n  - url: https://example.com/v1\npaths:\n")
	for k, t := range tw[:3] {
		fmt.Fprintf(&b, "  /%s:\n    get:\n      summary: list %s\n      parameters:\n", strings.ToLower(t), t)
		for q := 0; q < 3; q++ {
			fmt.Fprintf(&b, "        - name: q%d\n          in: query\n          required: %v\n          schema:\n            type: %s\n", q, q == 0, []string{"string", "integer", "boolean"}[q])
		}
		b.WriteString("        - name: X-Trace\n          in: header\n          required: true\n          schema:\n            type: string\n        - name: X-Span\n          in: header\n          schema:\n            type: string\n        - name: sid\n          in: cookie\n          schema:\n            type: string\n")
		fmt.Fprintf(&b, "      responses:\n        '200':\n          description: ok\n          content:\n            application/json:\n              schema:\n                type: array\n                items:\n                  $ref: '#/components/schemas/%s'\n        '400':\n          description: bad\n          content:\n            application/json:\n              schema:\n                $ref: '#/components/schemas/Problem'\n        '404':\n          description: missing\n          content:\n            application/json:\n              schema:\n                $ref: '#/components/schemas/Problem'\n        '500':\n          description: broken\n          content:\n            application/json:\n              schema:\n                $ref: '#/components/schemas/Problem'\n", t)
		fmt.Fprintf(&b, "    post:\n      requestBody:\n        required: true\n        content:\n          application/json:\n            schema:\n              $ref: '#/components/schemas/%s'\n          application/xml:\n            schema:\n              $ref: '#/components/schemas/%s'\n      responses:\n        '201':\n          description: created\n          content:\n            application/json:\n              schema:\n                $ref: '#/components/schemas/%s'\n        default:\n          description: error\n          content:\n            application/json:\n              schema:\n                $ref: '#/components/schemas/Problem'\n", t, t, t)
		fmt.Fprintf(&b, "  /%s/{id}:\n    parameters:\n      - name: id\n        in: path\n        required: true\n        schema:\n          type: integer\n    get:\n      responses:\n        '200':\n          description: ok\n          content:\n            application/json:\n              schema:\n                $ref: '#/components/schemas/%s'\n    delete:\n      responses:\n        '204':\n          description: gone\n", strings.ToLower(t), tw[(k+1)%3])
	}
	b.WriteString("components:\n  schemas:\n")
	for k, t := range tw {
		fws := distinct(r, fieldWords, 6)
		fmt.Fprintf(&b, "    %s:\n      type: object\n      required:\n        - %s\n        - %s\n        - %s\n      properties:\n", t, fws[0], fws[1], fws[2])
		fmt.Fprintf(&b, "        %s:\n          type: string\n          minLength: %d\n          maxLength: %d\n          pattern: '^[a-z]{%d}$'\n", fws[0], k+1, k+20, k+2)
		fmt.Fprintf(&b, "        %s:\n          type: string\n          enum:\n            - aa\n            - bb\n            - cc\n", fws[1])
		fmt.Fprintf(&b, "        %s:\n          type: array\n          minItems: 1\n          maxItems: %d\n          items:\n            type: string\n", fws[2], k+3)
		fmt.Fprintf(&b, "        %s:\n          type: integer\n          format: int64\n        %s:\n          type: number\n        %s:\n          $ref: '#/components/schemas/%s'\n", fws[3], fws[4], fws[5], tw[(k+1)%len(tw)])
	}
	b.WriteString("    Problem:\n      type: object\n      properties:\n        code:\n          type: integer\n        message:\n          type: string\n          minLength: 1\n          maxLength: 200\n        detail:\n          type: array\n          minItems: 0\n          maxItems: 10\n          items:\n            type: string\n")
	return &foreignDoc{label: fmt.Sprintf("generated-openapi3#%d", i), file: "api3.yaml", format: "openapi3", text: b.String(), slow: true, wide: true}
}

func genXSD(r *fw.Rand, i int) *foreignDoc {
	tw := distinct(r, typeWords, 5)
	var b strings.Builder
	b.WriteString("<?xml version=\"1.0\" encoding=\"UTF-8\"?>\n<xs:schema xmlns:xs=\"http://www.w3.org/2001/XMLSchema\" elementFormDefault=\"qualified\">\n")
	fmt.Fprintf(&b, "  <xs:element name=\"Root\">\n    <xs:complexType>\n      <xs:sequence>\n")
	for _, t := range tw {
		fmt.Fprintf(&b, "        <xs:element name=\"%s\" type=\"%s\" minOccurs=\"0\" maxOccurs=\"unbounded\"/>\n", strings.ToLower(t), t)
	}
	b.WriteString("      </xs:sequence>\n    </xs:complexType>\n  </xs:element>\n")
	for k, t := range tw {
		fws := distinct(r, fieldWords, 5)
		fmt.Fprintf(&b, "  <xs:complexType name=\"%s\">\n    <xs:sequence>\n", t)
		for j, f := range fws[:4] {
			ty := []string{"xs:string", "xs:integer", "xs:boolean", "xs:date"}[j]
			if j == 3 && k > 0 {
				ty = tw[k-1]
			}
			fmt.Fprintf(&b, "      <xs:element name=\"%s\" type=\"%s\" minOccurs=\"%d\"/>\n", f, ty, j%2)
		}
		b.WriteString("    </xs:sequence>\n")
		fmt.Fprintf(&b, "    <xs:attribute name=\"id\" type=\"xs:string\" use=\"required\"/>\n    <xs:attribute name=\"rev\" type=\"xs:integer\"/>\n    <xs:attribute name=\"%s\" type=\"xs:string\"/>\n", fws[4])
		b.WriteString("  </xs:complexType>\n")
	}
	b.WriteString("  <xs:simpleType name=\"Colour\">\n    <xs:restriction base=\"xs:string\">\n      <xs:enumeration value=\"red\"/>\n      <xs:enumeration value=\"green\"/>\n      <xs:enumeration value=\"blue\"/>\n    </xs:restriction>\n  </xs:simpleType>\n</xs:schema>\n")
	return &foreignDoc{label: fmt.Sprintf("generated-xsd#%d", i), file: "schema.xsd", format: "xsd", text: b.String(), wide: true}
}

func genSQL(r *fw.Rand, i int, dialect string) *foreignDoc {
	tw := distinct(r, typeWords, 4)
	var b strings.Builder
	for k, t := range tw {
		fws := distinct(r, fieldWords, 4)
		switch dialect {
		case "spanner":
			fmt.Fprintf(&b, "CREATE TABLE %s (\n  %sId INT64 NOT NULL,\n  %s STRING(30) NOT NULL,\n  %s INT64,\n  %s DATE,\n  %s BOOL NOT NULL,\n", t, t, fws[0], fws[1], fws[2], fws[3])
			if k > 0 {
				fmt.Fprintf(&b, "  %sId INT64 NOT NULL,\n  CONSTRAINT fk_%s FOREIGN KEY (%sId) REFERENCES %s (%sId),\n", tw[k-1], t, tw[k-1], tw[k-1], tw[k-1])
			}
			fmt.Fprintf(&b, ") PRIMARY KEY (%sId);\n\nCREATE INDEX %sBy%s ON %s (%s);\n\n", t, t, fws[0], t, fws[0])
		default:
			fmt.Fprintf(&b, "CREATE TABLE %s (\n  %s_id integer NOT NULL,\n  %s varchar(30) NOT NULL,\n  %s integer,\n  %s date,\n  %s boolean NOT NULL,\n", strings.ToLower(t), strings.ToLower(t), fws[0], fws[1], fws[2], fws[3])
			if k > 0 {
				p := strings.ToLower(tw[k-1])
				fmt.Fprintf(&b, "  %s_id integer NOT NULL,\n  FOREIGN KEY (%s_id) REFERENCES %s (%s_id),\n", p, p, p, p)
			}
			fmt.Fprintf(&b, "  PRIMARY KEY (%s_id)\n);\n\n", strings.ToLower(t))
		}
	}
	fa := map[string]string{"postgres": "postgres", "spanner": "spannerSQL", "mysql": "mysql"}[dialect]
	return &foreignDoc{label: fmt.Sprintf("generated-sql-%s#%d", dialect, i), file: "schema.sql", format: "sql-" + dialect, fmtArg: fa, text: b.String(), slow: true, wide: true}
}

func genAvro(r *fw.Rand, i int) *foreignDoc {
	tw := distinct(r, typeWords, 3)
	fws := distinct(r, fieldWords, 6)
	var b strings.Builder
	fmt.Fprintf(&b, "{\n \"namespace\": \"com.verif\",\n \"name\": %q,\n \"type\": \"record\",\n \"doc\": \"generated\",\n \"fields\": [\n", tw[0])
	fmt.Fprintf(&b, "  {\"name\": %q, \"type\": \"long\"},\n  {\"name\": %q, \"type\": \"string\", \"doc\": \"a string\"},\n  {\"name\": %q, \"type\": [\"null\", \"int\"]},\n", fws[0], fws[1], fws[2])
	fmt.Fprintf(&b, "  {\"name\": %q, \"type\": {\"type\": \"enum\", \"name\": %q, \"symbols\": [\"A\", \"B\", \"C\", \"D\"]}},\n", fws[3], tw[1])
	fmt.Fprintf(&b, "  {\"name\": %q, \"type\": {\"type\": \"record\", \"name\": %q, \"fields\": [{\"name\": \"x\", \"type\": \"int\"}, {\"name\": \"y\", \"type\": \"string\"}, {\"name\": \"z\", \"type\": \"boolean\"}]}},\n", fws[4], tw[2])
	fmt.Fprintf(&b, "  {\"name\": %q, \"type\": {\"type\": \"array\", \"items\": \"string\"}}\n ]\n}\n", fws[5])
	return &foreignDoc{label: fmt.Sprintf("generated-avro#%d", i), file: "schema.avsc", format: "avro", text: b.String(), slow: true, wide: true}
}

// repoDocs lists the repository's importer test inputs per format (sorted).
func repoDocs(repo string) map[string][]string {
	out := map[string][]string{}
	glob := func(format, pattern string) {
		fs, _ := filepath.Glob(filepath.Join(repo, pattern))
		sort.Strings(fs)
		out[format] = append(out[format], fs...)
	}
	glob("openapi2", "pkg/importer/tests/openapi2/*.yaml")
	glob("openapi2", "pkg/importer/tests/openapi2/*.json")
	glob("openapi3", "pkg/importer/tests/openapi3/*.yaml")
	glob("xsd", "pkg/importer/tests/xsd/*.xsd")
	glob("sql-postgres", "pkg/importer/sql/tests/postgresql/*.sql")
	glob("sql-spanner", "pkg/importer/sql/tests/spanner/*.sql")
	glob("sql-mysql", "pkg/importer/sql/tests/mysql/*.sql")
	glob("avro", "pkg/importer/avro/tests/*.avsc")
	return out
}

func repoDoc(repo, format, path string) *foreignDoc {
	b, err := os.ReadFile(path)
	if err != nil {
		return nil
	}
	d := &foreignDoc{label: "repo:" + relPath(repo, path), file: filepath.Base(path), format: format, text: string(b)}
	switch format {
	case "sql-postgres":
		d.fmtArg, d.slow = "postgres", true
	case "sql-spanner":
		d.fmtArg, d.slow = "spannerSQL", true
	case "sql-mysql":
		d.fmtArg, d.slow = "mysql", true
	case "openapi3", "avro":
		d.slow = true
	}
	// wide: measured crudely from the document (>= 3 properties/columns blocks)
	d.wide = strings.Count(d.text, "\n") >= 40
	return d
}
