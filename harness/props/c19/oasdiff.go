package c19

// Structural comparison of two OpenAPI / Swagger documents (YAML or JSON), used only to
// NAME a difference that the byte comparison has already found.

import (
	"encoding/json"
	"fmt"
	"sort"
	"strings"

	yaml3 "gopkg.in/yaml.v3"
)

// splitContainer splits the canonical multi-file container (joinFiles / the CLI wrapper)
// into its parts; a plain document is one part named "".
func splitContainer(b []byte) map[string]string {
	out := map[string]string{}
	name := ""
	var cur []string
	seen := false
	for _, l := range strings.Split(string(b), "\n") {
		if strings.HasPrefix(l, "=== ") && strings.HasSuffix(l, " ===") {
			if seen || len(cur) > 0 {
				out[name] = strings.Join(cur, "\n")
			}
			name, cur, seen = l, nil, true
			continue
		}
		cur = append(cur, l)
	}
	out[name] = strings.Join(cur, "\n")
	return out
}

func parseDoc(s string) (any, bool) {
	t := strings.TrimSpace(s)
	if t == "" {
		return nil, true
	}
	var v any
	if strings.HasPrefix(t, "{") || strings.HasPrefix(t, "[") {
		if json.Unmarshal([]byte(t), &v) != nil {
			return nil, false
		}
		return v, true
	}
	var y any
	if yaml3.Unmarshal([]byte(t), &y) != nil {
		return nil, false
	}
	return normYAML(y), true
}

func normYAML(v any) any {
	switch x := v.(type) {
	case map[string]any:
		out := map[string]any{}
		for k, e := range x {
			out[k] = normYAML(e)
		}
		return out
	case map[any]any:
		out := map[string]any{}
		for k, e := range x {
			out[fmt.Sprint(k)] = normYAML(e)
		}
		return out
	case []any:
		out := make([]any, len(x))
		for i, e := range x {
			out[i] = normYAML(e)
		}
		return out
	}
	return v
}

// deepCanon renders a value with map keys sorted and every list sorted by the rendering of
// its elements: two values that differ only in list order (at any depth) render equal.
func deepCanon(v any) string {
	switch x := v.(type) {
	case map[string]any:
		ks := make([]string, 0, len(x))
		for k := range x {
			ks = append(ks, k)
		}
		sort.Strings(ks)
		var b strings.Builder
		b.WriteByte('{')
		for _, k := range ks {
			fmt.Fprintf(&b, "%q:%s,", k, deepCanon(x[k]))
		}
		b.WriteByte('}')
		return b.String()
	case []any:
		es := make([]string, len(x))
		for i, e := range x {
			es[i] = deepCanon(e)
		}
		sort.Strings(es)
		return "[" + strings.Join(es, ",") + "]"
	}
	b, _ := json.Marshal(v)
	return string(b)
}

func oasRegion(path []string) string {
	voc := vocab[famOAS]
	for i := len(path) - 1; i >= 0; i-- {
		if voc[path[i]] {
			return path[i]
		}
	}
	if len(path) > 0 {
		return "top-level:" + path[0]
	}
	return "document"
}

func semDiff(path []string, a, b any, out map[string]bool) {
	if len(out) >= 8 {
		return
	}
	switch x := a.(type) {
	case map[string]any:
		y, ok := b.(map[string]any)
		if !ok {
			out["content-in:"+oasRegion(path)] = true
			return
		}
		ks := map[string]bool{}
		for k := range x {
			ks[k] = true
		}
		for k := range y {
			ks[k] = true
		}
		keys := make([]string, 0, len(ks))
		for k := range ks {
			keys = append(keys, k)
		}
		sort.Strings(keys)
		for _, k := range keys {
			xv, okx := x[k]
			yv, oky := y[k]
			if !okx || !oky {
				out["content-in:"+oasRegion(append(path, k))] = true
				continue
			}
			semDiff(append(path, k), xv, yv, out)
		}
	case []any:
		y, ok := b.([]any)
		if !ok || len(x) != len(y) {
			out["content-in:"+oasRegion(path)] = true
			return
		}
		cx, cy := make([]string, len(x)), make([]string, len(y))
		for i := range x {
			cx[i], cy[i] = deepCanon(x[i]), deepCanon(y[i])
		}
		sx, sy := append([]string(nil), cx...), append([]string(nil), cy...)
		sort.Strings(sx)
		sort.Strings(sy)
		same := true
		for i := range sx {
			if sx[i] != sy[i] {
				same = false
			}
		}
		if !same {
			// different elements: compare position by position
			for i := range x {
				semDiff(path, x[i], y[i], out)
			}
			return
		}
		inOrder := true
		for i := range cx {
			if cx[i] != cy[i] {
				inOrder = false
			}
		}
		if !inOrder {
			out["order-in:"+oasRegion(path)] = true
		}
		// pair equal-up-to-order elements and look inside them
		used := make([]bool, len(y))
		for i := range x {
			for j := range y {
				if !used[j] && cy[j] == cx[i] {
					used[j] = true
					semDiff(path, x[i], y[j], out)
					break
				}
			}
		}
	default:
		if fmt.Sprint(a) != fmt.Sprint(b) {
			out["content-in:"+oasRegion(path)] = true
		}
	}
}

// oasClasses returns nil when the documents cannot be parsed (the caller falls back to the
// line-based class).
func oasClasses(a, b []byte) []string {
	pa, pb := splitContainer(a), splitContainer(b)
	out := map[string]bool{}
	names := map[string]bool{}
	for n := range pa {
		names[n] = true
	}
	for n := range pb {
		names[n] = true
	}
	for n := range names {
		sa, oka := pa[n]
		sb, okb := pb[n]
		if !oka || !okb {
			out["file-set"] = true
			continue
		}
		if sa == sb {
			continue
		}
		if strings.HasPrefix(n, "=== stdout") {
			out["stdout"] = true
			continue
		}
		da, ok1 := parseDoc(sa)
		db, ok2 := parseDoc(sb)
		if !ok1 || !ok2 {
			return nil
		}
		semDiff(nil, da, db, out)
	}
	cs := make([]string, 0, len(out))
	for c := range out {
		cs = append(cs, c)
	}
	sort.Strings(cs)
	return cs
}
