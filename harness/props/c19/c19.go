// Package c19: every generator is deterministic — the same model and options give
// byte-identical output, within one process and across processes.
//
// Runtime monitoring by repetition. Each case compiles one model (repository file,
// generated, or targeted so that every map a generator walks has >= 3 entries) with the real
// parser, derives from it the list of generator invocations that apply (gens.go, plan.go),
// runs each invocation `reps` times in this process on proto-equal copies of the model and
// compares the produced bytes; a sample of the equivalent `sysl` command lines is run in
// `procs` separate processes and their outputs are compared the same way. A difference is
// classified by diff.go (what kind of line moved or changed) into a narrow signature
// `nondet|<generator>|<option set>|<class>`.
package c19

import (
	"bytes"
	"fmt"
	"os"
	"path/filepath"
	"sort"
	"strings"
	"time"

	"github.com/anz-bank/sysl/pkg/sysl"
	"google.golang.org/protobuf/proto"

	"verif/corpus"
	"verif/fw"
)

type prop struct{}

func init() { fw.Register(prop{}) }

func (prop) ID() string { return "C19" }

const (
	reps  = 12 // in-process repetitions per generator invocation
	procs = 3  // separate processes per sampled command line
)

// Case plan (counts, never time budgets).
//
//	quick:    12 corpus + 8 targeted + 20 generated models (all fast generators x 12,
//	          6 command lines x 3 processes each), 14 foreign-document cases (fast
//	          importers), 20 slow cases (one arr.ai based generator x 12, or its command
//	          line x 3 processes)
//	thorough: every corpus file + 100 targeted + ~1000 generated, 150 foreign, 120 slow
type planT struct{ corpus, targeted, generated, foreign, slow int }

func planFor(tier string) planT {
	if tier == "thorough" {
		return planT{corpus: len(corpus.Files()), targeted: 100, generated: 1500 - 100 - len(corpus.Files()), foreign: 150, slow: 120}
	}
	return planT{corpus: 12, targeted: 8, generated: 20, foreign: 14, slow: len(slowPlan(tier))}
}

func (p planT) models() int { return p.corpus + p.targeted + p.generated }
func (p planT) total() int  { return p.models() + p.foreign + p.slow }

func (prop) Cases(tier string) int { return planFor(tier).total() }

func (prop) Info() fw.Info {
	return fw.Info{
		Level: "exploration",
		Rule: "model cases: case i = one model — a repository .sysl file (quick: a fixed list of the files the diagram/export/script commands are tested with, rotated by seed; thorough: every file that compiles), " +
			"a targeted model (call graph of 3-4 clusters x 3-4 applications x 3-4 endpoints with group-by attributes, pattern tags on endpoints and calls, integration and sequence projects; or data model of 3 applications x 4 chained tables + 4 tuples with >= 3 required fields, enum, aliases, union, REST endpoints with >= 3 parameters, data project, plus a previous version for the delta script) " +
			"or a model of the shared generator with larger sizes — compiled by the real parser; every applicable generator/option set (pb json/textpb/binary, indented/compact/split; sd PlantUML plain/groupby/blackbox/multi-start/project and Mermaid; ints plain/clustered/EPA and 4 Mermaid forms; datamodel PlantUML direct/project x %(epname)/fixed and 2 Mermaid forms; export swagger/openapi3 x yaml/json; generate-db-scripts and -delta) is run 12 times in-process on proto-equal clones (clone k is cloned from clone k-1) and 6 sampled command lines are run in 3 processes each; " +
			"foreign cases: one OpenAPI 2 / XSD document (generated with >= 3 properties, constraints, parameters, responses; or a repository importer test input) imported 12 times; slow cases: one arr.ai based generator (spanner / proto export, OpenAPI 3 / SQL / Avro import, relmod.Normalize rows as returned and sorted, transform input as arr.ai text) 12 times on one model or document. " +
			"All outputs of one invocation must be byte-identical (multi-file outputs are compared as the set of files, in sorted name order; an error or panic is an outcome and must repeat too). " +
			"Non-trivial: at least one invocation whose walked maps have >= 3 entries (measured on the compiled module / document) produced output; distinct by hash of model text and invocation list.",
		Assumptions: []string{
			"`same model` = proto.Equal modules: repetition k runs on a proto.Clone of repetition k-1's input (a generator that changes its input is detected by proto.Equal against a pristine copy and then gets a fresh clone every time); the clones differ only in the internal layout of their Go maps, exactly as two parses or two decodes of the same file do",
			"Go <= 1.23 map iteration starts at a random bucket and a random in-bucket offset; for a map of n <= 8 entries only n rotations of one slot order occur, and a 2-entry map iterates in the minority order with probability 1/8. Chained cloning re-inserts the entries in the previous iteration order, so over 12 repetitions an order dependence over >= 2 entries stays hidden with probability < 0.06 per invocation for n = 2 and < 0.001 for n >= 3; with 3 processes the cross-process half alone would miss a 3-entry dependence 42% of the time — it is there to catch per-process state (hash seeds, time, temp names), not map order",
			"the protobuf text/JSON encoders add build-dependent whitespace (detrand); it is a function of the binary, so repetitions within one binary are comparable, in-process output is never compared with CLI output",
			"stderr of the CLI (logrus timestamps) is not compared; exit status, stdout and every file written below the output directory are; a command whose `sysl` binary changed on disk between its first and last process (a rebuild by a concurrent job) is not judged (counter process_comparisons_discarded_binary_changed)",
			"Race is false (measured in this sandbox with the -race worker: a model case 67-97 s instead of 18-29 s, a spanner-export case 202 s instead of 43 s; the quick tier would take > 10 min instead of 2.5-3.5): shared state between repetitions is still observed through its effect on the output (repetition k > 0 would differ from repetition 0), and the race detector already watches the compiler under C05/C06/C07",
			"Mermaid: only the model-dependent half (pkg/mermaid/*/Generate*) is run; the SVG step needs a headless browser. GenerateMultipleAppIntegrationDiagram and GenerateEndpointAnalysisDiagram are library entry points without a command",
		},
		CaseTimeout: 900,
		SetFloors:   map[string]int{"generators": 30},
		CountFloors: map[string]int{"repetitions": 10000, "outputs_compared": 9000, "bytes_compared": 100 << 20, "process_runs": 400,
			"wide_models_pb": 15, "wide_models_sd": 10, "wide_models_ints": 10, "wide_models_datamodel": 15, "wide_models_export": 15, "wide_models_db-scripts": 3, "wide_models_relmod": 2, "wide_docs_import": 8},
	}
}

// ---------------------------------------------------------------------------

type outcome struct {
	out    []byte
	err    string // "" | "ERROR: ..." | "PANIC: ..."
	stderr string // CLI only, never compared
}

func (o outcome) bytes() []byte {
	if o.err != "" {
		return []byte(o.err + "\n")
	}
	return o.out
}

func runOnce(v *inv, m *sysl.Module) (o outcome) {
	var err error
	pi := fw.Guard(func() { o.out, err = v.run(m) })
	switch {
	case pi != nil:
		o.out, o.err = nil, "PANIC: "+pi.Value+" at "+fw.InnermostSyslFrame(pi.Stack)
	case err != nil:
		o.out, o.err = nil, "ERROR: "+err.Error()
	}
	return
}

type runner struct {
	res      *fw.Result
	label    string
	files    map[string]string // replay artefacts common to the case
	sigs     map[string]bool
	pristine *sysl.Module
	clones   []*sysl.Module
	timing   map[string]time.Duration
	produced bool
	nproc    int
}

func (rn *runner) prepare(m *sysl.Module) {
	rn.pristine = m
	rn.clones = make([]*sysl.Module, reps)
	prev := m
	for k := 0; k < reps; k++ {
		rn.clones[k] = proto.Clone(prev).(*sysl.Module)
		prev = rn.clones[k]
	}
}

func (rn *runner) violate(v *inv, how, class, msg string, extra map[string]string) {
	sig := "nondet|" + v.gen + "|" + v.opt + "|" + class
	if how != "" {
		sig = "nondet|" + v.gen + "|" + v.opt + "|" + class
	}
	if rn.sigs[sig] || len(rn.sigs) >= 40 {
		return
	}
	rn.sigs[sig] = true
	f := map[string]string{"label.txt": rn.label + "\n" + v.key() + " " + v.arg + "\n"}
	for k, x := range rn.files {
		f[k] = x
	}
	for k, x := range extra {
		f[k] = clipStr(x, 400<<10)
	}
	rn.res.Violate(sig, msg, f)
}

// repeat runs one invocation reps times and compares.
func (rn *runner) repeat(v *inv) {
	res := rn.res
	res.Add("generators", v.key())
	t0 := time.Now()
	outs := make([]outcome, reps)
	mutates := false
	for k := 0; k < reps; k++ {
		var m *sysl.Module
		if rn.pristine != nil {
			m = rn.clones[k]
			if mutates {
				m = proto.Clone(rn.pristine).(*sysl.Module)
			}
		}
		outs[k] = runOnce(v, m)
		res.Count("repetitions", 1)
		if rn.pristine != nil && !mutates && !proto.Equal(m, rn.pristine) {
			// the generator changed its input: give the shared clone back its content and hand
			// this generator a fresh clone for each further repetition
			mutates = true
			res.Add("generators_changing_their_input", v.key())
			rn.clones[k] = proto.Clone(rn.pristine).(*sysl.Module)
		}
	}
	if rn.timing != nil {
		rn.timing[v.key()+" "+v.arg] += time.Since(t0)
	}
	a := outs[0]
	if a.err == "" && len(a.out) > 0 {
		if v.wide {
			rn.produced = true
			if v.gen == "import" {
				res.Count("wide_docs_import", 1)
			}
		}
	} else if a.err != "" {
		res.Count("invocations_ending_in_error_or_panic", 1)
	}
	classes := map[string]int{} // class -> first repetition showing it
	for k := 1; k < reps; k++ {
		b := outs[k]
		res.Count("outputs_compared", 1)
		res.Count("bytes_compared", len(a.bytes())+len(b.bytes()))
		if a.err == b.err && bytes.Equal(a.out, b.out) {
			continue
		}
		res.Count("outputs_differing", 1)
		for _, c := range classify(v.family, a, b) {
			if _, ok := classes[c]; !ok {
				classes[c] = k
			}
		}
	}
	cs := make([]string, 0, len(classes))
	for c := range classes {
		cs = append(cs, c)
	}
	sort.Strings(cs)
	for _, c := range cs {
		k := classes[c]
		res.Add("differences_seen_in_process", v.key()+"|"+c)
		rn.violate(v, "", c,
			fmt.Sprintf("%s: %s %s: repetition %d of %d in one process differs from repetition 0 on a proto-equal model (%s); first difference: %s",
				rn.label, v.key(), v.arg, k, reps, c, firstDiffText(a.bytes(), outs[k].bytes())),
			map[string]string{"out.rep0": string(a.bytes()), fmt.Sprintf("out.rep%d", k): string(outs[k].bytes()), "diff.txt": diffText(a.bytes(), outs[k].bytes())})
	}
}

func clipStr(s string, n int) string {
	if len(s) > n {
		return s[:n] + "\n...[clipped]"
	}
	return s
}

// ---------------------------------------------------------------------------

func modelForCase(ctx *fw.Ctx, i int) (*model, string) {
	p := planFor(ctx.Tier)
	r := ctx.Rng()
	switch {
	case i < p.corpus:
		var rel string
		if ctx.Thorough() {
			rel = corpus.Files()[i]
		} else {
			fs := existingCorpusQuick()
			if len(fs) == 0 {
				return nil, "no corpus file of the quick list exists"
			}
			rel = fs[(i+int(ctx.Seed%1000)*5)%len(fs)]
		}
		md := corpusModel(rel)
		if md == nil {
			return nil, "corpus file does not compile on its own: " + rel
		}
		return md, ""
	case i < p.corpus+p.targeted:
		k := i - p.corpus
		if k%2 == 0 {
			return callGraphModel(r.Fork(), i), ""
		}
		return dataModel(r.Fork(), i), ""
	default:
		md, err := generatedModel(r.Fork(), i, ctx.Thorough())
		if err != nil {
			return nil, "generated model rejected by the parser (C02's subject): " + err.Error()
		}
		return md, ""
	}
}

func (prop) Run(ctx *fw.Ctx, i int) fw.Result {
	p := planFor(ctx.Tier)
	switch {
	case i < p.models():
		return runModelCase(ctx, i, nil)
	case i < p.models()+p.foreign:
		return runForeignCase(ctx, i, i-p.models(), nil)
	default:
		return runSlowCase(ctx, i, i-p.models()-p.foreign, nil)
	}
}

func modelText(md *model) string {
	if md.files != nil {
		ks := make([]string, 0, len(md.files))
		for k := range md.files {
			ks = append(ks, k)
		}
		sort.Strings(ks)
		var b strings.Builder
		for _, k := range ks {
			b.WriteString(k + "\n" + md.files[k] + "\n")
		}
		return b.String()
	}
	b, _ := os.ReadFile(filepath.Join(md.cliRoot, md.cliFile))
	return string(b)
}

func newRunner(res *fw.Result, md *model, timing map[string]time.Duration) *runner {
	rn := &runner{res: res, label: md.label, files: map[string]string{}, sigs: map[string]bool{}, timing: timing}
	if md.files != nil {
		for k, v := range md.files {
			rn.files["src/"+k] = v
		}
	} else {
		rn.files["src/"+md.cliFile] = modelText(md)
		rn.files["src/README.txt"] = "repository file; run from " + md.cliRoot + "\n"
	}
	return rn
}

func runModelCase(ctx *fw.Ctx, i int, timing map[string]time.Duration) fw.Result {
	var res fw.Result
	md, note := modelForCase(ctx, i)
	if md == nil {
		res.Verdict, res.Note = "skip", note
		return res
	}
	if md.mod == nil {
		res.Verdict, res.Note = "inconclusive", md.label
		return res
	}
	r := fw.NewRand(ctx.Seed^0xc19, uint64(i))
	rn := newRunner(&res, md, timing)
	rn.prepare(md.mod)
	invs := derive(md, r, quickCaps)
	var keys []string
	d := measure(md.mod)
	wideSeen := map[string]bool{}
	for _, v := range invs {
		if v.slow {
			continue
		}
		keys = append(keys, v.key()+" "+v.arg)
		rn.repeat(v)
		if v.wide && !wideSeen[v.gen] {
			wideSeen[v.gen] = true
			res.Count("wide_models_"+v.gen, 1)
		}
	}
	res.Count("models_"+md.kind, 1)
	// cross-process half
	var withCLI []*inv
	for _, v := range invs {
		if v.cli != nil && (!v.slow || ctx.Thorough() && r.Chance(1, 10)) {
			withCLI = append(withCLI, v)
		}
	}
	perm := r.Perm(len(withCLI))
	n := 6
	if len(perm) < n {
		n = len(perm)
	}
	for _, k := range perm[:n] {
		rn.processes(ctx, md, nil, withCLI[k])
	}
	res.Hash = fw.HashOf(md.label, modelText(md), strings.Join(keys, ";"))
	res.NonTrivial = rn.produced
	res.Sample = map[string]any{"case": i, "model": md.label, "invocations": len(keys), "dims": d, "first_invocations": head(keys, 8)}
	return res
}

func head(xs []string, n int) []string {
	if len(xs) > n {
		return xs[:n]
	}
	return xs
}

func generatedDoc(r *fw.Rand, format string, k int) *foreignDoc {
	switch format {
	case "openapi2":
		return genOpenAPI2(r, k)
	case "openapi3":
		return genOpenAPI3(r, k)
	case "xsd":
		return genXSD(r, k)
	case "sql-postgres":
		return genSQL(r, k, "postgres")
	case "sql-spanner":
		return genSQL(r, k, "spanner")
	case "sql-mysql":
		return genSQL(r, k, "mysql")
	case "avro":
		return genAvro(r, k)
	}
	return nil
}

// runForeignCase: fast importers. Case k: format by turn (OpenAPI 2, XSD); the first two
// of every four are generated documents, the others repository test inputs.
func runForeignCase(ctx *fw.Ctx, i, k int, timing map[string]time.Duration) fw.Result {
	r := ctx.Rng()
	format := []string{"openapi2", "xsd"}[k%2]
	var d *foreignDoc
	if (k/2)%2 == 0 {
		d = generatedDoc(r, format, i)
	} else if docs := repoDocs(ctx.Repo)[format]; len(docs) > 0 {
		d = repoDoc(ctx.Repo, format, docs[r.Intn(len(docs))])
	}
	if d == nil {
		return fw.Result{Verdict: "skip", Note: "no document"}
	}
	return runDoc(ctx, i, d, true, timing)
}

func runDoc(ctx *fw.Ctx, i int, d *foreignDoc, cli bool, timing map[string]time.Duration) fw.Result {
	var res fw.Result
	rn := &runner{res: &res, label: d.label, files: map[string]string{"src/" + d.file: d.text}, sigs: map[string]bool{}, timing: timing}
	v := d.inv()
	if !(cli && d.slow) { // slow importers: the processes are a case of their own
		rn.repeat(v)
	}
	if cli {
		rn.processes(ctx, nil, d, v)
		if d.slow && v.wide {
			rn.produced = true
		}
	}
	res.Hash = fw.HashOf(d.label, d.text)
	res.NonTrivial = rn.produced
	res.Count("documents_"+d.format, 1)
	res.Sample = map[string]any{"case": i, "document": d.label, "format": d.format, "bytes": len(d.text)}
	return res
}

// slowPlan: what each slow case runs (one arr.ai based generator, 12 repetitions). The
// expensive ones come first so that consecutive case numbers spread them over workers.
func slowPlan(tier string) []string {
	quick := []string{
		"import:openapi3", "import:sql-postgres", "export:spanner", "import:sql-spanner", "import:openapi3", "import:sql-mysql", "export:spanner", "import:avro",
		"cli-import:openapi3", "cli-import:sql-postgres",
		"export:proto", "relmod:schema-rows-as-returned", "relmod:transform-input-arrai", "relmod:schema-rows-sorted", "export:proto",
		"relmod:schema-rows-as-returned", "relmod:transform-input-arrai", "relmod:schema-rows-sorted", "relmod:schema-rows-as-returned", "relmod:transform-input-arrai",
	}
	if tier != "thorough" {
		return quick
	}
	var out []string
	for len(out) < 120 {
		out = append(out, quick...)
	}
	return out[:120]
}

func runSlowCase(ctx *fw.Ctx, i, k int, timing map[string]time.Duration) fw.Result {
	plan := slowPlan(ctx.Tier)
	kind := plan[k%len(plan)]
	nth := 0 // how many earlier slow cases ran the same kind
	for j := 0; j < k; j++ {
		if plan[j%len(plan)] == kind {
			nth++
		}
	}
	var res fw.Result
	r := ctx.Rng()
	if strings.HasPrefix(kind, "import:") || strings.HasPrefix(kind, "cli-import:") {
		format := kind[strings.Index(kind, ":")+1:]
		var d *foreignDoc
		if nth%2 == 0 {
			d = generatedDoc(r, format, i)
		} else if docs := repoDocs(ctx.Repo)[format]; len(docs) > 0 {
			d = repoDoc(ctx.Repo, format, docs[r.Intn(len(docs))])
		}
		if d == nil {
			res.Verdict, res.Note = "skip", "no document for "+format
			return res
		}
		return runDoc(ctx, i, d, strings.HasPrefix(kind, "cli-"), timing)
	}
	// model: targeted data model, targeted call graph, corpus or generated, by turn
	var md *model
	switch nth % 3 {
	case 0:
		md = dataModel(r.Fork(), i)
	case 1:
		if kind == "export:spanner" {
			md = dataModel(r.Fork(), i)
		} else {
			md = callGraphModel(r.Fork(), i)
		}
	default:
		if fs := existingCorpusQuick(); len(fs) > 0 && r.Chance(1, 2) {
			md = corpusModel(fs[r.Intn(len(fs))])
		}
		if md == nil {
			var err error
			md, err = generatedModel(r.Fork(), i, false)
			if err != nil {
				res.Verdict, res.Note = "skip", "generated model rejected by the parser: "+err.Error()
				return res
			}
		}
	}
	if md.mod == nil {
		res.Verdict, res.Note = "inconclusive", md.label
		return res
	}
	rn := newRunner(&res, md, timing)
	rn.prepare(md.mod)
	rr := fw.NewRand(ctx.Seed^0xc19, uint64(i))
	for _, v := range derive(md, rr, quickCaps) {
		if v.key() != kind {
			continue
		}
		rn.repeat(v)
		if v.wide {
			res.Count("wide_models_"+v.gen, 1)
		}
		if v.cli != nil && nth == 0 {
			rn.processes(ctx, md, nil, v)
		}
	}
	res.Hash = fw.HashOf(md.label, modelText(md), kind)
	res.NonTrivial = rn.produced
	res.Count("models_"+md.kind, 1)
	res.Sample = map[string]any{"case": i, "model": md.label, "generator": kind, "dims": measure(md.mod)}
	return res
}
