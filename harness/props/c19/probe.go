package c19

import (
	"fmt"
	"os"
	"sort"
	"strconv"
	"time"

	"verif/fw"
)

// Probe runs one case in this process and prints what it observed (development aid).
func Probe(args []string) int {
	if len(args) < 1 {
		fmt.Fprintln(os.Stderr, "usage: probe <case> [tier] [seed]")
		return 2
	}
	i, _ := strconv.Atoi(args[0])
	tier := "quick"
	if len(args) > 1 {
		tier = args[1]
	}
	seed := uint64(1)
	if len(args) > 2 {
		seed, _ = strconv.ParseUint(args[2], 10, 64)
	}
	dir, _ := os.MkdirTemp("/var/tmp", "c19-probe-")
	defer os.RemoveAll(dir)
	ctx := &fw.Ctx{Prop: "C19", Seed: seed, Tier: tier, Case: i, Dir: dir, BinDir: fw.BinDir(), Repo: fw.RepoDir(), Verif: fw.VerifDir()}
	timing := map[string]time.Duration{}
	t0 := time.Now()
	p := planFor(tier)
	var res fw.Result
	switch {
	case i < p.models():
		res = runModelCase(ctx, i, timing)
	case i < p.models()+p.foreign:
		res = runForeignCase(ctx, i, i-p.models(), timing)
	default:
		res = runSlowCase(ctx, i, i-p.models()-p.foreign, timing)
	}
	fmt.Printf("case %d: verdict=%q note=%q nontrivial=%v wall=%.2fs\n", i, res.Verdict, res.Note, res.NonTrivial, time.Since(t0).Seconds())
	fmt.Printf("sample: %v\n", res.Sample)
	ks := make([]string, 0, len(timing))
	for k := range timing {
		ks = append(ks, k)
	}
	sort.Strings(ks)
	for _, k := range ks {
		fmt.Printf("  %-70s %8.1f ms / 12 reps\n", k, float64(timing[k].Microseconds())/1000)
	}
	cs := make([]string, 0, len(res.Counts))
	for k := range res.Counts {
		cs = append(cs, k)
	}
	sort.Strings(cs)
	for _, k := range cs {
		fmt.Printf("  count %s = %d\n", k, res.Counts[k])
	}
	for k, v := range res.Sets {
		fmt.Printf("  set %s = %v\n", k, v)
	}
	for _, v := range res.Violations {
		fmt.Printf("VIOLATION %s\n   %s\n", v.Sig, clipStr(v.Msg, 500))
		if len(args) > 3 {
			fmt.Println(clipStr(v.Files["diff.txt"], 3000))
		}
	}
	return 0
}
