// Package c08: recorded source locations point at the declaring text.
package c08

import (
	"fmt"
	"sort"
	"strings"
	"unicode/utf8"

	"github.com/anz-bank/sysl/pkg/sysl"
	"google.golang.org/protobuf/reflect/protoreflect"

	"verif/fw"
	"verif/gen"
	"verif/props/c02"
)

type prop struct{}

func init() { fw.Register(prop{}) }

func (prop) ID() string { return "C08" }
func (prop) Cases(tier string) int {
	if tier == "thorough" {
		return 5000
	}
	return 800
}
func (prop) Info() fw.Info {
	return fw.Info{
		Level: "exploration",
		Rule: "case i = random description (as C02) rendered with a random layout (indent unit 1..8, tabs, blank lines, comments), as one file or split over blocks and imported files (as C04, with types and REST paths re-opened); the renderer records file/line/column of the first character of every application block, type declaration, field, endpoint, statement and @annotation it writes. Oracle: for every such element the list of (file, start line, start col) in source_contexts must equal the renderer's list in processing order (depth-first import order, then text order); the deprecated source_context must be the last of them; every SourceContext anywhere in the module must name a file of the specification, start inside that file and end not before its start. Non-trivial: >= 1 element declared more than once and >= 2 files, or >= 30 located elements; distinct by text hash.",
		Assumptions: []string{"positions of inline [k=\"v\"] attributes are not compared with the renderer (only checked to lie inside the file)", "columns are counted in characters, tabs count 1 (ANTLR convention documented in source-context.md)"},
		CountFloors: map[string]int{"locations_compared": 2000, "multi_declared_elements": 20, "contexts_bounds_checked": 5000},
	}
}

type loc struct {
	File      string
	Line, Col int
}

func (l loc) String() string { return fmt.Sprintf("%s:%d:%d", l.File, l.Line, l.Col) }

func locsOf(scs []*sysl.SourceContext) []loc {
	var out []loc
	for _, sc := range scs {
		out = append(out, loc{sc.GetFile(), int(sc.GetStart().GetLine()), int(sc.GetStart().GetCol())})
	}
	return out
}

func same(a, b []loc) bool {
	if len(a) != len(b) {
		return false
	}
	for i := range a {
		if a[i] != b[i] {
			return false
		}
	}
	return true
}

func (prop) Run(ctx *fw.Ctx, i int) fw.Result {
	r := ctx.Rng()
	spec := gen.Build(r.Fork(), gen.DefaultOpts(r, ctx.Thorough()))
	var plan *gen.Plan
	if r.Chance(1, 3) {
		plan = gen.JoinedPlan(spec, "root.sysl")
	} else {
		plan = gen.SplitPlan(spec, r.Fork(), gen.SplitOpts{MaxBlocks: 4, MaxFiles: 3, SplitTypes: true, SplitRest: false, StubEps: true})
	}
	rd := gen.Render(plan, gen.RandomLayout(r.Fork()))
	names := rd.SortedFileNames()
	var hp []string
	files := map[string]string{}
	for _, n := range names {
		hp = append(hp, n, rd.Files[n])
		files[n] = rd.Files[n]
	}
	res := fw.Result{Hash: fw.HashOf(hp...)}
	var m *sysl.Module
	var err error
	if pi := fw.Guard(func() { m, err = c02.Compile(rd.Files, "root.sysl") }); pi != nil || err != nil {
		res.Verdict = "skip"
		res.Note = fmt.Sprint("does not compile (C02/C04's business): ", err)
		return res
	}
	// expected locations per element, in processing order
	order := map[string]int{}
	for k, f := range gen.FlattenOrder(plan) {
		order[f] = k
	}
	type key struct {
		kind string
		id   int
		name string
	}
	exp := map[key][]loc{}
	idx := make([]int, len(rd.Marks))
	for k := range idx {
		idx[k] = k
	}
	sort.SliceStable(idx, func(a, b int) bool { return order[rd.Marks[idx[a]].File] < order[rd.Marks[idx[b]].File] })
	for _, k := range idx {
		mk := rd.Marks[k]
		kk := key{mk.Kind, mk.ID, mk.Name}
		exp[kk] = append(exp[kk], loc{mk.File, mk.Line, mk.Col})
	}
	multi := 0
	for _, v := range exp {
		if len(v) > 1 {
			multi++
		}
	}
	res.Count("multi_declared_elements", multi)
	compared := 0
	check := func(what, rule string, k key, got []*sysl.SourceContext, last *sysl.SourceContext) {
		want := exp[k]
		if len(want) == 0 {
			return
		}
		compared += len(want)
		g := locsOf(got)
		if !same(want, g) {
			sub := "position"
			if len(want) != len(g) {
				sub = fmt.Sprintf("count(want-n,got-%s)", map[bool]string{true: "fewer", false: "more"}[len(g) < len(want)])
			}
			res.Violate("loc|"+rule+"|"+sub, fmt.Sprintf("%s: recorded locations %v, declared at %v", what, g, want), files)
			return
		}
		if last != nil {
			l := loc{last.GetFile(), int(last.GetStart().GetLine()), int(last.GetStart().GetCol())}
			if l != want[len(want)-1] {
				res.Violate("loc|"+rule+"|deprecated-not-last", fmt.Sprintf("%s: source_context %v is not the last declaration %v", what, l, want[len(want)-1]), files)
			}
		}
	}
	var walkStmts func(where string, ss []*gen.Stmt, ps []*sysl.Statement)
	walkStmts = func(where string, ss []*gen.Stmt, ps []*sysl.Statement) {
		j := 0
		for k := 0; k < len(ss); k++ {
			s := ss[k]
			if j >= len(ps) {
				return // shape mismatch is C02's business
			}
			p := ps[j]
			j++
			check(fmt.Sprintf("%s statement %d (%s)", where, k, s.Kind), "stmt:"+s.Kind, key{"stmt", s.ID, ""}, p.SourceContexts, p.SourceContext) //nolint
			if s.Kind == "doc" {
				for k+1 < len(ss) && ss[k+1].Kind == "doc" {
					k++
				}
			}
			var sub []*sysl.Statement
			switch x := p.Stmt.(type) {
			case *sysl.Statement_Cond:
				sub = x.Cond.Stmt
			case *sysl.Statement_Group:
				sub = x.Group.Stmt
			case *sysl.Statement_Loop:
				sub = x.Loop.Stmt
			case *sysl.Statement_Foreach:
				sub = x.Foreach.Stmt
			case *sysl.Statement_Alt:
				for ci, c := range s.Cases {
					if ci < len(x.Alt.Choice) {
						walkStmts(where, c.Body, x.Alt.Choice[ci].Stmt)
					}
				}
			}
			if len(s.Body) > 0 {
				walkStmts(where, s.Body, sub)
			}
		}
	}
	for _, a := range spec.Apps {
		app := m.Apps[a.Name()]
		if app == nil {
			continue
		}
		check("application "+a.Name(), "app", key{"app", a.ID, ""}, app.SourceContexts, app.SourceContext) //nolint
		for _, mem := range a.Members {
			if mem.Anno != nil {
				if at := app.Attrs[mem.Anno.Name]; at != nil {
					check("annotation @"+mem.Anno.Name+" of "+a.Name(), "anno:app", key{"anno", a.ID, mem.Anno.Name}, at.SourceContexts, at.SourceContext) //nolint
				}
			}
		}
		for _, t := range a.Types() {
			pt := app.Types[t.Name]
			if pt == nil {
				continue
			}
			check("type "+a.Name()+"."+t.Name, "type:"+t.Kind, key{"type", t.ID, ""}, pt.SourceContexts, pt.SourceContext) //nolint
			for _, an := range t.Annos {
				if at := pt.Attrs[an.Name]; at != nil {
					check("annotation @"+an.Name+" of type "+t.Name, "anno:type", key{"anno", t.ID, an.Name}, at.SourceContexts, at.SourceContext) //nolint
				}
			}
			defs := pt.GetTuple().GetAttrDefs()
			if defs == nil {
				defs = pt.GetRelation().GetAttrDefs()
			}
			for _, f := range t.Fields {
				pf := defs[f.Name]
				if pf == nil {
					continue
				}
				if f.List != nil && pf.GetList() != nil {
					// `name(a..b) <: T` is modelled as a list whose element carries the declaration's location
					pf = pf.GetList().GetType()
				}
				check("field "+t.Name+"."+f.Name, "field", key{"field", f.ID, ""}, pf.SourceContexts, pf.SourceContext) //nolint
				if nested := app.Types[t.Name+"."+f.Name].GetTuple().GetAttrDefs(); len(f.Inplace) > 0 && nested != nil {
					for _, g := range f.Inplace {
						if pg := nested[g.Name]; pg != nil {
							check("field "+t.Name+"."+f.Name+"."+g.Name, "field:inplace", key{"field", g.ID, ""}, pg.SourceContexts, pg.SourceContext) //nolint
						}
					}
				}
				for _, an := range f.Annos {
					if at := pf.Attrs[an.Name]; at != nil {
						check("annotation @"+an.Name+" of field "+f.Name, "anno:field", key{"anno", f.ID, an.Name}, at.SourceContexts, at.SourceContext) //nolint
					}
				}
			}
		}
		for _, ep := range a.AllEndpoints() {
			name := ep.Name
			if len(ep.SubOf) > 0 {
				name = gen.JoinParts(ep.SubOf) + " -> " + ep.Name
			}
			pe := app.Endpoints[name]
			if pe == nil {
				continue
			}
			kind := "simple"
			switch {
			case ep.Method != "":
				kind = "rest:" + ep.Method
			case ep.Event:
				kind = "event"
			case len(ep.SubOf) > 0:
				kind = "subscription"
			}
			if ep.Event && subscribedBefore(spec, a, ep, exp[key{"ep", ep.ID, ""}], func(id int) []loc { return exp[key{"ep", id, ""}] }, order) {
				// known finding: the subscription created the endpoint, the declaration adds no location
				kind = "event-subscribed-before-declared"
			}
			check("endpoint "+a.Name()+" <- "+name, "ep:"+kind, key{"ep", ep.ID, ""}, pe.SourceContexts, pe.SourceContext) //nolint
			stmts := ep.Stmts
			if ep.Method != "" {
				for len(stmts) > 0 && stmts[0].Kind == "doc" {
					stmts = stmts[1:]
				}
			}
			walkStmts("endpoint "+name, stmts, pe.Stmt)
		}
	}
	res.Count("locations_compared", compared)
	// generic invariant over every SourceContext in the module
	lines := map[string][]string{}
	for n, c := range rd.Files {
		lines[n] = strings.Split(c, "\n")
	}
	nctx := 0
	var visit func(path string, msg protoreflect.Message)
	visit = func(path string, msg protoreflect.Message) {
		if sc, ok := msg.Interface().(*sysl.SourceContext); ok {
			nctx++
			ls, known := lines[sc.File]
			s, e := sc.GetStart(), sc.GetEnd()
			switch {
			case !known:
				res.Violate("ctx|unknown-file", fmt.Sprintf("%s: file %q is not a file of the specification", path, sc.File), files)
			case s == nil || int(s.Line) < 0 || int(s.Line) >= len(ls) || int(s.Col) < 0 || int(s.Col) > utf8.RuneCountInString(ls[s.Line]):
				res.Violate("ctx|start-outside-file", fmt.Sprintf("%s: start %v lies outside %s", path, s, sc.File), files)
			case e != nil && (e.Line < s.Line || (e.Line == s.Line && e.Col < s.Col)):
				res.Violate("ctx|end-before-start", fmt.Sprintf("%s: end %v before start %v in %s", path, e, s, sc.File), files)
			}
			return
		}
		msg.Range(func(fd protoreflect.FieldDescriptor, v protoreflect.Value) bool {
			p := path + "." + string(fd.Name())
			switch {
			case fd.IsMap():
				if fd.MapValue().Kind() == protoreflect.MessageKind {
					v.Map().Range(func(k protoreflect.MapKey, mv protoreflect.Value) bool {
						visit(p+"["+k.String()+"]", mv.Message())
						return true
					})
				}
			case fd.IsList():
				if fd.Kind() == protoreflect.MessageKind {
					for j := 0; j < v.List().Len(); j++ {
						visit(fmt.Sprintf("%s[%d]", p, j), v.List().Get(j).Message())
					}
				}
			case fd.Kind() == protoreflect.MessageKind:
				visit(p, v.Message())
			}
			return true
		})
	}
	visit("module", m.ProtoReflect())
	res.Count("contexts_bounds_checked", nctx)
	res.NonTrivial = (multi >= 1 && len(names) >= 2) || compared >= 30
	res.Sample = map[string]any{"case": i, "files": names, "located_elements": compared, "multi_declared": multi,
		"marks_head": fmt.Sprint(rd.Marks[:min(6, len(rd.Marks))])}
	return res
}

// subscribedBefore reports whether some subscription to event ev of application pub is
// processed (depth-first import order, then text order) before ev's own declaration.
func subscribedBefore(spec *gen.Spec, pub *gen.App, ev *gen.Endpoint, evLocs []loc, locs func(id int) []loc, order map[string]int) bool {
	if len(evLocs) == 0 {
		return false
	}
	d := evLocs[0]
	for _, a := range spec.Apps {
		for _, m := range a.Members {
			if m.Ep == nil || len(m.Ep.SubOf) == 0 || m.Ep.Name != ev.Name || gen.JoinParts(m.Ep.SubOf) != pub.Name() {
				continue
			}
			for _, l := range locs(m.Ep.ID) {
				if order[l.File] < order[d.File] || (l.File == d.File && l.Line < d.Line) {
					return true
				}
			}
		}
	}
	return false
}

func min(a, b int) int {
	if a < b {
		return a
	}
	return b
}
