package c15

import (
	"fmt"
	"sort"
	"strings"

	"verif/fw"
)

// ---------------------------------------------------------------------------------
// The description of a data model: the independent statement of intent. It is built
// first, rendered to Sysl text second; the oracle only ever consults the description.
// ---------------------------------------------------------------------------------

type Kind int

const (
	KTuple  Kind = iota // !type
	KTable              // !table
	KEnum               // !enum
	KPAlias             // !alias of a primitive ("primitive alias")
	KUnion              // !union (not drawn by the data-model view)
	KRAlias             // !alias of a reference / collection (not drawn)
)

func (k Kind) String() string {
	return [...]string{"tuple", "table", "enum", "palias", "union", "ralias"}[k]
}

// Covered says whether the statement requires a class for this kind.
func (k Kind) Covered() bool { return k == KTuple || k == KTable || k == KEnum || k == KPAlias }

type Wrap int

const (
	WNone Wrap = iota
	WSet
	WSeq
	WList
)

func (w Wrap) String() string { return [...]string{"plain", "set", "sequence", "list"}[w] }

type App struct {
	Parts []string // name parts, joined with " :: "
	Types []*Type  // in declaration order (nested types follow their parent)
}

func (a *App) Name() string { return strings.Join(a.Parts, " :: ") }

type Type struct {
	App    *App
	Name   string // full name within the app; dotted for nested types ("Order.detail")
	Kind   Kind
	Fields []*Field
	Items  []string // enum members
	Prim   string   // KPAlias: the native keyword it aliases
	// KUnion: Members; KRAlias: AliasOf/AliasWrap
	Members   []*Type
	AliasOf   *Type
	AliasWrap Wrap
	Parent    *Type // nested types
	Inplace   bool  // declared in place by the field of Parent that has Decl == this
	EmptyBody bool  // block form body "..." (tuple without fields)
}

func (t *Type) Full() string  { return t.App.Name() + "." + t.Name }
func (t *Type) Short() string { return t.Name[strings.LastIndex(t.Name, ".")+1:] }
func (t *Type) Nested() bool  { return t.Parent != nil }

type Field struct {
	Name    string
	Wrap    Wrap
	Opt     bool
	Prim    string // native keyword as written (int32, string, ...); "" for references
	Cons    string // size constraint text "(5)" after a primitive
	Ref     *Type  // referenced type, nil for primitives
	Col     string // table column / tuple field named after the type (T.col)
	Decl    *Type  // the nested tuple this field declares in place (Ref == Decl)
	QualOwn bool   // write the own application explicitly
	ViaPath bool   // reference to a nested type written Parent.child
	Attrs   string // "[~pk]" ...
	Annot   bool   // trailing annotation block
}

type Mode int

const (
	DirectEp     Mode = iota // -d -o %(epname).png : one diagram per application
	DirectFixed              // -d -o all.png       : one diagram with every type
	ProjectEp                // -j P -o %(epname).png, one application per endpoint
	ProjectFixed             // -j P -o all.png, one endpoint listing every application
)

func (m Mode) String() string {
	return [...]string{"direct-epname", "direct-fixed", "project-epname", "project-fixed"}[m]
}

type Endpoint struct {
	Name string
	Apps []*App
}

type Model struct {
	Apps      []*App
	Mode      Mode
	Title     string
	Project   string
	Endpoints []Endpoint // project modes
	ProjFirst bool
	// hazards switched on for this case (shapes known or suspected to be mishandled)
	Haz map[string]bool
}

// PrimKind is the label the diagram is documented to use for a native type: the
// primitive kind in lower case, without width or size constraint.
func PrimKind(native string) string {
	switch native {
	case "int32", "int64":
		return "int"
	case "float32", "float64":
		return "float"
	}
	return native
}

var natives = []string{"int", "int32", "int64", "float", "float32", "float64", "string", "date", "bool", "decimal", "datetime", "bytes", "any"}

var appPool = []string{"Orders", "Billing", "Stock", "Users", "Audit", "Ledger", "Catalog", "Shipping"}
var nsPool = []string{"Core", "Ext", "Legacy"}
var typePool = []string{"Customer", "Address", "Invoice", "Payment", "Product", "Shipment", "Account", "Branch",
	"Contact", "Device", "Entry", "Folder", "Grant", "Holder", "Item", "Journal", "Kit", "Lot", "Matter", "Node",
	"Offer", "Parcel", "Quote", "Route", "Slot", "Ticket", "Unit", "Vendor", "Wallet", "Zone", "Batch_2", "Crate"}
var fieldPool = []string{"name", "code", "amount", "status", "created", "owner", "parent", "items", "lines", "note",
	"total", "qty", "flag", "payload", "stamp", "price", "memo", "line_1", "line_2", "primary", "backup", "origin",
	"target", "peer", "detail", "extra", "head", "tail", "left", "right"}
var enumPool = []string{"NEW", "OPEN", "HELD", "DONE", "VOID", "LOW", "MID", "HIGH"}
var epPool = []string{"Main-Model", "Ref-Model", "Side-Model", "Core-Model", "Aux-Model"}

type gen struct {
	r      *fw.Rand
	m      *Model
	typeIx int
}

func (g *gen) freshTypeName(a *App, used map[string]bool) string {
	for {
		n := typePool[(g.typeIx)%len(typePool)]
		if g.typeIx >= len(typePool) {
			n = fmt.Sprintf("%s%d", n, g.typeIx/len(typePool))
		}
		g.typeIx++
		if !used[n] {
			used[n] = true
			return n
		}
	}
}

func fieldNameFree(t *Type, n string) bool {
	for _, f := range t.Fields {
		if f.Name == n {
			return false
		}
	}
	return true
}

func (g *gen) freshFieldName(t *Type) string {
	for k := 0; ; k++ {
		n := g.r.Pick(fieldPool)
		if k > 40 {
			n = fmt.Sprintf("%s_%d", n, k)
		}
		if fieldNameFree(t, n) {
			return n
		}
	}
}

func pickKind(r *fw.Rand) Kind {
	x := r.Intn(100)
	switch {
	case x < 44:
		return KTuple
	case x < 68:
		return KTable
	case x < 81:
		return KEnum
	case x < 91:
		return KPAlias
	case x < 97:
		return KUnion
	}
	return KRAlias
}

func (g *gen) primField(t *Type) *Field {
	r := g.r
	f := &Field{Name: g.freshFieldName(t), Prim: r.Pick(natives)}
	f.Opt = r.Chance(35, 100)
	if (f.Prim == "string" || f.Prim == "decimal") && r.Chance(1, 4) {
		if f.Prim == "string" {
			f.Cons = r.Pick([]string{"(5)", "(1..20)", "(3..)"})
		} else {
			f.Cons = r.Pick([]string{"(5.2)", "(12)"})
		}
	}
	if r.Chance(1, 8) {
		f.Attrs = r.Pick([]string{`[~indexed]`, `[note="x"]`, `[~a, ~b]`})
	}
	if r.Chance(1, 14) {
		f.Annot = true
	}
	return f
}

// Generate builds the description of case (seed, i).
func Generate(r *fw.Rand) *Model {
	g := &gen{r: r, m: &Model{Haz: map[string]bool{}}}
	m := g.m
	m.Mode = Mode(r.Intn(4))
	if r.Chance(1, 3) {
		m.Title = r.Pick([]string{"Data", "Model v2", "types"})
	}
	// hazards: shapes that mix the two class families of the view (short-name keyed
	// tables/aliases vs. app-qualified tuples/enums) or use nested names. Rare and
	// independent, so that most cases contain none of them.
	hz := func(name string, pct int) {
		if r.Chance(pct, 100) {
			m.Haz[name] = true
		}
	}
	hz("ref-to-palias", 14)
	hz("short-name-shared", 10)
	hz("tuple-to-table", 9)
	hz("table-to-tuple", 7)
	hz("table-collection", 7)
	hz("inplace", 11)
	hz("nested-path-ref", 4)

	napps := []int{1, 1, 2, 2, 2, 2, 3, 3, 4}[r.Intn(9)]
	order := r.Perm(len(appPool))
	usedNames := map[string]bool{}
	for i := 0; i < napps; i++ {
		a := &App{Parts: []string{appPool[order[i]]}}
		if r.Chance(1, 5) {
			a.Parts = []string{r.Pick(nsPool), a.Parts[0]}
		}
		m.Apps = append(m.Apps, a)
	}
	g.typeIx = r.Intn(len(typePool))
	// top-level types; names are globally distinct unless sharing is chosen below
	for _, a := range m.Apps {
		n := r.Range(1, 5)
		for k := 0; k < n; k++ {
			t := &Type{App: a, Kind: pickKind(r), Name: g.freshTypeName(a, usedNames)}
			a.Types = append(a.Types, t)
		}
	}
	// at least one tuple or table in the model, and more often than not two tuples
	if len(m.kind(KTuple))+len(m.kind(KTable)) == 0 {
		m.Apps[0].Types[0].Kind = KTuple
	}
	if len(m.kind(KTuple)) < 2 && r.Chance(3, 4) {
		a := m.Apps[r.Intn(len(m.Apps))]
		a.Types = append(a.Types, &Type{App: a, Kind: KTuple, Name: g.freshTypeName(a, usedNames)})
	}
	// same type name in two applications
	if len(m.Apps) >= 2 && r.Chance(2, 5) {
		g.shareName(false)
	}
	if len(m.Apps) >= 2 && m.Haz["short-name-shared"] {
		g.shareName(true)
	} else {
		delete(m.Haz, "short-name-shared")
	}
	// bodies of the simple kinds
	for _, t := range m.all() {
		switch t.Kind {
		case KEnum:
			p := r.Perm(len(enumPool))
			n := r.Range(1, 4)
			for k := 0; k < n; k++ {
				t.Items = append(t.Items, enumPool[p[k]])
			}
		case KPAlias:
			t.Prim = r.Pick(natives)
		}
	}
	// pass 1: primitive fields of tables and tuples
	for _, t := range m.all() {
		switch t.Kind {
		case KTable:
			id := &Field{Name: "id", Prim: "int", Attrs: "[~pk]"}
			if r.Chance(1, 3) {
				id.Attrs = "[~pk, ~autoinc]"
			}
			t.Fields = append(t.Fields, id)
			for k, n := 0, r.Range(0, 3); k < n; k++ {
				t.Fields = append(t.Fields, g.primField(t))
			}
		case KTuple:
			if r.Chance(1, 25) {
				t.EmptyBody = true
				continue
			}
			for k, n := 0, r.Range(1, 3); k < n; k++ {
				f := g.primField(t)
				if r.Chance(1, 7) {
					f.Wrap = Wrap(r.Range(1, 3))
					f.Attrs, f.Annot = "", false
				}
				t.Fields = append(t.Fields, f)
			}
		}
	}
	// pass 2a: unions and aliases of references (so that later passes see final kinds)
	for _, t := range m.all() {
		switch t.Kind {
		case KUnion:
			c := m.kind(KTuple)
			for k, n := 0, r.Range(1, 3); k < n && len(c) > 0; k++ {
				x := c[r.Intn(len(c))]
				if x.App == t.App && !hasType(t.Members, x) {
					t.Members = append(t.Members, x)
				}
			}
			if len(t.Members) == 0 {
				t.Kind, t.Prim = KPAlias, "int"
			}
		case KRAlias:
			var loc []*Type
			for _, x := range m.kind(KTuple) {
				if x.App == t.App {
					loc = append(loc, x)
				}
			}
			if len(loc) == 0 {
				t.Kind, t.Prim = KPAlias, "string"
				continue
			}
			t.AliasOf = loc[r.Intn(len(loc))]
			t.AliasWrap = Wrap(r.Intn(3))
		}
	}
	// pass 2b: references
	for _, t := range m.all() {
		switch t.Kind {
		case KTuple:
			if !t.EmptyBody {
				g.tupleRefs(t)
			}
		case KTable:
			g.tableRefs(t)
		}
	}
	// nested types
	if m.Haz["inplace"] {
		ts := m.kind(KTuple)
		done := false
		for _, k := range r.Perm(len(ts)) {
			if !ts[k].EmptyBody && !ts[k].Nested() {
				g.inplace(ts[k])
				done = true
				break
			}
		}
		if !done {
			delete(m.Haz, "inplace")
			delete(m.Haz, "nested-path-ref")
		}
	} else {
		delete(m.Haz, "nested-path-ref")
	}
	if r.Chance(1, 9) { // nested !type at the end of a tuple; nothing refers to it
		ts := m.kind(KTuple)
		for _, k := range r.Perm(len(ts)) {
			p := ts[k]
			if p.EmptyBody || p.Nested() {
				continue
			}
			n := &Type{App: p.App, Kind: KTuple, Parent: p, Name: p.Name + "." + r.Pick([]string{"Part", "Meta", "Inner"})}
			for k, c := 0, r.Range(1, 2); k < c; k++ {
				n.Fields = append(n.Fields, g.primField(n))
			}
			p.App.insertAfter(p, n)
			break
		}
	}
	g.modes()
	return m
}

func (a *App) insertAfter(p, n *Type) {
	for i, t := range a.Types {
		if t == p {
			j := i + 1
			for j < len(a.Types) && a.Types[j].Parent == p {
				j++
			}
			a.Types = append(a.Types[:j], append([]*Type{n}, a.Types[j:]...)...)
			return
		}
	}
	a.Types = append(a.Types, n)
}

func hasType(ts []*Type, x *Type) bool {
	for _, t := range ts {
		if t == x {
			return true
		}
	}
	return false
}

func (m *Model) all() []*Type {
	var out []*Type
	for _, a := range m.Apps {
		out = append(out, a.Types...)
	}
	return out
}

func (m *Model) kind(k Kind) []*Type {
	var out []*Type
	for _, t := range m.all() {
		if t.Kind == k {
			out = append(out, t)
		}
	}
	return out
}

func shortKeyed(k Kind) bool { return k == KTable || k == KPAlias }

// shareName gives a type of one application the name of a type of another. hazard=false
// keeps at most one of the two among the kinds the view keys by short name; hazard=true
// makes both such kinds.
func (g *gen) shareName(hazard bool) {
	r, m := g.r, g.m
	p := r.Perm(len(m.Apps))
	a, b := m.Apps[p[0]], m.Apps[p[1]]
	x := a.Types[r.Intn(len(a.Types))]
	taken := func(app *App, n string) bool {
		for _, t := range app.Types {
			if t.Name == n {
				return true
			}
		}
		return false
	}
	if taken(b, x.Name) {
		return
	}
	if hazard {
		if !shortKeyed(x.Kind) {
			x.Kind = []Kind{KTable, KTable, KPAlias}[r.Intn(3)]
		}
		y := b.Types[r.Intn(len(b.Types))]
		y.Kind = []Kind{KTable, KTable, KPAlias}[r.Intn(3)]
		y.Name = x.Name
		return
	}
	for _, k := range r.Perm(len(b.Types)) {
		y := b.Types[k]
		if shortKeyed(x.Kind) && shortKeyed(y.Kind) {
			continue
		}
		// do not undo an earlier share
		if cnt := g.m.countName(y.Name); cnt > 1 {
			continue
		}
		y.Name = x.Name
		return
	}
}

func (m *Model) countName(n string) int {
	c := 0
	for _, t := range m.all() {
		if t.Name == n {
			c++
		}
	}
	return c
}

// refTargets lists what a tuple field may point at in this case.
func (g *gen) refTargets(src *Type) []*Type {
	var out []*Type
	for _, t := range g.m.all() {
		if t.Nested() {
			continue
		}
		switch t.Kind {
		case KTuple, KEnum:
			out = append(out, t)
		case KUnion:
			if g.r.Chance(1, 2) {
				out = append(out, t)
			}
		case KRAlias:
			if g.r.Chance(1, 3) {
				out = append(out, t)
			}
		case KPAlias:
			if g.m.Haz["ref-to-palias"] {
				out = append(out, t)
			}
		case KTable:
			if g.m.Haz["tuple-to-table"] {
				out = append(out, t)
			}
		}
	}
	return out
}

func (g *gen) pickTarget(src *Type, c []*Type) *Type {
	// prefer local targets 3:2 when both exist
	var loc, rem []*Type
	for _, t := range c {
		if t.App == src.App {
			loc = append(loc, t)
		} else {
			rem = append(rem, t)
		}
	}
	if len(loc) > 0 && (len(rem) == 0 || g.r.Chance(3, 5)) {
		return loc[g.r.Intn(len(loc))]
	}
	return rem[g.r.Intn(len(rem))]
}

func (g *gen) refField(src, dst *Type) *Field {
	r := g.r
	f := &Field{Name: g.freshFieldName(src), Ref: dst}
	switch x := r.Intn(100); {
	case x < 48:
		f.Opt = r.Chance(3, 10)
	case x < 68:
		f.Wrap = WSet
	case x < 92:
		f.Wrap = WSeq
	default:
		f.Wrap = WList
	}
	if f.Wrap == WSet && r.Chance(1, 6) {
		f.Opt = true
	}
	if dst.App == src.App && r.Chance(1, 6) {
		f.QualOwn = true
	}
	return f
}

func (g *gen) tupleRefs(t *Type) {
	r := g.r
	c := g.refTargets(t)
	if len(c) == 0 {
		return
	}
	n := []int{0, 1, 1, 2, 2, 3}[r.Intn(6)]
	for k := 0; k < n; k++ {
		t.Fields = append(t.Fields, g.refField(t, g.pickTarget(t, c)))
	}
	// hazards must actually occur when switched on
	force := func(h string, k Kind) {
		if !g.m.Haz[h] || r.Chance(1, 2) {
			return
		}
		var c2 []*Type
		for _, x := range c {
			if x.Kind == k {
				c2 = append(c2, x)
			}
		}
		if len(c2) > 0 {
			t.Fields = append(t.Fields, g.refField(t, c2[r.Intn(len(c2))]))
		}
	}
	force("ref-to-palias", KPAlias)
	force("tuple-to-table", KTable)
	// several fields pointing at the same target
	if r.Chance(35, 100) {
		var refs []*Field
		for _, f := range t.Fields {
			if f.Ref != nil {
				refs = append(refs, f)
			}
		}
		if len(refs) > 0 {
			dst := refs[r.Intn(len(refs))].Ref
			for k, m := 0, r.Range(1, 2); k < m; k++ {
				t.Fields = append(t.Fields, g.refField(t, dst))
			}
		}
	}
	// self-reference
	if r.Chance(15, 100) {
		t.Fields = append(t.Fields, g.refField(t, t))
	}
}

func primCols(t *Type) []string {
	var out []string
	for _, f := range t.Fields {
		if f.Prim != "" && f.Wrap == WNone {
			out = append(out, f.Name)
		}
	}
	return out
}

func (g *gen) fkField(src, dst *Type) *Field {
	cols := primCols(dst)
	f := &Field{Name: g.freshFieldName(src), Ref: dst, Col: "id"}
	if len(cols) > 0 && (dst.Kind != KTable || g.r.Chance(1, 4)) {
		f.Col = cols[g.r.Intn(len(cols))]
	}
	f.Opt = g.r.Chance(1, 4)
	if g.r.Chance(1, 6) {
		f.Attrs = "[~pk]"
	}
	return f
}

func (g *gen) tableRefs(t *Type) {
	r := g.r
	tabs := g.m.kind(KTable)
	n := []int{0, 1, 1, 2}[r.Intn(4)]
	for k := 0; k < n; k++ {
		t.Fields = append(t.Fields, g.fkField(t, g.pickTarget(t, tabs)))
	}
	if r.Chance(3, 10) {
		var refs []*Field
		for _, f := range t.Fields {
			if f.Ref != nil {
				refs = append(refs, f)
			}
		}
		if len(refs) > 0 {
			dst := refs[r.Intn(len(refs))].Ref
			for k, m := 0, r.Range(1, 2); k < m; k++ {
				t.Fields = append(t.Fields, g.fkField(t, dst))
			}
		}
	}
	if r.Chance(12, 100) {
		t.Fields = append(t.Fields, g.fkField(t, t))
	}
	if g.m.Haz["table-to-tuple"] && r.Chance(2, 3) {
		var c []*Type
		for _, x := range g.m.kind(KTuple) {
			if len(primCols(x)) > 0 && !x.Nested() {
				c = append(c, x)
			}
		}
		if len(c) > 0 {
			t.Fields = append(t.Fields, g.fkField(t, g.pickTarget(t, c)))
		}
	}
	if g.m.Haz["table-collection"] && r.Chance(2, 3) {
		f := &Field{Name: g.freshFieldName(t), Wrap: Wrap(r.Range(1, 3))}
		if r.Chance(1, 2) || len(g.m.kind(KTuple)) == 0 {
			f.Prim = r.Pick(natives)
		} else {
			ts := g.m.kind(KTuple)
			f.Ref = ts[r.Intn(len(ts))]
			if f.Ref.Nested() {
				f.Ref, f.Prim = nil, "string"
			}
		}
		t.Fields = append(t.Fields, f)
	}
}

// inplace adds to tuple p a field that declares a nested tuple in place.
func (g *gen) inplace(p *Type) {
	r := g.r
	name := g.freshFieldName(p)
	if r.Chance(3, 10) { // a short type name equal to the nested one
		for _, t := range p.App.Types {
			if !t.Nested() && t != p && fieldNameFree(p, t.Name) {
				name = t.Name
				break
			}
		}
	}
	n := &Type{App: p.App, Kind: KTuple, Parent: p, Inplace: true, Name: p.Name + "." + name}
	for k, c := 0, r.Range(1, 3); k < c; k++ {
		f := g.primField(n)
		f.Annot = false
		n.Fields = append(n.Fields, f)
	}
	if ts := g.m.kind(KTuple); r.Chance(1, 2) {
		x := ts[r.Intn(len(ts))]
		if !x.Nested() {
			f := g.refField(n, x)
			if f.Wrap == WList {
				f.Wrap = WSeq
			}
			n.Fields = append(n.Fields, f)
		}
	}
	f := &Field{Name: name, Ref: n, Decl: n}
	if r.Chance(1, 5) {
		f.Wrap = WList
	}
	p.Fields = append(p.Fields, f)
	p.App.insertAfter(p, n)
	if p.Nested() {
		return // second level: no reference by path (it would need a three-part path)
	}
	if r.Chance(1, 3) {
		// an in-place tuple inside the in-place tuple (App.Outer.inner.deep)
		g.inplace(n)
	}
	if g.m.Haz["nested-path-ref"] {
		// another tuple of the same application names the nested type by path
		for _, t := range p.App.Types {
			if t.Kind == KTuple && !t.Nested() && !t.EmptyBody {
				t.Fields = append(t.Fields, &Field{Name: g.freshFieldName(t), Ref: n, ViaPath: true})
				return
			}
		}
		delete(g.m.Haz, "nested-path-ref")
	}
}

func (g *gen) modes() {
	r, m := g.r, g.m
	if m.Mode != ProjectEp && m.Mode != ProjectFixed {
		return
	}
	m.Project = r.Pick([]string{"Project", "Views", "DataProject"})
	m.ProjFirst = r.Chance(1, 2)
	if m.Mode == ProjectFixed {
		ep := Endpoint{Name: r.Pick([]string{"_", "All", "Everything"})}
		for _, k := range r.Perm(len(m.Apps)) {
			ep.Apps = append(ep.Apps, m.Apps[k])
		}
		m.Endpoints = []Endpoint{ep}
		return
	}
	p := r.Perm(len(m.Apps))
	n := len(p)
	if n > 1 && r.Chance(1, 3) {
		n = r.Range(1, n-1) // a subset of the applications
	}
	q := r.Perm(len(epPool))
	for k := 0; k < n; k++ {
		m.Endpoints = append(m.Endpoints, Endpoint{Name: epPool[q[k]], Apps: []*App{m.Apps[p[k]]}})
	}
}

// ---------------------------------------------------------------------------------
// Rendering
// ---------------------------------------------------------------------------------

func refText(src *Type, f *Field) string {
	dst := f.Ref
	var s string
	switch {
	case f.ViaPath:
		s = dst.Name
	case dst.App != src.App || f.QualOwn:
		s = dst.App.Name() + "." + dst.Name
	default:
		s = dst.Name
	}
	if f.Col != "" {
		s += "." + f.Col
	}
	return s
}

func fieldLine(src *Type, f *Field) string {
	name := f.Name
	if f.Wrap == WList {
		name += []string{"(1..3)", "(0..)", "(2..2)"}[len(f.Name)%3]
	}
	base := f.Prim + f.Cons
	if f.Ref != nil {
		base = refText(src, f)
	}
	switch f.Wrap {
	case WSet:
		base = "set of " + base
	case WSeq:
		base = "sequence of " + base
	}
	if f.Opt {
		base += "?"
	}
	if f.Attrs != "" {
		base += " " + f.Attrs
	}
	return name + " <: " + base
}

func renderFields(b *strings.Builder, t *Type, ind string) {
	for _, f := range t.Fields {
		if f.Decl != nil {
			name := f.Name
			if f.Wrap == WList {
				name += "(1..2)"
			}
			fmt.Fprintf(b, "%s%s <:\n", ind, name)
			renderFields(b, f.Decl, ind+"    ")
			continue
		}
		b.WriteString(ind + fieldLine(t, f))
		if f.Annot {
			b.WriteString(":\n" + ind + "    @sensitive = \"true\"")
		}
		b.WriteString("\n")
	}
}

func renderType(b *strings.Builder, t *Type) {
	const i1, i2 = "    ", "        "
	switch t.Kind {
	case KTuple, KTable:
		kw := "!type"
		if t.Kind == KTable {
			kw = "!table"
		}
		fmt.Fprintf(b, "%s%s %s:\n", i1, kw, t.Name)
		if t.EmptyBody {
			b.WriteString(i2 + "...\n")
			return
		}
		renderFields(b, t, i2)
		for _, n := range t.App.Types { // nested !type declared last
			if n.Parent == t && !n.Inplace {
				fmt.Fprintf(b, "%s!type %s:\n", i2, n.Short())
				renderFields(b, n, i2+"    ")
			}
		}
	case KEnum:
		fmt.Fprintf(b, "%s!enum %s:\n", i1, t.Name)
		for k, it := range t.Items {
			fmt.Fprintf(b, "%s%s: %d\n", i2, it, k+1)
		}
	case KPAlias:
		if len(t.Name)%2 == 0 {
			fmt.Fprintf(b, "%s!alias %s:\n%s%s\n", i1, t.Name, i2, t.Prim)
		} else {
			fmt.Fprintf(b, "%s!alias %s: %s\n", i1, t.Name, t.Prim)
		}
	case KRAlias:
		s := t.AliasOf.Name
		switch t.AliasWrap {
		case WSet:
			s = "set of " + s
		case WSeq:
			s = "sequence of " + s
		}
		fmt.Fprintf(b, "%s!alias %s:\n%s%s\n", i1, t.Name, i2, s)
	case KUnion:
		fmt.Fprintf(b, "%s!union %s:\n", i1, t.Name)
		for _, x := range t.Members {
			fmt.Fprintf(b, "%s%s\n", i2, x.Name)
		}
	}
}

func (m *Model) renderProject(b *strings.Builder) {
	if m.Project == "" {
		return
	}
	fmt.Fprintf(b, "%s [seqtitle=\"DataModel\"]:\n", m.Project)
	for _, ep := range m.Endpoints {
		fmt.Fprintf(b, "    %s:\n", ep.Name)
		for _, a := range ep.Apps {
			fmt.Fprintf(b, "        %s\n", a.Name())
		}
	}
	b.WriteString("\n")
}

// Render gives the Sysl text of the description.
func (m *Model) Render() string {
	var b strings.Builder
	if m.ProjFirst {
		m.renderProject(&b)
	}
	for _, a := range m.Apps {
		fmt.Fprintf(&b, "%s:\n", a.Name())
		for _, t := range a.Types {
			if t.Nested() {
				continue
			}
			renderType(&b, t)
			if len(t.Name)%3 == 0 {
				b.WriteString("\n")
			}
		}
		b.WriteString("\n")
	}
	if !m.ProjFirst {
		m.renderProject(&b)
	}
	return b.String()
}

// OutputPattern is the -o argument of the mode.
func (m *Model) OutputPattern() string {
	if m.Mode == DirectEp || m.Mode == ProjectEp {
		return "%(epname).png"
	}
	return "all.png"
}

// Diagram is one diagram the documentation promises for the mode, with what it covers.
type Diagram struct {
	Name string
	Apps []*App
}

func (m *Model) Diagrams() []Diagram {
	var out []Diagram
	switch m.Mode {
	case DirectEp:
		for _, a := range m.Apps {
			out = append(out, Diagram{Name: a.Name() + ".png", Apps: []*App{a}})
		}
	case DirectFixed, ProjectFixed:
		out = append(out, Diagram{Name: "all.png", Apps: m.Apps})
	case ProjectEp:
		for _, ep := range m.Endpoints {
			out = append(out, Diagram{Name: ep.Name + ".png", Apps: ep.Apps})
		}
	}
	return out
}

// Shapes measures which workload classes the generated case contains.
func (m *Model) Shapes() []string {
	set := map[string]bool{"mode:" + m.Mode.String(): true}
	names := map[string]*App{}
	for _, t := range m.all() {
		set["kind:"+t.Kind.String()] = true
		switch t.Kind {
		case KEnum:
			set["enum"] = true
		case KPAlias:
			set["alias"] = true
		case KUnion:
			set["union"] = true
		}
		if t.Nested() {
			set["nested-type"] = true
			if t.Inplace && t.Parent != nil && t.Parent.Inplace {
				set["inplace-two-levels"] = true
			}
			if t.Inplace {
				for _, o := range t.App.Types {
					if !o.Nested() && o.Name == t.Short() {
						set["short-name-equals-nested"] = true
					}
				}
			}
		} else if a, ok := names[t.Name]; ok && a != t.App {
			set["same-name-two-apps"] = true
		} else {
			names[t.Name] = t.App
		}
		if len(t.App.Parts) > 1 {
			set["namespaced-app"] = true
		}
		per := map[*Type]int{}
		for _, f := range t.Fields {
			if f.Ref == nil {
				if f.Opt {
					set["optional-primitive"] = true
				}
				if f.Wrap != WNone {
					set[f.Wrap.String()+"-wrapped-primitive"] = true
				}
				continue
			}
			per[f.Ref]++
			if f.Ref == t {
				set["self-ref"] = true
			}
			if f.Ref.App != t.App {
				set["cross-app-ref"] = true
			} else {
				set["local-ref"] = true
			}
			if f.Opt {
				set["optional-ref"] = true
			}
			if f.Wrap != WNone {
				set[f.Wrap.String()+"-wrapped-ref"] = true
			}
			if t.Kind == KTable && f.Col != "" {
				set["table-column-ref"] = true
			}
			set["ref:"+t.Kind.String()+"-to-"+f.Ref.Kind.String()] = true
		}
		for _, n := range per {
			if n >= 2 {
				set["multi-ref-same-target"] = true
			}
		}
	}
	short := map[string]*App{}
	for _, t := range m.all() {
		if shortKeyed(t.Kind) {
			if a, ok := short[t.Name]; ok && a != t.App {
				set["same-short-name-table-or-alias-two-apps"] = true
			}
			short[t.Name] = t.App
		}
		if t.Kind == KTable {
			for _, f := range t.Fields {
				if f.Wrap != WNone {
					set["table-collection-field"] = true
				}
			}
		}
	}
	var out []string
	for s := range set {
		out = append(out, s)
	}
	sort.Strings(out)
	return out
}
