package c15

import (
	"fmt"
	"regexp"
	"strings"
)

// A reader for the PlantUML class diagram text emitted by `sysl datamodel`. It knows
// nothing about how the text was produced; it accepts exactly the statement forms of a
// class diagram that the goldens under /repo/tests show, and reports anything else.

type RClass struct {
	Name   string // quoted display name
	Alias  string // identifier after "as"
	Enum   bool
	Stereo string // text after "(D,orchid)" in the stereotype: primitive of an alias class
	Fields []RField
	Items  []string // enum members
	Line   int
}

type RField struct {
	Name  string
	Label string // raw text after " : "
	Bold  bool   // **...**
	Wrap  Wrap   // Set <..> / Sequence <..> / List <..>
	Inner string // type name inside the decoration
	FK    bool   // trailing <<FK>>
}

type REdge struct {
	From, To string
	Arrow    string
	Label    string
	Line     int
}

type RDiagram struct {
	Title    string
	Classes  []*RClass
	Edges    []REdge
	Problems []string // lines that are not one of the known statement forms
}

var (
	reClass = regexp.MustCompile(`^class "([^"]*)" as (\S+) << \(D,orchid\)(?: ([^>]*?))? ?>> \{$`)
	reEnum  = regexp.MustCompile(`^enum "([^"]*)" as (\S+) \{$`)
	reField = regexp.MustCompile(`^\+ (\S+) : (.+)$`)
	reEdge  = regexp.MustCompile(`^(\S+) (\*--|\}--) "([^"]*)" (\S+)$`)
	reColl  = regexp.MustCompile(`^(Set|Sequence|List) <(.*)>$`)
)

func parseLabel(f *RField) {
	l := f.Label
	if strings.HasSuffix(l, " <<FK>>") {
		f.FK = true
		l = strings.TrimSuffix(l, " <<FK>>")
	}
	if len(l) >= 4 && strings.HasPrefix(l, "**") && strings.HasSuffix(l, "**") {
		f.Bold = true
		l = l[2 : len(l)-2]
	}
	if m := reColl.FindStringSubmatch(l); m != nil && f.Bold {
		switch m[1] {
		case "Set":
			f.Wrap = WSet
		case "Sequence":
			f.Wrap = WSeq
		case "List":
			f.Wrap = WList
		}
		l = m[2]
	}
	f.Inner = l
}

// ReadDiagram parses one diagram.
func ReadDiagram(text string) *RDiagram {
	d := &RDiagram{}
	lines := strings.Split(text, "\n")
	var cur *RClass
	started, ended := false, false
	bad := func(i int, why string) {
		if len(d.Problems) < 8 {
			d.Problems = append(d.Problems, fmt.Sprintf("line %d: %s: %q", i+1, why, lines[i]))
		}
	}
	for i, ln := range lines {
		switch {
		case ln == "" || strings.HasPrefix(ln, "'"):
			continue
		case ended:
			bad(i, "text after @enduml")
		case ln == "@startuml":
			if started {
				bad(i, "second @startuml")
			}
			started = true
		case !started:
			bad(i, "text before @startuml")
		case ln == "@enduml":
			if cur != nil {
				bad(i, "@enduml inside a class body")
			}
			ended = true
		case cur != nil:
			if ln == "}" {
				cur = nil
				continue
			}
			if cur.Enum {
				if strings.ContainsAny(ln, " {}\"") {
					bad(i, "not an enum member")
				} else {
					cur.Items = append(cur.Items, ln)
				}
				continue
			}
			m := reField.FindStringSubmatch(ln)
			if m == nil {
				bad(i, "not a field line")
				continue
			}
			f := RField{Name: m[1], Label: m[2]}
			parseLabel(&f)
			cur.Fields = append(cur.Fields, f)
		case strings.HasPrefix(ln, "title ") && len(d.Classes) == 0 && len(d.Edges) == 0:
			d.Title = strings.TrimPrefix(ln, "title ")
		case strings.HasPrefix(ln, "class "):
			m := reClass.FindStringSubmatch(ln)
			if m == nil {
				bad(i, "unreadable class header")
				continue
			}
			cur = &RClass{Name: m[1], Alias: m[2], Stereo: strings.TrimSpace(m[3]), Line: i + 1}
			d.Classes = append(d.Classes, cur)
		case strings.HasPrefix(ln, "enum "):
			m := reEnum.FindStringSubmatch(ln)
			if m == nil {
				bad(i, "unreadable enum header")
				continue
			}
			cur = &RClass{Name: m[1], Alias: m[2], Enum: true, Line: i + 1}
			d.Classes = append(d.Classes, cur)
		default:
			m := reEdge.FindStringSubmatch(ln)
			if m == nil {
				bad(i, "not a known statement")
				continue
			}
			d.Edges = append(d.Edges, REdge{From: m[1], Arrow: m[2], Label: m[3], To: m[4], Line: i + 1})
		}
	}
	if !started || !ended {
		d.Problems = append(d.Problems, "missing @startuml/@enduml")
	}
	return d
}
