// Package c15: data-model diagrams contain every type, field and relationship.
//
// A generated description of a data model (model.go) is rendered to Sysl text, compiled
// by the real parser and handed to the real data-model generator exactly as
// cmd/sysl/cmd_datamodel.go does. A reader for the emitted PlantUML class diagram
// (reader.go) turns each diagram back into classes, fields and relationship lines, and
// these are compared with the type graph of the description (this file).
package c15

import (
	"fmt"
	"io"
	"os"
	"path/filepath"
	"sort"
	"strings"

	"github.com/anz-bank/sysl/pkg/cmdutils"
	"github.com/anz-bank/sysl/pkg/datamodeldiagram"
	"github.com/anz-bank/sysl/pkg/parse"
	"github.com/anz-bank/sysl/pkg/sysl"
	"github.com/sirupsen/logrus"
	"github.com/spf13/afero"

	"verif/fw"
)

type prop struct{}

func init() { fw.Register(prop{}) }

func (prop) ID() string { return "C15" }
func (prop) Cases(tier string) int {
	if tier == "thorough" {
		return 20000
	}
	return 400
}

func (prop) Info() fw.Info {
	return fw.Info{
		Level: "exploration",
		Rule: "case i = random data-model description from PRNG(seed,i): 1-4 applications (some namespaced) with tuples, tables, enums, " +
			"primitive aliases, unions and aliases of references; fields of all 13 native kinds, optional, set/sequence/list-wrapped, " +
			"local/cross-application/self references, 2-3 fields at the same target, table column references, same type name in two " +
			"applications, nested (in-place / inner) tuples; one of four documented invocations (direct or project, %(epname) or fixed " +
			"output name). The text is compiled by the real parser and drawn by datamodeldiagram.GenerateDataModels in-process; every " +
			"emitted diagram is read back and compared with the description: diagram set, one class per covered type, field sets with " +
			"type labels, relationship-line counts per ordered pair of drawn types, nothing extra. Non-trivial: >= 2 drawn types and >= 1 " +
			"reference field whose target is drawn in the same diagram; distinct by hash of text + mode.",
		Assumptions: []string{
			"what a diagram covers is taken from docs/docs/cmd/cmd-datamodel.md and the package tests: %(epname) output = the types of the one application of that diagram; fixed output name = every type of the module",
			"type labels: primitive kind in lower case (int32/int64 -> int, float32/float64 -> float, no size, no '?'); references compared on (wrapper, base type name[, column]); an application qualifier, when printed, must be the right one",
			"a relationship line whose target identifier is declared nowhere in the diagram is tolerated only as a reference to a model type that the diagram does not draw (union, alias of a reference, type of another application in %(epname) mode)",
			"generated names avoid Sysl keywords; application names differ from all type names",
		},
		SetFloors:   map[string]int{"shapes": 30},
		CountFloors: map[string]int{"diagrams": 300, "classes": 1500, "fields": 4000, "edges": 700, "edge_pairs_multi": 60},
	}
}

// compile runs the real parser over the in-memory specification.
func compile(text string) (*sysl.Module, error) {
	fs := afero.NewMemMapFs()
	_ = afero.WriteFile(fs, "model.sysl", []byte(text), 0o644)
	return parse.NewParser().ParseFromFs("model.sysl", fs)
}

// draw calls the data-model generator the way cmd_datamodel.go does.
func draw(m *Model, mod *sysl.Module) (map[string]string, error) {
	lg := logrus.New()
	lg.SetOutput(io.Discard)
	p := &cmdutils.CmdContextParamDatagen{
		Title:       m.Title,
		Output:      m.OutputPattern(),
		Project:     m.Project,
		Direct:      m.Mode == DirectEp || m.Mode == DirectFixed,
		ClassFormat: "%(classname)",
	}
	return datamodeldiagram.GenerateDataModels(p, mod, lg)
}

func (prop) Run(ctx *fw.Ctx, i int) fw.Result {
	r := ctx.Rng()
	m := Generate(r)
	text := m.Render()
	res := fw.Result{Hash: fw.HashOf(text, m.Mode.String(), m.Title)}
	shapes := m.Shapes()
	for _, s := range shapes {
		res.Add("shapes", s)
	}
	params := fmt.Sprintf("mode=%s\noutput=%s\nproject=%s\ntitle=%s\n", m.Mode, m.OutputPattern(), m.Project, m.Title)
	files := map[string]string{"model.sysl": text, "params.txt": params}
	_ = os.WriteFile(filepath.Join(ctx.Dir, "model.sysl"), []byte(text), 0o644)
	_ = os.WriteFile(filepath.Join(ctx.Dir, "params.txt"), []byte(params), 0o644)
	res.Sample = map[string]any{"case": i, "mode": m.Mode.String(), "apps": len(m.Apps), "types": len(m.all()), "shapes": shapes, "text_head": head(text, 30)}

	var mod *sysl.Module
	var err error
	if pi := fw.Guard(func() { mod, err = compile(text) }); pi != nil {
		res.Violate(fw.CrashSig("panic-parse", pi.Value, pi.Stack), "the parser panicked on a generated data model: "+pi.Value, with(files, "stack.txt", pi.Stack))
		return res
	}
	if err != nil {
		res.Violate("reject|"+fw.MsgClass(err.Error()), "the parser rejected a generated data model: "+err.Error(), files)
		return res
	}
	var out map[string]string
	if pi := fw.Guard(func() { out, err = draw(m, mod) }); pi != nil {
		res.Violate(fw.CrashSig("panic", pi.Value, pi.Stack), "the data-model generator panicked: "+pi.Value, with(files, "stack.txt", pi.Stack))
		return res
	}
	if err != nil {
		res.Violate("error|"+fw.MsgClass(err.Error()), "the data-model generator failed: "+err.Error(), files)
		return res
	}
	for k, v := range out {
		files["diagram/"+k+".puml"] = v
	}
	c := &checker{m: m, res: &res, files: files, by: map[string]*finding{}}
	c.checkAll(out)
	res.NonTrivial = c.nontrivial
	c.flush()
	return res
}

// ---------------------------------------------------------------------------------
// The comparison
// ---------------------------------------------------------------------------------

type finding struct {
	sig  string
	msgs []string
}

type checker struct {
	m          *Model
	res        *fw.Result
	files      map[string]string
	by         map[string]*finding
	order      []string
	nontrivial bool
}

func (c *checker) report(sig, format string, a ...any) {
	f := c.by[sig]
	if f == nil {
		f = &finding{sig: sig}
		c.by[sig] = f
		c.order = append(c.order, sig)
	}
	if len(f.msgs) < 6 {
		f.msgs = append(f.msgs, fmt.Sprintf(format, a...))
	}
}

func (c *checker) flush() {
	for _, sig := range c.order {
		f := c.by[sig]
		c.res.Violate(sig, strings.Join(f.msgs, " ;; "), c.files)
	}
}

func (c *checker) checkAll(out map[string]string) {
	want := c.m.Diagrams()
	names := map[string]bool{}
	for _, d := range want {
		names[d.Name] = true
		text, ok := out[d.Name]
		if !ok {
			c.report("diagram-missing|"+c.m.Mode.String(), "no diagram %q was produced (have %v)", d.Name, keys(out))
			continue
		}
		c.res.Count("diagrams", 1)
		c.checkDiagram(d, text)
	}
	for k := range out {
		if !names[k] {
			c.report("diagram-extra|"+c.m.Mode.String(), "diagram %q was produced but the invocation does not ask for it", k)
		}
	}
}

func inApps(apps []*App, a *App) bool {
	for _, x := range apps {
		if x == a {
			return true
		}
	}
	return false
}

// sharesShortName: another table / primitive alias of a different application has the
// same short name (the trigger of the alias-allocation defect).
func (c *checker) sharesShortName(t *Type) bool {
	if !shortKeyed(t.Kind) {
		return false
	}
	for _, o := range c.m.all() {
		if o != t && o.App != t.App && shortKeyed(o.Kind) && o.Short() == t.Short() {
			return true
		}
	}
	return false
}

func (c *checker) checkDiagram(d Diagram, text string) {
	rd := ReadDiagram(text)
	for _, p := range rd.Problems {
		c.report("reader|unknown-statement", "%s: %s", d.Name, p)
	}
	if rd.Title != c.m.Title {
		c.report("title", "%s: title %q, want %q", d.Name, rd.Title, c.m.Title)
	}

	// --- classes -------------------------------------------------------------
	covered := map[string]*Type{} // display name -> type that must have exactly one class
	others := map[string]*Type{}  // model types of the covered applications that need no class
	for _, a := range d.Apps {
		for _, t := range a.Types {
			if t.Kind.Covered() {
				covered[t.Full()] = t
			} else {
				others[t.Full()] = t
			}
		}
	}
	byName := map[string][]*RClass{}
	byAlias := map[string][]*RClass{}
	for _, rc := range rd.Classes {
		byName[rc.Name] = append(byName[rc.Name], rc)
		byAlias[rc.Alias] = append(byAlias[rc.Alias], rc)
	}
	drawn := map[*Type]*RClass{}
	typeOf := map[*RClass]*Type{}
	for name, t := range covered {
		c.res.Count("classes", 1)
		cs := byName[name]
		switch {
		case len(cs) == 0:
			c.report("class-missing|"+kindTag(t), "%s: no class for %s %s", d.Name, t.Kind, name)
			continue
		case len(cs) > 1:
			c.report("class-duplicate|"+kindTag(t), "%s: %d classes named %s", d.Name, len(cs), name)
		}
		drawn[t] = cs[0]
		typeOf[cs[0]] = t
	}
	for name, cs := range byName {
		if covered[name] != nil {
			continue
		}
		if t := others[name]; t != nil {
			c.res.Add("notes", "class drawn for a "+t.Kind.String())
			continue
		}
		c.report("class-extra", "%s: class %q (line %d) is no type of the covered applications", d.Name, name, cs[0].Line)
	}
	// one identifier per class
	ambiguous := map[string]bool{}
	for alias, cs := range byAlias {
		if len(cs) < 2 {
			continue
		}
		ambiguous[alias] = true
		trig := "other"
		all := true
		for _, rc := range cs {
			t := typeOf[rc]
			if t == nil || !c.sharesShortName(t) {
				all = false
			}
		}
		if all {
			trig = "same-short-name-in-two-apps"
		}
		var ns []string
		for _, rc := range cs {
			ns = append(ns, rc.Name)
		}
		sort.Strings(ns)
		c.report("alias-collision|"+trig, "%s: identifier %s is declared for %d classes (%s); their relationship lines cannot be told apart",
			d.Name, alias, len(cs), strings.Join(ns, ", "))
	}

	// --- class form, fields -----------------------------------------------------
	for t, rc := range drawn {
		switch t.Kind {
		case KEnum:
			if !rc.Enum {
				c.report("class-form|enum", "%s: %s is an enum but is drawn as a class", d.Name, t.Full())
				continue
			}
			have := map[string]bool{}
			for _, it := range t.Items {
				have[it] = true
			}
			for _, it := range rc.Items {
				if !have[it] {
					c.report("enum-member-extra", "%s: enum %s lists %q which it does not have", d.Name, t.Full(), it)
				}
			}
			c.res.Count("enum_members", len(rc.Items))
		case KPAlias:
			if rc.Enum || len(rc.Fields) > 0 {
				c.report("class-form|palias", "%s: primitive alias %s is drawn with members", d.Name, t.Full())
			}
			if rc.Stereo != PrimKind(t.Prim) {
				c.report("class-form|palias-primitive", "%s: alias %s is drawn as %q, it aliases %s", d.Name, t.Full(), rc.Stereo, t.Prim)
			}
		case KTuple, KTable:
			if rc.Enum {
				c.report("class-form|"+t.Kind.String(), "%s: %s is drawn as an enum", d.Name, t.Full())
				continue
			}
			c.checkFields(d, t, rc)
		}
	}

	// --- relationship lines -------------------------------------------------------
	type pair struct{ s, t *Type }
	want := map[pair]int{}
	wraps := map[pair]map[string]bool{}
	plains := map[pair]int{} // direct (unwrapped) references per pair
	type flexRef struct {
		s, a, b *Type
		wrap    string
	}
	var flex []flexRef
	allow := map[*Type]int{} // references to model types this diagram does not draw
	nt := false
	for s := range drawn {
		if s.Kind != KTuple && s.Kind != KTable {
			continue
		}
		for _, f := range s.Fields {
			if f.Ref == nil {
				continue
			}
			// An in-place field whose name is also the name of an application-level type: the
			// compiled reference is the bare path [name], which names that type as well as the
			// nested one; the model cannot tell which is meant, so a line to either is accepted.
			if f.Decl != nil {
				var alt *Type
				for _, o := range s.App.Types {
					if !o.Nested() && o.Name == f.Name {
						alt = o
					}
				}
				if _, ok := drawn[alt]; alt != nil && ok {
					flex = append(flex, flexRef{s, f.Ref, alt, f.Wrap.String()})
					c.res.Count("edges_with_two_readings", 1)
					continue
				}
			}
			if _, ok := drawn[f.Ref]; ok {
				p := pair{s, f.Ref}
				want[p]++
				if wraps[p] == nil {
					wraps[p] = map[string]bool{}
				}
				wraps[p][f.Wrap.String()] = true
				if f.Wrap.String() == "plain" {
					plains[p]++
				}
				if f.Ref != s {
					nt = true
				}
			} else {
				allow[s]++
			}
		}
	}
	if nt && len(drawn) >= 2 {
		c.nontrivial = true
	}
	got := map[pair]int{}
	dangling := map[*Type]int{}
	resolve := func(alias string) (*Type, bool) {
		cs := byAlias[alias]
		if len(cs) != 1 {
			return nil, len(cs) > 1
		}
		return typeOf[cs[0]], false
	}
	for _, e := range rd.Edges {
		s, sAmb := resolve(e.From)
		t, tAmb := resolve(e.To)
		if sAmb || tAmb {
			continue // reported as alias-collision; the line cannot be attributed
		}
		if s == nil {
			if len(byAlias[e.From]) == 1 {
				continue // line of a class that needs no check (union drawn, …)
			}
			c.report("edge-source-undeclared", "%s: line %d starts at %s which is no declared class", d.Name, e.Line, e.From)
			continue
		}
		if t == nil {
			dangling[s]++
			continue
		}
		got[pair{s, t}]++
	}
	// two-reading references: satisfied by a surplus line to either target, else demanded of the nested one
	for _, fr := range flex {
		p := pair{fr.s, fr.a}
		if alt := (pair{fr.s, fr.b}); got[p] <= want[p] && (got[alt] > want[alt] || dangling[fr.s] > allow[fr.s]) {
			// a surplus line to the application-level type, or a line that ends nowhere (the
			// identifier-family finding F1 applies to that reading): judged as a reference to it
			p = alt
		}
		if _, ok := drawn[p.t]; !ok {
			allow[fr.s]++
			continue
		}
		want[p]++
		if wraps[p] == nil {
			wraps[p] = map[string]bool{}
		}
		wraps[p][fr.wrap] = true
	}
	keysP := map[pair]bool{}
	for p := range want {
		keysP[p] = true
	}
	for p := range got {
		keysP[p] = true
	}
	deficit := map[*Type]int{}
	for p := range keysP {
		w, g := want[p], got[p]
		if ambiguous[drawn[p.s].Alias] || ambiguous[drawn[p.t].Alias] {
			deficit[p.s] += w // cannot be attributed; already reported as alias-collision
			continue
		}
		c.res.Count("edges", w)
		if w >= 2 {
			c.res.Count("edge_pairs_multi", 1)
		}
		if w == g {
			continue
		}
		if g < w {
			deficit[p.s] += w - g
			c.report("edge-missing|"+c.pairTrigger(p.s, p.t, wraps[p], w, w-g <= plains[p]),
				"%s: %d relationship line(s) from %s to %s, but %d field(s) of %s refer to it (%s)", d.Name, g, p.s.Full(), p.t.Full(), w, p.s.Full(), wrapList(wraps[p]))
		} else {
			c.report("edge-extra|"+c.extraTrigger(p.s, p.t, drawn),
				"%s: %d relationship line(s) from %s to %s, but only %d field(s) of %s refer to it", d.Name, g, p.s.Full(), p.t.Full(), w, p.s.Full())
		}
	}
	for s, n := range dangling {
		if ambiguous[drawn[s].Alias] {
			continue
		}
		excess := n - allow[s]
		if excess <= 0 {
			c.res.Count("edges_to_undrawn_types", n)
			continue
		}
		// the surplus lines are the counterpart of lines already reported missing
		if excess > deficit[s] {
			c.report("edge-dangling|"+s.Kind.String(), "%s: %d relationship line(s) of %s end at identifiers declared nowhere; only %d of its fields refer to model types outside the diagram and %d lines to drawn types are missing",
				d.Name, n, s.Full(), allow[s], deficit[s])
		}
	}
}

func wrapList(m map[string]bool) string {
	var ws []string
	for w := range m {
		ws = append(ws, w)
	}
	sort.Strings(ws)
	return strings.Join(ws, "+")
}

func kindTag(t *Type) string {
	if t.Nested() {
		return t.Kind.String() + "|nested"
	}
	return t.Kind.String()
}

// pairTrigger names the class of a missing relationship by the facts of the case: the
// kinds of the two ends, whether a table refers through a collection, whether the target
// is a nested type, whether several fields point at the target, whether it is the type itself.
func (c *checker) pairTrigger(s, t *Type, wraps map[string]bool, n int, directCovers bool) string {
	wrapped := wraps["set"] || wraps["sequence"] || wraps["list"]
	if wrapped && wraps["plain"] && directCovers {
		// direct and collection references to the same target, and no more lines are missing
		// than there are direct references: judged as missing direct references
		wrapped = false
	}
	switch {
	case s.Kind == KTable && t.Kind != KTable && wrapped:
		// the line of a collection column is drawn, but to the identifier family of tables: the
		// same cause as for a direct column reference to a tuple (finding F1)
		return "table-to-" + t.Kind.String() + "|collection"
	case s.Kind == KTable && wrapped:
		return "table-collection-field"
	case s.Kind == KTuple && t.Kind == KPAlias:
		return "tuple-to-primitive-alias"
	case s.Kind == KTuple && t.Kind == KTable:
		return "tuple-to-table"
	case s.Kind == KTable && t.Kind != KTable:
		return "table-to-" + t.Kind.String()
	case t.Nested():
		return "target-nested-type"
	}
	tag := s.Kind.String() + "-to-" + t.Kind.String()
	if n >= 2 {
		tag += "|multi-ref"
	}
	if s == t {
		tag += "|self"
	}
	return tag
}

// extraTrigger: a surplus line from table s to t. The known cause is a column reference
// of s to a table/alias x of another application whose short name equals that of t.
func (c *checker) extraTrigger(s, t *Type, drawn map[*Type]*RClass) string {
	if s.Kind == KTable && shortKeyed(t.Kind) {
		for _, f := range s.Fields {
			if f.Ref != nil && f.Ref != t && f.Ref.App != t.App && f.Ref.Short() == t.Short() {
				return "column-ref-to-same-short-name-in-other-app"
			}
		}
	}
	tag := s.Kind.String() + "-to-" + t.Kind.String()
	if s == t {
		tag += "|self"
	}
	return tag
}

// acceptable base names of a reference to t: the name within its application, the last
// segment of a nested name, each optionally qualified by the (right) application.
func refNames(t *Type, col string) map[string]bool {
	out := map[string]bool{}
	for _, n := range []string{t.Name, t.Short()} {
		if col != "" {
			n += "." + col
		}
		out[n] = true
		out[t.App.Name()+"."+n] = true
	}
	return out
}

func (c *checker) checkFields(d Diagram, t *Type, rc *RClass) {
	wantF := map[string]*Field{}
	for _, f := range t.Fields {
		wantF[f.Name] = f
	}
	seen := map[string]int{}
	for _, rf := range rc.Fields {
		seen[rf.Name]++
		f := wantF[rf.Name]
		if f == nil {
			c.report("field-extra|"+t.Kind.String(), "%s: class %s lists field %q which %s does not have", d.Name, rc.Name, rf.Name, t.Full())
			continue
		}
		if seen[rf.Name] > 1 {
			c.report("field-duplicate|"+t.Kind.String(), "%s: class %s lists field %q twice", d.Name, rc.Name, rf.Name)
			continue
		}
		c.res.Count("fields", 1)
		if why := labelMismatch(t, f, rf); why != "" {
			c.report("field-label|"+fieldTag(t, f), "%s: %s.%s is shown as %q: %s", d.Name, t.Full(), f.Name, rf.Label, why)
		}
	}
	for _, f := range t.Fields {
		if seen[f.Name] == 0 {
			c.report("field-missing|"+fieldTag(t, f), "%s: class %s does not list field %s of %s", d.Name, rc.Name, f.Name, t.Full())
		}
	}
}

func fieldTag(t *Type, f *Field) string {
	tag := t.Kind.String()
	if t.Kind == KTable && f.Wrap != WNone {
		return tag + "|collection-field"
	}
	tag += "|" + f.Wrap.String()
	if f.Ref != nil {
		tag += "|ref-" + f.Ref.Kind.String()
		if f.Decl != nil {
			tag += "|inplace"
		}
	} else {
		tag += "|primitive"
	}
	if f.Opt {
		tag += "|optional"
	}
	return tag
}

// labelMismatch applies the label rules stated in Info().Assumptions.
func labelMismatch(t *Type, f *Field, rf RField) string {
	if f.Wrap != rf.Wrap {
		return fmt.Sprintf("the field is a %s, the label says %s", f.Wrap, rf.Wrap)
	}
	if f.Ref == nil {
		if rf.Inner != PrimKind(f.Prim) {
			return "the field is " + f.Wrap.String() + " " + f.Prim
		}
		if f.Wrap == WNone && (rf.Bold || rf.FK) {
			return "a primitive is decorated as a reference"
		}
		return ""
	}
	if !refNames(f.Ref, f.Col)[rf.Inner] {
		return "the field refers to " + f.Ref.Full() + strings.TrimSuffix("."+f.Col, ".")
	}
	return ""
}

func keys(m map[string]string) []string {
	var out []string
	for k := range m {
		out = append(out, k)
	}
	sort.Strings(out)
	return out
}

func with(m map[string]string, k, v string) map[string]string {
	out := map[string]string{k: v}
	for a, b := range m {
		out[a] = b
	}
	return out
}

func head(s string, n int) string {
	ls := strings.Split(s, "\n")
	if len(ls) > n {
		ls = ls[:n]
	}
	return strings.Join(ls, "\n")
}
