package c15

import (
	"fmt"
	"os"
	"path/filepath"
	"sort"
	"strconv"
	"strings"
	"testing"
	"time"

	"verif/fw"
)

// TestSurvey (C15_SURVEY=<cases>) runs cases in-process and prints how often each
// signature occurs and how many cases are free of any violation.
func TestSurvey(t *testing.T) {
	n, _ := strconv.Atoi(os.Getenv("C15_SURVEY"))
	if n == 0 {
		t.Skip("set C15_SURVEY=<cases>")
	}
	seed, _ := strconv.ParseUint(os.Getenv("VERIF_SEED"), 10, 64)
	if seed == 0 {
		seed = 1
	}
	dir := t.TempDir()
	hist := map[string]int{}
	clean := 0
	for i := 0; i < n; i++ {
		t0 := time.Now()
		res := prop{}.Run(&fw.Ctx{Prop: "C15", Seed: seed, Tier: "quick", Case: i, Dir: dir}, i)
		if el := time.Since(t0); el > 300*time.Millisecond {
			fmt.Printf("slow case %d: %v\n", i, el)
		}
		if len(res.Violations) == 0 {
			clean++
		}
		for _, v := range res.Violations {
			hist[v.Sig]++
			if os.Getenv("C15_SHOW") == v.Sig {
				fmt.Printf("case %d: %s\n", i, v.Msg)
			}
		}
	}
	var ks []string
	for k := range hist {
		ks = append(ks, k)
	}
	sort.Strings(ks)
	for _, k := range ks {
		fmt.Printf("%6d  %s\n", hist[k], k)
	}
	fmt.Printf("clean cases: %d of %d\n", clean, n)
}

// TestShowCase (C15_CASE=<i>) prints the generated text of one case.
func TestShowCase(t *testing.T) {
	if os.Getenv("C15_CASE") == "" {
		t.Skip("set C15_CASE=<i>")
	}
	i, _ := strconv.Atoi(os.Getenv("C15_CASE"))
	seed, _ := strconv.ParseUint(os.Getenv("VERIF_SEED"), 10, 64)
	if seed == 0 {
		seed = 1
	}
	ctx := &fw.Ctx{Seed: seed, Case: i}
	m := Generate(ctx.Rng())
	fmt.Printf("mode=%s\n%s", m.Mode, m.Render())
}

// TestParseTime (C15_FILES=a.sysl,b.sysl) reports the best-of-5 parse time of files.
func TestParseTime(t *testing.T) {
	if os.Getenv("C15_FILES") == "" {
		t.Skip("set C15_FILES")
	}
	for _, f := range strings.Split(os.Getenv("C15_FILES"), ",") {
		b, err := os.ReadFile(f)
		if err != nil {
			t.Fatal(err)
		}
		best := time.Hour
		for k := 0; k < 5; k++ {
			t0 := time.Now()
			if _, err := compile(string(b)); err != nil {
				fmt.Println(f, "error", err)
			}
			if d := time.Since(t0); d < best {
				best = d
			}
		}
		fmt.Printf("%-12s %v\n", filepath.Base(f), best)
	}
}
