package c13

import (
	"strings"
	"testing"

	"verif/fw"
)

const good = `@startuml
control "A" as _0
database "B" as _1
skinparam maxMessageSize 250
== A <- E ==
[->_0 : E
activate _0
 _0->_1 : F
 activate _1
 _1 -> _1 : work
 _0<--_1 : Resp
 deactivate _1
alt one
  _0->_0 : G
else two
 [<--_0 :
end
opt if x
 loop for each y
  group g
  end
 end
end
 _0->_1 : H
 deactivate _0
 note right: black box
box "t" #LightBlue
	participant _0
end box
@enduml
`

func rules(d *Diagram) string {
	var s []string
	for _, p := range d.Problems {
		s = append(s, p.Rule+"|"+p.Class)
	}
	return strings.Join(s, ",")
}

func TestReaderAcceptsWellFormed(t *testing.T) {
	d := ReadDiagram(good)
	if len(d.Problems) != 0 {
		t.Fatalf("unexpected problems: %v", d.Problems)
	}
	if len(d.Arrows) != 4 || d.Activations != 2 || d.Blocks != 4 || d.Elses != 1 || d.BoxMembers != 1 {
		t.Fatalf("miscounted: %+v", d)
	}
	if d.Decl["_1"] != "B" || d.DeclKind["_1"] != "database" {
		t.Fatalf("declarations: %v %v", d.Decl, d.DeclKind)
	}
}

func TestReaderFlagsEachRule(t *testing.T) {
	cases := []struct{ name, from, to, want string }{
		{"undeclared", `database "B" as _1` + "\n", "", "decl|used-not-declared"},
		{"declared twice", `database "B" as _1`, `database "B" as _1` + "\n" + `control "B" as _1`, "decl|declared-twice"},
		{"missing end", "  group g\n  end\n", "  group g\n", "block|block-not-closed(opt)"},
		{"else in opt", " loop for each y\n", " loop for each y\nelse z\n", "block|else-outside-alt(in loop)"},
		{"extra end", "  group g\n  end\n", "  group g\n  end\n end\n", "block|end-without-open-block"},
		{"deactivate twice", " deactivate _1\n", " deactivate _1\n deactivate _1\n", "pair|deactivate-below-zero"},
		{"left open", " deactivate _1\n", "", "pair|activation-left-open"},
		{"inactive sender", "activate _0\n _0->_1 : F", " _0->_1 : F", "active|other"},
		{"garbage", " _1 -> _1 : work", " _1 => _1 work", "line|unreadable-line"},
		{"second outside arrow", " _0->_1 : H", " [->_1 : H", "frame|second-arrow-from-outside"},
		{"box twice", "\tparticipant _0\n", "\tparticipant _0\n\tparticipant _0\n", "decl|alias-in-two-boxes"},
	}
	for _, c := range cases {
		if !strings.Contains(good, c.from) {
			t.Fatalf("%s: pattern not in the base diagram", c.name)
		}
		d := ReadDiagram(strings.Replace(good, c.from, c.to, 1))
		if !strings.Contains(rules(d), c.want) {
			t.Errorf("%s: want %s, got %q", c.name, c.want, rules(d))
		}
	}
}

// A.E1: . <- E1 ; B <- F ; B <- F      B.F: A <- E1 ; C <- G      C.G: ...
func TestWalk(t *testing.T) {
	m := &Model{Apps: []*App{
		{Name: "A", Eps: []*Ep{{Name: "E1", Stmts: []*Stmt{
			{Kind: "call", TApp: 0, TEp: 0, Dot: true},
			{Kind: "if", Text: "x", Body: []*Stmt{{Kind: "call", TApp: 1, TEp: 0}}},
			{Kind: "call", TApp: 1, TEp: 0},
		}}}},
		{Name: "B", Eps: []*Ep{{Name: "F", Stmts: []*Stmt{
			{Kind: "call", TApp: 0, TEp: 0},
			{Kind: "oneof", Cases: []*Case{{Label: "c", Body: []*Stmt{{Kind: "call", TApp: 2, TEp: 0}}}}},
		}}}},
		{Name: "C", Eps: []*Ep{{Name: "G"}}},
	}}
	w := Walk(m, EpKey{0, 0}, nil, 100)
	var got []string
	for _, a := range w.Arrows {
		got = append(got, a.From+">"+a.To+":"+a.Ep+"/"+a.Kind)
	}
	want := "[>A:E1/expanded A>A:E1/cut A>B:F/expanded B>A:E1/cut B>C:G/leaf A>B:F/reexpanded B>A:E1/cut B>C:G/leaf"
	if strings.Join(got, " ") != want {
		t.Fatalf("walk:\n got %s\nwant %s", strings.Join(got, " "), want)
	}
	wb := Walk(m, EpKey{0, 0}, map[EpKey]bool{{1, 0}: true}, 100)
	if len(wb.Arrows) != 4 || wb.BBHits != 2 {
		t.Fatalf("blackbox walk: %+v", wb)
	}
	sh := Measure(m)
	for _, k := range []string{"self-call", "2-cycle", "repeat-call", "nested-in-if", "nested-in-oneof", "call-last", "call-to-ep-without-stmts", "dot-call"} {
		if !sh.Set[k] {
			t.Errorf("shape %s not measured (%v)", k, sh.Set)
		}
	}
}

// every generated model must be accepted by the real parser and stay under the arrow cap
func TestGeneratedModelsCompile(t *testing.T) {
	for i := 0; i < 40; i++ {
		m, _ := Generate(fw.NewRand(7, uint64(i)))
		text := Render(m)
		if _, err := Compile(text); err != nil {
			t.Fatalf("model %d rejected: %v\n%s", i, err, text)
		}
		if n := m.maxWalk(ArrowCap); n > ArrowCap {
			t.Fatalf("model %d exceeds the arrow cap", i)
		}
	}
}
