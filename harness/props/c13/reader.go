package c13

import (
	"fmt"
	"strings"
)

// A line-oriented reader of the PlantUML sequence text produced by `sysl sd`, run as a
// state machine per diagram. It is written from the PlantUML sequence syntax and from
// the output format observed on the pinned tree (see FINDINGS.md "format"), not from
// the writer's data structures:
//
//   <kind> "<label>" as <alias>      declaration (participant actor control boundary
//                                    database collections queue entity)
//   box "<title>" <colour> / <TAB>participant <alias> / end box
//                                    grouping of already declared participants
//   S->T : label                     call arrow (unspaced); S may be `[` (the diagram's
//                                    initial caller, outside the diagram)
//   S<--T : label                    return arrow
//   A -> A : text                    action (spaced, self)
//   activate A / deactivate A
//   opt|loop|group|alt <text> ... [else <text>] ... end
//   note over A: text / note left: text / note right: text
//   title, skinparam, == divider ==, ' comment, @startuml, @enduml
//
// Every other line is reported (the reader must understand the whole diagram).
//
// Rules checked (property statement):
//   R-decl    every alias used in an arrow, activation, note or box is declared, and no
//             alias is declared twice (a `participant <alias>` line inside a box places a
//             declared participant and may occur once per alias).
//   R-pair    activate/deactivate pair up per participant: depth never negative, zero at
//             the end.
//   R-active  the sender of a call arrow has activation depth >= 1; the only exemption
//             is `[`, which is not a participant and is never activated (writer:
//             EndpointElement.sender returns "[" exactly for the start endpoint).
//   R-block   every opt/loop/group/alt is closed by `end`; `else` only directly inside
//             `alt`; no `end` without an open block; box closed by `end box`.
//   R-frame   exactly one @startuml ... @enduml, one arrow from `[`, and it is the first.

type RArrow struct {
	From, To string // aliases
	Label    string
	Line     int
}

type Problem struct {
	Rule  string // decl pair active block frame line
	Class string // trigger class (narrow, no case-specific names)
	Line  int
	Arrow int // index of the call arrow concerned (-1 if none)
	Msg   string
}

type Diagram struct {
	Decl        map[string]string // alias -> label
	DeclKind    map[string]string
	Arrows      []RArrow
	Returns     int
	Actions     int
	Activations int
	Blocks      int
	Elses       int
	Notes       int
	BoxMembers  int
	MaxDepth    int
	Problems    []Problem
	// Unpaired lists every `deactivate A` that directly follows the two lines
	// `S->A : ...` and `S<--A : ...` (no `activate A` since the call arrow). When the call
	// arrow is one the callee was not expanded for, that deactivation closes an activation
	// the callee never received.
	Unpaired []UnpairedDeact
}

type UnpairedDeact struct {
	Alias string
	Arrow int // index of the call arrow S->A
	Line  int
}

var declKinds = map[string]bool{"participant": true, "actor": true, "control": true, "boundary": true,
	"database": true, "collections": true, "queue": true, "entity": true}

func isAlias(s string) bool {
	if len(s) < 2 || s[0] != '_' {
		return false
	}
	for _, c := range s[1:] {
		if c < '0' || c > '9' {
			return false
		}
	}
	return true
}

func ReadDiagram(text string) *Diagram {
	d := &Diagram{Decl: map[string]string{}, DeclKind: map[string]string{}}
	prob := func(rule, class string, line, arrow int, format string, a ...any) {
		if len(d.Problems) < 20 {
			d.Problems = append(d.Problems, Problem{rule, class, line, arrow, fmt.Sprintf(format, a...)})
		}
	}
	type use struct {
		alias string
		line  int
	}
	var uses []use
	depth := map[string]int{}
	// the index of the last call arrow, for the Unpaired pattern
	lastCall := -1
	var blocks []string
	inBox := false
	boxed := map[string]bool{}
	started, ended := 0, 0
	// the two previous significant lines, for the stolen-deactivation pattern
	type sig struct {
		kind     string // call ret other
		from, to string
	}
	var prev, prev2 sig

	lines := strings.Split(text, "\n")
	for i, raw := range lines {
		ln := i + 1
		line := strings.TrimLeft(raw, " \t")
		cur := sig{kind: "other"}
		switch {
		case line == "" || strings.HasPrefix(line, "'"):
			continue
		case line == "@startuml":
			started++
			if started > 1 {
				prob("frame", "second-startuml", ln, -1, "second @startuml")
			}
		case line == "@enduml":
			ended++
		case started == 0 || ended > 0:
			prob("frame", "text-outside-startuml-enduml", ln, -1, "text outside @startuml/@enduml: %q", line)
		case strings.HasPrefix(line, "skinparam ") || strings.HasPrefix(line, "title ") ||
			(strings.HasPrefix(line, "== ") && strings.HasSuffix(line, " ==")):
		case strings.HasPrefix(line, "box "):
			if inBox {
				prob("block", "box-inside-box", ln, -1, "box opened inside a box")
			}
			if len(blocks) > 0 {
				prob("block", "box-inside-block", ln, -1, "box opened inside %v", blocks)
			}
			inBox = true
		case line == "end box":
			if !inBox {
				prob("block", "end-box-without-box", ln, -1, "end box without box")
			}
			inBox = false
		case inBox:
			f := strings.Fields(line)
			if len(f) == 2 && f[0] == "participant" && isAlias(f[1]) {
				if boxed[f[1]] {
					prob("decl", "alias-in-two-boxes", ln, -1, "participant %s placed in a box twice", f[1])
				}
				boxed[f[1]] = true
				d.BoxMembers++
				uses = append(uses, use{f[1], ln})
			} else {
				prob("line", "unreadable-line-in-box", ln, -1, "unreadable line inside box: %q", line)
			}
		case line == "end":
			if len(blocks) == 0 {
				prob("block", "end-without-open-block", ln, -1, "`end` without an open block")
			} else {
				blocks = blocks[:len(blocks)-1]
			}
		case hasWord(line, "opt"), hasWord(line, "loop"), hasWord(line, "group"), hasWord(line, "alt"):
			blocks = append(blocks, firstWord(line))
			d.Blocks++
		case hasWord(line, "else"):
			d.Elses++
			if len(blocks) == 0 || blocks[len(blocks)-1] != "alt" {
				top := "none"
				if len(blocks) > 0 {
					top = blocks[len(blocks)-1]
				}
				prob("block", "else-outside-alt(in "+top+")", ln, -1, "`else` while the innermost open block is %s", top)
			}
		case strings.HasPrefix(line, "activate "), strings.HasPrefix(line, "deactivate "):
			f := strings.Fields(line)
			if len(f) != 2 || !isAlias(f[1]) {
				prob("line", "unreadable-activation", ln, -1, "unreadable line: %q", line)
				break
			}
			a := f[1]
			uses = append(uses, use{a, ln})
			if f[0] == "activate" {
				depth[a]++
				d.Activations++
				if depth[a] > d.MaxDepth {
					d.MaxDepth = depth[a]
				}
				cur = sig{kind: "act", to: a}
			} else {
				if prev.kind == "ret" && prev.to == a && prev2.kind == "call" && prev2.to == a && prev2.from == prev.from {
					d.Unpaired = append(d.Unpaired, UnpairedDeact{Alias: a, Arrow: lastCall, Line: ln})
				}
				depth[a]--
				if depth[a] < 0 {
					prob("pair", "deactivate-below-zero", ln, -1, "deactivate %s with activation depth 0", a)
					depth[a] = 0
				}
			}
		case strings.HasPrefix(line, "note "):
			d.Notes++
			rest := line[len("note "):]
			switch {
			case strings.HasPrefix(rest, "over "):
				r := rest[len("over "):]
				j := strings.Index(r, ":")
				if j < 0 || !isAlias(strings.TrimSpace(r[:j])) {
					prob("line", "unreadable-note", ln, -1, "unreadable line: %q", line)
				} else {
					uses = append(uses, use{strings.TrimSpace(r[:j]), ln})
				}
			case strings.HasPrefix(rest, "left:"), strings.HasPrefix(rest, "right:"):
			default:
				prob("line", "unreadable-note", ln, -1, "unreadable line: %q", line)
			}
		default:
			f := strings.Fields(line)
			if len(f) >= 4 && declKinds[f[0]] && f[len(f)-2] == "as" && strings.HasPrefix(f[1], `"`) {
				alias := f[len(f)-1]
				q1 := strings.Index(line, `"`)
				q2 := strings.LastIndex(line, `"`)
				if !isAlias(alias) || q2 <= q1 {
					prob("line", "unreadable-declaration", ln, -1, "unreadable line: %q", line)
					break
				}
				if _, dup := d.Decl[alias]; dup {
					prob("decl", "declared-twice", ln, -1, "participant %s declared twice", alias)
				}
				d.Decl[alias] = line[q1+1 : q2]
				d.DeclKind[alias] = f[0]
				break
			}
			j := strings.Index(line, " : ")
			head, label := line, ""
			if j >= 0 {
				head, label = line[:j], line[j+3:]
			} else if strings.HasSuffix(line, " :") {
				head = line[:len(line)-2]
			} else {
				prob("line", "unreadable-line", ln, -1, "unreadable line: %q", line)
				break
			}
			switch {
			case strings.Contains(head, " -> "):
				p := strings.SplitN(head, " -> ", 2)
				if !isAlias(p[0]) || p[0] != p[1] {
					prob("line", "unreadable-action", ln, -1, "unreadable line: %q", line)
					break
				}
				d.Actions++
				uses = append(uses, use{p[0], ln})
			case strings.Contains(head, "<--"):
				p := strings.SplitN(head, "<--", 2)
				if !(p[0] == "[" || isAlias(p[0])) || !isAlias(p[1]) {
					prob("line", "unreadable-return", ln, -1, "unreadable line: %q", line)
					break
				}
				d.Returns++
				if p[0] != "[" {
					uses = append(uses, use{p[0], ln})
				}
				uses = append(uses, use{p[1], ln})
				cur = sig{kind: "ret", from: p[0], to: p[1]}
			case strings.Contains(head, "->"):
				p := strings.SplitN(head, "->", 2)
				if !(p[0] == "[" || isAlias(p[0])) || !isAlias(p[1]) {
					prob("line", "unreadable-call", ln, -1, "unreadable line: %q", line)
					break
				}
				idx := len(d.Arrows)
				d.Arrows = append(d.Arrows, RArrow{From: p[0], To: p[1], Label: label, Line: ln})
				uses = append(uses, use{p[1], ln})
				cur = sig{kind: "call", from: p[0], to: p[1]}
				lastCall = idx
				if p[0] == "[" {
					if idx != 0 {
						prob("frame", "second-arrow-from-outside", ln, idx, "arrow from `[` is call arrow #%d, not the first", idx)
					}
					break
				}
				if idx == 0 {
					prob("frame", "first-arrow-not-from-outside", ln, idx, "the first call arrow is not sent by `[`")
				}
				uses = append(uses, use{p[0], ln})
				if depth[p[0]] < 1 {
					// the class is refined by the caller (see classifyInactive)
					prob("active", "other", ln, idx, "call arrow %q sent by %s while its activation depth is %d", line, p[0], depth[p[0]])
				}
			default:
				prob("line", "unreadable-line", ln, -1, "unreadable line: %q", line)
			}
		}
		prev2, prev = prev, cur
	}
	if started != 1 || ended != 1 {
		prob("frame", "startuml-enduml-count", 0, -1, "@startuml x%d, @enduml x%d", started, ended)
	}
	if inBox {
		prob("block", "box-not-closed", len(lines), -1, "box not closed at the end")
	}
	if len(blocks) > 0 {
		prob("block", "block-not-closed("+blocks[len(blocks)-1]+")", len(lines), -1, "%d block(s) still open at the end: %v", len(blocks), blocks)
	}
	for _, a := range sortedKeys(depth) {
		if depth[a] != 0 {
			prob("pair", "activation-left-open", len(lines), -1, "participant %s ends with activation depth %d", a, depth[a])
		}
	}
	reported := map[string]bool{}
	for _, u := range uses {
		if _, ok := d.Decl[u.alias]; !ok && !reported[u.alias] {
			reported[u.alias] = true
			prob("decl", "used-not-declared", u.line, -1, "participant %s is used but never declared", u.alias)
		}
	}
	return d
}

func hasWord(line, w string) bool {
	return line == w || strings.HasPrefix(line, w+" ")
}

func firstWord(line string) string {
	if i := strings.IndexByte(line, ' '); i >= 0 {
		return line[:i]
	}
	return line
}

func sortedKeys(m map[string]int) []string {
	ks := make([]string, 0, len(m))
	for k := range m {
		ks = append(ks, k)
	}
	// small maps; insertion sort keeps this dependency-free
	for i := 1; i < len(ks); i++ {
		for j := i; j > 0 && ks[j] < ks[j-1]; j-- {
			ks[j], ks[j-1] = ks[j-1], ks[j]
		}
	}
	return ks
}
