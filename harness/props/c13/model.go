package c13

import (
	"fmt"
	"strings"

	"verif/fw"
)

// ---------------------------------------------------------------------------
// Abstract description of a system whose endpoints form an arbitrary call graph.
// The description is the statement of intent: the reference walk (ref.go) reads only
// this, never the compiled module.
// ---------------------------------------------------------------------------

type Model struct {
	Apps []*App
}

type App struct {
	Name  string // "Alpha" or "Core :: Alpha"
	Tag   string // "", db, ui, external, file, topic (documented: changes the participant shape only)
	Owner string // value of the owner attribute ("" = attribute absent); used by --groupby owner
	Eps   []*Ep
}

type Ep struct {
	Name  string
	Param bool    // rendered with a parameter list
	Stmts []*Stmt // empty: rendered as `Name: ...`
}

// Stmt kinds: call action ret if elseif else for foreach loop while until alt oneof group
type Stmt struct {
	Kind  string
	Text  string
	TApp  int  // call: target application index
	TEp   int  // call: target endpoint index
	Dot   bool // call: written `. <- Ep` (only when TApp is the own application)
	Body  []*Stmt
	Cases []*Case // oneof
}

type Case struct {
	Label string
	Body  []*Stmt
}

type EpKey struct{ A, E int }

func (m *Model) Ep(k EpKey) *Ep         { return m.Apps[k.A].Eps[k.E] }
func (m *Model) KeyName(k EpKey) string { return m.Apps[k.A].Name + " <- " + m.Apps[k.A].Eps[k.E].Name }

func (m *Model) AllEps() []EpKey {
	var out []EpKey
	for a, app := range m.Apps {
		for e := range app.Eps {
			out = append(out, EpKey{a, e})
		}
	}
	return out
}

var blockKinds = []string{"if", "for", "foreach", "loop", "while", "until", "alt", "oneof", "group"}

func isBlock(k string) bool {
	switch k {
	case "call", "action", "ret":
		return false
	}
	return true
}

// bodies returns the nested statement lists of s in source order.
func (s *Stmt) bodies() [][]*Stmt {
	if s.Kind == "oneof" {
		out := make([][]*Stmt, len(s.Cases))
		for i, c := range s.Cases {
			out[i] = c.Body
		}
		return out
	}
	if isBlock(s.Kind) {
		return [][]*Stmt{s.Body}
	}
	return nil
}

// ---------------------------------------------------------------------------
// Generator
// ---------------------------------------------------------------------------

var appNames = []string{"Alpha", "Bravo", "Charlie", "Delta", "Echo", "Foxtrot", "Golf", "Hotel", "India", "Juliet"}
var nsNames = []string{"Core", "Edge", "BackOffice"}
var epNames = []string{"GetItem", "PutItem", "ListItems", "Sync", "Notify", "Compute", "Validate", "Store", "Fetch", "Publish", "Archive", "Resolve"}
var epSpaceNames = []string{"Check Balance", "Read User", "Send Mail Now"}
var words = []string{"check", "stock", "price", "queue", "audit", "cache", "order", "total", "retry", "limit"}
var retTexts = []string{
	"ok <: string",           // primitive: the formatted payload is empty
	"ok <: int",              // primitive
	"ok <: Resp",             // non-empty payload
	"error <: Fault",         // non-empty payload
	"ok <: set of Item",      // non-empty payload
	"ok <: sequence of Item", // non-empty payload
	"ok <: Types.Resp",       // dotted: formatted with colour markup
}

type gen struct {
	dag      bool // call targets only at later endpoints: no cycles, re-expansion only
	primRet  bool // only primitive return types (the formatted return payload is empty)
	r        *fw.Rand
	m        *Model
	maxDepth int
	callW    int // weight of call statements (density)
	maxTop   int
	all      []EpKey
	seq      int
}

// density levels, tried in order until the largest diagram stays under the arrow cap
var densities = []struct{ callW, maxTop, maxDepth int }{
	{40, 4, 3}, {30, 4, 3}, {24, 3, 3}, {18, 3, 2}, {12, 3, 2}, {8, 2, 2}, {5, 2, 1},
}

// ArrowCap bounds the number of call arrows of one diagram (the expansion enumerates
// simple paths and grows exponentially on dense graphs).
const ArrowCap = 1500

// Generate builds a model from the PRNG; level is the density level that was used
// (1 = densest; sparser levels are tried until the largest diagram is under ArrowCap).
func Generate(r *fw.Rand) (m *Model, attempts int) {
	dag := r.Chance(1, 5)
	primRet := r.Chance(1, 2)
	first := r.Intn(3) // start at one of the three densest levels
	for i, d := range densities {
		if i < first {
			continue
		}
		g := &gen{r: r.Fork(), maxDepth: d.maxDepth, callW: d.callW, maxTop: d.maxTop, dag: dag, primRet: primRet}
		m = g.build()
		if m.maxWalk(ArrowCap) <= ArrowCap {
			return m, i + 1
		}
	}
	// last resort: hardly any calls
	g := &gen{r: r.Fork(), maxDepth: 1, callW: 2, maxTop: 1, dag: dag, primRet: primRet}
	return g.build(), len(densities) + 1
}

func (m *Model) maxWalk(cap int) int {
	max := 0
	for _, k := range m.AllEps() {
		w := Walk(m, k, nil, cap)
		if len(w.Arrows) > max {
			max = len(w.Arrows)
		}
		if w.Aborted {
			return cap + 1
		}
	}
	return max
}

func (g *gen) build() *Model {
	r := g.r
	m := &Model{}
	g.m = m
	nApps := []int{1, 2, 2, 3, 3, 3, 4, 4, 4, 5, 5, 6, 6}[r.Intn(13)]
	ap := r.Perm(len(appNames))
	for i := 0; i < nApps; i++ {
		a := &App{Name: appNames[ap[i]]}
		if r.Chance(1, 6) {
			a.Name = nsNames[r.Intn(len(nsNames))] + " :: " + a.Name
		}
		if r.Chance(1, 4) {
			a.Tag = r.Pick([]string{"db", "ui", "external", "file", "topic"})
		}
		if r.Chance(3, 4) {
			a.Owner = fmt.Sprintf("team%d", r.Intn(3))
		}
		nEps := r.Range(1, 4)
		ep := r.Perm(len(epNames))
		for j := 0; j < nEps; j++ {
			e := &Ep{Name: epNames[ep[j]]}
			if r.Chance(1, 10) {
				e.Name = epSpaceNames[r.Intn(len(epSpaceNames))]
				for _, o := range a.Eps {
					if o.Name == e.Name {
						e.Name = epNames[ep[j]]
					}
				}
			}
			e.Param = r.Chance(1, 6)
			a.Eps = append(a.Eps, e)
		}
		m.Apps = append(m.Apps, a)
	}
	g.all = m.AllEps()
	// statements
	withStmts := []EpKey{}
	for _, k := range g.all {
		if len(g.all) > 1 && r.Chance(1, 6) {
			continue // endpoint without statements
		}
		m.Ep(k).Stmts = g.block(k, 0)
		withStmts = append(withStmts, k)
	}
	// planted shapes (random graphs contain them too; planting makes them frequent)
	pick := func() EpKey { return withStmts[r.Intn(len(withStmts))] }
	if len(withStmts) > 0 && g.dag {
		// acyclic plants only: diamond and repeated call along the declaration order
		idx := map[EpKey]int{}
		for i, k := range g.all {
			idx[k] = i
		}
		if len(withStmts) >= 3 && r.Chance(1, 2) {
			a, b, c := pick(), pick(), pick()
			d := g.all[len(g.all)-1]
			if idx[a] < idx[b] && idx[a] < idx[c] && b != c && idx[b] < idx[d] && idx[c] < idx[d] {
				g.plant(a, b)
				g.plant(a, c)
				g.plant(b, d)
				g.plant(c, d)
			}
		}
		if r.Chance(1, 2) {
			a := pick()
			d := g.all[len(g.all)-1]
			if idx[a] < idx[d] {
				g.plant(a, d)
				g.plant(a, d)
			}
		}
	}
	if len(withStmts) > 0 && !g.dag {
		if r.Chance(1, 4) { // self call
			e := pick()
			g.plant(e, e)
		}
		if r.Chance(1, 4) && len(withStmts) >= 2 { // 2-cycle
			e, f := pick(), pick()
			if e != f {
				g.plant(e, f)
				g.plant(f, e)
			}
		}
		if r.Chance(1, 5) && len(withStmts) >= 3 { // 3-cycle
			e, f, h := pick(), pick(), pick()
			if e != f && f != h && e != h {
				g.plant(e, f)
				g.plant(f, h)
				g.plant(h, e)
			}
		}
		if r.Chance(1, 4) && len(withStmts) >= 3 { // diamond
			a, b, c := pick(), pick(), pick()
			d := g.all[r.Intn(len(g.all))]
			if a != b && a != c && b != c && d != a && d != b && d != c {
				g.plant(a, b)
				g.plant(a, c)
				g.plant(b, d)
				g.plant(c, d)
			}
		}
		if r.Chance(1, 3) { // repeated non-recursive call
			a := pick()
			d := g.all[r.Intn(len(g.all))]
			if a != d {
				g.plant(a, d)
				g.plant(a, d)
			}
		}
	}
	return m
}

func (g *gen) phrase() string {
	g.seq++
	return fmt.Sprintf("%s %s %d", words[g.r.Intn(len(words))], words[g.r.Intn(len(words))], g.seq)
}

// target picks a callee: any endpoint, or (dag style) an endpoint later in declaration
// order (the last endpoint then calls nothing: an action is generated instead).
func (g *gen) target(from EpKey) EpKey {
	if !g.dag {
		return g.all[g.r.Intn(len(g.all))]
	}
	idx := 0
	for i, k := range g.all {
		if k == from {
			idx = i
		}
	}
	if idx == len(g.all)-1 {
		return EpKey{-1, -1}
	}
	return g.all[g.r.Range(idx+1, len(g.all)-1)]
}

func (g *gen) callTo(from EpKey, to EpKey) *Stmt {
	if to.A < 0 {
		return &Stmt{Kind: "action", Text: g.phrase()}
	}
	s := &Stmt{Kind: "call", TApp: to.A, TEp: to.E}
	if to.A == from.A && g.r.Chance(1, 2) {
		s.Dot = true
	}
	return s
}

func (g *gen) block(k EpKey, depth int) []*Stmt {
	max := g.maxTop - depth
	if max < 1 {
		max = 1
	}
	n := g.r.Range(1, max)
	var out []*Stmt
	for i := 0; i < n; i++ {
		out = append(out, g.stmt(k, depth)...)
	}
	return out
}

func (g *gen) stmt(k EpKey, depth int) []*Stmt {
	r := g.r
	blockW := 40
	if depth >= g.maxDepth {
		blockW = 0
	}
	x := r.Intn(g.callW + 15 + 9 + blockW)
	switch {
	case x < g.callW:
		return []*Stmt{g.callTo(k, g.target(k))}
	case x < g.callW+15:
		t := g.phrase()
		if r.Chance(1, 6) {
			t = `"` + t + `"`
		}
		return []*Stmt{{Kind: "action", Text: t}}
	case x < g.callW+15+9:
		if g.primRet {
			return []*Stmt{{Kind: "ret", Text: retTexts[r.Intn(2)]}}
		}
		return []*Stmt{{Kind: "ret", Text: retTexts[r.Intn(len(retTexts))]}}
	}
	switch y := r.Intn(40); {
	case y < 11:
		out := []*Stmt{{Kind: "if", Text: g.phrase(), Body: g.block(k, depth+1)}}
		for r.Chance(1, 3) && len(out) < 3 {
			out = append(out, &Stmt{Kind: "elseif", Text: g.phrase(), Body: g.block(k, depth+1)})
		}
		if r.Chance(1, 2) {
			out = append(out, &Stmt{Kind: "else", Body: g.block(k, depth+1)})
		}
		return out
	case y < 28:
		kind := []string{"for", "foreach", "loop", "while", "until", "alt"}[r.Intn(6)]
		return []*Stmt{{Kind: kind, Text: g.phrase(), Body: g.block(k, depth+1)}}
	case y < 35:
		s := &Stmt{Kind: "oneof"}
		n := r.Range(1, 3)
		for i := 0; i < n; i++ {
			s.Cases = append(s.Cases, &Case{Label: fmt.Sprintf("%s %d", words[r.Intn(len(words))], i), Body: g.block(k, depth+1)})
		}
		return []*Stmt{s}
	default:
		return []*Stmt{{Kind: "group", Text: "grp " + g.phrase(), Body: g.block(k, depth+1)}}
	}
}

// plant inserts a call from -> to at a random legal position of a random statement list
// of `from` (top level or any nested body). A position directly before an else-if / else
// is not legal (it would detach the else from its if).
func (g *gen) plant(from, to EpKey) {
	ep := g.m.Ep(from)
	var lists []*[]*Stmt
	var collect func(l *[]*Stmt)
	collect = func(l *[]*Stmt) {
		lists = append(lists, l)
		for _, s := range *l {
			if s.Kind == "oneof" {
				for _, c := range s.Cases {
					collect(&c.Body)
				}
			} else if isBlock(s.Kind) {
				collect(&s.Body)
			}
		}
	}
	collect(&ep.Stmts)
	l := lists[g.r.Intn(len(lists))]
	var pos []int
	for i := 0; i <= len(*l); i++ {
		if i < len(*l) && ((*l)[i].Kind == "elseif" || (*l)[i].Kind == "else") {
			continue
		}
		pos = append(pos, i)
	}
	p := pos[g.r.Intn(len(pos))]
	c := g.callTo(from, to)
	nl := make([]*Stmt, 0, len(*l)+1)
	nl = append(nl, (*l)[:p]...)
	nl = append(nl, c)
	nl = append(nl, (*l)[p:]...)
	*l = nl
}

// ---------------------------------------------------------------------------
// Renderer (4-space indentation)
// ---------------------------------------------------------------------------

func Render(m *Model) string {
	var b strings.Builder
	ln := func(level int, s string) {
		b.WriteString(strings.Repeat("    ", level))
		b.WriteString(s)
		b.WriteByte('\n')
	}
	var stmts func(level int, a int, ss []*Stmt)
	stmts = func(level int, a int, ss []*Stmt) {
		for _, s := range ss {
			switch s.Kind {
			case "call":
				t := m.Apps[s.TApp].Name
				if s.Dot {
					t = "."
				}
				ln(level, t+" <- "+m.Apps[s.TApp].Eps[s.TEp].Name)
			case "action":
				ln(level, s.Text)
			case "ret":
				ln(level, "return "+s.Text)
			case "if":
				ln(level, "if "+s.Text+":")
				stmts(level+1, a, s.Body)
			case "elseif":
				ln(level, "else if "+s.Text+":")
				stmts(level+1, a, s.Body)
			case "else":
				ln(level, "else:")
				stmts(level+1, a, s.Body)
			case "for", "loop", "while", "until", "alt":
				ln(level, s.Kind+" "+s.Text+":")
				stmts(level+1, a, s.Body)
			case "foreach":
				ln(level, "for each "+s.Text+":")
				stmts(level+1, a, s.Body)
			case "oneof":
				ln(level, "one of:")
				for _, c := range s.Cases {
					ln(level+1, c.Label+":")
					stmts(level+2, a, c.Body)
				}
			case "group":
				ln(level, s.Text+":")
				stmts(level+1, a, s.Body)
			}
		}
	}
	for ai, a := range m.Apps {
		head := a.Name
		var attrs []string
		if a.Tag != "" {
			attrs = append(attrs, "~"+a.Tag)
		}
		if a.Owner != "" {
			attrs = append(attrs, `owner="`+a.Owner+`"`)
		}
		if len(attrs) > 0 {
			head += " [" + strings.Join(attrs, ", ") + "]"
		}
		ln(0, head+":")
		for _, e := range a.Eps {
			h := e.Name
			if e.Param {
				h += " (id <: int)"
			}
			if len(e.Stmts) == 0 {
				ln(1, h+": ...")
				continue
			}
			ln(1, h+":")
			stmts(2, ai, e.Stmts)
		}
		ln(0, "")
	}
	return b.String()
}

// ---------------------------------------------------------------------------
// Measurement of what the generated graph contains (evidence, floors)
// ---------------------------------------------------------------------------

type Shapes struct {
	Set       map[string]bool
	Calls     int
	Nested    int
	EpsWith   int
	EpsNoStmt int
	MaxDepth  int
}

func Measure(m *Model) Shapes {
	sh := Shapes{Set: map[string]bool{}}
	all := m.AllEps()
	adj := map[EpKey]map[EpKey]bool{}
	for _, k := range all {
		adj[k] = map[EpKey]bool{}
		ep := m.Ep(k)
		if len(ep.Stmts) == 0 {
			sh.EpsNoStmt++
			continue
		}
		sh.EpsWith++
		count := map[EpKey]int{}
		sawRet := false
		var walk func(ss []*Stmt, depth int, parent string, lastChain bool)
		walk = func(ss []*Stmt, depth int, parent string, lastChain bool) {
			if depth > sh.MaxDepth {
				sh.MaxDepth = depth
			}
			for i, s := range ss {
				last := lastChain && i == len(ss)-1
				switch s.Kind {
				case "call":
					t := EpKey{s.TApp, s.TEp}
					adj[k][t] = true
					count[t]++
					sh.Calls++
					if sawRet {
						sh.Set["call-after-return"] = true
					}
					if depth > 0 {
						sh.Nested++
						sh.Set["nested-in-"+parent] = true
						sh.Set[fmt.Sprintf("call-depth-%d", depth)] = true
					}
					if last {
						if depth > 0 {
							sh.Set["call-last-nested"] = true
						} else {
							sh.Set["call-last"] = true
						}
					}
					if s.Dot {
						sh.Set["dot-call"] = true
					}
					if len(m.Ep(t).Stmts) == 0 {
						sh.Set["call-to-ep-without-stmts"] = true
					}
				case "ret":
					pos := "middle"
					if i == 0 {
						pos = "first"
					}
					if i == len(ss)-1 {
						pos = "last"
					}
					if depth == 0 {
						sh.Set["return-top-"+pos] = true
					} else {
						sh.Set["return-in-nested"] = true
						sh.Set["return-in-"+parent] = true
						if lastChain {
							sh.Set["return-in-nested-last"] = true
						}
					}
					sawRet = true
				case "action":
				default:
					if s.Kind == "oneof" {
						for j, c := range s.Cases {
							// only the last case continues the "last statement" chain
							walk(c.Body, depth+1, "oneof", last && j == len(s.Cases)-1)
							if j > 0 {
								sh.Set["oneof-multi"] = true
							}
						}
					} else {
						walk(s.Body, depth+1, s.Kind, last)
					}
				}
			}
		}
		walk(ep.Stmts, 0, "", true)
		for t, n := range count {
			if n >= 2 && t != k {
				sh.Set["repeat-call"] = true
			}
		}
	}
	for _, e := range all {
		if adj[e][e] {
			sh.Set["self-call"] = true
		}
		for f := range adj[e] {
			if f == e {
				continue
			}
			if adj[f][e] {
				sh.Set["2-cycle"] = true
			}
			for h := range adj[f] {
				if h == e || h == f {
					continue
				}
				if adj[h][e] {
					sh.Set["3-cycle"] = true
				}
			}
			// diamond: e -> f, e -> c, f -> d, c -> d
			for c := range adj[e] {
				if c == e || c == f {
					continue
				}
				for d := range adj[f] {
					if d != e && d != f && d != c && adj[c][d] {
						sh.Set["diamond"] = true
					}
				}
			}
		}
	}
	return sh
}
