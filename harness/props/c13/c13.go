// Package c13: sequence diagrams terminate, are well-formed and follow the call tree.
//
// Workload: generated models whose endpoints form arbitrary call graphs (model.go),
// compiled by the real parser; the real `sysl sd` library path
// (sequencediagram.DoConstructSequenceDiagrams, the function the command calls) is run
// in-process for every endpoint as the start and several option sets.
// Oracles: a PlantUML-sequence reader (reader.go) and a reference walk over the
// generator's own description (ref.go).
//
// Known defect of the pinned tree found by this check (signature
// `read|active|after-deactivate-on-return-of-in-progress-call`): in
// pkg/cmdutils/visitor.go visitEndpoint, a call to an endpoint that is already in progress
// (recursion cut, upto == nil) and has a non-primitive return payload runs
// v.w.Deactivate(agent) without a preceding Activate; the activation of the expansion still
// in progress is closed and the participant then sends calls while inactive. Reproducer:
//
//	A:
//	    E1:
//	        . <- E1
//	        B <- F1
//	        return ok <: Resp
//	B:
//	    F1:
//	        return ok <: string
//
// with `sysl sd -s "A <- E1"`. Smallest repair: call v.w.Deactivate(agent) in that branch
// only `if upto != nil`.
package c13

import (
	"fmt"
	"io"
	"os"
	"path/filepath"
	"runtime/debug"
	"sort"
	"strings"
	"sync"

	"github.com/anz-bank/sysl/pkg/cmdutils"
	"github.com/anz-bank/sysl/pkg/parse"
	"github.com/anz-bank/sysl/pkg/sequencediagram"
	"github.com/anz-bank/sysl/pkg/sysl"
	"github.com/sirupsen/logrus"
	"github.com/spf13/afero"

	"verif/fw"
)

type prop struct{}

func init() { fw.Register(prop{}) }

func (prop) ID() string { return "C13" }

func (prop) Cases(tier string) int {
	if tier == "thorough" {
		return 15000
	}
	return 300
}

func (prop) Info() fw.Info {
	return fw.Info{
		Level: "exploration",
		Rule:  "case i = one random model from PRNG(seed,i): 1-6 applications x 1-4 simple endpoints whose statements are calls (`App <- Ep`, `. <- Ep`), actions and returns at any position, nested to depth <= 3 in if / else if / else, for, for each, loop, while, until, alt, `one of` cases and groups; random call edges plus planted self calls, 2- and 3-cycles, diamonds and repeated calls; some endpoints without statements; all calls resolve. The model is compiled by the real parser and the sequence diagram is generated in-process (the `sysl sd` library path) for EVERY endpoint as the start x {no options; 0-2 blackbox targets; --groupby owner; blackboxes and groupby}. Each diagram is read line by line by an independent PlantUML-sequence reader (declarations, activation pairing, senders active, blocks closed) and its call arrows are compared with a reference walk of the generator's description. Non-trivial: >= 3 call statements and (a call cycle or a call nested in a block); distinct by hash of the model text.",
		Assumptions: []string{
			"the real parser turns the rendered text into the module the description means (that is property C02's subject); a divergence would show here as an arrow mismatch",
			"`participant <alias>` inside `box ... end box` places an already declared participant and is not a second declaration (this is how --groupby is written by design); head lines `<kind> \"label\" as <alias>` are the declarations",
			"the diagram's initial caller `[` is not a participant and is exempt from the sender-is-active rule",
			"~human / ~cron applications and ~hidden endpoints are not generated: their effect on arrows and activation bars is not documented (docs only document the participant shape), so no expectation can be stated; shape-only tags ~db ~ui ~external ~file ~topic are generated",
			"one start endpoint per diagram; endpoint and application labels use the default formats %(epname) / %(appname)",
			"diagrams are capped at 1500 call arrows by regenerating sparser models (the expansion enumerates simple paths)",
		},
		CaseTimeout: 120,
		MaxRSSMB:    1536,
		SetFloors:   map[string]int{"shapes": 25},
		CountFloors: map[string]int{
			"diagrams": 1000, "arrows_checked": 5000, "activations_checked": 3000, "blocks_checked": 1000,
			"inprogress_cuts": 100, "reexpansions": 100, "blackbox_hits": 50,
			"models_self_call": 5, "models_2_cycle": 5, "models_3_cycle": 3, "models_diamond": 3, "models_repeat_call": 5,
			"models_return_in_nested_last": 3,
		},
	}
}

// Compile runs the real parser over one in-memory file.
func Compile(text string) (*sysl.Module, error) {
	fs := afero.NewMemMapFs()
	_ = afero.WriteFile(fs, "model.sysl", []byte(text), 0o644)
	return parse.NewParser().ParseFromFs("model.sysl", fs)
}

type OptSet struct {
	Name  string
	BB    []EpKey
	Group bool
}

const bbComment = "black box"

// Diagram generates one diagram through the function `sysl sd` calls.
func GenDiagram(mod *sysl.Module, m *Model, start EpKey, o OptSet, logger *logrus.Logger) (string, error) {
	p := &cmdutils.CmdContextParamSeqgen{
		EndpointFormat: "%(epname)",
		AppFormat:      "%(appname)",
		Output:         "out.puml",
		EndpointsFlag:  []string{m.KeyName(start)},
		BlackboxesFlag: map[string]string{},
	}
	for _, k := range o.BB {
		p.BlackboxesFlag[m.KeyName(k)] = bbComment
	}
	if o.Group {
		p.Group = "owner"
	}
	out, err := sequencediagram.DoConstructSequenceDiagrams(p, mod, logger)
	if err != nil {
		return "", err
	}
	return out["out.puml"], nil
}

func commandLine(m *Model, start EpKey, o OptSet) string {
	s := fmt.Sprintf("sysl sd -o out.puml -s %q", m.KeyName(start))
	for _, k := range o.BB {
		s += fmt.Sprintf(" -b %q", m.KeyName(k)+"="+bbComment)
	}
	if o.Group {
		s += " -g owner"
	}
	return s + " model.sysl"
}

func optionSets(r *fw.Rand, m *Model, start EpKey) []OptSet {
	reach := Reachable(m, start)
	inReach := map[EpKey]bool{start: true}
	for _, k := range reach {
		inReach[k] = true
	}
	pickBB := func() []EpKey {
		n := r.Range(0, 2)
		var out []EpKey
		if n == 0 || len(reach) == 0 {
			// a blackbox that is given but never met
			for _, k := range m.AllEps() {
				if !inReach[k] {
					out = append(out, k)
					break
				}
			}
			return out
		}
		p := r.Perm(len(reach))
		for i := 0; i < n && i < len(p); i++ {
			out = append(out, reach[p[i]])
		}
		return out
	}
	return []OptSet{
		{Name: "plain"},
		{Name: "blackbox", BB: pickBB()},
		{Name: "groupby", Group: true},
		{Name: "blackbox+groupby", BB: pickBB(), Group: true},
	}
}

func arrowsText(as [][3]string, kinds []string) string {
	var b strings.Builder
	for i, a := range as {
		fmt.Fprintf(&b, "%4d  %s -> %s : %s", i, a[0], a[1], a[2])
		if kinds != nil && i < len(kinds) {
			fmt.Fprintf(&b, "    (%s)", kinds[i])
		}
		b.WriteByte('\n')
	}
	return b.String()
}

var guardOnce sync.Once

// resourceGuard lowers the goroutine stack limit of this worker process. A broken
// recursion cut recurses without end and every level indents the output by one more
// column, so memory grows quadratically with depth long before the default 1 GB stack is
// exhausted. With a 4 MB limit the runaway dies promptly as `fatal error: stack overflow`
// (attributed to the case by the driver); legitimate expansions are at most as deep as
// the model has endpoints (<= 24). The framework's RSS watchdog (Info.MaxRSSMB) is the
// second net. Neither takes part in a verdict on a terminating run.
func resourceGuard() {
	guardOnce.Do(func() { debug.SetMaxStack(4 << 20) })
}

func (prop) Run(ctx *fw.Ctx, i int) fw.Result {
	resourceGuard()
	r := ctx.Rng()
	m, attempts := Generate(r.Fork())
	text := Render(m)
	res := fw.Result{Hash: fw.HashOf(text)}
	_ = os.WriteFile(filepath.Join(ctx.Dir, "model.sysl"), []byte(text), 0o644)

	sh := Measure(m)
	hasCycle := sh.Set["self-call"] || sh.Set["2-cycle"] || sh.Set["3-cycle"]
	res.NonTrivial = sh.Calls >= 3 && (hasCycle || sh.Nested > 0)
	shapes := make([]string, 0, len(sh.Set))
	for k := range sh.Set {
		shapes = append(shapes, k)
		res.Add("shapes", k)
	}
	sort.Strings(shapes)
	for _, k := range []string{"self-call", "2-cycle", "3-cycle", "diamond", "repeat-call", "return-in-nested-last"} {
		if sh.Set[k] {
			res.Count("models_"+strings.ReplaceAll(k, "-", "_"), 1)
		}
	}
	res.Count("call_statements", sh.Calls)
	res.Count("nested_call_statements", sh.Nested)
	res.Count("endpoints_without_statements", sh.EpsNoStmt)
	res.Add("density_level", fmt.Sprint(attempts))
	res.Sample = map[string]any{"case": i, "apps": len(m.Apps), "endpoints": len(m.AllEps()), "calls": sh.Calls,
		"shapes": shapes, "text_head": head(text, 30)}

	files := map[string]string{"model.sysl": text}
	var mod *sysl.Module
	var err error
	if pi := fw.Guard(func() { mod, err = Compile(text) }); pi != nil {
		res.Violate(fw.CrashSig("panic", pi.Value, pi.Stack), "parser panicked on a generated model: "+pi.Value, merge(files, "stack.txt", pi.Stack))
		return res
	}
	if err != nil {
		// the models are well-formed by construction; a rejection means the generator (or
		// the parser) is wrong and nothing about diagrams was observed
		res.Verdict = "inconclusive"
		res.Note = "parser rejected the generated model: " + err.Error()
		res.NonTrivial = false
		return res
	}

	logger := logrus.New()
	logger.SetOutput(io.Discard)
	sigSeen := map[string]bool{}
	violate := func(sig, msg string, extra map[string]string) {
		if sigSeen[sig] || len(sigSeen) >= 4 {
			return
		}
		sigSeen[sig] = true
		f := map[string]string{}
		for k, v := range files {
			f[k] = v
		}
		for k, v := range extra {
			f[k] = v
		}
		res.Violate(sig, msg, f)
	}

	for _, start := range m.AllEps() {
		for _, o := range optionSets(r, m, start) {
			cmd := commandLine(m, start, o)
			_ = os.WriteFile(filepath.Join(ctx.Dir, "command.txt"), []byte(cmd+"\n"), 0o644)
			bb := map[EpKey]bool{}
			for _, k := range o.BB {
				if k != start {
					bb[k] = true
				}
			}
			ref := Walk(m, start, bb, ArrowCap*4)
			if ref.Aborted {
				res.Count("diagrams_skipped_over_arrow_cap", 1)
				continue
			}
			var out string
			pi := fw.Guard(func() { out, err = GenDiagram(mod, m, start, o, logger) })
			res.Count("diagrams", 1)
			res.Add("option_sets", o.Name)
			extra := map[string]string{"command.txt": cmd + "\n"}
			if pi != nil {
				extra["stack.txt"] = pi.Stack
				violate(fw.CrashSig("panic", pi.Value, pi.Stack), "sequence diagram generation panicked ("+cmd+"): "+pi.Value, extra)
				continue
			}
			if err != nil {
				violate("error|"+fw.MsgClass(err.Error()), "sequence diagram generation failed on a model whose calls all resolve ("+cmd+"): "+err.Error(), extra)
				continue
			}
			extra["diagram.puml"] = out
			if out == "" {
				violate("empty-diagram", "no diagram text was returned ("+cmd+")", extra)
				continue
			}

			// Oracle 1: the reader
			d := ReadDiagram(out)
			res.Count("arrows_checked", len(d.Arrows))
			res.Count("activations_checked", d.Activations)
			res.Count("blocks_checked", d.Blocks)
			res.Count("else_branches_checked", d.Elses)
			res.Count("returns_read", d.Returns)
			res.Count("box_members_checked", d.BoxMembers)
			res.Count("notes_read", d.Notes)
			for _, k := range d.DeclKind {
				res.Add("participant_kinds", k)
			}
			if d.MaxDepth >= 2 {
				res.Count("diagrams_activation_depth_ge2", 1)
			}

			// Oracle 2: the reference walk
			got := make([][3]string, len(d.Arrows))
			for j, a := range d.Arrows {
				from := "["
				if a.From != "[" {
					from = labelOf(d, a.From)
				}
				got[j] = [3]string{from, labelOf(d, a.To), a.Label}
			}
			want := make([][3]string, len(ref.Arrows))
			kinds := make([]string, len(ref.Arrows))
			for j, a := range ref.Arrows {
				want[j] = [3]string{a.From, a.To, a.Ep}
				kinds[j] = a.Kind
			}
			res.Count("inprogress_cuts", ref.Cuts)
			res.Count("reexpansions", ref.Reexp)
			res.Count("blackbox_hits", ref.BBHits)
			res.Count("calls_to_endpoints_without_statements", ref.Leaves)
			if ref.MaxStack >= 3 {
				res.Count("diagrams_expansion_depth_ge3", 1)
			}
			firstDiff := -1
			for j := 0; j < len(got) || j < len(want); j++ {
				if j >= len(got) || j >= len(want) || got[j] != want[j] {
					firstDiff = j
					break
				}
			}

			for _, p := range d.Problems {
				class := p.Class
				if p.Rule == "active" {
					class = classifyInactive(d, ref, p, firstDiff)
				}
				pe := merge(extra, "problems.txt", problemsText(d))
				violate("read|"+p.Rule+"|"+class, fmt.Sprintf("%s: diagram line %d: %s", cmd, p.Line, p.Msg), pe)
			}
			if firstDiff >= 0 {
				how := "differs"
				if firstDiff >= len(got) {
					how = "missing"
				} else if firstDiff >= len(want) {
					how = "extra"
				}
				after := "start"
				if firstDiff > 0 && firstDiff-1 < len(kinds) {
					after = kinds[firstDiff-1]
				}
				g, w := "<none>", "<none>"
				if firstDiff < len(got) {
					g = fmt.Sprintf("%s -> %s : %s (line %d)", got[firstDiff][0], got[firstDiff][1], got[firstDiff][2], d.Arrows[firstDiff].Line)
				}
				if firstDiff < len(want) {
					w = fmt.Sprintf("%s -> %s : %s", want[firstDiff][0], want[firstDiff][1], want[firstDiff][2])
				}
				pe := merge(extra, "expected_arrows.txt", arrowsText(want, kinds))
				pe["actual_arrows.txt"] = arrowsText(got, nil)
				violate("arrows|"+how+"-after-"+after,
					fmt.Sprintf("%s: call arrow #%d is %s, the call tree says %s (%d arrows drawn, %d expected)", cmd, firstDiff, g, w, len(got), len(want)), pe)
			}
		}
	}
	return res
}

// classifyInactive gives the sender-not-active violation its trigger class. The narrow
// class applies when, before the offending arrow, the same participant was deactivated
// right after the return arrow of a call that the reference walk says was an in-progress
// call (shown, not expanded) — i.e. the callee was never activated for that call, so the
// deactivation consumed an activation belonging to an expansion still in progress.
func classifyInactive(d *Diagram, ref *RefWalk, p Problem, firstDiff int) string {
	if p.Arrow < 0 || p.Arrow >= len(d.Arrows) {
		return "other"
	}
	sender := d.Arrows[p.Arrow].From
	for _, u := range d.Unpaired {
		if u.Alias != sender || u.Arrow < 0 || u.Arrow >= p.Arrow || u.Arrow >= len(ref.Arrows) {
			continue
		}
		if firstDiff >= 0 && firstDiff <= u.Arrow {
			continue // the reference does not describe that arrow
		}
		if ref.Arrows[u.Arrow].Kind == "cut" {
			return "after-deactivate-on-return-of-in-progress-call"
		}
	}
	return "other"
}

func labelOf(d *Diagram, alias string) string {
	if l, ok := d.Decl[alias]; ok {
		return l
	}
	return "?" + alias
}

func problemsText(d *Diagram) string {
	var b strings.Builder
	for _, p := range d.Problems {
		fmt.Fprintf(&b, "line %d [%s|%s] %s\n", p.Line, p.Rule, p.Class, p.Msg)
	}
	return b.String()
}

func merge(m map[string]string, k, v string) map[string]string {
	out := map[string]string{k: v}
	for a, b := range m {
		out[a] = b
	}
	return out
}

func head(s string, n int) string {
	ls := strings.Split(s, "\n")
	if len(ls) > n {
		ls = ls[:n]
	}
	return strings.Join(ls, "\n")
}
