package c13

// Reference walk over the generator's call-graph description (never over the compiled
// module, never through the code under test).
//
// Rule (property statement + `sysl sd` documentation): starting at the start endpoint,
// the diagram shows one call arrow per call statement met, depth-first in source order
// through every statement kind. After its arrow a callee is expanded (its own statements
// are walked) unless
//   * it has no statements,
//   * it is a blackbox target (`-b "App <- Ep=text"`): shown, not expanded,
//   * its `App <- Ep` is already in progress on the current expansion stack: shown, not
//     expanded again.
// A callee that has finished is expanded again at its next call.

type RefArrow struct {
	From, To, Ep string // application names ("[" for the diagram's initial caller)
	Kind         string // expanded | reexpanded | cut | blackbox | leaf
}

type RefWalk struct {
	Arrows   []RefArrow
	Cuts     int // in-progress calls shown but not expanded
	Reexp    int // finished callees expanded again
	BBHits   int
	Leaves   int
	MaxStack int
	Aborted  bool // arrow cap exceeded
}

func Walk(m *Model, start EpKey, bb map[EpKey]bool, cap int) *RefWalk {
	w := &RefWalk{}
	inprog := map[EpKey]bool{}
	done := map[EpKey]bool{}
	depth := 0
	var visit func(from string, k EpKey)
	var stmts func(k EpKey, ss []*Stmt)
	stmts = func(k EpKey, ss []*Stmt) {
		for _, s := range ss {
			if w.Aborted {
				return
			}
			switch {
			case s.Kind == "call":
				visit(m.Apps[k.A].Name, EpKey{s.TApp, s.TEp})
			case s.Kind == "oneof":
				for _, c := range s.Cases {
					stmts(k, c.Body)
				}
			case isBlock(s.Kind):
				stmts(k, s.Body)
			}
		}
	}
	visit = func(from string, k EpKey) {
		if len(w.Arrows) >= cap {
			w.Aborted = true
			return
		}
		idx := len(w.Arrows)
		w.Arrows = append(w.Arrows, RefArrow{From: from, To: m.Apps[k.A].Name, Ep: m.Ep(k).Name})
		ep := m.Ep(k)
		switch {
		case len(ep.Stmts) == 0:
			w.Arrows[idx].Kind = "leaf"
			w.Leaves++
			return
		case bb[k]:
			w.Arrows[idx].Kind = "blackbox"
			w.BBHits++
			return
		case inprog[k]:
			w.Arrows[idx].Kind = "cut"
			w.Cuts++
			return
		}
		if done[k] {
			w.Arrows[idx].Kind = "reexpanded"
			w.Reexp++
		} else {
			w.Arrows[idx].Kind = "expanded"
		}
		inprog[k] = true
		depth++
		if depth > w.MaxStack {
			w.MaxStack = depth
		}
		stmts(k, ep.Stmts)
		depth--
		delete(inprog, k)
		done[k] = true
	}
	visit("[", start)
	return w
}

// Reachable returns the endpoints called (directly or not) from start, in first-seen
// order, excluding start itself.
func Reachable(m *Model, start EpKey) []EpKey {
	seen := map[EpKey]bool{start: true}
	var out []EpKey
	var stmts func(ss []*Stmt)
	var visit func(k EpKey)
	stmts = func(ss []*Stmt) {
		for _, s := range ss {
			if s.Kind == "call" {
				visit(EpKey{s.TApp, s.TEp})
			}
			for _, b := range s.bodies() {
				stmts(b)
			}
		}
	}
	visit = func(k EpKey) {
		if seen[k] {
			return
		}
		seen[k] = true
		out = append(out, k)
		stmts(m.Ep(k).Stmts)
	}
	stmts(m.Ep(start).Stmts)
	return out
}
