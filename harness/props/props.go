// Package props links every property package into the vcheck binary.
package props

import (
	_ "verif/props/c02"
	_ "verif/props/c03"
)
