// Package props links every property package into the vcheck binary.
package props

import (
	_ "verif/props/c01"
	_ "verif/props/c02"
	_ "verif/props/c03"
	_ "verif/props/c04"
	_ "verif/props/c05"
	_ "verif/props/c06"
	_ "verif/props/c07"
	_ "verif/props/c08"
	_ "verif/props/c09"
	_ "verif/props/c10"
	_ "verif/props/c11"
	_ "verif/props/c12"
	_ "verif/props/c13"
	_ "verif/props/c14"
	_ "verif/props/c15"
	_ "verif/props/c16"
	_ "verif/props/c17"
	_ "verif/props/c18"
	_ "verif/props/c19"
	_ "verif/props/c20"
)
