package c14

import (
	"fmt"
	"sort"
	"strings"

	"verif/fw"
)

// ---------------------------------------------------------------------------
// The description: this is the statement of intent. Everything the oracle expects is
// computed from these structs, never from the compiled model.
// ---------------------------------------------------------------------------

type stmt struct {
	kind  string // call action ret if else for foreach loop while until alt oneof group
	text  string
	body  []*stmt
	cases [][]*stmt // oneof
	tgt   int       // call: index of the target application
	ep    string    // call: target endpoint
	dot   bool      // call to the own application written ". <- ep"
}

type endpoint struct {
	name   string
	hidden bool
	stmts  []*stmt
}

type app struct {
	name  string // full name, namespace parts joined by " :: "
	human bool
	eps   []*endpoint
}

type view struct {
	name        string
	listed      []string
	exclude     []string // `exclude=[...]` attribute of the project endpoint
	passthrough []string // `passthrough=[...]` attribute of the project endpoint
	planted     string   // which shape the generator planted on purpose ("" = none)
}

type model struct {
	apps       []*app
	project    string
	projAttrs  string
	views      []*view
	cliExclude []string // --exclude / -e
}

// blockKinds are the statement kinds a call can be nested in.
var blockKinds = []string{"if", "else", "for", "foreach", "loop", "while", "until", "alt", "oneof", "group"}

// one call statement of the description, with the kinds of all enclosing statements.
type call struct {
	src, srcEp string
	tgt, tgtEp string
	under      []string
}

func (m *model) appByName(n string) *app {
	for _, a := range m.apps {
		if a.name == n {
			return a
		}
	}
	return nil
}

func (a *app) ep(n string) *endpoint {
	for _, e := range a.eps {
		if e.name == n {
			return e
		}
	}
	return nil
}

// calls extracts the call multigraph from the description (all nesting levels).
func (m *model) calls() []*call {
	var out []*call
	var walk func(a *app, e *endpoint, ss []*stmt, under []string)
	walk = func(a *app, e *endpoint, ss []*stmt, under []string) {
		for _, s := range ss {
			switch s.kind {
			case "call":
				out = append(out, &call{src: a.name, srcEp: e.name, tgt: m.apps[s.tgt].name, tgtEp: s.ep,
					under: append([]string(nil), under...)})
			case "oneof":
				u := append(append([]string(nil), under...), "oneof")
				for _, c := range s.cases {
					walk(a, e, c, u)
				}
			case "action", "ret":
			default:
				walk(a, e, s.body, append(append([]string(nil), under...), s.kind))
			}
		}
	}
	for _, a := range m.apps {
		for _, e := range a.eps {
			walk(a, e, e.stmts, nil)
		}
	}
	return out
}

// ---------------------------------------------------------------------------
// Generator
// ---------------------------------------------------------------------------

var leafPool = []string{"Alpha", "Bravo", "Cargo", "Delta", "Ember", "Fjord", "Gamma", "Harbor", "Index", "Jumbo", "Kappa", "Ledger"}
var nsPool = []string{"Org", "Org :: Team", "Ext", "Core :: Pay"}
var epPool = []string{"fetch", "store", "sync", "notify", "audit", "check", "submit"}

type gen struct {
	r     *fw.Rand
	m     *model
	quiet bool // while planting: sibling blocks contain no further calls
}

func build(r *fw.Rand) *model {
	g := &gen{r: r, m: &model{}}
	m := g.m
	n := r.Range(2, 8)
	perm := r.Perm(len(leafPool))
	useNs := r.Chance(1, 2)
	var prefixes []string
	if useNs {
		pp := r.Perm(len(nsPool))
		for i := 0; i < r.Range(1, 2); i++ {
			prefixes = append(prefixes, nsPool[pp[i]])
		}
	}
	humans := 0
	for i := 0; i < n; i++ {
		a := &app{name: leafPool[perm[i]]}
		if useNs && r.Chance(3, 5) {
			a.name = r.Pick(prefixes) + " :: " + a.name
		}
		if r.Chance(1, 10) && n-humans > 2 {
			a.human = true
			humans++
		}
		ep := r.Perm(len(epPool))
		for k := 0; k < r.Range(1, 3); k++ {
			a.eps = append(a.eps, &endpoint{name: epPool[ep[k]], hidden: r.Chance(1, 8)})
		}
		m.apps = append(m.apps, a)
	}
	// at least two non-human applications (humans are never listed)
	for _, a := range m.apps {
		if n-humans >= 2 {
			break
		}
		if a.human {
			a.human = false
			humans--
		}
	}
	for _, a := range m.apps {
		for _, e := range a.eps {
			if r.Chance(1, 6) {
				continue // empty endpoint, rendered "..."
			}
			e.stmts = g.block(0, a)
		}
	}

	m.project = "Project"
	if r.Chance(1, 4) {
		m.project = "IntViews"
	}
	switch r.Intn(7) {
	case 0, 1:
		m.projAttrs = ` [appfmt="%(appname)"]`
	case 2, 3:
		m.projAttrs = ` [appfmt="%(appname)", title="Integrations %(epname)"]`
	case 4:
		// arrows between two applications that are both not listed are then left out
		m.projAttrs = ` [indirect_arrow_color="none"]`
	}

	var nonHuman []string
	for _, a := range m.apps {
		if !a.human {
			nonHuman = append(nonHuman, a.name)
		}
	}
	listedAnywhere := map[string]bool{}
	nv := r.Range(1, 3)
	for v := 0; v < nv; v++ {
		vw := &view{name: fmt.Sprintf("view%d", v)}
		if !r.Chance(1, 40) { // rarely: an endpoint listing nothing
			k := 1
			switch r.Intn(4) {
			case 0:
				k = 1
			case 1, 2:
				k = r.Range(1, len(nonHuman))
			case 3:
				k = r.Range((len(nonHuman)+1)/2, len(nonHuman))
			}
			p := r.Perm(len(nonHuman))
			for i := 0; i < k; i++ {
				vw.listed = append(vw.listed, nonHuman[p[i]])
				listedAnywhere[nonHuman[p[i]]] = true
			}
		}
		isListed := map[string]bool{}
		for _, l := range vw.listed {
			isListed[l] = true
		}
		var rest []string
		for _, a := range m.apps {
			if !isListed[a.name] {
				rest = append(rest, a.name)
			}
		}
		if len(rest) > 0 && r.Chance(2, 5) {
			p := r.Perm(len(rest))
			for i := 0; i < r.Range(1, 2) && i < len(rest); i++ {
				vw.exclude = append(vw.exclude, rest[p[i]])
			}
		}
		if r.Chance(3, 10) {
			p := r.Perm(len(m.apps))
			k := 1
			if r.Chance(1, 3) {
				k = 2
			}
			for i := 0; i < k && i < len(m.apps); i++ {
				vw.passthrough = append(vw.passthrough, m.apps[p[i]].name)
			}
		}
		m.views = append(m.views, vw)
	}
	// --exclude applies to every view: only applications listed nowhere
	if r.Chance(3, 10) {
		var cand []string
		for _, a := range m.apps {
			if !listedAnywhere[a.name] {
				cand = append(cand, a.name)
			}
		}
		if len(cand) > 0 {
			p := r.Perm(len(cand))
			for i := 0; i < r.Range(1, 2) && i < len(cand); i++ {
				m.cliExclude = append(m.cliExclude, cand[p[i]])
			}
			if r.Chance(1, 2) {
				m.cliExclude = append(m.cliExclude, m.project)
			}
		}
	}
	// plant the shapes that random graphs produce too rarely
	g.quiet = true
	for _, vw := range m.views {
		if len(vw.listed) == 0 {
			continue
		}
		switch x := r.Intn(100); {
		case x < 20:
			vw.planted = "passthrough-chain"
			g.plantPassthrough(vw, false)
		case x < 24:
			vw.planted = "passthrough-cycle"
			g.plantPassthrough(vw, true)
		case x < 45:
			vw.planted = "excluded-caller"
			g.plantExcludedCaller(vw)
		}
	}
	return m
}

var actions = []string{"compute result", "log outcome", "validate input", "update cache"}
var conds = []string{"ready", "amount > 0", "retries < 3", "cache miss"}

func (g *gen) callStmt(self *app) *stmt {
	r := g.r
	t := r.Intn(len(g.m.apps))
	if g.m.apps[t] == self && !r.Chance(1, 3) {
		t = r.Intn(len(g.m.apps)) // self calls stay a minority
	}
	ta := g.m.apps[t]
	s := &stmt{kind: "call", tgt: t, ep: ta.eps[r.Intn(len(ta.eps))].name}
	if ta == self && r.Chance(1, 2) {
		s.dot = true
	}
	return s
}

// block produces 1..3 statements; nested statements contain further blocks.
func (g *gen) block(depth int, self *app) []*stmt {
	r := g.r
	var out []*stmt
	n := r.Range(1, 2)
	for i := 0; i < n; i++ {
		x := r.Intn(100)
		switch {
		case g.quiet:
			out = append(out, &stmt{kind: "action", text: r.Pick(actions)})
		case x < 30 || (depth >= 3 && x < 60):
			out = append(out, g.callStmt(self))
		case x < 55 || depth >= 3:
			out = append(out, &stmt{kind: "action", text: r.Pick(actions)})
		default:
			out = append(out, g.nested(depth, self)...)
		}
	}
	if depth == 0 && r.Chance(1, 4) {
		out = append(out, &stmt{kind: "ret", text: "ok"})
	}
	// a return may sit anywhere in a statement list, also before calls (legal Sysl; the
	// calls after it are still calls of the model)
	if !g.quiet && r.Chance(1, 5) {
		k := r.Intn(len(out) + 1)
		for k < len(out) && out[k].kind == "else" {
			k++ // never between an if and its else
		}
		out = append(out[:k:k], append([]*stmt{{kind: "ret", text: r.Pick([]string{"ok", "error", "200"})}}, out[k:]...)...)
	}
	return out
}

func (g *gen) nested(depth int, self *app) []*stmt {
	r := g.r
	k := blockKinds[r.Intn(len(blockKinds))]
	return g.nestedKind(k, depth, self, nil)
}

// nestedKind builds one nested statement of the given kind; if inner is non-nil it is
// used as (part of) the body instead of a random block.
func (g *gen) nestedKind(k string, depth int, self *app, inner []*stmt) []*stmt {
	r := g.r
	body := func() []*stmt {
		if inner != nil {
			b := inner
			inner = nil
			return b
		}
		return g.block(depth+1, self)
	}
	switch k {
	case "if":
		out := []*stmt{{kind: "if", text: r.Pick(conds), body: body()}}
		if r.Chance(1, 3) {
			out = append(out, &stmt{kind: "else", body: g.block(depth+1, self)})
		}
		return out
	case "else":
		return []*stmt{{kind: "if", text: r.Pick(conds), body: g.block(depth+1, self)}, {kind: "else", body: body()}}
	case "for":
		return []*stmt{{kind: "for", text: "item in items", body: body()}}
	case "foreach":
		return []*stmt{{kind: "foreach", text: "order in orders", body: body()}}
	case "loop":
		return []*stmt{{kind: "loop", text: "three times", body: body()}}
	case "while":
		return []*stmt{{kind: "while", text: "queue not empty", body: body()}}
	case "until":
		return []*stmt{{kind: "until", text: "confirmed", body: body()}}
	case "alt":
		return []*stmt{{kind: "alt", text: "fast path", body: body()}}
	case "group":
		return []*stmt{{kind: "group", text: r.Pick([]string{"batch step", "settlement", "phase two"}), body: body()}}
	case "oneof":
		s := &stmt{kind: "oneof"}
		nc := r.Range(1, 3)
		at := r.Intn(nc)
		for c := 0; c < nc; c++ {
			if c == at {
				s.cases = append(s.cases, body())
			} else {
				s.cases = append(s.cases, g.block(depth+1, self))
			}
		}
		return []*stmt{s}
	}
	panic("c14 gen: kind " + k)
}

// addCall appends a call from.ep -> to.toEp, wrapped in 0..3 random statement kinds.
func (g *gen) addCall(from *app, ep *endpoint, to *app, toEp string) {
	r := g.r
	ti := 0
	for i, a := range g.m.apps {
		if a == to {
			ti = i
		}
	}
	ss := []*stmt{{kind: "call", tgt: ti, ep: toEp}}
	for d := r.Intn(4); d > 0; d-- {
		ss = g.nestedKind(blockKinds[r.Intn(len(blockKinds))], 2, from, ss)
	}
	// mostly keep a trailing return last (sometimes the call follows the return)
	if n := len(ep.stmts); n > 0 && ep.stmts[n-1].kind == "ret" && r.Chance(2, 3) {
		ep.stmts = append(append(append([]*stmt(nil), ep.stmts[:n-1]...), ss...), ep.stmts[n-1])
		return
	}
	ep.stmts = append(ep.stmts, ss...)
}

func (m *model) excluded(vw *view) map[string]bool {
	ex := map[string]bool{}
	if len(m.cliExclude) == 0 {
		ex[m.project] = true // documented default of `sysl ints`: the project itself
	}
	for _, e := range m.cliExclude {
		ex[e] = true
	}
	for _, e := range vw.exclude {
		ex[e] = true
	}
	return ex
}

func has(xs []string, x string) bool {
	for _, y := range xs {
		if y == x {
			return true
		}
	}
	return false
}

// plantPassthrough makes listed S call P1.f, P1.f call P2.g, P2.g call some Q (chain);
// with cycle, P2.g also calls P1.f (or P1.f calls itself / P1 = S).
func (g *gen) plantPassthrough(vw *view, cycle bool) {
	r, m := g.r, g.m
	ex := m.excluded(vw)
	var cand []*app
	for _, a := range m.apps {
		if !ex[a.name] && !a.human {
			cand = append(cand, a)
		}
	}
	s := m.appByName(r.Pick(vw.listed))
	// the two pass-through applications are distinct from each other and from the listed caller
	var others []*app
	for _, a := range cand {
		if a != s {
			others = append(others, a)
		}
	}
	if len(others) < 2 {
		vw.planted = ""
		return
	}
	p := r.Perm(len(others))
	p1, p2 := others[p[0]], others[p[1]]
	se := s.eps[r.Intn(len(s.eps))]
	e1 := p1.eps[r.Intn(len(p1.eps))]
	e2 := p2.eps[r.Intn(len(p2.eps))]
	// the chain ends at an application outside the chain (the listed caller if there is no other)
	q := s
	if len(others) > 2 {
		q = others[p[2]]
	}
	if !cycle {
		// a plain chain: the two pass-through endpoints do nothing but pass on
		e1.stmts, e2.stmts = nil, nil
	}
	g.addCall(s, se, p1, e1.name)
	for _, n := range []string{p1.name, p2.name} {
		if !has(vw.passthrough, n) {
			vw.passthrough = append(vw.passthrough, n)
		}
	}
	if cycle && r.Chance(1, 4) {
		g.addCall(p1, e1, p1, e1.name) // shortest cycle: the endpoint calls itself
		return
	}
	g.addCall(p1, e1, p2, e2.name)
	g.addCall(p2, e2, q, q.eps[r.Intn(len(q.eps))].name)
	if cycle {
		g.addCall(p2, e2, p1, e1.name)
	}
}

// plantExcludedCaller makes an excluded application call a listed one.
func (g *gen) plantExcludedCaller(vw *view) {
	r, m := g.r, g.m
	ex := m.excluded(vw)
	var cand []*app
	for _, a := range m.apps {
		if ex[a.name] {
			cand = append(cand, a)
		}
	}
	if len(cand) == 0 {
		// exclude one more application through the endpoint attribute
		for _, a := range m.apps {
			if !has(vw.listed, a.name) {
				cand = append(cand, a)
			}
		}
		if len(cand) == 0 {
			return
		}
		x := cand[r.Intn(len(cand))]
		vw.exclude = append(vw.exclude, x.name)
		cand = []*app{x}
	}
	x := cand[r.Intn(len(cand))]
	s := m.appByName(r.Pick(vw.listed))
	g.addCall(x, x.eps[r.Intn(len(x.eps))], s, s.eps[r.Intn(len(s.eps))].name)
}

// ---------------------------------------------------------------------------
// Renderer (fixed 4-space layout; layout freedom is C03's subject)
// ---------------------------------------------------------------------------

func quoteList(xs []string) string {
	q := make([]string, len(xs))
	for i, x := range xs {
		q[i] = `"` + x + `"`
	}
	return "[" + strings.Join(q, ", ") + "]"
}

func (m *model) render() string {
	var b strings.Builder
	ind := func(l int) string { return strings.Repeat("    ", l) }
	var stmts func(l int, ss []*stmt)
	stmts = func(l int, ss []*stmt) {
		for _, s := range ss {
			switch s.kind {
			case "call":
				t := m.apps[s.tgt].name
				if s.dot {
					t = "."
				}
				fmt.Fprintf(&b, "%s%s <- %s\n", ind(l), t, s.ep)
			case "action":
				fmt.Fprintf(&b, "%s%s\n", ind(l), s.text)
			case "ret":
				fmt.Fprintf(&b, "%sreturn %s\n", ind(l), s.text)
			case "if":
				fmt.Fprintf(&b, "%sif %s:\n", ind(l), s.text)
				stmts(l+1, s.body)
			case "else":
				fmt.Fprintf(&b, "%selse:\n", ind(l))
				stmts(l+1, s.body)
			case "for", "loop", "while", "until", "alt":
				fmt.Fprintf(&b, "%s%s %s:\n", ind(l), s.kind, s.text)
				stmts(l+1, s.body)
			case "foreach":
				fmt.Fprintf(&b, "%sfor each %s:\n", ind(l), s.text)
				stmts(l+1, s.body)
			case "group":
				fmt.Fprintf(&b, "%s%s:\n", ind(l), s.text)
				stmts(l+1, s.body)
			case "oneof":
				fmt.Fprintf(&b, "%sone of:\n", ind(l))
				for i, c := range s.cases {
					fmt.Fprintf(&b, "%scase %d:\n", ind(l+1), i+1)
					stmts(l+2, c)
				}
			default:
				panic("c14 render: " + s.kind)
			}
		}
	}
	for _, a := range m.apps {
		h := a.name
		if a.human {
			h += " [~human]"
		}
		fmt.Fprintf(&b, "%s:\n", h)
		for _, e := range a.eps {
			eh := e.name
			if e.hidden {
				eh += " [~hidden]"
			}
			if len(e.stmts) == 0 {
				fmt.Fprintf(&b, "%s%s: ...\n", ind(1), eh)
				continue
			}
			fmt.Fprintf(&b, "%s%s:\n", ind(1), eh)
			stmts(2, e.stmts)
		}
		b.WriteString("\n")
	}
	fmt.Fprintf(&b, "%s%s:\n", m.project, m.projAttrs)
	for _, v := range m.views {
		var at []string
		if len(v.exclude) > 0 {
			at = append(at, "exclude="+quoteList(v.exclude))
		}
		if len(v.passthrough) > 0 {
			at = append(at, "passthrough="+quoteList(v.passthrough))
		}
		h := v.name
		if len(at) > 0 {
			h += " [" + strings.Join(at, ", ") + "]"
		}
		if len(v.listed) == 0 {
			fmt.Fprintf(&b, "%s%s: ...\n", ind(1), h)
			continue
		}
		fmt.Fprintf(&b, "%s%s:\n", ind(1), h)
		for _, l := range v.listed {
			fmt.Fprintf(&b, "%s%s\n", ind(2), l)
		}
	}
	return b.String()
}

// ---------------------------------------------------------------------------
// Reference: what the property statement demands of one view
// ---------------------------------------------------------------------------

type pair struct{ a, b string }

type reference struct {
	excl   map[string]bool
	listed map[string]bool
	// app-level call multigraph of the whole model
	n map[pair]int
	// endpoint-level: src, srcEp, tgt, tgtEp
	epn map[[4]string]int
	// calls that must be drawn: listed source, different target, target not excluded, target
	// endpoint not ~hidden, target application not ~human
	must map[pair][]*call
	// shapes measured for this view
	selfCall, exclCaller, hiddenCall, humanTarget bool
	ptChain, ptCycle, ptWalk                      bool
}

func (m *model) reference(vw *view, cs []*call) *reference {
	rf := &reference{excl: m.excluded(vw), listed: map[string]bool{}, n: map[pair]int{}, epn: map[[4]string]int{}, must: map[pair][]*call{}}
	for _, l := range vw.listed {
		rf.listed[l] = true
	}
	for _, c := range cs {
		rf.n[pair{c.src, c.tgt}]++
		rf.epn[[4]string{c.src, c.srcEp, c.tgt, c.tgtEp}]++
		ta := m.appByName(c.tgt)
		if rf.listed[c.src] && c.src == c.tgt {
			rf.selfCall = true
		}
		if rf.excl[c.src] && rf.listed[c.tgt] {
			rf.exclCaller = true
		}
		if !rf.listed[c.src] || c.src == c.tgt || rf.excl[c.tgt] {
			continue
		}
		if ta.human {
			rf.humanTarget = true
			continue
		}
		if ta.ep(c.tgtEp).hidden {
			rf.hiddenCall = true
			continue
		}
		rf.must[pair{c.src, c.tgt}] = append(rf.must[pair{c.src, c.tgt}], c)
	}
	m.passthroughShape(vw, cs, rf)
	return rf
}

// passthroughShape follows the pass-through rule as the code comment and the
// tests/passthrough_1.sysl goldens describe it ("if the target is a pass-through
// application, add the applications called by that endpoint, recursively"), only to
// MEASURE whether this view contains a pass-through walk, a chain (a pass-through
// endpoint reached from another pass-through endpoint) or a cycle. No verdict uses it.
func (m *model) passthroughShape(vw *view, cs []*call, rf *reference) {
	pt := map[string]bool{}
	for _, p := range vw.passthrough {
		pt[p] = true
	}
	type node struct{ a, e string }
	out := map[node][]node{}
	for _, c := range cs {
		if rf.excl[c.tgt] || m.appByName(c.tgt).human {
			continue
		}
		out[node{c.src, c.srcEp}] = append(out[node{c.src, c.srcEp}], node{c.tgt, c.tgtEp})
	}
	state := map[node]int{} // 1 on stack, 2 done
	var walk func(n node, depth int)
	walk = func(n node, depth int) {
		if !pt[n.a] {
			return
		}
		if state[n] == 1 {
			rf.ptCycle = true
			return
		}
		if len(out[n]) > 0 {
			rf.ptWalk = true
		}
		if depth >= 2 {
			rf.ptChain = true
		}
		if state[n] == 2 {
			return
		}
		state[n] = 1
		for _, t := range out[n] {
			walk(t, depth+1)
		}
		state[n] = 2
	}
	for _, l := range vw.listed {
		a := m.appByName(l)
		for _, e := range a.eps {
			for _, t := range out[node{a.name, e.name}] {
				walk(t, 1)
			}
		}
	}
}

func sortedKeys(m map[string]bool) []string {
	var ks []string
	for k := range m {
		ks = append(ks, k)
	}
	sort.Strings(ks)
	return ks
}
