package c14

import (
	"os"
	"reflect"
	"testing"
)

// The reader must read the repository's own golden diagrams.
func TestReaderOnGoldens(t *testing.T) {
	b, err := os.ReadFile("/repo/tests/epa-golden.puml")
	if err != nil {
		t.Skip(err)
	}
	d := readEPAView(string(b), []string{"IntegratedSystem", "Systema", "Systemb"})
	if len(d.problems) > 0 {
		t.Fatal(d.problems)
	}
	want := []pair{{"IntegratedSystem", "Systema"}, {"IntegratedSystem", "Systemb"}}
	if !reflect.DeepEqual(d.arrows, want) || d.internal != 2 {
		t.Fatalf("arrows %v internal %d", d.arrows, d.internal)
	}
	b, err = os.ReadFile("/repo/tests/cluster-golden.puml")
	if err != nil {
		t.Skip(err)
	}
	d = readComponentView(string(b), []string{"IntegratedSystem", "System :: a", "System :: b"}, true)
	if len(d.problems) > 0 {
		t.Fatal(d.problems)
	}
	want = []pair{{"IntegratedSystem", "System :: a"}, {"IntegratedSystem", "System :: b"}}
	if !reflect.DeepEqual(d.arrows, want) || d.packages != 1 {
		t.Fatalf("arrows %v packages %d", d.arrows, d.packages)
	}
	// strictness: an unknown line is a problem, not skipped
	d = readComponentView("@startuml\nskinparam component {\n}\n[X] as _0\n_0 --> _9\nfoo\n@enduml", []string{"X"}, false)
	if len(d.problems) != 2 {
		t.Fatalf("problems %v", d.problems)
	}
}
