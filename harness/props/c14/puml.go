package c14

import (
	"fmt"
	"regexp"
	"strings"
)

// diagram is what the reader got out of one PlantUML text, already mapped back to
// application names.
type diagram struct {
	arrows   []pair   // application-level arrows, in text order, duplicates kept
	internal int      // EPA: arrows from an endpoint state to a "<ep> client" state of the same application
	comps    []string // declared components / top states (application names)
	packages int      // clusters with >= 2 members
	problems []string // lines the reader could not interpret (reader is strict)
}

var (
	reComp   = regexp.MustCompile(`^\[(.*)\] as (_\d+)( <<highlight>>)?$`)
	reArrow  = regexp.MustCompile(`^(_\d+) --> (_\d+)( <<indirect>>)?$`)
	rePkg    = regexp.MustCompile(`^package "(.*)" \{$`)
	reTop    = regexp.MustCompile(`^state "(.*)" as X(_\d+)( <<highlight>>)? \{$`)
	reInner  = regexp.MustCompile(`^  state "(.*)" as (_\d+)( <<highlight>>)?$`)
	reEArrow = regexp.MustCompile(`^(_\d+) -\[#[A-Za-z0-9]+\]-?> (_\d+)( : .*)?$`)
)

// body returns the lines between the skinparam block and @enduml.
func pumlBody(text string, d *diagram) []string {
	lines := strings.Split(text, "\n")
	i := 0
	seenStart := false
	for ; i < len(lines); i++ {
		l := lines[i]
		if l == "@startuml" {
			seenStart = true
			continue
		}
		if seenStart && strings.HasPrefix(l, "skinparam ") && strings.HasSuffix(l, "{") {
			for ; i < len(lines) && lines[i] != "}"; i++ {
			}
			i++
			break
		}
	}
	if !seenStart || i > len(lines) {
		d.problems = append(d.problems, "no @startuml / skinparam block")
		return nil
	}
	var out []string
	ended := false
	for ; i < len(lines); i++ {
		if lines[i] == "@enduml" {
			ended = true
			break
		}
		out = append(out, lines[i])
	}
	if !ended {
		d.problems = append(d.problems, "no @enduml")
	}
	return out
}

// readComponentView reads the plain and the clustered view. names = all application
// names of the description; clustered says labels may be the last name part.
func readComponentView(text string, names []string, clustered bool) *diagram {
	d := &diagram{}
	isApp := map[string]bool{}
	byLeaf := map[string][]string{}
	for _, n := range names {
		isApp[n] = true
		p := strings.Split(n, " :: ")
		byLeaf[p[len(p)-1]] = append(byLeaf[p[len(p)-1]], n)
	}
	alias := map[string]string{}
	pkg := ""
	members := 0
	for _, l := range pumlBody(text, d) {
		switch {
		case l == "":
		case rePkg.MatchString(l):
			if pkg != "" {
				d.problems = append(d.problems, "nested package: "+l)
			}
			pkg = rePkg.FindStringSubmatch(l)[1]
			members = 0
		case l == "}":
			if pkg == "" {
				d.problems = append(d.problems, "unbalanced }")
			}
			if members >= 2 {
				d.packages++
			}
			pkg = ""
		case reComp.MatchString(l):
			mm := reComp.FindStringSubmatch(l)
			label, al := mm[1], mm[2]
			name := ""
			switch {
			case pkg != "" && isApp[pkg+" :: "+label]:
				name = pkg + " :: " + label
			case pkg == "" && isApp[label]:
				name = label
			case pkg == "" && clustered && len(byLeaf[label]) == 1:
				name = byLeaf[label][0]
			default:
				d.problems = append(d.problems, "component label names no application: "+l)
				continue
			}
			if _, dup := alias[al]; dup {
				d.problems = append(d.problems, "alias declared twice: "+l)
			}
			alias[al] = name
			d.comps = append(d.comps, name)
			members++
		case reArrow.MatchString(l):
			mm := reArrow.FindStringSubmatch(l)
			a, okA := alias[mm[1]]
			b, okB := alias[mm[2]]
			if !okA || !okB {
				d.problems = append(d.problems, "arrow uses an undeclared alias: "+l)
				continue
			}
			d.arrows = append(d.arrows, pair{a, b})
		default:
			d.problems = append(d.problems, "unrecognised line: "+l)
		}
	}
	if pkg != "" {
		d.problems = append(d.problems, "package not closed")
	}
	return d
}

// readEPAView reads the endpoint-analysis (state) view.
func readEPAView(text string, names []string) *diagram {
	d := &diagram{}
	isApp := map[string]bool{}
	for _, n := range names {
		isApp[n] = true
	}
	type st struct {
		app, label string
	}
	alias := map[string]st{}
	cur := ""
	for _, l := range pumlBody(text, d) {
		switch {
		case l == "":
		case reTop.MatchString(l):
			mm := reTop.FindStringSubmatch(l)
			if cur != "" {
				d.problems = append(d.problems, "nested top state: "+l)
			}
			if !isApp[mm[1]] {
				d.problems = append(d.problems, "top state names no application: "+l)
			}
			cur = mm[1]
			d.comps = append(d.comps, cur)
		case l == "}":
			if cur == "" {
				d.problems = append(d.problems, "unbalanced }")
			}
			cur = ""
		case reInner.MatchString(l):
			mm := reInner.FindStringSubmatch(l)
			if cur == "" {
				d.problems = append(d.problems, "endpoint state outside an application state: "+l)
				continue
			}
			if _, dup := alias[mm[2]]; dup {
				d.problems = append(d.problems, "alias declared twice: "+l)
			}
			alias[mm[2]] = st{cur, mm[1]}
		case reEArrow.MatchString(l):
			mm := reEArrow.FindStringSubmatch(l)
			a, okA := alias[mm[1]]
			b, okB := alias[mm[2]]
			if !okA || !okB {
				d.problems = append(d.problems, "arrow uses an undeclared alias: "+l)
				continue
			}
			if a.app == b.app && strings.HasSuffix(b.label, " client") && !strings.HasSuffix(a.label, " client") {
				d.internal++ // endpoint -> its outgoing "client" port, not a call by itself
				continue
			}
			d.arrows = append(d.arrows, pair{a.app, b.app})
		default:
			d.problems = append(d.problems, "unrecognised line: "+l)
		}
	}
	if cur != "" {
		d.problems = append(d.problems, "state not closed")
	}
	return d
}

func (d *diagram) String() string {
	var b strings.Builder
	for _, a := range d.arrows {
		fmt.Fprintf(&b, "%s --> %s\n", a.a, a.b)
	}
	return b.String()
}
