package c14

import (
	"bufio"
	"encoding/json"
	"fmt"
	"os"
	"os/exec"
	"path/filepath"
	"strconv"
	"strings"

	"verif/fw"
)

const isolatedEnv = "VERIF_C14_ISOLATED"

const walkFrame = "pkg/integrationdiagram.(*IntsBuilder).WalkPassthrough"

// runIsolated runs case i in a child `worker` process of the same binary and returns the
// child's own result; if the child dies, the death is classified here. pre carries what
// the parent measured from the description (shapes, counters) so that the evidence still
// says what the case contained.
func runIsolated(ctx *fw.Ctx, i int, pre fw.Result, files map[string]string) fw.Result {
	exe, err := os.Executable()
	if err != nil {
		pre.Verdict, pre.Note = "inconclusive", "cannot find own executable for isolation: "+err.Error()
		return pre
	}
	dir := filepath.Join(ctx.Dir, "isolated")
	_ = os.MkdirAll(dir, 0o755)
	journal := filepath.Join(dir, "journal")
	errPath := filepath.Join(dir, "stderr.txt")
	ef, _ := os.Create(errPath)
	cmd := exec.Command(exe, "worker", "--prop", "C14", "--tier", ctx.Tier, "--seed", strconv.FormatUint(ctx.Seed, 10),
		"--start", strconv.Itoa(i), "--step", "1", "--end", strconv.Itoa(i+1),
		"--journal", journal, "--scratch", filepath.Join(dir, "scratch"), "--timeout", "100", "--keep", "1")
	cmd.Stdout, cmd.Stderr = ef, ef
	cmd.Env = append(os.Environ(), isolatedEnv+"=1", "GOTRACEBACK=all")
	runErr := cmd.Run()
	ef.Close()

	// the child's journal: B, then E with the result unless it died
	if jf, err := os.Open(journal); err == nil {
		sc := bufio.NewScanner(jf)
		sc.Buffer(make([]byte, 1<<20), 64<<20)
		for sc.Scan() {
			var rec struct {
				T string     `json:"t"`
				I int        `json:"i"`
				R *fw.Result `json:"r"`
			}
			if json.Unmarshal(sc.Bytes(), &rec) == nil && rec.T == "E" && rec.I == i && rec.R != nil {
				jf.Close()
				rec.R.Count("isolated_runs", 1)
				return *rec.R
			}
		}
		jf.Close()
	}
	// died (or never started)
	b, _ := os.ReadFile(errPath)
	tail := string(b)
	pre.Count("isolated_runs", 1)
	pre.NonTrivial = true
	art := merge(files, "stderr.txt", clip(tail, 40000))
	switch k := strings.Index(tail, "fatal error: "); {
	case k >= 0:
		rest := tail[k+len("fatal error: "):]
		val := rest
		if j := strings.IndexByte(val, '\n'); j >= 0 {
			val = val[:j]
		}
		sig := fw.CrashSig("fatal", val, rest)
		msg := "the integration-diagram generator killed the process: fatal error: " + val
		if strings.Contains(val, "stack overflow") && strings.Contains(rest, "sysl/"+walkFrame+"(") {
			// the innermost frame of an overflow is wherever the stack happened to run out;
			// name the recursive walk instead so that the finding has ONE signature
			sig = "fatal|" + walkFrame + "|" + fw.MsgClass(val)
			msg = "pass-through applications that call each other in a cycle: the recursive pass-through walk never ends (fatal error: stack overflow, WalkPassthrough on the stack)"
		}
		pre.Violate(sig, msg, art)
	case strings.Contains(tail, "panic: "):
		k := strings.Index(tail, "panic: ")
		rest := tail[k+len("panic: "):]
		val := rest
		if j := strings.IndexByte(val, '\n'); j >= 0 {
			val = val[:j]
		}
		pre.Violate(fw.CrashSig("panic", val, rest), "the integration-diagram generator panicked outside a guard: "+val, art)
	case strings.Contains(tail, "WATCHDOG case"):
		// a time bound alone is never a verdict (the driver re-runs such cases alone; here the
		// run already was alone, but say only what was seen)
		pre.Verdict, pre.Note = "inconclusive", "isolated run exceeded 100 s at "+fw.InnermostSyslFrame(tail)
	default:
		pre.Violate("exit|isolated|"+fw.MsgClass(fmt.Sprint(runErr)), fmt.Sprintf("isolated run ended without a result: %v", runErr), art)
	}
	return pre
}

func clip(s string, n int) string {
	if len(s) > n {
		return s[:n] + "\n...[clipped]"
	}
	return s
}
