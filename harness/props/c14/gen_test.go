package c14

import (
	"testing"

	"verif/fw"
)

// TestGeneratorRates prints how often the generated views contain each shape (run with -v).
func TestGeneratorRates(t *testing.T) {
	views, cyc, cycAcc, chain, cases, casesCyc, calls := 0, 0, 0, 0, 0, 0, 0
	by := map[string]int{}
	byAll := map[string]int{}
	defer func() { t.Logf("accidental cycles by planted shape: %v of %v", by, byAll) }()
	for i := 0; i < 3000; i++ {
		m := build(fw.NewRand(1, uint64(i)))
		cs := m.calls()
		calls += len(cs)
		cases++
		any := false
		for _, vw := range m.views {
			rf := m.reference(vw, cs)
			views++
			byAll[vw.planted]++
			if rf.ptCycle {
				cyc++
				any = true
				if vw.planted != "passthrough-cycle" {
					cycAcc++
					by[vw.planted]++
				}
			}
			if rf.ptChain {
				chain++
			}
		}
		if any {
			casesCyc++
		}
	}
	t.Logf("cases=%d views=%d calls/case=%.1f cycle views=%d (accidental %d) chain views=%d cases with cycle=%d", cases, views, float64(calls)/float64(cases), cyc, cycAcc, chain, casesCyc)
}
