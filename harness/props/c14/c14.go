// Package c14: integration diagrams show exactly the calls among the selected applications.
//
// Each case generates an abstract description of a system (applications, endpoints,
// statement trees with calls at every nesting level, a project application whose
// endpoints list applications and carry exclude / passthrough attributes), renders it,
// compiles it with the real parser and runs the real integration-diagram generator
// in-process, the way cmd/sysl/cmd_ints.go does, for the plain, the clustered and the
// endpoint-analysis view. The oracle compares the call multigraph of the DESCRIPTION with
// (a) the dependency list of the real IntsBuilder and (b) the arrows read back from the
// PlantUML text by the reader in puml.go.
package c14

import (
	"encoding/json"
	"fmt"
	"io"
	"os"
	"path/filepath"
	"runtime/debug"
	"sort"
	"strings"
	"sync"

	"github.com/anz-bank/sysl/pkg/cmdutils"
	"github.com/anz-bank/sysl/pkg/integrationdiagram"
	"github.com/anz-bank/sysl/pkg/parse"
	"github.com/anz-bank/sysl/pkg/sysl"
	"github.com/anz-bank/sysl/pkg/syslutil"
	"github.com/sirupsen/logrus"
	"github.com/spf13/afero"

	"verif/fw"
)

type prop struct{}

func init() { fw.Register(prop{}) }

func (prop) ID() string { return "C14" }
func (prop) Cases(tier string) int {
	if tier == "thorough" {
		return 20000
	}
	return 400
}

// maxStack bounds the goroutine stack of the worker. Go's default is 1 GB; an unbounded
// recursion in 16 workers at once would need 16 GB before the runtime reports
// "fatal error: stack overflow". Nothing in the integration-diagram code legitimately
// needs more than a few kB per nesting level, so 64 MB only makes the report earlier.
const maxStack = 64 << 20

var once sync.Once

func (prop) Info() fw.Info {
	return fw.Info{
		Level: "exploration",
		Rule: "case i = one random system description from PRNG(seed,i): 2-8 applications (some namespaced, a minority ~human), 1-3 endpoints each (a minority ~hidden), " +
			"statement trees with calls (incl. self calls and cycles) nested up to 3 deep in if/else/for/for each/loop/while/until/alt/one of/group; a project application with 1-3 endpoints, each listing a subset of the non-human applications, " +
			"with exclude=[..] (never a listed application) and passthrough=[..] attributes (planted chains and cycles), optional --exclude list; rendered, compiled by the real parser, " +
			"GenerateIntegrations run in-process for the plain, clustered and EPA view, MakeBuilderfromStmt run per project endpoint. Non-trivial: some view has >= 1 call that must be drawn and >= 1 call nested in a statement; distinct by hash of the text.",
		Assumptions: []string{
			"the PlantUML reader in props/c14/puml.go (component / package / state declarations, `-->` and `-[#colour]->` arrows) is strict: a line it cannot interpret is reported, not skipped",
			"EPA view: an arrow from an endpoint state to a `<ep> client` state of the same application is the application's outgoing port, not a call; the arrow leaving the client state is the call",
			"clustered view labels are the last part of a namespaced name; generated names have unique last parts",
			"~human applications are never listed in a project endpoint (their treatment as listed applications is not documented); ~hidden is a property of the target endpoint, ~human of the target application (tests/hidden.sysl, ints_builder.go)",
			fmt.Sprintf("worker goroutine stack limited to %d MB so that unbounded recursion is reported quickly", maxStack>>20),
		},
		CaseTimeout: 120,
		// about a third of what one quick run at seed 1 observes
		CountFloors: map[string]int{
			"diagrams":                600,
			"arrows_checked":          4000,
			"calls_checked":           3500,
			"deps_checked":            1300,
			"views_pt_cycle":          20,
			"views_pt_chain":          50,
			"views_pt_walk":           70,
			"passthrough_arrows_seen": 50,
			"views_excluded_caller":   100,
			"views_self_call":         100,
			"views_hidden_call":       70,
			"views_human_target":      25,
			"clusters_read":           60,
		},
		SetFloors: map[string]int{"shapes": 21},
	}
}

var viewNames = []string{"plain", "clustered", "epa"}

func compile(text string) (*sysl.Module, error) {
	fs := afero.NewMemMapFs()
	_ = afero.WriteFile(fs, "model.sysl", []byte(text), 0o644)
	return parse.NewParser().ParseFromFs("model.sysl", fs)
}

type options struct {
	Project    string              `json:"project"`
	CLIExclude []string            `json:"cli_exclude"`
	Output     string              `json:"output"`
	Views      []string            `json:"views_run"`
	Endpoints  []map[string]any    `json:"project_endpoints"`
	Must       map[string][]string `json:"must_draw"`
}

func (prop) Run(ctx *fw.Ctx, i int) fw.Result {
	once.Do(func() { debug.SetMaxStack(maxStack) })
	r := ctx.Rng()
	m := build(r)
	text := m.render()
	res := fw.Result{Hash: fw.HashOf(text)}
	cs := m.calls()
	var names []string
	for _, a := range m.apps {
		names = append(names, a.name)
	}

	// reference per project endpoint + measured shapes
	refs := map[string]*reference{}
	opt := options{Project: m.project, CLIExclude: m.cliExclude, Output: "%(epname).png", Views: viewNames, Must: map[string][]string{}}
	mustTotal, nestedMust := 0, 0
	for _, vw := range m.views {
		rf := m.reference(vw, cs)
		refs[vw.name] = rf
		opt.Endpoints = append(opt.Endpoints, map[string]any{"name": vw.name, "listed": vw.listed, "exclude": vw.exclude, "passthrough": vw.passthrough,
			"excluded_effective": sortedKeys(rf.excl), "passthrough_cycle_expected": rf.ptCycle, "planted": vw.planted})
		for p, cl := range rf.must {
			mustTotal++
			opt.Must[vw.name] = append(opt.Must[vw.name], p.a+" --> "+p.b)
			for _, c := range cl {
				if len(c.under) > 0 {
					nestedMust++
				}
				for _, k := range c.under {
					res.Add("shapes", "nested-in-"+k)
				}
			}
		}
		sort.Strings(opt.Must[vw.name])
		flag := func(b bool, shape, counter string) {
			if b {
				res.Add("shapes", shape)
				res.Count(counter, 1)
			}
		}
		flag(rf.ptWalk, "passthrough-walk", "views_pt_walk")
		flag(rf.ptChain, "passthrough-chain", "views_pt_chain")
		flag(rf.ptCycle, "passthrough-cycle", "views_pt_cycle")
		flag(rf.selfCall, "self-call", "views_self_call")
		flag(rf.exclCaller, "excluded-caller", "views_excluded_caller")
		flag(rf.hiddenCall, "hidden-target", "views_hidden_call")
		flag(rf.humanTarget, "human-target", "views_human_target")
		flag(len(vw.exclude) > 0, "attr-exclude", "views_attr_exclude")
		flag(len(vw.listed) == 0, "empty-list", "views_empty_list")
	}
	if len(m.cliExclude) > 0 {
		res.Add("shapes", "cli-exclude")
	}
	res.NonTrivial = mustTotal >= 1 && nestedMust >= 1
	res.Sample = map[string]any{"case": i, "apps": len(m.apps), "calls": len(cs), "project_endpoints": opt.Endpoints, "text_head": head(text, 30)}

	// the code under test can die with a stack overflow: save the input first
	ob, _ := json.MarshalIndent(opt, "", " ")
	_ = os.WriteFile(filepath.Join(ctx.Dir, "model.sysl"), []byte(text), 0o644)
	_ = os.WriteFile(filepath.Join(ctx.Dir, "options.json"), ob, 0o644)
	files := map[string]string{"model.sysl": text, "options.json": string(ob)}

	// A reachable pass-through cycle is where the description says the recursive walk has
	// no reason to end. Run such a case in a child worker of the same binary, so that a
	// stack overflow there gets one stable signature and costs no restart of this worker.
	// (Only isolation is decided by the description; if the real code overflows anywhere
	// else, this worker dies and the driver attributes the death to the case.)
	cyc := false
	for _, rf := range refs {
		cyc = cyc || rf.ptCycle
	}
	if cyc && os.Getenv(isolatedEnv) == "" {
		return runIsolated(ctx, i, res, files)
	}

	var mod *sysl.Module
	var err error
	if pi := fw.Guard(func() { mod, err = compile(text) }); pi != nil {
		res.Violate(fw.CrashSig("panic", pi.Value, pi.Stack), "compiler panicked on a generated model: "+pi.Value, merge(files, "stack.txt", pi.Stack))
		return res
	}
	if err != nil {
		res.Violate("reject|"+fw.MsgClass(err.Error()), "compiler rejected a generated model: "+err.Error(), files)
		return res
	}

	logger := logrus.New()
	logger.SetOutput(io.Discard)

	// (b) the real generator, once per view, all project endpoints at once (as `sysl ints` does)
	for _, vn := range viewNames {
		var out map[string]string
		var gerr error
		pi := fw.Guard(func() {
			p := &cmdutils.CmdContextParamIntgen{Output: "%(epname).png", Project: m.project,
				Exclude: append([]string(nil), m.cliExclude...), Clustered: vn == "clustered", EPA: vn == "epa"}
			out, gerr = integrationdiagram.GenerateIntegrations(p, mod, logger)
		})
		if pi != nil {
			res.Violate(fw.CrashSig("panic", pi.Value, pi.Stack), "GenerateIntegrations ("+vn+") panicked: "+pi.Value, merge(files, "stack.txt", pi.Stack))
			continue
		}
		if gerr != nil {
			res.Violate("error|"+vn+"|"+fw.MsgClass(gerr.Error()), "GenerateIntegrations ("+vn+") failed on a valid model: "+gerr.Error(), files)
			continue
		}
		res.Add("shapes", "view:"+vn)
		for _, vw := range m.views {
			txt, ok := out[vw.name+".png"]
			if !ok {
				res.Violate("missing-diagram|"+vn, fmt.Sprintf("no diagram for project endpoint %s in the %s view (keys %v)", vw.name, vn, keys(out)), files)
				continue
			}
			res.Count("diagrams", 1)
			var d *diagram
			if vn == "epa" {
				d = readEPAView(txt, names)
			} else {
				d = readComponentView(txt, names, vn == "clustered")
			}
			res.Count("clusters_read", d.packages)
			res.Count("epa_internal_arrows", d.internal)
			art := merge(files, vw.name+"."+vn+".puml", txt)
			art["arrows_read."+vw.name+"."+vn+".txt"] = d.String()
			if len(d.problems) > 0 {
				res.Violate("reader|"+vn+"|"+problemClass(d.problems[0]), fmt.Sprintf("%s view of %s: the diagram text could not be read back: %s", vn, vw.name, strings.Join(d.problems, " ;; ")), art)
				continue
			}
			judge(&res, "puml|"+vn, vw, refs[vw.name], d.arrows, art)
		}
	}

	// (a) the dependency list of the real builder, per project endpoint
	for _, vw := range m.views {
		rf := refs[vw.name]
		ep := mod.GetApps()[m.project].GetEndpoints()[vw.name]
		if ep == nil {
			res.Violate("model|project-endpoint-missing", "project endpoint "+vw.name+" is not in the compiled model", files)
			continue
		}
		var b *integrationdiagram.IntsBuilder
		pi := fw.Guard(func() {
			b = integrationdiagram.MakeBuilderfromStmt(mod, ep.GetStmt(), syslutil.MakeStrSet(sortedKeys(rf.excl)...), syslutil.MakeStrSet(vw.passthrough...))
		})
		if pi != nil {
			res.Violate(fw.CrashSig("panic", pi.Value, pi.Stack), "MakeBuilderfromStmt panicked: "+pi.Value, merge(files, "stack.txt", pi.Stack))
			continue
		}
		var arrows []pair
		var dump strings.Builder
		for _, dep := range b.DepsOut {
			arrows = append(arrows, pair{dep.Self.Name, dep.Target.Name})
			fmt.Fprintf(&dump, "%s.%s --> %s.%s\n", dep.Self.Name, dep.Self.Endpoint, dep.Target.Name, dep.Target.Endpoint)
			res.Count("deps_checked", 1)
			if rf.epn[[4]string{dep.Self.Name, dep.Self.Endpoint, dep.Target.Name, dep.Target.Endpoint}] == 0 &&
				rf.n[pair{dep.Self.Name, dep.Target.Name}] > 0 {
				// the applications do call each other, but not from / to these endpoints
				res.Violate("unsound|deps|wrong-endpoint", fmt.Sprintf("%s: dependency %s.%s -> %s.%s names endpoints with no such call statement", vw.name,
					dep.Self.Name, dep.Self.Endpoint, dep.Target.Name, dep.Target.Endpoint), merge(files, "deps."+vw.name+".txt", dump.String()))
			}
		}
		art := merge(files, "deps."+vw.name+".txt", dump.String())
		art["final_apps."+vw.name+".txt"] = strings.Join(b.FinalApps, "\n")
		judge(&res, "deps", vw, rf, arrows, art)
		// every listed application is a seed of the builder
		seeds := map[string]bool{}
		for _, s := range b.SeedApps {
			seeds[s] = true
		}
		for _, l := range vw.listed {
			if !seeds[l] {
				res.Violate("incomplete|deps|listed-app-not-selected", fmt.Sprintf("%s: listed application %q is not among the builder's selected applications %v", vw.name, l, b.SeedApps), art)
			}
		}
	}
	return res
}

// judge applies the property statement to one set of application-level arrows.
func judge(res *fw.Result, ch string, vw *view, rf *reference, arrows []pair, art map[string]string) {
	drawn := map[pair]bool{}
	for _, a := range arrows {
		if drawn[a] {
			continue
		}
		drawn[a] = true
		res.Count("arrows_checked", 1)
		if ch == "deps" && has(vw.passthrough, a.a) && !rf.listed[a.a] && rf.ptWalk {
			// evidence only: the pass-through walk (or the later connect pass) produced arrows
			// that leave a pass-through application nobody listed
			res.Count("passthrough_arrows_seen", 1)
		}
		// SOUNDNESS: a call statement from the source to the target application exists ...
		if rf.n[a] == 0 {
			res.Violate("unsound|"+ch+"|no-call", fmt.Sprintf("%s [%s]: arrow %s --> %s, but no call statement from %s to %s exists anywhere in the model", vw.name, ch, a.a, a.b, a.a, a.b), art)
		}
		// ... and the arrow touches no excluded application
		if rf.excl[a.a] {
			res.Violate("unsound|"+ch+"|excluded-source", fmt.Sprintf("%s [%s]: arrow %s --> %s starts at an excluded application (excluded: %v)", vw.name, ch, a.a, a.b, sortedKeys(rf.excl)), art)
		}
		if rf.excl[a.b] {
			res.Violate("unsound|"+ch+"|excluded-target", fmt.Sprintf("%s [%s]: arrow %s --> %s ends at an excluded application (excluded: %v)", vw.name, ch, a.a, a.b, sortedKeys(rf.excl)), art)
		}
	}
	// COMPLETENESS: every call from a listed application to a different application that is
	// not excluded, hidden or a human actor is drawn
	var ps []pair
	for p := range rf.must {
		ps = append(ps, p)
	}
	sort.Slice(ps, func(i, j int) bool { return ps[i].a+"\x00"+ps[i].b < ps[j].a+"\x00"+ps[j].b })
	exonerated := map[string]bool{}
	for _, p := range ps {
		if drawn[p] {
			for _, k := range commonKinds(rf.must[p]) {
				exonerated[k] = true
			}
		}
	}
	for _, p := range ps {
		res.Count("calls_checked", len(rf.must[p]))
		if drawn[p] {
			continue
		}
		res.Violate("incomplete|"+ch+"|"+nestClass(rf.must[p], exonerated), fmt.Sprintf("%s [%s]: %d call statement(s) from listed application %s to %s (not excluded, not hidden, not human), e.g. %s.%s -> %s.%s nested in %v (kinds enclosing all of them: %v), but no arrow %s --> %s",
			vw.name, ch, len(rf.must[p]), p.a, p.b, p.a, rf.must[p][0].srcEp, p.b, rf.must[p][0].tgtEp, rf.must[p][0].under, commonKinds(rf.must[p]), p.a, p.b), art)
	}
}

// nestClass names what the undrawn calls of one pair have in common. I = the statement
// kinds that enclose EVERY supporting call statement. Empty: "top-level" (some call is
// not nested at all). Kinds that also enclose every supporting call of a pair that WAS
// drawn in the same diagram are exonerated; if exactly one kind is left the class is
// "nested-in-<kind>", otherwise "nested".
func nestClass(cl []*call, exonerated map[string]bool) string {
	var left []string
	common := commonKinds(cl)
	if len(common) == 0 {
		return "top-level"
	}
	for _, k := range common {
		if !exonerated[k] {
			left = append(left, k)
		}
	}
	if len(left) == 1 {
		return "nested-in-" + left[0]
	}
	return "nested"
}

func commonKinds(cl []*call) []string {
	var out []string
	for _, k := range blockKinds {
		all := true
		for _, c := range cl {
			if !has(c.under, k) {
				all = false
				break
			}
		}
		if all {
			out = append(out, k)
		}
	}
	return out
}

func problemClass(p string) string {
	if i := strings.Index(p, ":"); i > 0 {
		return strings.ReplaceAll(p[:i], " ", "-")
	}
	return strings.ReplaceAll(p, " ", "-")
}

func keys(m map[string]string) []string {
	var ks []string
	for k := range m {
		ks = append(ks, k)
	}
	sort.Strings(ks)
	return ks
}

func merge(m map[string]string, k, v string) map[string]string {
	out := map[string]string{k: v}
	for a, b := range m {
		out[a] = b
	}
	return out
}

func head(s string, n int) string {
	ls := strings.Split(s, "\n")
	if len(ls) > n {
		ls = ls[:n]
	}
	return strings.Join(ls, "\n")
}
