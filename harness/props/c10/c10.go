// Package c10: view/transform evaluation follows the expression semantics and is pure.
//
// A generator builds well-typed view programs over its own expression AST (bounded-exhaustive
// operator-over-operator part plus random deeper programs), renders them to Sysl text, and keeps
// the AST. The real code (parse.Parser + eval.EvaluateView) runs on the text; an independent
// reference interpreter (ref.go) runs on the AST. Values are compared structurally, sets up to
// order. Every view body ends by re-exporting each let binding and each parameter, so a binding
// that an operator corrupted later is seen.
package c10

import (
	"fmt"
	"os"
	"path/filepath"
	"sort"
	"strings"
	"sync"

	"github.com/anz-bank/sysl/pkg/sysl"
	"github.com/sirupsen/logrus"

	"verif/fw"
)

type prop struct{}

func init() { fw.Register(prop{}) }

func (prop) ID() string { return "C10" }

const (
	itemsPerProgram = 3
	quickCap        = 2 // depth-2 instances per (operator, operand position, inner operator)
	thoroughCap     = 12
	quickRandom     = 900
	thoroughTotal   = 60000
)

var (
	planMu sync.Mutex
	plans  = map[string][]*node{}
)

// enumerated gives the fixed list of enumerated items of a tier (independent of the seed).
func enumerated(tier string) []*node {
	planMu.Lock()
	defer planMu.Unlock()
	if p, ok := plans[tier]; ok {
		return p
	}
	buildD1()
	cap := quickCap
	if tier == "thorough" {
		cap = thoroughCap
	}
	items := append([]*node{}, enumD1...)
	items = append(items, depth2(cap)...)
	plans[tier] = items
	return items
}

func enumeratedPrograms(tier string) int {
	return (len(enumerated(tier)) + itemsPerProgram - 1) / itemsPerProgram
}

func (prop) Cases(tier string) int {
	n := enumeratedPrograms(tier)
	if tier == "thorough" {
		if n < thoroughTotal {
			return thoroughTotal
		}
		return n
	}
	return n + quickRandom
}

func (prop) Info() fw.Info {
	return fw.Info{
		Level: "exploration",
		Rule:  "one program per case. Cases 0..E-1 (E fixed per tier): the enumerated part, 3 items per program: every operator specification (arithmetic, comparison, string, boolean, null comparison, in/!in, | on lists and sets, count, if, .attr, where, flatten, calls, transforms over list/set/map/single value, multi-line if) over the full cartesian product of the literal pool (ints {0,1,2,7,-3}, strings {\"\",\"a\",\"b\"}, bools, lists/sets of 0-5 items, nested lists/sets, records and dictionaries), then every specification with every type-compatible specification nested in each operand position (quick: 2 instances each, thorough: 12), instances the semantics do not pin (zero divisor, equal elements in a set literal...) left out by the reference; operands placed in rotation as inline literal / let-bound / parameter with the value passed as argument. Remaining cases: random well-typed programs from PRNG(seed,case): main view with 2-5 parameters, 0-2 callee views, 3-8 statements of expression depth 1-4 (let, output, transform statements nested up to 2 with fresh / '.' / deliberately shadowing scope variables, multi-line if, view calls, the same list concatenated 2-3 times with lists of length 3,5,6,7 over-weighted), each let-bound collection used by >= 2 later expressions. Every body ends with chk_<name> = <name> for each let and parameter. Each program is evaluated twice on equal fresh arguments. Non-trivial: the reference exercised >= 3 dispatch cells and >= 2 bindings were re-checked; distinct by hash of program text and arguments.",
		Assumptions: []string{
			"the reference interpreter (props/c10/ref.go) states the semantics of the property: 64-bit integers with truncated division, string +, boolean &&, null equal only to null, | = set union without duplicates / list concatenation giving a new list, in/!in of strings, count, where, flatten, .attr (null when absent), transforms giving one record per element with 'set of' removing duplicates, calls in a scope of their own, lexical scope variables",
			"only the (operator, kind, kind) cells copied from the evaluator's dispatch tables at the pinned commit (props/c10/cells.go) are generated; WHERE/set/float is declared there but not generated (no float operators in the statement)",
			"order is not demanded where a list is produced by iterating a set or a map's entries (compared as a multiset); two evaluations of one program must still agree exactly",
			"constructs the statement does not pin are not generated: duplicate elements in set literals, flatten producing equal elements into a set, list-valued flatten bodies over maps, attribute access other than key/value on an unpacked map entry, records with exactly the fields key and value, use of a name after a transform used it as scope variable other than re-exporting it",
		},
		CaseTimeout: 300,
		SetFloors:   map[string]int{"cells": len(generatedCells)},
		CountFloors: map[string]int{"programs": 2000, "bindings_rechecked": 4000, "transforms": 500, "shadowing_binders": 100, "double_evaluations": 2000},
	}
}

const (
	sigAlias = "purity|list-concat-aliases-left-operand"
	sigDel   = "scope|transform-deletes-outer-binding"
)

var quietOnce sync.Once

func (prop) Run(ctx *fw.Ctx, i int) fw.Result {
	quietOnce.Do(func() { logrus.SetLevel(logrus.ErrorLevel) })
	r := ctx.Rng()
	var p *Program
	var b *builder
	kind := "random"
	res := fw.Result{}
	nEnum := enumeratedPrograms(ctx.Tier)
	if i < nEnum {
		kind = "enumerated"
		items := enumerated(ctx.Tier)
		b = newBuilder(r)
		rot := i + int(ctx.Seed%6)
		for j := i * itemsPerProgram; j < (i+1)*itemsPerProgram && j < len(items); j++ {
			b.item(items[j], rot+j, true)
			res.Count("enumerated_items", 1)
			if items[j].depth() >= 2 {
				res.Count("enumerated_items_depth2", 1)
			}
		}
		p = b.finish()
		if _, _, err := newInterp(p, mode{}).run(p.Args); err != nil {
			// items are valid one by one; together they cannot become invalid
			res.Verdict = "inconclusive"
			res.Note = "enumerated program rejected by the reference: " + err.Error()
			return res
		}
	} else {
		for attempt := 0; attempt < 40; attempt++ {
			pp, bb := randomProgram(r.Fork())
			_, _, err := newInterp(pp, mode{}).run(pp.Args)
			if err == nil {
				// safety net while the scope defect is present: a program in which an operator
				// would read a name after a transform has shadowed it (the evaluator would end the
				// process there) is not used; the generator avoids this by construction
				if _, _, derr := newInterp(pp, mode{del: true}).run(pp.Args); derr != nil {
					res.Count("generator_retries_use_after_shadow", 1)
					continue
				}
				p, b = pp, bb
				break
			}
			if re, ok := err.(*refErr); ok {
				res.Count("generator_retries_"+re.kind, 1)
			}
		}
		if p == nil {
			res.Verdict = "skip"
			res.Note = "no pinned program in 40 attempts"
			return res
		}
	}
	check(ctx, i, kind, p, b, &res)
	return res
}

func argsText(p *Program) string {
	var sb strings.Builder
	main := p.view(p.Main)
	for k, q := range main.Params {
		fmt.Fprintf(&sb, "%s = %s\n", q.Name, p.Args[k].canon())
	}
	return sb.String()
}

func check(ctx *fw.Ctx, i int, kind string, p *Program, b *builder, res *fw.Result) {
	text := p.Render()
	args := argsText(p)
	res.Hash = fw.HashOf(text, args)
	// the evaluator ends the process on an evaluation failure: save the input first
	_ = os.WriteFile(filepath.Join(ctx.Dir, "program.sysl"), []byte(text), 0o644)
	_ = os.WriteFile(filepath.Join(ctx.Dir, "args.txt"), []byte(args), 0o644)

	ref := newInterp(p, mode{})
	exp, expParams, err := ref.run(p.Args)
	if err != nil {
		res.Verdict = "inconclusive"
		res.Note = "reference rejected the program: " + err.Error()
		return
	}
	_ = os.WriteFile(filepath.Join(ctx.Dir, "expected.txt"), []byte(exp.show()+"\n"), 0o644)

	m := p.measure()
	cells := sortedCells(ref.cells)
	for _, c := range cells {
		res.Add("cells", c)
	}
	rechecked := countChk(p)
	res.Count("programs", 1)
	res.Count("programs_"+kind, 1)
	res.Count("expressions", m.Exprs)
	res.Count("let_bindings", m.Lets)
	res.Count("bindings_rechecked", rechecked)
	res.Count("transforms", m.Transforms)
	res.Count("view_calls", m.Calls)
	res.Count("shadowing_binders", b.shadows)
	res.Count("shadowing_transforms", b.tshadow)
	res.Count("empty_container_iterations", ref.empties)
	res.NonTrivial = len(cells) >= 3 && rechecked >= 2
	res.Sample = map[string]any{"case": i, "kind": kind, "cells": cells, "args": args, "text": head(text, 40)}

	files := map[string]string{"program.sysl": text, "args.txt": args, "expected.txt": exp.show() + "\n"}

	var mod *sysl.Module
	var perr error
	if pi := fw.Guard(func() { mod, perr = compile(text) }); pi != nil {
		res.Violate(fw.CrashSig("panic", pi.Value, pi.Stack), "the parser panicked on a generated view program: "+pi.Value, with(files, "stack.txt", pi.Stack))
		return
	}
	if perr != nil {
		res.Violate("reject|"+fw.MsgClass(perr.Error()), "the parser rejected a generated view program: "+perr.Error(), files)
		return
	}
	var run1, run2 realRun
	if pi := fw.Guard(func() { run1 = evaluate(mod, p) }); pi != nil {
		res.Violate(fw.CrashSig("panic", pi.Value, pi.Stack), "evaluation panicked: "+pi.Value, with(files, "stack.txt", pi.Stack))
		return
	}
	if pi := fw.Guard(func() { run2 = evaluate(mod, p) }); pi != nil {
		res.Violate(fw.CrashSig("panic", pi.Value, pi.Stack), "second evaluation panicked: "+pi.Value, with(files, "stack.txt", pi.Stack))
		return
	}
	res.Count("double_evaluations", 1)
	files["actual.txt"] = run1.Result.canon() + "\n"

	// equal inputs, equal results
	if !sameVal(run1.Result, run2.Result) || !sameParams(run1.Params, run2.Params) {
		k := firstDiffExact(run1.Result, run2.Result)
		res.Violate("determinism|"+describe(p, k), fmt.Sprintf("two evaluations of the same program on equal arguments differ (first at %s): %s vs %s",
			k, clip(run1.Result.canon(), 300), clip(run2.Result.canon(), 300)), with(files, "actual2.txt", run2.Result.canon()+"\n"))
	}

	diffs := diffKeys(exp, run1.Result)
	pdiffs := diffParams(expParams, run1.Params)
	if len(diffs) == 0 && len(pdiffs) == 0 {
		return
	}
	files["diff.txt"] = diffText(exp, run1.Result, diffs, expParams, run1.Params, pdiffs)

	// A mismatch against the semantics is established. Name its cause, field by field: does one
	// of the known defects, modelled exactly, give precisely what the evaluator returned there?
	// Whatever the known defects do not explain gets a signature of its own.
	type modelled struct {
		m      mode
		exp    *Val
		params map[string]*Val
	}
	var models []modelled
	for _, dm := range []mode{{alias: true}, {del: true}, {alias: true, del: true}} {
		if dexp, dparams, derr := newInterp(p, dm).run(p.Args); derr == nil {
			models = append(models, modelled{dm, dexp, dparams})
		}
	}
	aliasMsg, delMsg := "", ""
	explain := func(m mode, what string) {
		if m.alias && aliasMsg == "" {
			aliasMsg = what
		}
		if m.del && delMsg == "" {
			delMsg = what
		}
	}
	var unexplained, unexplainedParams []string
	for _, k := range diffs {
		done := false
		for _, md := range models {
			var e, a *Val
			if k == "<result>" {
				e, a = md.exp, run1.Result
			} else {
				e, a = lookupKey(md.exp, k), lookupKey(run1.Result, k)
			}
			if (e == nil && a == nil) || (e != nil && a != nil && equalVal(e, a)) {
				explain(md.m, firstDiffMsg(exp, run1.Result, []string{k}, nil))
				done = true
				break
			}
		}
		if !done {
			unexplained = append(unexplained, k)
		}
	}
	for _, k := range pdiffs {
		done := false
		for _, md := range models {
			if e, a := md.params[k], run1.Params[k]; e != nil && a != nil && equalVal(e, a) {
				explain(md.m, firstDiffMsg(exp, run1.Result, nil, []string{k}))
				done = true
				break
			}
		}
		if !done {
			unexplainedParams = append(unexplainedParams, k)
		}
	}
	if aliasMsg != "" {
		res.Violate(sigAlias, "a list bound earlier changed after a later '|' re-used it as left operand ("+aliasMsg+")", files)
	}
	if delMsg != "" {
		res.Violate(sigDel, "a name bound outside a transform is unbound after the transform used the same name as scope variable ("+delMsg+")", files)
	}
	if len(unexplained) > 0 {
		k := unexplained[0]
		e, a := lookupKey(exp, k), lookupKey(run1.Result, k)
		if k == "<result>" {
			e, a = exp, run1.Result
		}
		sig := "value|" + describe(p, k) + "|" + kindOf(e) + "->" + kindOf(a)
		msg := "evaluation differs from the expression semantics: "
		if strings.HasPrefix(k, "chk_") {
			d := describe(p, k)
			if d == "parameter" {
				sig = "purity|parameter-changed|" + kindOf(e) + "->" + kindOf(a)
				msg = "a parameter no longer has the value it was called with: "
			} else {
				// the value re-exported at the end of the body: bound wrongly, or changed afterwards
				sig = "let-value|" + d + "|" + kindOf(e) + "->" + kindOf(a)
				msg = "a let binding re-exported at the end of the body does not have the value the semantics give it: "
			}
		}
		res.Violate(sig, msg+firstDiffMsg(exp, run1.Result, unexplained, nil), files)
		return
	}
	if len(unexplainedParams) > 0 {
		k := unexplainedParams[0]
		res.Violate("purity|argument-binding-changed|"+kindOf(expParams[k])+"->"+kindOf(run1.Params[k]),
			"the caller's binding of a parameter changed during evaluation: "+firstDiffMsg(exp, run1.Result, nil, unexplainedParams), files)
	}
}

func countChk(p *Program) int {
	n := 0
	var walk func(ss []*Stmt)
	walk = func(ss []*Stmt) {
		for _, s := range ss {
			if strings.HasPrefix(s.Name, "chk_") {
				n++
			}
			if s.T != nil {
				walk(s.T.Stmts)
			}
		}
	}
	for _, v := range p.Views {
		walk(v.Body.Stmts)
	}
	return n
}

func kindOf(v *Val) string {
	if v == nil {
		return "absent"
	}
	return v.K.String()
}

func lookupKey(v *Val, k string) *Val {
	if v == nil || v.K != KMap {
		return nil
	}
	return v.M[k]
}

// diffKeys: the output fields of main whose values differ (or "<result>" if the result is not
// even a record with the same fields).
func diffKeys(exp, act *Val) []string {
	if exp.K != KMap || act.K != KMap {
		if equalVal(exp, act) {
			return nil
		}
		return []string{"<result>"}
	}
	var out []string
	seen := map[string]bool{}
	for k, e := range exp.M {
		seen[k] = true
		a, ok := act.M[k]
		if !ok || !equalVal(e, a) {
			out = append(out, k)
		}
	}
	for k := range act.M {
		if !seen[k] {
			out = append(out, k)
		}
	}
	sort.Slice(out, func(i, j int) bool {
		// outputs before re-exports, then by name: the first one names the signature
		ci, cj := strings.HasPrefix(out[i], "chk_"), strings.HasPrefix(out[j], "chk_")
		if ci != cj {
			return !ci
		}
		return out[i] < out[j]
	})
	return out
}

func firstDiffExact(a, b *Val) string {
	if a.K != KMap || b.K != KMap {
		return "<result>"
	}
	for _, k := range a.keys() {
		if x, ok := b.M[k]; !ok || !sameVal(a.M[k], x) {
			return k
		}
	}
	return "<result>"
}

func diffParams(exp, act map[string]*Val) []string {
	var out []string
	for k, e := range exp {
		if a, ok := act[k]; !ok || !equalVal(e, a) {
			out = append(out, k)
		}
	}
	sort.Strings(out)
	return out
}

func sameParams(a, b map[string]*Val) bool {
	for k, x := range a {
		if y, ok := b[k]; !ok || !sameVal(x, y) {
			return false
		}
	}
	return len(a) == len(b)
}

func firstDiffMsg(exp, act *Val, diffs, pdiffs []string) string {
	if len(diffs) > 0 {
		k := diffs[0]
		if k == "<result>" {
			return fmt.Sprintf("result: expected %s, got %s", clip(exp.show(), 300), clip(act.canon(), 300))
		}
		return fmt.Sprintf("%s: expected %s, got %s", k, clip(showOrAbsent(lookupKey(exp, k)), 300), clip(showOrAbsent(lookupKey(act, k)), 300))
	}
	return fmt.Sprintf("caller's binding of %s after the evaluation", pdiffs[0])
}

func showOrAbsent(v *Val) string {
	if v == nil {
		return "<no such field>"
	}
	return v.show()
}

func diffText(exp, act *Val, diffs []string, ep, ap map[string]*Val, pdiffs []string) string {
	var sb strings.Builder
	for _, k := range diffs {
		if k == "<result>" {
			fmt.Fprintf(&sb, "result\n  expected %s\n  actual   %s\n", exp.show(), act.canon())
			continue
		}
		fmt.Fprintf(&sb, "%s\n  expected %s\n  actual   %s\n", k, showOrAbsent(lookupKey(exp, k)), showOrAbsent(lookupKey(act, k)))
	}
	for _, k := range pdiffs {
		fmt.Fprintf(&sb, "caller's binding of %s afterwards\n  expected %s\n  actual   %s\n", k, ep[k].show(), ap[k].canon())
	}
	return sb.String()
}

// describe names the construct that defines an output field of main (no case-specific names).
func describe(p *Program, key string) string {
	main := p.view(p.Main)
	for _, s := range main.Body.Stmts {
		if s.Name != key || s.Let {
			continue
		}
		if strings.HasPrefix(key, "chk_") {
			target := strings.TrimPrefix(key, "chk_")
			for _, q := range main.Params {
				if q.Name == target {
					return "parameter"
				}
			}
			for _, d := range main.Body.Stmts {
				if d.Let && d.Name == target {
					return "let:" + describeStmt(d)
				}
			}
			return "binding"
		}
		return describeStmt(s)
	}
	return "result"
}

func describeStmt(s *Stmt) string {
	switch {
	case s.T != nil:
		v := "named"
		if s.T.Var == "" {
			v = "dot"
		}
		return "transform:" + s.T.Ret + ":" + v
	case s.MI != nil:
		return "multiline-if"
	}
	return describeExpr(s.E)
}

func describeExpr(e Expr) string {
	switch x := e.(type) {
	case *Lit:
		return "literal"
	case *Name:
		return "name"
	case *ListLit:
		return "list-literal"
	case *SetLit:
		return "set-literal"
	case *Bin:
		return "op:" + x.Op
	case *Neg:
		return "op:NEG"
	case *If:
		return "if"
	case *Count:
		return "count"
	case *RelOp:
		v := "named"
		if x.Var == "" {
			v = "dot"
		}
		return strings.ToLower(x.Op) + ":" + v
	case *Attr:
		return "attr(" + describeExpr(x.E) + ")"
	case *Call:
		return "call"
	}
	return "expr"
}

func with(m map[string]string, k, v string) map[string]string {
	out := map[string]string{k: v}
	for a, b := range m {
		out[a] = b
	}
	return out
}

func head(s string, n int) string {
	ls := strings.Split(s, "\n")
	if len(ls) > n {
		ls = ls[:n]
	}
	return strings.Join(ls, "\n")
}

func clip(s string, n int) string {
	if len(s) > n {
		return s[:n] + "..."
	}
	return s
}
