package c10

import (
	"fmt"

	"verif/fw"
)

// Random deeper programs: type-directed generation of a main view (and up to two callee views)
// with let-bound values that several later expressions use, scope variables that deliberately
// re-use outer names, and the shapes that expose operand aliasing over-weighted (lists of length
// 3, 5, 6, 7; the same list concatenated more than once).

type rgen struct {
	b *builder
	r *fw.Rand
}

var listLens = []int{1, 2, 3, 3, 3, 4, 5, 5, 6, 6, 7, 7}

func (g *rgen) intLit() *Val {
	return vInt([]int64{0, 1, 2, 3, 5, 7, 10, -1, -3}[g.r.Intn(9)])
}
func (g *rgen) strLit() *Val {
	return vStr([]string{"", "a", "b", "ab", "c d", "Z"}[g.r.Intn(6)])
}

// value gives a random value of a type (for arguments and literals). Sets get distinct elements.
func (g *rgen) value(T *Type, allowEmpty bool) *Val {
	switch T.K {
	case KInt:
		return g.intLit()
	case KStr:
		return g.strLit()
	case KBool:
		return vBool(g.r.Chance(1, 2))
	case KList:
		n := listLens[g.r.Intn(len(listLens))]
		if T.Elem.K == KList || T.Elem.K == KSet || T.Elem.K == KMap {
			n = g.r.Range(1, 3)
		}
		if allowEmpty && g.r.Chance(1, 10) {
			n = 0
		}
		out := vList()
		for i := 0; i < n; i++ {
			out.Items = append(out.Items, g.value(T.Elem, false))
		}
		return out
	case KSet:
		n := g.r.Range(1, 4)
		if allowEmpty && g.r.Chance(1, 10) {
			n = 0
		}
		out := vSet()
		seen := map[string]bool{}
		for i := 0; i < n*3 && len(out.Items) < n; i++ {
			v := g.value(T.Elem, false)
			if c := v.canon(); !seen[c] {
				seen[c] = true
				out.Items = append(out.Items, v)
			}
		}
		return out
	case KMap:
		m := &Val{K: KMap, M: map[string]*Val{}}
		for _, f := range T.Fields {
			m.M[f.Name] = g.value(f.T, false)
		}
		return m
	}
	panic("value: " + T.key())
}

// names: visible, usable bindings of exactly this type (innermost binding of a name wins).
func (g *rgen) names(bc *bodyCtx, T *Type) []*binding {
	var out []*binding
	seen := map[string]bool{}
	k := T.key()
	for i := len(bc.vis) - 1; i >= 0; i-- {
		bd := bc.vis[i]
		if seen[bd.name] {
			continue
		}
		seen[bd.name] = true
		if !bd.dead && bd.T != nil && bd.T.key() == k {
			out = append(out, bd)
		}
	}
	return out
}

// visibleWhere: innermost usable bindings satisfying a predicate on the type.
func (g *rgen) visibleWhere(bc *bodyCtx, ok func(*Type) bool) []*binding {
	var out []*binding
	seen := map[string]bool{}
	for i := len(bc.vis) - 1; i >= 0; i-- {
		bd := bc.vis[i]
		if seen[bd.name] {
			continue
		}
		seen[bd.name] = true
		if !bd.dead && bd.T != nil && ok(bd.T) {
			out = append(out, bd)
		}
	}
	return out
}

func (g *rgen) use(bd *binding) Expr {
	bd.uses++
	return &Name{bd.name}
}

func (g *rgen) leaf(bc *bodyCtx, T *Type) Expr {
	if ns := g.names(bc, T); len(ns) > 0 && (T.hasMap() || g.r.Chance(7, 10)) {
		return g.use(ns[g.r.Intn(len(ns))])
	}
	if T.hasMap() {
		return nil
	}
	e, _ := literal(g.value(T, false))
	return e
}

// with runs f with one more visible binding (a scope variable).
func (g *rgen) with(bc *bodyCtx, name string, T *Type, f func()) {
	if name == "" {
		name = "."
	}
	bc.vis = append(bc.vis, &binding{name: name, T: T, kind: bVar})
	f()
	bc.vis = bc.vis[:len(bc.vis)-1]
}

// exprVar picks the scope variable of a where / flatten: fresh, '.', or an outer name on purpose.
func (g *rgen) exprVar(bc *bodyCtx) string {
	switch g.r.Intn(6) {
	case 0, 1:
		return ""
	case 2:
		cands := g.visibleWhere(bc, func(*Type) bool { return true })
		var named []*binding
		for _, c := range cands {
			if c.name != "." {
				named = append(named, c)
			}
		}
		if len(named) > 0 {
			g.b.shadows++
			return named[g.r.Intn(len(named))].name
		}
	}
	return g.b.fresh("v")
}

func (g *rgen) expr(bc *bodyCtx, T *Type, d int) Expr {
	if d <= 0 {
		return g.leaf(bc, T)
	}
	var e Expr
	switch T.K {
	case KInt:
		e = g.intExpr(bc, d)
	case KStr:
		e = g.strExpr(bc, d)
	case KBool:
		e = g.boolExpr(bc, d)
	case KList:
		e = g.listExpr(bc, T, d)
	case KSet:
		e = g.setExpr(bc, T, d)
	default:
		e = g.leaf(bc, T)
	}
	if e == nil {
		e = g.leaf(bc, T)
	}
	return e
}

var collTypes = []*Type{tList(tInt), tList(tStr), tSet(tInt), tSet(tStr), tList(tList(tInt))}

func (g *rgen) intExpr(bc *bodyCtx, d int) Expr {
	switch g.r.Intn(11) {
	case 0, 1, 2:
		op := []string{"ADD", "SUB", "MUL", "ADD", "SUB"}[g.r.Intn(5)]
		return &Bin{op, g.expr(bc, tInt, d-1), g.expr(bc, tInt, d-1)}
	case 3:
		op := []string{"DIV", "MOD"}[g.r.Intn(2)]
		div := []int64{1, 2, 3, 5, -2}[g.r.Intn(5)]
		return &Bin{op, g.expr(bc, tInt, d-1), &Lit{vInt(div)}}
	case 4, 5:
		// count of something: prefer a visible collection or map
		cands := g.visibleWhere(bc, func(t *Type) bool { return t.isColl() || (t.K == KMap && !t.KV) })
		if len(cands) > 0 && g.r.Chance(2, 3) {
			bd := cands[g.r.Intn(len(cands))]
			if bd.T.K == KMap && bd.T.dictElem() != nil && g.r.Chance(1, 2) {
				if w := g.mapWhere(bc, bd); w != nil {
					return &Count{w}
				}
			}
			return &Count{g.use(bd)}
		}
		return &Count{g.expr(bc, collTypes[g.r.Intn(len(collTypes))], d-1)}
	case 6:
		return &If{g.expr(bc, tBool, d-1), g.expr(bc, tInt, d-1), g.expr(bc, tInt, d-1)}
	case 7:
		if a := g.attrOf(bc, tInt); a != nil {
			return a
		}
	case 8:
		return &Neg{g.expr(bc, tInt, d-1)}
	}
	return g.leaf(bc, tInt)
}

// attrOf: an attribute access of the wanted type on a visible record or map entry.
func (g *rgen) attrOf(bc *bodyCtx, T *Type) Expr {
	type cand struct {
		bd *binding
		f  string
	}
	var cs []cand
	for _, bd := range g.visibleWhere(bc, func(t *Type) bool { return t.K == KMap }) {
		for _, f := range bd.T.Fields {
			if f.T != nil && f.T.key() == T.key() {
				if !bd.T.KV && len(bd.T.Fields) == 2 && bd.T.field("key") != nil && bd.T.field("value") != nil {
					continue
				}
				cs = append(cs, cand{bd, f.Name})
			}
		}
	}
	if len(cs) == 0 {
		return nil
	}
	c := cs[g.r.Intn(len(cs))]
	return &Attr{g.use(c.bd), c.f}
}

func (g *rgen) strExpr(bc *bodyCtx, d int) Expr {
	switch g.r.Intn(6) {
	case 0, 1, 2:
		return &Bin{"ADD", g.expr(bc, tStr, d-1), g.expr(bc, tStr, d-1)}
	case 3:
		return &If{g.expr(bc, tBool, d-1), g.expr(bc, tStr, d-1), g.expr(bc, tStr, d-1)}
	case 4:
		if a := g.attrOf(bc, tStr); a != nil {
			return a
		}
	}
	return g.leaf(bc, tStr)
}

func (g *rgen) boolExpr(bc *bodyCtx, d int) Expr {
	switch g.r.Intn(12) {
	case 0, 1, 2:
		op := []string{"EQ", "NE", "LT", "LE", "GT", "GE"}[g.r.Intn(6)]
		return &Bin{op, g.expr(bc, tInt, d-1), g.expr(bc, tInt, d-1)}
	case 3:
		return &Bin{[]string{"EQ", "NE"}[g.r.Intn(2)], g.expr(bc, tStr, d-1), g.expr(bc, tStr, d-1)}
	case 4:
		return &Bin{[]string{"EQ", "NE"}[g.r.Intn(2)], g.expr(bc, tBool, d-1), g.expr(bc, tBool, d-1)}
	case 5, 6:
		return &Bin{"AND", g.expr(bc, tBool, d-1), g.expr(bc, tBool, d-1)}
	case 7, 8:
		op := []string{"IN", "NOT_IN"}[g.r.Intn(2)]
		lhs := g.expr(bc, tStr, d-1)
		switch g.r.Intn(5) {
		case 0:
			maps := g.visibleWhere(bc, func(t *Type) bool { return t.K == KMap && !t.KV })
			if len(maps) > 0 {
				bd := maps[g.r.Intn(len(maps))]
				if bd.T.dictElem() != nil && g.r.Chance(1, 2) {
					if w := g.mapWhere(bc, bd); w != nil {
						return &Bin{op, lhs, w}
					}
				}
				return &Bin{op, lhs, g.use(bd)}
			}
		case 1:
			if g.r.Chance(1, 3) {
				return &Bin{op, lhs, lnull()}
			}
		case 2:
			return &Bin{op, lhs, g.expr(bc, tSet(tStr), d-1)}
		}
		return &Bin{op, lhs, g.expr(bc, tList(tStr), d-1)}
	case 9:
		op := []string{"EQ", "NE"}[g.r.Intn(2)]
		switch g.r.Intn(4) {
		case 0:
			return &Bin{op, g.expr(bc, tInt, d-1), lnull()}
		case 1:
			return &Bin{op, lnull(), g.expr(bc, tStr, d-1)}
		case 2:
			recs := g.visibleWhere(bc, func(t *Type) bool { return t.K == KMap && !t.KV })
			if len(recs) > 0 {
				return &Bin{op, &Attr{g.use(recs[g.r.Intn(len(recs))]), "nosuch"}, lnull()}
			}
		}
		return &Bin{op, g.expr(bc, tList(tInt), d-1), lnull()}
	case 10:
		return &If{g.expr(bc, tBool, d-1), g.expr(bc, tBool, d-1), g.expr(bc, tBool, d-1)}
	}
	return g.leaf(bc, tBool)
}

// mapWhere: "m where(kv: pred)" on a dictionary-like map (only ever counted or searched).
func (g *rgen) mapWhere(bc *bodyCtx, bd *binding) Expr {
	el := bd.T.dictElem()
	if el == nil {
		return nil
	}
	v := g.exprVar(bc)
	var pred Expr
	g.with(bc, v, tKV(el), func() { pred = g.expr(bc, tBool, 1) })
	if g.r.Chance(1, 2) {
		ve := Expr(&Name{"."})
		if v != "" {
			ve = &Name{v}
		}
		pred = &Bin{"NE", &Attr{ve, "key"}, &Lit{vStr(bd.T.Fields[0].Name)}}
	}
	return &RelOp{"WHERE", g.use(bd), v, pred}
}

func (g *rgen) listExpr(bc *bodyCtx, T *Type, d int) Expr {
	E := T.Elem
	switch g.r.Intn(10) {
	case 0, 1, 2, 3:
		// concatenation; the left operand is a visible list whenever there is one
		var l Expr
		if ns := g.names(bc, T); len(ns) > 0 && g.r.Chance(4, 5) {
			l = g.use(ns[g.r.Intn(len(ns))])
		} else {
			l = g.expr(bc, T, d-1)
		}
		if (E.K == KInt || E.K == KStr) && g.r.Chance(1, 5) {
			return &Bin{"BITOR", l, g.expr(bc, tSet(E), d-1)}
		}
		if !E.hasMap() && g.r.Chance(2, 3) {
			return &Bin{"BITOR", l, &ListLit{[]Expr{g.expr(bc, E, d-1)}}}
		}
		return &Bin{"BITOR", l, g.expr(bc, T, d-1)}
	case 4, 5:
		if E.K == KStr || E.K == KList || E.K == KMap {
			v := g.exprVar(bc)
			coll := g.expr(bc, T, d-1)
			var pred Expr
			g.with(bc, v, E, func() { pred = g.expr(bc, tBool, minInt(d-1, 2)) })
			return &RelOp{"WHERE", coll, v, pred}
		}
	case 6, 7:
		if E.K == KInt || E.K == KStr {
			// flatten a list of lists (or of records) to a list of scalars
			recs := g.visibleWhere(bc, func(t *Type) bool {
				return t.K == KList && t.Elem.K == KMap && !t.Elem.KV && hasFieldOf(t.Elem, E)
			})
			if len(recs) > 0 && g.r.Chance(1, 2) {
				bd := recs[g.r.Intn(len(recs))]
				v := g.exprVar(bc)
				var body Expr
				g.with(bc, v, bd.T.Elem, func() {
					ve := Expr(&Name{"."})
					if v != "" {
						ve = &Name{v}
					}
					body = &Attr{ve, fieldOf(bd.T.Elem, E, g.r)}
				})
				return &RelOp{"FLATTEN", g.use(bd), v, body}
			}
			inner := tList(E)
			if E.K == KInt && g.r.Chance(1, 3) {
				inner = tSet(E)
			}
			v := g.exprVar(bc)
			coll := g.expr(bc, tList(inner), d-1)
			var body Expr
			g.with(bc, v, E, func() { body = g.expr(bc, E, minInt(d-1, 2)) })
			return &RelOp{"FLATTEN", coll, v, body}
		}
	case 8:
		return &If{g.expr(bc, tBool, d-1), g.expr(bc, T, d-1), g.expr(bc, T, d-1)}
	}
	return g.leaf(bc, T)
}

func hasFieldOf(rec, T *Type) bool {
	for _, f := range rec.Fields {
		if f.T != nil && f.T.key() == T.key() {
			return true
		}
	}
	return false
}

func fieldOf(rec, T *Type, r *fw.Rand) string {
	var fs []string
	for _, f := range rec.Fields {
		if f.T != nil && f.T.key() == T.key() {
			fs = append(fs, f.Name)
		}
	}
	return fs[r.Intn(len(fs))]
}

func minInt(a, b int) int {
	if a < b {
		return a
	}
	return b
}

func (g *rgen) setExpr(bc *bodyCtx, T *Type, d int) Expr {
	E := T.Elem
	scalar := E.K == KInt || E.K == KStr
	switch g.r.Intn(10) {
	case 0, 1, 2:
		if scalar || (E.K == KMap && scalarFields(E)) {
			return &Bin{"BITOR", g.expr(bc, T, d-1), g.expr(bc, T, d-1)}
		}
	case 3, 4, 5:
		if scalar || E.K == KMap {
			v := g.exprVar(bc)
			coll := g.expr(bc, T, d-1)
			var pred Expr
			g.with(bc, v, E, func() { pred = g.expr(bc, tBool, minInt(d-1, 2)) })
			return &RelOp{"WHERE", coll, v, pred}
		}
	case 6:
		if E.K == KInt {
			// flatten a set of disjoint sets / lists with an injective body
			a, b2, c := int64(g.r.Range(0, 3)), int64(g.r.Range(4, 6)), int64(g.r.Range(7, 9))
			var src Expr
			if g.r.Chance(1, 2) {
				src = &SetLit{[]Expr{&ListLit{[]Expr{li(a), li(b2)}}, &ListLit{[]Expr{li(c)}}}}
			} else {
				src = &SetLit{[]Expr{&SetLit{[]Expr{li(a), li(b2)}}, &SetLit{[]Expr{li(c)}}}}
			}
			v := g.exprVar(bc)
			ve := Expr(&Name{"."})
			if v != "" {
				ve = &Name{v}
			}
			body := []Expr{ve, &Bin{"ADD", ve, li(int64(g.r.Range(1, 20)))}, &Bin{"MUL", ve, li(int64(g.r.Range(2, 5)))}}[g.r.Intn(3)]
			return &RelOp{"FLATTEN", src, v, body}
		}
	case 7:
		return &If{g.expr(bc, tBool, d-1), g.expr(bc, T, d-1), g.expr(bc, T, d-1)}
	}
	return g.leaf(bc, T)
}

func scalarFields(rec *Type) bool {
	for _, f := range rec.Fields {
		if f.T == nil || !f.T.isScalar() {
			return false
		}
	}
	return true
}

// recordCollection: where / union / flatten over a visible list or set of records.
func (g *rgen) recordCollection(bc *bodyCtx, bd *binding) Expr {
	E := bd.T.Elem
	ve := func(v string) Expr {
		if v == "" {
			return &Name{"."}
		}
		return &Name{v}
	}
	switch g.r.Intn(3) {
	case 0:
		if bd.T.K == KSet && scalarFields(E) {
			others := g.names(bc, bd.T)
			return &Bin{"BITOR", g.use(bd), g.use(others[g.r.Intn(len(others))])}
		}
	case 1:
		var scalars []string
		for _, f := range E.Fields {
			if f.T != nil && f.T.isScalar() {
				scalars = append(scalars, f.Name)
			}
		}
		if len(scalars) > 0 {
			v := g.exprVar(bc)
			return &RelOp{"FLATTEN", g.use(bd), v, &Attr{ve(v), scalars[g.r.Intn(len(scalars))]}}
		}
	}
	v := g.exprVar(bc)
	var pred Expr
	g.with(bc, v, E, func() { pred = g.expr(bc, tBool, 2) })
	return &RelOp{"WHERE", g.use(bd), v, pred}
}

// ---- statements ----

func (g *rgen) randType() *Type {
	return []*Type{tInt, tInt, tInt, tStr, tStr, tBool, tBool, tList(tInt), tList(tInt), tList(tInt), tList(tStr),
		tSet(tInt), tSet(tInt), tSet(tStr), tList(tList(tInt))}[g.r.Intn(15)]
}

// transformVar picks the scope variable of a transform statement. Re-using an outer name is
// allowed where the name is bound again before anything could read it in a later iteration: at
// level 0 (body runs once) any usable let/parameter; deeper only the body's own scope variable
// and lets of the same body.
func (g *rgen) transformVar(bc *bodyCtx, mustName, mustDot bool) (string, *binding) {
	if mustDot {
		return "", nil
	}
	k := g.r.Intn(8)
	if k < 2 && !mustName {
		return "", nil
	}
	if k < 5 {
		var cands []*binding
		seen := map[string]bool{}
		for i := len(bc.vis) - 1; i >= 0; i-- {
			bd := bc.vis[i]
			if seen[bd.name] || bd.name == "." {
				seen[bd.name] = true
				continue
			}
			seen[bd.name] = true
			if bd.dead {
				continue
			}
			switch {
			case bc.level == 0 && (bd.kind == bLet || bd.kind == bParam):
				cands = append(cands, bd)
			case bc.level > 0 && bd.kind == bVar && bd.name == bc.ownVar:
				cands = append(cands, bd)
			case bc.level > 0 && bd.kind == bLet && bd.owner == bc.level && declaredHere(bc, bd.name):
				cands = append(cands, bd)
			}
		}
		if len(cands) > 0 {
			bd := cands[g.r.Intn(len(cands))]
			return bd.name, bd
		}
	}
	return g.b.fresh("v"), nil
}

// transformStmt generates "<arg> -> <...>(v: body)" and gives the static type of its result.
func (g *rgen) transformStmt(bc *bodyCtx, d int) (*Transform, *Type) {
	var arg Expr
	var argT *Type
	var cands []*binding
	for _, c := range g.visibleWhere(bc, func(t *Type) bool {
		return t.isColl() || t.isScalar() || (t.K == KMap && !t.KV)
	}) {
		if c.name != "." { // "." as written argument means "no argument" to the evaluator
			cands = append(cands, c)
		}
	}
	if len(cands) > 0 && g.r.Chance(3, 4) {
		bd := cands[g.r.Intn(len(cands))]
		arg, argT = g.use(bd), bd.T
	} else {
		argT = []*Type{tList(tInt), tList(tInt), tSet(tInt), tList(tStr), tSet(tStr), tList(tList(tInt)), tInt, tStr}[g.r.Intn(8)]
		arg = g.expr(bc, argT, minInt(d, 1))
		if n, isName := arg.(*Name); isName && n.N == "." {
			// a written argument "." means "no argument" to the evaluator: not generated
			arg, _ = literal(g.value(argT, false))
		}
	}
	t := &Transform{Arg: arg, TName: "Rec"}
	var elemT *Type
	single := false
	switch {
	case argT.isColl():
		elemT = argT.Elem
		t.Ret = []string{"seq", "set"}[g.r.Intn(2)]
	case argT.K == KMap && g.r.Chance(1, 2):
		// entries
		elemT = tKV(argT.dictElem())
		t.Ret = []string{"seq", "seq", "set"}[g.r.Intn(3)]
	case argT.K == KMap:
		elemT, single, t.Ret = argT, true, "plain"
	default:
		elemT, single, t.Ret = argT, true, "plain"
	}
	entries := elemT.KV
	var shadowed *binding
	t.Var, shadowed = g.transformVar(bc, entries, single && argT.K == KMap)
	level := bc.level + 1
	if single {
		level = bc.level // runs once per run of the enclosing body
	}
	own := t.Var
	body := bc.child(level, own)
	vname := t.Var
	if vname == "" {
		vname = "."
	}
	body.vis = append(body.vis, &binding{name: vname, T: elemT, kind: bVar})
	rec := g.body(body, d, 1+g.r.Intn(3), entries && t.Ret == "set")
	t.Stmts = body.stmts
	if shadowed != nil {
		shadowed.dead = true
		g.b.shadows++
		g.b.tshadow++
	}
	switch {
	case single:
		return t, rec
	case t.Ret == "set":
		return t, tSet(rec)
	}
	return t, tList(rec)
}

// body fills a transform body: output fields, sometimes a let with its re-export, sometimes the
// aliasing shape on a list-valued scope variable, sometimes a nested transform.
func (g *rgen) body(bc *bodyCtx, d, n int, needKey bool) *Type {
	var fields []Field
	field := func(T *Type, s *Stmt) {
		s.Name = g.b.fresh("n")
		bc.out(s.Name, s)
		fields = append(fields, Field{s.Name, T})
	}
	own := bc.vis[len(bc.vis)-1]
	if needKey || (own.T.KV && g.r.Chance(1, 2)) {
		field(tStr, &Stmt{E: &Attr{g.use(own), "key"}})
	}
	for i := 0; i < n; i++ {
		switch k := g.r.Intn(10); {
		case k < 5:
			T := g.randType()
			if T.isColl() && T.Elem.isColl() {
				T = tInt
			}
			field(T, &Stmt{E: g.expr(bc, T, d)})
		case k < 7:
			T := g.randType()
			nm := g.b.fresh("t")
			bc.addLet(nm, T, &Stmt{Let: true, Name: nm, E: g.expr(bc, T, d)})
		case k < 8 && !own.dead && own.T.K == KList && !own.T.Elem.hasMap():
			// the scope variable is a list: concatenate onto it twice
			e1, _ := literal(g.value(own.T.Elem, false))
			e2, _ := literal(g.value(own.T.Elem, false))
			field(own.T, &Stmt{E: &Bin{"BITOR", g.use(own), &ListLit{[]Expr{e1}}}})
			field(own.T, &Stmt{E: &Bin{"BITOR", g.use(own), &ListLit{[]Expr{e2}}}})
		case k < 9 && bc.level < 2:
			t, T := g.transformStmt(bc, minInt(d, 1))
			field(T, &Stmt{T: t})
		default:
			if !own.dead && (own.T.isScalar() || own.T.isColl()) {
				field(own.T, &Stmt{E: g.use(own)})
			} else {
				field(tInt, &Stmt{E: g.expr(bc, tInt, d)})
			}
		}
	}
	if len(fields) == 0 {
		field(tInt, &Stmt{E: g.expr(bc, tInt, 1)})
	}
	// re-export the body's lets (they are bound again in every iteration)
	for _, bd := range bc.vis {
		if bd.kind == bLet && bd.owner == bc.level && declaredHere(bc, bd.name) {
			nm := "chk_" + bd.name
			bc.out(nm, &Stmt{Name: nm, E: &Name{bd.name}})
			fields = append(fields, Field{nm, nil}) // not used through attribute access
		}
	}
	return tRec(fields...)
}

func (g *rgen) multiIf(bc *bodyCtx, d int) (*MultiIf, *Type) {
	subjT := []*Type{tInt, tInt, tStr, tBool}[g.r.Intn(4)]
	outT := []*Type{tInt, tStr, tBool, tList(tInt)}[g.r.Intn(4)]
	mi := &MultiIf{Subject: g.expr(bc, subjT, minInt(d, 2)), Else: g.expr(bc, outT, 1)}
	seen := map[string]bool{}
	arms := g.r.Range(1, 3)
	if subjT.K == KBool {
		arms = 1
	}
	for a := 0; a < arms; a++ {
		var ctl []Expr
		for c := 0; c < 1+g.r.Intn(2); c++ {
			v := g.value(subjT, false)
			if seen[v.canon()] {
				continue
			}
			seen[v.canon()] = true
			ctl = append(ctl, &Lit{v})
		}
		if len(ctl) == 0 {
			continue
		}
		mi.Arms = append(mi.Arms, Arm{ctl, g.expr(bc, outT, 1)})
	}
	if len(mi.Arms) == 0 {
		mi.Arms = append(mi.Arms, Arm{[]Expr{&Lit{g.value(subjT, false)}}, g.expr(bc, outT, 1)})
	}
	return mi, outT
}

// aliasShape: the same list on the left of several concatenations, results kept and exported.
func (g *rgen) aliasShape(bc *bodyCtx) {
	var base *binding
	lists := g.visibleWhere(bc, func(t *Type) bool { return t.K == KList && !t.Elem.hasMap() && !t.Elem.isColl() })
	if len(lists) > 0 && g.r.Chance(2, 3) {
		base = lists[g.r.Intn(len(lists))]
	} else {
		T := []*Type{tList(tInt), tList(tInt), tList(tStr)}[g.r.Intn(3)]
		v := vList()
		for i, n := 0, []int{3, 5, 6, 7, 3, 2, 4}[g.r.Intn(7)]; i < n; i++ {
			v.Items = append(v.Items, g.value(T.Elem, false))
		}
		e, _ := literal(v)
		nm := g.b.fresh("a")
		base = bc.addLet(nm, T, &Stmt{Let: true, Name: nm, E: e})
	}
	cur := base
	for i, n := 0, 2+g.r.Intn(2); i < n; i++ {
		el, _ := literal(g.value(cur.T.Elem, false))
		e := &Bin{"BITOR", g.use(cur), &ListLit{[]Expr{el}}}
		if g.r.Chance(1, 2) {
			nm := g.b.fresh("a")
			nb := bc.addLet(nm, cur.T, &Stmt{Let: true, Name: nm, E: e})
			o := g.b.fresh("o")
			bc.out(o, &Stmt{Name: o, E: g.use(nb)})
			if g.r.Chance(1, 4) {
				cur = nb // chain: the next concatenations grow the new list
			}
		} else {
			o := g.b.fresh("o")
			bc.out(o, &Stmt{Name: o, E: e})
		}
	}
}

// helperView generates a callee view; its body re-exports its own parameters.
func (g *rgen) helperView(name string) (*View, *Type) {
	v := &View{Name: name}
	firstT := []*Type{tInt, tStr, tList(tInt), tList(tInt), tSet(tInt), recA, tList(tStr)}[g.r.Intn(7)]
	bc := &bodyCtx{fields: map[string]bool{}}
	add := func(T *Type) *binding {
		n := g.b.fresh("q")
		v.Params = append(v.Params, Param{n, T})
		bd := &binding{name: n, T: T, kind: bParam}
		bc.vis = append(bc.vis, bd)
		return bd
	}
	first := add(firstT)
	for i, n := 0, g.r.Intn(3); i < n; i++ {
		add([]*Type{tInt, tStr, tList(tInt), tSet(tStr), tBool}[g.r.Intn(5)])
	}
	t := &Transform{Arg: &Name{first.name}}
	var elemT *Type
	switch {
	case firstT.isColl():
		elemT = firstT.Elem
		v.RetSet = g.r.Chance(1, 2)
		bc.level = 1
		t.Var = g.b.fresh("v")
		if g.r.Chance(1, 3) {
			t.Var = ""
		}
	default:
		elemT = firstT
		if firstT.K != KMap && g.r.Chance(1, 2) {
			t.Var = g.b.fresh("v")
		}
	}
	vname := t.Var
	if vname == "" {
		vname = "."
	}
	bc.ownVar = t.Var
	bc.vis = append(bc.vis, &binding{name: vname, T: elemT, kind: bVar})
	rec := g.body(bc, 2, 1+g.r.Intn(3), false)
	for _, p := range v.Params {
		bc.stmts = append(bc.stmts, &Stmt{Name: "chk_" + p.Name, E: &Name{p.Name}})
	}
	t.Stmts = bc.stmts
	v.Body = t
	switch {
	case firstT.isColl() && v.RetSet:
		return v, tSet(rec)
	case firstT.isColl():
		return v, tList(rec)
	}
	return v, rec
}

type helperInfo struct {
	v   *View
	ret *Type
}

// randomProgram builds one random program (deterministic in r).
func randomProgram(r *fw.Rand) (*Program, *builder) {
	b := newBuilder(r)
	g := &rgen{b: b, r: r}
	// parameters of main: a scalar first, then a mix that favours lists with spare capacity
	b.addParam([]*Type{tInt, tStr}[r.Intn(2)], nil)
	pt := []*Type{tList(tInt), tList(tInt), tList(tStr), tSet(tInt), tSet(tStr), recA, dictI, tInt, tStr, tBool,
		tList(tList(tInt)), tList(recA), tSet(recA)}
	for i, n := 0, r.Range(1, 4); i < n; i++ {
		b.addParam(pt[r.Intn(len(pt))], nil)
	}
	// addParam puts the newest first in vis and appends to Params: give values in Params order
	b.prog.Args = nil
	for _, p := range b.main.Params {
		b.prog.Args = append(b.prog.Args, g.value(p.T, true))
	}
	var helpers []helperInfo
	for i, n := 0, r.Intn(3); i < n; i++ {
		v, ret := g.helperView(fmt.Sprintf("h%d", i+1))
		helpers = append(helpers, helperInfo{v, ret})
		b.prog.Views = append(b.prog.Views, v)
	}
	bc := b.top
	d := r.Range(1, 4)
	for i, n := 0, r.Range(3, 8); i < n; i++ {
		switch k := r.Intn(20); {
		case k < 5:
			T := g.randType()
			nm := b.fresh("a")
			bc.addLet(nm, T, &Stmt{Let: true, Name: nm, E: g.expr(bc, T, d)})
		case k < 9:
			T := g.randType()
			o := b.fresh("o")
			bc.out(o, &Stmt{Name: o, E: g.expr(bc, T, d)})
		case k < 13:
			g.aliasShape(bc)
		case k < 16:
			t, T := g.transformStmt(bc, minInt(d, 2))
			if r.Chance(1, 2) {
				nm := b.fresh("a")
				bc.addLet(nm, T, &Stmt{Let: true, Name: nm, T: t})
			} else {
				o := b.fresh("o")
				bc.out(o, &Stmt{Name: o, T: t})
			}
		case k < 17:
			mi, T := g.multiIf(bc, d)
			if r.Chance(1, 2) {
				nm := b.fresh("a")
				bc.addLet(nm, T, &Stmt{Let: true, Name: nm, MI: mi})
			} else {
				o := b.fresh("o")
				bc.out(o, &Stmt{Name: o, MI: mi})
			}
		case k < 19 && len(helpers) > 0:
			h := helpers[r.Intn(len(helpers))]
			var args []Expr
			ok := true
			for _, p := range h.v.Params {
				a := g.expr(bc, p.T, 1)
				if a == nil {
					ok = false
					break
				}
				args = append(args, a)
			}
			if !ok {
				continue
			}
			call := &Call{h.v.Name, args}
			if r.Chance(1, 2) {
				nm := b.fresh("a")
				bc.addLet(nm, h.ret, &Stmt{Let: true, Name: nm, E: call})
			} else {
				o := b.fresh("o")
				bc.out(o, &Stmt{Name: o, E: call})
			}
		default:
			// something derived from a visible map or collection of records, exported whole
			maps := g.visibleWhere(bc, func(t *Type) bool { return t.K == KMap && !t.KV && t.dictElem() != nil })
			recs := g.visibleWhere(bc, func(t *Type) bool { return t.isColl() && t.Elem.K == KMap && !t.Elem.KV })
			switch {
			case len(recs) > 0 && (len(maps) == 0 || r.Chance(2, 3)):
				if e := g.recordCollection(bc, recs[r.Intn(len(recs))]); e != nil {
					o := b.fresh("o")
					bc.out(o, &Stmt{Name: o, E: e})
				}
			case len(maps) > 0:
				o := b.fresh("o")
				bc.out(o, &Stmt{Name: o, E: g.mapWhere(bc, maps[r.Intn(len(maps))])})
			}
		}
	}
	// every let-bound collection is used by at least two later expressions
	for _, bd := range append([]*binding{}, bc.vis...) {
		if bd.kind != bLet || bd.dead || bd.T == nil || !bd.T.isColl() {
			continue
		}
		for bd.uses < 2 {
			o := b.fresh("o")
			switch {
			case bd.T.K == KList && !bd.T.Elem.hasMap():
				el, _ := literal(g.value(bd.T.Elem, false))
				bc.out(o, &Stmt{Name: o, E: &Bin{"BITOR", g.use(bd), &ListLit{[]Expr{el}}}})
			default:
				bc.out(o, &Stmt{Name: o, E: &Count{g.use(bd)}})
			}
		}
	}
	return b.finish(), b
}
