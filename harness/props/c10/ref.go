package c10

import (
	"fmt"
	"sort"
)

// The reference interpreter: the semantics of the view language as the property states them,
// over the generator's AST. It never sees the parsed protobuf and never calls pkg/eval.
//
//	integers: 64 bit, + - *, truncated / and % (a zero divisor or a result beyond 2^40 makes the
//	          program "unpinned": the generator throws it away)
//	strings:  + (concatenation), == !=;   booleans: && == !=;   null equals only null
//	if c then a else b; multi-line "if s ==:" picks the first arm with a control equal to s
//	|  on sets: union without duplicates;  on lists (and list | set): concatenation, a NEW list
//	in / !in: string in list of strings, set of strings, keys of a map; nothing is in null
//	count: number of elements of a list / set, of entries of a map
//	where(v: p): the elements (map: entries as {key,value}) for which p holds; same container kind
//	flatten(v: e): list/set of lists/sets: e for every inner element; list/set of maps: e for every map
//	.attr: field of a map, null when absent; .key / .value of an unpacked map entry
//	coll -> <sequence of T | set of T>(v: stmts): one record per element (map: per entry);
//	          "set of" removes duplicate records; a single value gives one record
//	View(args): the callee's body in a scope that holds only its parameters
//	scoping: a scope variable (and '.') is visible in its body only; afterwards the name means what
//	         it meant before. let binds for the rest of the enclosing body. Nothing ever changes a
//	         value that is already bound.
//
// mode switches on a faithful model of a KNOWN defect of the evaluator; it is used only to name
// the cause of a mismatch that has already been established against the clean semantics.
type mode struct {
	alias bool // list concatenation re-uses the left operand's storage (append without copy)
	del   bool // a transform removes its named scope variable afterwards instead of restoring it
}

type refErr struct{ kind, msg string }

func (e *refErr) Error() string { return e.kind + ": " + e.msg }

func unpinned(f string, a ...any) error    { return &refErr{"unpinned", fmt.Sprintf(f, a...)} }
func unsupported(f string, a ...any) error { return &refErr{"unsupported", fmt.Sprintf(f, a...)} }
func illTyped(f string, a ...any) error    { return &refErr{"illtyped", fmt.Sprintf(f, a...)} }

const intBound = int64(1) << 40

type scope map[string]*Val

type interp struct {
	prog    *Program
	m       mode
	cells   map[string]bool
	steps   int
	depth   int
	empties int // transforms / where / flatten over an empty container
}

func newInterp(p *Program, m mode) *interp {
	return &interp{prog: p, m: m, cells: map[string]bool{}}
}

func (in *interp) cell(c string) error {
	if !supported[c] {
		return unsupported("cell %s is not declared by the evaluator", c)
	}
	in.cells[c] = true
	return nil
}

// run evaluates the main view on the program's arguments; it also returns the final bindings of
// the parameters (what the caller's scope must still hold afterwards).
func (in *interp) run(args []*Val) (res *Val, params map[string]*Val, err error) {
	v := in.prog.view(in.prog.Main)
	sc := scope{}
	for i, p := range v.Params {
		sc[p.Name] = args[i]
	}
	res, err = in.transform(sc, v.Body, v.RetSet)
	if err != nil {
		return nil, nil, err
	}
	params = map[string]*Val{}
	for _, p := range v.Params {
		if x, ok := sc[p.Name]; ok {
			params[p.Name] = x
		} else {
			params[p.Name] = vMissing()
		}
	}
	return res, params, nil
}

// bind sets name for the duration of a body; the returned function ends the binding.
func (in *interp) bind(sc scope, name string, transformVar bool) (set func(*Val), done func()) {
	if name == "" {
		name = "."
	}
	old, had := sc[name]
	set = func(v *Val) { sc[name] = v }
	done = func() {
		if transformVar && in.m.del && name != "." {
			delete(sc, name) // known defect: not restored
			return
		}
		if had {
			sc[name] = old
		} else {
			delete(sc, name)
		}
	}
	return
}

func (in *interp) transform(sc scope, t *Transform, viewRetSet bool) (*Val, error) {
	arg, err := in.expr(sc, t.Arg)
	if err != nil {
		return nil, err
	}
	asSet := t.Ret == "set" || (t.Ret == "" && viewRetSet)
	retName := "seq"
	if asSet {
		retName = "set"
	}
	set, done := in.bind(sc, t.Var, true)
	defer done()
	switch {
	case arg.K == KList || arg.K == KSet:
		if err := in.cell("TRANSFORM/" + arg.K.String() + "/" + retName); err != nil {
			return nil, err
		}
		if len(arg.Items) == 0 {
			in.empties++
		}
		out := []*Val{}
		for _, it := range arg.Items {
			set(it)
			rec, err := in.stmts(sc, t.Stmts)
			if err != nil {
				return nil, err
			}
			if asSet {
				if rec.hasUnordered() {
					return nil, unpinned("set transform over records holding a list of unspecified order")
				}
				// compared with the records as they are now (the same thing as when they were
				// made, unless the aliasing defect is being modelled)
				dup := false
				c := rec.canon()
				for _, prev := range out {
					if prev.canon() == c {
						dup = true
						break
					}
				}
				if dup {
					if rec.hasMultiSet() {
						// equal records that hold sets: the statement does not say that equality
						// of such records must ignore the order in which the sets were built
						return nil, unpinned("set transform: equal records holding sets of several elements")
					}
					continue
				}
			}
			out = append(out, rec)
		}
		if asSet {
			return &Val{K: KSet, Items: out}, nil
		}
		return &Val{K: KList, Items: out, Unordered: arg.Unordered || (arg.K == KSet && len(arg.Items) > 1)}, nil
	case arg.K == KMap && t.Var != "":
		if err := in.cell("TRANSFORM/map/" + retName); err != nil {
			return nil, err
		}
		out := []*Val{}
		seen := map[string]bool{}
		for _, k := range arg.keys() {
			set(&Val{K: KMap, KV: true, M: map[string]*Val{"key": vStr(k), "value": arg.M[k]}})
			rec, err := in.stmts(sc, t.Stmts)
			if err != nil {
				return nil, err
			}
			if asSet {
				if rec.hasUnordered() {
					return nil, unpinned("set transform over records holding a list of unspecified order")
				}
				c := rec.canon()
				if seen[c] {
					return nil, unpinned("map transform declared 'set of' producing equal records")
				}
				seen[c] = true
			}
			out = append(out, rec)
		}
		if asSet {
			return &Val{K: KSet, Items: out}, nil
		}
		return &Val{K: KList, Items: out, Unordered: len(out) > 1}, nil
	case arg.K == KMissing:
		return nil, illTyped("transform over an unbound name")
	default:
		c := "TRANSFORM/scalar/single"
		if arg.K == KMap {
			c = "TRANSFORM/mapdot/single"
		}
		if err := in.cell(c); err != nil {
			return nil, err
		}
		set(arg)
		return in.stmts(sc, t.Stmts)
	}
}

func (in *interp) stmts(sc scope, ss []*Stmt) (*Val, error) {
	rec := &Val{K: KMap, M: map[string]*Val{}}
	type saved struct {
		name string
		old  *Val
		had  bool
	}
	var lets []saved
	defer func() {
		for i := len(lets) - 1; i >= 0; i-- {
			if lets[i].had {
				sc[lets[i].name] = lets[i].old
			} else {
				delete(sc, lets[i].name)
			}
		}
	}()
	for _, s := range ss {
		var v *Val
		var err error
		switch {
		case s.T != nil:
			v, err = in.transform(sc, s.T, false)
		case s.MI != nil:
			v, err = in.multiIf(sc, s.MI)
		default:
			v, err = in.expr(sc, s.E)
		}
		if err != nil {
			return nil, err
		}
		if s.Let {
			old, had := sc[s.Name]
			lets = append(lets, saved{s.Name, old, had})
			sc[s.Name] = v
		} else {
			if _, dup := rec.M[s.Name]; dup {
				return nil, illTyped("field %s assigned twice", s.Name)
			}
			rec.M[s.Name] = v
		}
	}
	return rec, nil
}

func (in *interp) multiIf(sc scope, mi *MultiIf) (*Val, error) {
	if err := in.cell("IF/multiline"); err != nil {
		return nil, err
	}
	subj, err := in.expr(sc, mi.Subject)
	if err != nil {
		return nil, err
	}
	for _, a := range mi.Arms {
		for _, c := range a.Controls {
			cv, err := in.expr(sc, c)
			if err != nil {
				return nil, err
			}
			eq, err := in.equals("EQ", subj, cv)
			if err != nil {
				return nil, err
			}
			if eq {
				return in.expr(sc, a.Val)
			}
		}
	}
	return in.expr(sc, mi.Else)
}

func (in *interp) equals(op string, l, r *Val) (bool, error) {
	if l.K == KMissing || r.K == KMissing {
		return false, illTyped("comparison with an unbound name")
	}
	if err := in.cell(op + "/" + l.K.String() + "/" + r.K.String()); err != nil {
		return false, err
	}
	switch {
	case l.K == KNull || r.K == KNull:
		return l.K == r.K, nil
	case l.K != r.K:
		return false, illTyped("== on %s and %s", l.K, r.K)
	case l.K == KInt:
		return l.I == r.I, nil
	case l.K == KStr:
		return l.S == r.S, nil
	case l.K == KBool:
		return l.B == r.B, nil
	}
	return false, illTyped("== on %s", l.K)
}

func firstKind(items []*Val) string {
	if len(items) == 0 {
		return "noarg"
	}
	return items[0].K.String()
}

func homogeneous(items []*Val) bool {
	for _, x := range items[1:] {
		if x.K != items[0].K {
			return false
		}
	}
	return true
}

func (in *interp) expr(sc scope, e Expr) (*Val, error) {
	in.steps++
	if in.steps > 50000 {
		return nil, unpinned("program too large")
	}
	switch x := e.(type) {
	case *Lit:
		return x.V, nil
	case *Name:
		if v, ok := sc[x.N]; ok {
			return v, nil
		}
		return vMissing(), nil
	case *ListLit:
		if err := in.cell("LIT/list"); err != nil {
			return nil, err
		}
		items := []*Val{}
		for _, k := range x.Elems {
			v, err := in.expr(sc, k)
			if err != nil {
				return nil, err
			}
			items = append(items, v)
		}
		return &Val{K: KList, Items: items}, nil
	case *SetLit:
		if err := in.cell("LIT/set"); err != nil {
			return nil, err
		}
		items := []*Val{}
		seen := map[string]bool{}
		for _, k := range x.Elems {
			v, err := in.expr(sc, k)
			if err != nil {
				return nil, err
			}
			if v.K == KMissing || v.hasUnordered() {
				return nil, unpinned("set literal element without a fixed identity")
			}
			if c := v.canon(); seen[c] {
				return nil, unpinned("set literal with equal elements")
			} else {
				seen[c] = true
			}
			items = append(items, v)
		}
		return &Val{K: KSet, Items: items}, nil
	case *Bin:
		l, err := in.expr(sc, x.L)
		if err != nil {
			return nil, err
		}
		r, err := in.expr(sc, x.R)
		if err != nil {
			return nil, err
		}
		return in.bin(x.Op, l, r)
	case *Neg:
		v, err := in.expr(sc, x.E)
		if err != nil {
			return nil, err
		}
		if v.K != KInt {
			return nil, illTyped("unary minus on %s", v.K)
		}
		if err := in.cell("NEG/int"); err != nil {
			return nil, err
		}
		return vInt(-v.I), nil
	case *If:
		if err := in.cell("IF/oneline"); err != nil {
			return nil, err
		}
		c, err := in.expr(sc, x.C)
		if err != nil {
			return nil, err
		}
		if c.K != KBool {
			return nil, illTyped("condition is %s", c.K)
		}
		if c.B {
			return in.expr(sc, x.T)
		}
		return in.expr(sc, x.F)
	case *Count:
		v, err := in.expr(sc, x.E)
		if err != nil {
			return nil, err
		}
		switch v.K {
		case KList, KSet:
			if err := in.cell("COUNT/" + v.K.String()); err != nil {
				return nil, err
			}
			return vInt(int64(len(v.Items))), nil
		case KMap:
			if err := in.cell("COUNT/map"); err != nil {
				return nil, err
			}
			return vInt(int64(len(v.M))), nil
		}
		return nil, illTyped("count of %s", v.K)
	case *RelOp:
		coll, err := in.expr(sc, x.Coll)
		if err != nil {
			return nil, err
		}
		if x.Op == "WHERE" {
			return in.where(sc, x, coll)
		}
		return in.flatten(sc, x, coll)
	case *Attr:
		m, err := in.expr(sc, x.E)
		if err != nil {
			return nil, err
		}
		if m.K != KMap {
			return nil, illTyped(".%s on %s", x.Name, m.K)
		}
		if m.KV {
			if x.Name != "key" && x.Name != "value" {
				return nil, unpinned("attribute %s of a map entry", x.Name)
			}
			if err := in.cell("ATTR/kv/" + x.Name); err != nil {
				return nil, err
			}
			return m.M[x.Name], nil
		}
		if _, a := m.M["key"]; a && len(m.M) == 2 {
			if _, b := m.M["value"]; b {
				return nil, unpinned("record with exactly the fields key and value")
			}
		}
		if v, ok := m.M[x.Name]; ok {
			if err := in.cell("ATTR/map/present"); err != nil {
				return nil, err
			}
			return v, nil
		}
		if err := in.cell("ATTR/map/missing"); err != nil {
			return nil, err
		}
		return vNull(), nil
	case *Call:
		callee := in.prog.view(x.View)
		if callee == nil || len(callee.Params) != len(x.Args) {
			return nil, illTyped("call of %s", x.View)
		}
		if err := in.cell("CALL/view"); err != nil {
			return nil, err
		}
		cs := scope{}
		for i, a := range x.Args {
			v, err := in.expr(sc, a)
			if err != nil {
				return nil, err
			}
			if v.K == KMissing {
				return nil, illTyped("unbound name passed to a view")
			}
			cs[callee.Params[i].Name] = v
		}
		in.depth++
		defer func() { in.depth-- }()
		if in.depth > 8 {
			return nil, unpinned("call depth")
		}
		return in.transform(cs, callee.Body, callee.RetSet)
	}
	return nil, illTyped("unknown expression node %T", e)
}

func (in *interp) bin(op string, l, r *Val) (*Val, error) {
	if l.K == KMissing || r.K == KMissing {
		return nil, illTyped("%s on an unbound name", op)
	}
	switch op {
	case "EQ", "NE":
		eq, err := in.equals(op, l, r)
		if err != nil {
			return nil, err
		}
		return vBool(eq == (op == "EQ")), nil
	}
	c := op + "/" + l.K.String() + "/" + r.K.String()
	if err := in.cell(c); err != nil {
		return nil, err
	}
	switch c {
	case "ADD/int/int", "SUB/int/int", "MUL/int/int", "DIV/int/int", "MOD/int/int":
		var z int64
		switch op {
		case "ADD":
			z = l.I + r.I
		case "SUB":
			z = l.I - r.I
		case "MUL":
			z = l.I * r.I
		case "DIV", "MOD":
			if r.I == 0 {
				return nil, unpinned("zero divisor")
			}
			// truncated division, written out: |q| = |a| div |b|, sign(q) = sign(a)*sign(b); a = q*b + m
			a, b := l.I, r.I
			neg := (a < 0) != (b < 0)
			if a < 0 {
				a = -a
			}
			if b < 0 {
				b = -b
			}
			q := a / b
			if neg {
				q = -q
			}
			if op == "DIV" {
				z = q
			} else {
				z = l.I - q*r.I
			}
		}
		if z > intBound || z < -intBound {
			return nil, unpinned("integer beyond the generator's bound")
		}
		return vInt(z), nil
	case "LT/int/int":
		return vBool(l.I < r.I), nil
	case "LE/int/int":
		return vBool(l.I <= r.I), nil
	case "GT/int/int":
		return vBool(l.I > r.I), nil
	case "GE/int/int":
		return vBool(l.I >= r.I), nil
	case "ADD/string/string":
		return vStr(l.S + r.S), nil
	case "AND/bool/bool":
		return vBool(l.B && r.B), nil
	case "IN/string/list", "IN/string/set", "NOT_IN/string/list", "NOT_IN/string/set":
		found := false
		for _, it := range r.Items {
			if it.K != KStr {
				return nil, illTyped("in: container of %s", it.K)
			}
			if it.S == l.S {
				found = true
			}
		}
		return vBool(found == (op == "IN")), nil
	case "IN/string/map", "NOT_IN/string/map":
		_, found := r.M[l.S]
		return vBool(found == (op == "IN")), nil
	case "IN/string/null":
		return vBool(false), nil
	case "NOT_IN/string/null":
		return vBool(true), nil
	case "BITOR/list/list", "BITOR/list/set":
		var items []*Val
		if in.m.alias {
			items = append(l.Items, r.Items...) // known defect: may write into the left operand's storage
		} else {
			items = append(append([]*Val{}, l.Items...), r.Items...)
		}
		return &Val{K: KList, Items: items,
			Unordered: l.Unordered || r.Unordered || (r.K == KSet && len(r.Items) > 1)}, nil
	case "BITOR/set/set":
		all := append(append([]*Val{}, l.Items...), r.Items...)
		if len(all) == 0 {
			if err := in.cell("UNION/empty"); err != nil {
				return nil, err
			}
			return &Val{K: KSet, Items: []*Val{}}, nil
		}
		if !homogeneous(all) {
			return nil, illTyped("union of sets of different element kinds")
		}
		switch all[0].K {
		case KInt, KStr:
		case KMap:
			for _, m := range all {
				for _, f := range m.M {
					if f.K != KInt && f.K != KStr && f.K != KBool && f.K != KNull {
						return nil, unpinned("union of sets of records with non-scalar fields")
					}
				}
			}
		default:
			return nil, unsupported("union of sets of %s", all[0].K)
		}
		if err := in.cell("UNION/" + all[0].K.String()); err != nil {
			return nil, err
		}
		out := []*Val{}
		seen := map[string]bool{}
		for _, it := range all {
			if c := it.canon(); !seen[c] {
				seen[c] = true
				out = append(out, it)
			}
		}
		// a set has no order; the elements are kept sorted so that iterating a union visits them
		// in a fixed order
		sort.SliceStable(out, func(i, j int) bool {
			switch out[i].K {
			case KInt:
				return out[i].I < out[j].I
			case KStr:
				return out[i].S < out[j].S
			}
			return out[i].canon() < out[j].canon()
		})
		return &Val{K: KSet, Items: out}, nil
	}
	return nil, illTyped("no semantics for cell %s", c)
}

func (in *interp) where(sc scope, x *RelOp, coll *Val) (*Val, error) {
	switch coll.K {
	case KList, KSet:
		if len(coll.Items) > 0 && !homogeneous(coll.Items) {
			return nil, illTyped("where over mixed kinds")
		}
		if err := in.cell("WHERE/" + coll.K.String() + "/" + firstKind(coll.Items)); err != nil {
			return nil, err
		}
		if len(coll.Items) == 0 {
			in.empties++
		}
		set, done := in.bind(sc, x.Var, false)
		defer done()
		out := []*Val{}
		for _, it := range coll.Items {
			set(it)
			p, err := in.expr(sc, x.Body)
			if err != nil {
				return nil, err
			}
			if p.K != KBool {
				return nil, illTyped("where predicate is %s", p.K)
			}
			if p.B {
				out = append(out, it)
			}
		}
		return &Val{K: coll.K, Items: out, Unordered: coll.Unordered}, nil
	case KMap:
		if coll.KV {
			return nil, unpinned("where over a map entry")
		}
		if err := in.cell("WHERE/map/noarg"); err != nil {
			return nil, err
		}
		set, done := in.bind(sc, x.Var, false)
		defer done()
		out := &Val{K: KMap, M: map[string]*Val{}}
		for _, k := range coll.keys() {
			set(&Val{K: KMap, KV: true, M: map[string]*Val{"key": vStr(k), "value": coll.M[k]}})
			p, err := in.expr(sc, x.Body)
			if err != nil {
				return nil, err
			}
			if p.K != KBool {
				return nil, illTyped("where predicate is %s", p.K)
			}
			if p.B {
				out.M[k] = coll.M[k]
			}
		}
		return out, nil
	}
	return nil, illTyped("where over %s", coll.K)
}

func (in *interp) flatten(sc scope, x *RelOp, coll *Val) (*Val, error) {
	if coll.K != KList && coll.K != KSet {
		return nil, illTyped("flatten over %s", coll.K)
	}
	if len(coll.Items) > 0 && !homogeneous(coll.Items) {
		return nil, illTyped("flatten over mixed kinds")
	}
	fk := firstKind(coll.Items)
	if err := in.cell("FLATTEN/" + coll.K.String() + "/" + fk); err != nil {
		return nil, err
	}
	if len(coll.Items) == 0 {
		in.empties++
	}
	set, done := in.bind(sc, x.Var, false)
	defer done()
	out := []*Val{}
	unordered := coll.Unordered
	add := func(v *Val) error {
		if v.K == KMissing {
			return illTyped("flatten of an unbound name")
		}
		out = append(out, v)
		return nil
	}
	for _, it := range coll.Items {
		switch it.K {
		case KList, KSet:
			if it.Unordered || (coll.K == KList && it.K == KSet && len(it.Items) > 1) {
				unordered = true
			}
			for _, inner := range it.Items {
				set(inner)
				v, err := in.expr(sc, x.Body)
				if err != nil {
					return nil, err
				}
				if err := add(v); err != nil {
					return nil, err
				}
			}
		case KMap:
			set(it)
			v, err := in.expr(sc, x.Body)
			if err != nil {
				return nil, err
			}
			if v.K == KList || v.K == KSet {
				// whether such a body's elements are spliced in is not pinned by the statement
				return nil, unpinned("flatten over maps with a collection-valued body")
			}
			if err := add(v); err != nil {
				return nil, err
			}
		default:
			return nil, illTyped("flatten over a container of %s", it.K)
		}
	}
	if coll.K == KSet {
		seen := map[string]bool{}
		for _, v := range out {
			if v.hasUnordered() {
				return nil, unpinned("flatten to a set of values without fixed identity")
			}
			c := v.canon()
			if seen[c] {
				return nil, unpinned("flatten over a set producing equal elements")
			}
			seen[c] = true
		}
		return &Val{K: KSet, Items: out}, nil
	}
	return &Val{K: KList, Items: out, Unordered: unordered}, nil
}

func sortedCells(m map[string]bool) []string {
	out := make([]string, 0, len(m))
	for k := range m {
		out = append(out, k)
	}
	sort.Strings(out)
	return out
}
