package c10

import (
	"fmt"

	"verif/fw"
)

// binding: a name visible to the generator at some point of a body.
type binding struct {
	name  string
	T     *Type
	kind  int // bParam | bLet | bVar
	uses  int
	dead  bool // a transform has used this name as its scope variable: afterwards only re-exported
	owner int  // nesting level of the body that declared it
}

const (
	bParam = iota
	bLet
	bVar
)

// bodyCtx: generation state of one body (statement list) being built.
type bodyCtx struct {
	vis    []*binding // visible bindings, innermost last
	stmts  []*Stmt
	level  int    // 0 = a view body that runs once; >= 1 = body that runs once per element
	ownVar string // named scope variable of the transform this body belongs to ("" if none / '.')
	fields map[string]bool
}

func (bc *bodyCtx) lookup(n string) *binding {
	for i := len(bc.vis) - 1; i >= 0; i-- {
		if bc.vis[i].name == n {
			return bc.vis[i]
		}
	}
	return nil
}

func (bc *bodyCtx) child(level int, ownVar string) *bodyCtx {
	return &bodyCtx{vis: append([]*binding{}, bc.vis...), level: level, ownVar: ownVar, fields: map[string]bool{}}
}

// builder assembles one Program.
type builder struct {
	r       *fw.Rand
	prog    *Program
	main    *View
	top     *bodyCtx
	nName   int
	shadows int // binders that deliberately re-use an outer name
	tshadow int // ... of which transforms (the known-defect trigger)
	helpers map[string]bool
	strat   int // rotation of operand placement for the enumerated part
}

func newBuilder(r *fw.Rand) *builder {
	b := &builder{r: r, prog: &Program{Main: "main"}, helpers: map[string]bool{}}
	b.main = &View{Name: "main"}
	b.top = &bodyCtx{fields: map[string]bool{}}
	return b
}

func (b *builder) fresh(prefix string) string {
	b.nName++
	return fmt.Sprintf("%s%d", prefix, b.nName)
}

// addParam adds a parameter to main with its argument value.
func (b *builder) addParam(T *Type, v *Val) *binding {
	n := b.fresh("p")
	b.main.Params = append(b.main.Params, Param{n, T})
	b.prog.Args = append(b.prog.Args, v)
	bd := &binding{name: n, T: T, kind: bParam}
	// parameters are visible everywhere in main: put them first
	b.top.vis = append([]*binding{bd}, b.top.vis...)
	return bd
}

func (bc *bodyCtx) addLet(name string, T *Type, s *Stmt) *binding {
	bc.stmts = append(bc.stmts, s)
	bd := &binding{name: name, T: T, kind: bLet, owner: bc.level}
	bc.vis = append(bc.vis, bd)
	return bd
}

func (bc *bodyCtx) out(name string, s *Stmt) {
	bc.fields[name] = true
	bc.stmts = append(bc.stmts, s)
}

// literal renders a value as literal syntax; ok=false when the language has no literal for it
// (maps, empty collections).
func literal(v *Val) (Expr, bool) {
	switch v.K {
	case KInt, KStr, KBool, KNull:
		return &Lit{v}, true
	case KList, KSet:
		if len(v.Items) == 0 {
			return nil, false
		}
		var es []Expr
		for _, it := range v.Items {
			e, ok := literal(it)
			if !ok {
				return nil, false
			}
			es = append(es, e)
		}
		if v.K == KList {
			return &ListLit{es}, true
		}
		return &SetLit{es}, true
	}
	return nil, false
}

// recordByTransform: "let a = 0 -> <Rec>(: f = lit ...)" builds a record with literal fields.
func recordByTransform(v *Val) (*Transform, bool) {
	if v.K != KMap || len(v.M) == 0 {
		return nil, false
	}
	t := &Transform{Arg: &Lit{vInt(0)}, Ret: "plain", TName: "Rec"}
	for _, k := range v.keys() {
		e, ok := literal(v.M[k])
		if !ok {
			return nil, false
		}
		t.Stmts = append(t.Stmts, &Stmt{Name: k, E: e})
	}
	return t, true
}

// operand places a pool value into the program: inline literal, let-bound literal, let-bound
// record-building transform, or parameter of main with the value passed as argument.
// how: 0 inline, 1 let, 2 param (falls back to what is possible for the value).
func (b *builder) operand(bc *bodyCtx, v *Val, T *Type, how int) Expr {
	lit, isLit := literal(v)
	switch {
	case how == 0 && isLit:
		return lit
	case how == 1 && isLit && bc.level == 0:
		n := b.fresh("a")
		bd := bc.addLet(n, T, &Stmt{Let: true, Name: n, E: lit})
		bd.uses++
		return &Name{n}
	case how == 1 && bc.level == 0:
		if t, ok := recordByTransform(v); ok {
			n := b.fresh("a")
			bd := bc.addLet(n, T, &Stmt{Let: true, Name: n, T: t})
			bd.uses++
			return &Name{n}
		}
	}
	if v.K == KNull {
		return &Lit{v}
	}
	bd := b.addParam(T, v)
	bd.uses++
	return &Name{bd.name}
}

// finish appends the purity re-exports (every let of the body, every parameter of the view) and
// closes the view.
func reexports(bc *bodyCtx, params []Param) (lets, ps int) {
	for _, bd := range bc.vis {
		if bd.kind == bLet && bd.owner == bc.level && declaredHere(bc, bd.name) {
			bc.stmts = append(bc.stmts, &Stmt{Name: "chk_" + bd.name, E: &Name{bd.name}})
			lets++
		}
	}
	for _, p := range params {
		bc.stmts = append(bc.stmts, &Stmt{Name: "chk_" + p.Name, E: &Name{p.Name}})
		ps++
	}
	return
}

func declaredHere(bc *bodyCtx, n string) bool {
	for _, s := range bc.stmts {
		if s.Let && s.Name == n {
			return true
		}
	}
	return false
}

func (b *builder) finish() *Program {
	if len(b.main.Params) == 0 || !b.main.Params[0].T.isScalar() {
		// the body of main is a transform over its first parameter: keep that a single value
		n := b.fresh("p")
		b.main.Params = append([]Param{{n, tInt}}, b.main.Params...)
		b.prog.Args = append([]*Val{vInt(int64(b.r.Range(0, 9)))}, b.prog.Args...)
	}
	reexports(b.top, b.main.Params)
	b.main.Body = &Transform{Arg: &Name{b.main.Params[0].Name}, Stmts: b.top.stmts}
	b.prog.Views = append(b.prog.Views, b.main)
	return b.prog
}

// ---- helper views used by call items ----

// helper view definitions are fixed texts of the enumerated part; each re-exports its own
// parameters so that purity inside the callee is visible in the returned record.
func (b *builder) needHelper(name string) {
	if b.helpers[name] {
		return
	}
	b.helpers[name] = true
	var v *View
	switch name {
	case "hA": // (int, string) -> record
		v = &View{Name: "hA", Params: []Param{{"q1", tInt}, {"q2", tStr}}}
		v.Body = &Transform{Arg: &Name{"q1"}, Stmts: []*Stmt{
			{Name: "dbl", E: &Bin{"MUL", &Name{"q1"}, &Lit{vInt(2)}}},
			{Name: "tag", E: &Bin{"ADD", &Name{"q2"}, &Lit{vStr("!")}}},
			{Name: "chk_q1", E: &Name{"q1"}},
			{Name: "chk_q2", E: &Name{"q2"}},
		}}
	case "hB": // (list of int, int) -> sequence of records
		v = &View{Name: "hB", Params: []Param{{"qs", tList(tInt)}, {"q2", tInt}}}
		v.Body = &Transform{Arg: &Name{"qs"}, Var: "x", Stmts: []*Stmt{
			{Name: "v", E: &Bin{"ADD", &Name{"x"}, &Name{"q2"}}},
			{Name: "n", E: &Count{&Name{"qs"}}},
		}}
	case "hC": // (set of int) -> set of records (duplicates removed)
		v = &View{Name: "hC", Params: []Param{{"qs", tSet(tInt)}}, RetSet: true}
		v.Body = &Transform{Arg: &Name{"qs"}, Var: "x", Stmts: []*Stmt{
			{Name: "par", E: &Bin{"MOD", &Name{"x"}, &Lit{vInt(2)}}},
		}}
	case "hD": // (record, int) -> record, '.' is the record
		v = &View{Name: "hD", Params: []Param{{"qm", recA}, {"q2", tInt}}}
		v.Body = &Transform{Arg: &Name{"qm"}, Stmts: []*Stmt{
			{Name: "s", E: &Bin{"ADD", &Attr{&Name{"qm"}, "f1"}, &Name{"q2"}}},
			{Name: "t", E: &Attr{&Name{"."}, "f2"}},
			{Name: "chk_qm", E: &Name{"qm"}},
		}}
	case "hE": // (list of int) -> sequence of records; concatenates onto its parameter twice
		v = &View{Name: "hE", Params: []Param{{"qs", tList(tInt)}, {"q2", tInt}}}
		v.Body = &Transform{Arg: &Name{"q2"}, Stmts: []*Stmt{
			{Name: "u", E: &Bin{"BITOR", &Name{"qs"}, &ListLit{[]Expr{&Name{"q2"}}}}},
			{Name: "w", E: &Bin{"BITOR", &Name{"qs"}, &ListLit{[]Expr{&Lit{vInt(0)}}}}},
			{Name: "chk_qs", E: &Name{"qs"}},
		}}
	default:
		panic("unknown helper " + name)
	}
	b.prog.Views = append(b.prog.Views, v)
}
