package c10

import (
	"fmt"

	"github.com/anz-bank/sysl/pkg/eval"
	"github.com/anz-bank/sysl/pkg/parse"
	"github.com/anz-bank/sysl/pkg/sysl"
)

// toReal builds an argument value with the eval package's own constructors (lists and sets are
// filled element by element, the way cmd/sysl and the evaluator itself build them).
func toReal(v *Val) *sysl.Value {
	switch v.K {
	case KInt:
		return eval.MakeValueI64(v.I)
	case KStr:
		return eval.MakeValueString(v.S)
	case KBool:
		return eval.MakeValueBool(v.B)
	case KNull:
		return &sysl.Value{Value: &sysl.Value_Null_{Null: &sysl.Value_Null{}}}
	case KList:
		l := eval.MakeValueList()
		for _, x := range v.Items {
			eval.AppendItemToValueList(l.GetList(), toReal(x))
		}
		return l
	case KSet:
		s := eval.MakeValueSet()
		for _, x := range v.Items {
			eval.AppendItemToValueList(s.GetSet(), toReal(x))
		}
		return s
	case KMap:
		m := eval.MakeValueMap()
		for k, x := range v.M {
			eval.AddItemToValueMap(m, k, toReal(x))
		}
		return m
	}
	panic("toReal: " + v.K.String())
}

// fromReal converts what the evaluator returned into the harness' representation.
func fromReal(v *sysl.Value) *Val {
	if v == nil {
		return vMissing()
	}
	switch x := v.Value.(type) {
	case *sysl.Value_I:
		return vInt(x.I)
	case *sysl.Value_S:
		return vStr(x.S)
	case *sysl.Value_B:
		return vBool(x.B)
	case *sysl.Value_Null_:
		return vNull()
	case *sysl.Value_List_:
		out := &Val{K: KList, Items: []*Val{}}
		for _, e := range x.List.GetValue() {
			out.Items = append(out.Items, fromReal(e))
		}
		return out
	case *sysl.Value_Set:
		out := &Val{K: KSet, Items: []*Val{}}
		for _, e := range x.Set.GetValue() {
			out.Items = append(out.Items, fromReal(e))
		}
		return out
	case *sysl.Value_Map_:
		out := &Val{K: KMap, M: map[string]*Val{}}
		for k, e := range x.Map.GetItems() {
			out.M[k] = fromReal(e)
		}
		return out
	case nil:
		return &Val{K: KOther, S: "value without content"}
	}
	return &Val{K: KOther, S: fmt.Sprintf("%T %v", v.Value, v)}
}

type realRun struct {
	Result *Val
	Params map[string]*Val // the caller's bindings of the parameters after the evaluation
}

// compile parses the rendered text with the real parser.
func compile(text string) (*sysl.Module, error) {
	return parse.NewParser().ParseString(text)
}

// evaluate runs the real evaluator on fresh argument values. An evaluation failure inside
// pkg/eval ends the process (os.Exit(1) in handlePanic); the caller has saved the program first.
func evaluate(mod *sysl.Module, p *Program) realRun {
	main := p.view(p.Main)
	s := eval.Scope{}
	for i, q := range main.Params {
		s[q.Name] = toReal(p.Args[i])
	}
	res := eval.EvaluateView(mod, "A", p.Main, s)
	out := realRun{Result: fromReal(res), Params: map[string]*Val{}}
	for _, q := range main.Params {
		if v, ok := s[q.Name]; ok {
			out.Params[q.Name] = fromReal(v)
		} else {
			out.Params[q.Name] = vMissing()
		}
	}
	return out
}
