package c10

import (
	"strconv"
	"strings"
)

// The generator's own expression AST. The reference interpreter works on this; the real
// evaluator only ever sees the text rendered from it.

type Expr interface{}

type (
	Lit     struct{ V *Val }       // int (negative rendered as "(-n)"), string, bool, null
	Name    struct{ N string }     // "." is the anonymous scope variable
	ListLit struct{ Elems []Expr } // non-empty
	SetLit  struct{ Elems []Expr } // non-empty, elements pairwise different
	Bin     struct {
		Op   string // ADD SUB MUL DIV MOD EQ NE LT LE GT GE AND BITOR IN NOT_IN
		L, R Expr
	}
	Neg   struct{ E Expr }
	If    struct{ C, T, F Expr }
	Count struct{ E Expr }
	RelOp struct {
		Op   string // WHERE | FLATTEN
		Coll Expr
		Var  string // "" = '.'
		Body Expr
	}
	Attr struct {
		E    Expr
		Name string
	}
	Call struct {
		View string
		Args []Expr
	}
)

// Transform exists only at statement level (right-hand side of let / assignment, view body).
type Transform struct {
	Arg   Expr
	Ret   string // "" (view body: taken from the view's return type) | "seq" | "set" | "plain"
	TName string // type name written in <...>
	Var   string // "" = '.'
	Stmts []*Stmt
}

// MultiIf is the multi-line "if subject ==:" form; statement level only.
type MultiIf struct {
	Subject Expr
	Arms    []Arm
	Else    Expr
}
type Arm struct {
	Controls []Expr
	Val      Expr
}

type Stmt struct {
	Let  bool
	Name string
	E    Expr
	T    *Transform
	MI   *MultiIf
}

type Param struct {
	Name string
	T    *Type
}

type View struct {
	Name   string
	Params []Param
	RetSet bool // declared "-> set of X" (only matters when the body iterates)
	Body   *Transform
}

type Program struct {
	Views []*View // callees first, main last
	Main  string
	Args  []*Val // positional, for Main's params
}

func (p *Program) view(n string) *View {
	for _, v := range p.Views {
		if v.Name == n {
			return v
		}
	}
	return nil
}

// ---- rendering ----

func typeText(t *Type) string {
	switch t.K {
	case KInt:
		return "int"
	case KStr:
		return "string"
	case KBool:
		return "bool"
	case KList:
		return "sequence of " + elemText(t.Elem)
	case KSet:
		return "set of " + elemText(t.Elem)
	}
	return "Rec"
}

func elemText(t *Type) string {
	switch t.K {
	case KInt:
		return "int"
	case KStr:
		return "string"
	case KBool:
		return "bool"
	}
	return "Item"
}

func isAtom(e Expr) bool {
	switch x := e.(type) {
	case *Lit:
		return !(x.V.K == KInt && x.V.I < 0)
	case *Name, *ListLit, *SetLit, *Call:
		return true
	case *Attr:
		return isAtom(x.E)
	}
	return false
}

func sub(e Expr) string {
	if isAtom(e) {
		return exprText(e)
	}
	if l, ok := e.(*Lit); ok && l.V.K == KInt && l.V.I < 0 {
		return exprText(e) // already parenthesised
	}
	return "(" + exprText(e) + ")"
}

var opText = map[string]string{
	"ADD": "+", "SUB": "-", "MUL": "*", "DIV": "/", "MOD": "%",
	"EQ": "==", "NE": "!=", "LT": "<", "LE": "<=", "GT": ">", "GE": ">=",
	"AND": "&&", "BITOR": "|", "IN": "in", "NOT_IN": "!in",
}

func exprText(e Expr) string {
	switch x := e.(type) {
	case *Lit:
		switch x.V.K {
		case KInt:
			if x.V.I < 0 {
				return "(-" + strconv.FormatInt(-x.V.I, 10) + ")"
			}
			return strconv.FormatInt(x.V.I, 10)
		case KStr:
			return `"` + x.V.S + `"`
		case KBool:
			return strconv.FormatBool(x.V.B)
		case KNull:
			return "null"
		}
		panic("exprText: literal kind")
	case *Name:
		return x.N
	case *ListLit:
		return "[" + joinExprs(x.Elems) + "]"
	case *SetLit:
		return "{" + joinExprs(x.Elems) + "}"
	case *Bin:
		return sub(x.L) + " " + opText[x.Op] + " " + sub(x.R)
	case *Neg:
		return "-" + sub(x.E)
	case *If:
		return "if " + sub(x.C) + " then " + sub(x.T) + " else " + sub(x.F)
	case *Count:
		return sub(x.E) + " count"
	case *RelOp:
		op := "where"
		if x.Op == "FLATTEN" {
			op = "flatten"
		}
		v := ""
		if x.Var != "" {
			v = x.Var + ": "
		}
		return sub(x.Coll) + " " + op + "(" + v + exprText(x.Body) + ")"
	case *Attr:
		if n, ok := x.E.(*Name); ok && n.N == "." {
			return "." + x.Name
		}
		return sub(x.E) + "." + x.Name
	case *Call:
		return x.View + "(" + joinExprs(x.Args) + ")"
	}
	panic("exprText: unknown node")
}

func joinExprs(es []Expr) string {
	p := make([]string, len(es))
	for i, e := range es {
		p[i] = exprText(e)
	}
	return strings.Join(p, ", ")
}

func renderTransformHead(t *Transform) string {
	s := sub(t.Arg) + " -> "
	switch t.Ret {
	case "seq":
		s += "<sequence of " + t.TName + ">"
	case "set":
		s += "<set of " + t.TName + ">"
	case "plain":
		s += "<" + t.TName + ">"
	}
	return s + "(" + t.Var + ":"
}

func renderStmts(b *strings.Builder, stmts []*Stmt, ind int) {
	pad := strings.Repeat(" ", ind)
	for _, s := range stmts {
		head := s.Name + " = "
		if s.Let {
			head = "let " + head
		}
		switch {
		case s.T != nil:
			b.WriteString(pad + head + renderTransformHead(s.T) + "\n")
			renderStmts(b, s.T.Stmts, ind+2)
			b.WriteString(pad + ")\n")
		case s.MI != nil:
			b.WriteString(pad + head + "if " + sub(s.MI.Subject) + " ==:\n")
			for _, a := range s.MI.Arms {
				b.WriteString(pad + "  " + joinSubs(a.Controls) + " => " + exprText(a.Val) + "\n")
			}
			b.WriteString(pad + "  else " + exprText(s.MI.Else) + "\n")
		default:
			b.WriteString(pad + head + exprText(s.E) + "\n")
		}
	}
}

func joinSubs(es []Expr) string {
	p := make([]string, len(es))
	for i, e := range es {
		p[i] = sub(e)
	}
	return strings.Join(p, ", ")
}

// Render gives the Sysl text of the program: one application "A" with one !view per view.
func (p *Program) Render() string {
	var b strings.Builder
	b.WriteString("A:\n")
	for i, v := range p.Views {
		if i > 0 {
			b.WriteString("\n")
		}
		var ps []string
		for _, q := range v.Params {
			ps = append(ps, q.Name+" <: "+typeText(q.T))
		}
		ret := "Rec"
		first := v.Params[0].T
		if first.isColl() {
			if v.RetSet {
				ret = "set of Rec"
			} else {
				ret = "sequence of Rec"
			}
		}
		b.WriteString("  !view " + v.Name + "(" + strings.Join(ps, ", ") + ") -> " + ret + ":\n")
		b.WriteString("    " + renderTransformHead(v.Body) + "\n")
		renderStmts(&b, v.Body.Stmts, 6)
		b.WriteString("    )\n")
	}
	return b.String()
}

// ---- static measures ----

type measure struct {
	Exprs, Lets, Transforms, Calls int
}

func (m *measure) expr(e Expr) {
	if e == nil {
		return
	}
	m.Exprs++
	switch x := e.(type) {
	case *ListLit:
		for _, k := range x.Elems {
			m.expr(k)
		}
	case *SetLit:
		for _, k := range x.Elems {
			m.expr(k)
		}
	case *Bin:
		m.expr(x.L)
		m.expr(x.R)
	case *Neg:
		m.expr(x.E)
	case *If:
		m.expr(x.C)
		m.expr(x.T)
		m.expr(x.F)
	case *Count:
		m.expr(x.E)
	case *RelOp:
		m.expr(x.Coll)
		m.expr(x.Body)
	case *Attr:
		m.expr(x.E)
	case *Call:
		m.Calls++
		for _, k := range x.Args {
			m.expr(k)
		}
	}
}

func (m *measure) stmts(ss []*Stmt) {
	for _, s := range ss {
		if s.Let {
			m.Lets++
		}
		switch {
		case s.T != nil:
			m.Transforms++
			m.expr(s.T.Arg)
			m.stmts(s.T.Stmts)
		case s.MI != nil:
			m.expr(s.MI.Subject)
			for _, a := range s.MI.Arms {
				for _, c := range a.Controls {
					m.expr(c)
				}
				m.expr(a.Val)
			}
			m.expr(s.MI.Else)
		default:
			m.expr(s.E)
		}
	}
}

func (p *Program) measure() measure {
	var m measure
	for _, v := range p.Views {
		m.expr(v.Body.Arg)
		m.stmts(v.Body.Stmts)
	}
	return m
}
