package c10

import (
	"fmt"
	"testing"

	"verif/fw"
)

func TestEnumerationCounts(t *testing.T) {
	buildD1()
	fmt.Println("specs", len(specs), "depth1", len(enumD1), "depth2(q)", len(depth2(quickCap)), "depth2(t)", len(depth2(thoroughCap)))
	fmt.Println("quick programs", prop{}.Cases("quick"), "thorough", prop{}.Cases("thorough"))
}

func TestRandomGeneratorWellTyped(t *testing.T) {
	kinds := map[string]int{}
	msgs := map[string]int{}
	ok := 0
	cells := map[string]bool{}
	for i := 0; i < 20000; i++ {
		p, _ := randomProgram(fw.NewRand(1, uint64(i)))
		in := newInterp(p, mode{})
		_, _, err := in.run(p.Args)
		if err != nil {
			re := err.(*refErr)
			kinds[re.kind]++
			if re.kind != "unpinned" {
				msgs[re.msg]++
				if msgs[re.msg] == 1 {
					fmt.Println("----", re.kind, re.msg)
					fmt.Println(p.Render())
					fmt.Println(argsText(p))
				}
			} else {
				msgs["unpinned: "+re.msg]++
			}
			continue
		}
		ok++
		for c := range in.cells {
			cells[c] = true
		}
	}
	fmt.Println("ok", ok, kinds)
	for m, n := range msgs {
		fmt.Println(n, m)
	}
	for _, c := range generatedCells {
		if !cells[c] {
			fmt.Println("random part never hits", c)
		}
	}
}
