package c10

import (
	"testing"

	"verif/fw"
)

// The reference interpreter on hand-computed cases (it is the trusted base of the property).
func TestReferenceByHand(t *testing.T) {
	as := func(n string, e Expr) *Stmt { return &Stmt{Name: n, E: e} }
	list := func(xs ...int64) Expr {
		var es []Expr
		for _, x := range xs {
			es = append(es, li(x))
		}
		return &ListLit{es}
	}
	set := func(xs ...int64) Expr {
		var es []Expr
		for _, x := range xs {
			es = append(es, li(x))
		}
		return &SetLit{es}
	}
	main := &View{Name: "main", Params: []Param{{"p1", tInt}, {"x", tInt}}}
	main.Body = &Transform{Arg: nm("p1"), Stmts: []*Stmt{
		as("div", bin("DIV", li(-3), li(2))),
		as("mod", bin("MOD", li(-3), li(2))),
		as("mod2", bin("MOD", li(7), li(-3))),
		{Let: true, Name: "a", E: list(1, 2, 3)},
		{Let: true, Name: "b", E: bin("BITOR", nm("a"), list(4))},
		{Let: true, Name: "c", E: bin("BITOR", nm("a"), list(5))},
		as("b", nm("b")),
		as("c", nm("c")),
		as("u", bin("BITOR", set(1, 2), set(2, 3))),
		{Name: "t", T: &Transform{Arg: list(1, 2, 3, 4), Ret: "set", TName: "Rec", Var: "x", Stmts: []*Stmt{as("par", bin("MOD", nm("x"), li(2)))}}},
		as("x", nm("x")),
		as("w", where(set(1, 2, 3), "", bin("GT", dot(), li(1)))),
		as("f", flatten(&ListLit{[]Expr{list(1, 2), list(3)}}, "x", bin("MUL", nm("x"), li(2)))),
		as("x2", nm("x")),
		as("n", &Count{set(5, 6)}),
		as("in", bin("IN", ls("a"), lnull())),
		as("nn", bin("EQ", lnull(), lnull())),
		as("ni", bin("NE", li(0), lnull())),
	}}
	p := &Program{Views: []*View{main}, Main: "main", Args: []*Val{vInt(9), vInt(7)}}
	want := map[string]string{
		"div": "-1", "mod": "-1", "mod2": "1", "b": "[1, 2, 3, 4]", "c": "[1, 2, 3, 5]", "u": "{1, 2, 3}",
		"t": "{(par: 0), (par: 1)}", "x": "7", "w": "{2, 3}", "f": "[2, 4, 6]", "x2": "7", "n": "2",
		"in": "false", "nn": "true", "ni": "true",
	}
	got, params, err := newInterp(p, mode{}).run(p.Args)
	if err != nil {
		t.Fatal(err)
	}
	for k, w := range want {
		if g := got.M[k].canon(); g != w {
			t.Errorf("%s: got %s want %s", k, g, w)
		}
	}
	if params["x"].canon() != "7" {
		t.Errorf("parameter x after the run: %s", params["x"].canon())
	}
	// the models of the two known defects give what the probes showed on the pinned tree
	got, _, _ = newInterp(p, mode{alias: true}).run(p.Args)
	if g := got.M["b"].canon(); g != "[1, 2, 3, 5]" {
		t.Errorf("alias model: b = %s", g)
	}
	got, params, _ = newInterp(p, mode{del: true}).run(p.Args)
	if g := got.M["x"].canon(); g != "<missing>" {
		t.Errorf("delete model: x = %s", g)
	}
	if params["x"].K != KMissing {
		t.Errorf("delete model: caller's x = %s", params["x"].canon())
	}
}

// The random generator must only produce programs the reference accepts or calls unpinned.
func TestRandomGeneratorWellTyped(t *testing.T) {
	kinds := map[string]int{}
	for i := 0; i < 30000; i++ {
		p, _ := randomProgram(fw.NewRand(1, uint64(i)))
		_, _, err := newInterp(p, mode{}).run(p.Args)
		if err == nil {
			// no operator may read a name after a transform has used it as scope variable
			if _, _, derr := newInterp(p, mode{del: true}).run(p.Args); derr != nil {
				t.Errorf("use after shadowing: %v\n%s", derr, p.Render())
			}
		}
		if err != nil {
			re := err.(*refErr)
			kinds[re.kind]++
			if re.kind != "unpinned" {
				t.Errorf("generated program rejected as %s: %s\n%s", re.kind, re.msg, p.Render())
			}
		}
	}
	t.Log("rejected:", kinds)
}

func TestEnumerationIsFixed(t *testing.T) {
	buildD1()
	t.Log("specs", len(specs), "depth1", len(enumD1), "depth2 quick", len(depth2(quickCap)))
	if len(enumD1) < 1000 || len(depth2(quickCap)) < 3000 {
		t.Errorf("enumeration shrank")
	}
}
