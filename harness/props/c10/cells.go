package c10

// The "supported" subset, pinned as data. This is a written-out copy of what the evaluator's
// dispatch tables declare at the pinned commit (pkg/eval/binexprEval.go: valueFunctions and
// exprFunctions; pkg/eval/unaryEval.go: unaryFunctions; pkg/eval/exprEval.go: evalCall ".count").
// It is deliberately NOT imported from pkg/eval: a cell that disappears from the evaluator later
// is then noticed (evaluation of a generated program fails), while cells nobody declared are
// never demanded.
//
// Cell names: <operator>/<left kind>/<right kind> for value operators and
// <operator>/<container kind>/<kind of the first element, noarg when empty> for where/flatten.

// valueCells: binexprEval.go valueFunctions (31 entries).
var valueCells = []string{
	"ADD/int/int",
	"ADD/string/string",
	"AND/bool/bool",
	"BITOR/list/list",
	"BITOR/set/set",
	"BITOR/list/set",
	"DIV/int/int",
	"EQ/bool/bool",
	"EQ/int/int",
	"EQ/int/null",
	"EQ/null/null",
	"EQ/null/int",
	"EQ/null/string",
	"EQ/string/null",
	"EQ/string/string",
	"EQ/list/null",
	"GE/int/int",
	"GT/int/int",
	"IN/string/list",
	"IN/string/null",
	"IN/string/set",
	"IN/string/map",
	"NOT_IN/string/list",
	"NOT_IN/string/null",
	"NOT_IN/string/set",
	"NOT_IN/string/map",
	"LE/int/int",
	"LT/int/int",
	"MOD/int/int",
	"MUL/int/int",
	"SUB/int/int",
}

// NE is not in the table: the evaluator negates the EQ cell of the same kinds
// (functionEvalStrategy: NE -> NegateBinExprStrategy). So every EQ cell gives an NE cell.
var neCells = []string{
	"NE/bool/bool",
	"NE/int/int",
	"NE/int/null",
	"NE/null/null",
	"NE/null/int",
	"NE/null/string",
	"NE/string/null",
	"NE/string/string",
	"NE/list/null",
}

// exprCells: binexprEval.go exprFunctions (18 entries).
var exprCells = []string{
	"FLATTEN/list/noarg",
	"FLATTEN/list/list",
	"FLATTEN/list/set",
	"FLATTEN/set/list",
	"FLATTEN/list/map",
	"FLATTEN/set/map",
	"FLATTEN/set/noarg",
	"FLATTEN/set/set",
	"WHERE/list/noarg",
	"WHERE/list/list",
	"WHERE/list/string",
	"WHERE/list/map",
	"WHERE/map/noarg",
	"WHERE/set/noarg",
	"WHERE/set/map",
	"WHERE/set/int",
	"WHERE/set/float",
	"WHERE/set/string",
}

// setUnion (exprOp.go) is declared for these element kinds only (decided by the first element of
// the left set, or of the right set when the left one is empty).
var unionCells = []string{"UNION/int", "UNION/string", "UNION/map", "UNION/empty"}

// Further constructs of the statement with their own dispatch in exprEval.go / unaryEval.go.
var otherCells = []string{
	"NEG/int",                              // unaryEval.go unaryNeg on Value_I
	"COUNT/list", "COUNT/set", "COUNT/map", // exprEval.go evalCall ".count"
	"IF/oneline", "IF/multiline", // exprEval.go evalIfelse (both surface forms)
	"ATTR/map/present", "ATTR/map/missing", // exprEval.go evalGetAttr
	"ATTR/kv/key", "ATTR/kv/value", // exprEval.go evalGetAttr on an unpacked map entry
	"LIT/list", "LIT/set", // evalList / evalSet
	"CALL/view",                                // evalCall on a view of the same application
	"TRANSFORM/list/seq", "TRANSFORM/list/set", // evalTransform: list argument
	"TRANSFORM/set/seq", "TRANSFORM/set/set", // evalTransform: set argument
	"TRANSFORM/map/seq", "TRANSFORM/map/set", // evalTransform: map argument, named scope variable
	"TRANSFORM/mapdot/single", // evalTransform: map argument, '.' scope variable
	"TRANSFORM/scalar/single", // evalTransform: single value
}

// notGenerated: declared by the evaluator but outside the property statement, so never generated
// (and therefore not part of the coverage floor).
var notGenerated = map[string]string{
	"WHERE/set/float": "there are no float operators in the statement; a float set could only be filtered by a constant",
}

var supported = map[string]bool{}

// generatedCells: what a quick run must have exercised (floor for the evidence).
var generatedCells []string

func init() {
	for _, group := range [][]string{valueCells, neCells, exprCells, unionCells, otherCells} {
		for _, c := range group {
			supported[c] = true
			if _, skip := notGenerated[c]; !skip {
				generatedCells = append(generatedCells, c)
			}
		}
	}
}
