package c10

import (
	"sync"

	"verif/fw"
)

// ---- the literal pool of the bounded-exhaustive part ----

var (
	recA  = tRec(Field{"f1", tInt}, Field{"f2", tStr})
	dictI = tRec(Field{"a", tInt}, Field{"b", tInt}, Field{"c", tInt})
	dictS = tRec(Field{"a", tStr}, Field{"b", tStr})

	rA1 = vMap("f1", vInt(1), "f2", vStr("a"))
	rA2 = vMap("f1", vInt(2), "f2", vStr("b"))
	rA3 = vMap("f1", vInt(7), "f2", vStr("a"))
)

func ints(xs ...int64) []*Val {
	var out []*Val
	for _, x := range xs {
		out = append(out, vInt(x))
	}
	return out
}
func strs(xs ...string) []*Val {
	var out []*Val
	for _, x := range xs {
		out = append(out, vStr(x))
	}
	return out
}

type poolEntry struct {
	T    *Type
	Vals []*Val
}

var pools = map[string]*poolEntry{}

func addPool(T *Type, vs ...*Val) { pools[T.key()] = &poolEntry{T, vs} }

func init() {
	addPool(tInt, ints(0, 1, 2, 7, -3)...)
	addPool(tStr, strs("", "a", "b")...)
	addPool(tBool, vBool(true), vBool(false))
	addPool(tList(tInt), vList(), vList(ints(1)...), vList(ints(1, 2)...), vList(ints(1, 2, 3)...),
		vList(ints(2, 7, -3, 0, 1)...), vList(ints(0, 0)...))
	addPool(tList(tStr), vList(), vList(strs("a")...), vList(strs("a", "b")...), vList(strs("b", "", "a")...))
	addPool(tList(tBool), vList(vBool(true), vBool(false)))
	addPool(tList(tList(tInt)), vList(), vList(vList(ints(1, 2)...), vList(ints(3)...)),
		vList(vList(ints(1)...), vList(ints(2, 7)...), vList(ints(0)...)))
	addPool(tList(tList(tStr)), vList(vList(strs("a")...), vList(strs("b", "a")...)))
	addPool(tList(tSet(tInt)), vList(vSet(ints(1, 2)...), vSet(ints(3)...)), vList(vSet(ints(1)...), vSet(ints(1, 2)...)))
	addPool(tList(recA), vList(), vList(rA1, rA2), vList(rA1, rA2, rA2, rA3))
	addPool(tSet(tInt), vSet(), vSet(ints(1)...), vSet(ints(1, 2)...), vSet(ints(2, 7, -3)...))
	addPool(tSet(tStr), vSet(), vSet(strs("a")...), vSet(strs("a", "b")...), vSet(strs("", "b")...))
	addPool(tSet(recA), vSet(), vSet(rA1, rA2), vSet(rA2, rA3))
	addPool(tSet(tList(tInt)), vSet(vList(ints(1, 2)...), vList(ints(3)...)))
	addPool(tSet(tSet(tInt)), vSet(vSet(ints(1, 2)...), vSet(ints(3)...)))
	addPool(recA, rA1, rA2)
	addPool(dictI, vMap("a", vInt(1), "b", vInt(2), "c", vInt(7)), vMap("a", vInt(0), "b", vInt(0), "c", vInt(-3)))
	addPool(dictS, vMap("a", vStr("x"), "b", vStr("")))
}

// ---- operator specifications ----

type spec struct {
	name string // family, used for the per-family cap of depth-2 instances
	in   []*Type
	out  *Type // nil for statement-level specs
	mk   func(k []Expr) Expr
	// statement-level constructs (transform, multi-line if, calls needing helper views):
	stmt func(b *builder, bc *bodyCtx, k []Expr, shadow string) *Stmt
	help string // helper view needed
}

var specs []*spec

func binSpec(op string, l, r, out *Type) {
	specs = append(specs, &spec{name: op + "/" + l.key() + "/" + r.key(), in: []*Type{l, r}, out: out,
		mk: func(k []Expr) Expr { return &Bin{op, k[0], k[1]} }})
}

func exprSpec(name string, in []*Type, out *Type, mk func(k []Expr) Expr) {
	specs = append(specs, &spec{name: name, in: in, out: out, mk: mk})
}

func dot() Expr                             { return &Name{"."} }
func nm(n string) Expr                      { return &Name{n} }
func li(i int64) Expr                       { return &Lit{vInt(i)} }
func ls(s string) Expr                      { return &Lit{vStr(s)} }
func lnull() Expr                           { return &Lit{vNull()} }
func bin(op string, l, r Expr) Expr         { return &Bin{op, l, r} }
func where(c Expr, v string, p Expr) Expr   { return &RelOp{"WHERE", c, v, p} }
func flatten(c Expr, v string, p Expr) Expr { return &RelOp{"FLATTEN", c, v, p} }

func init() {
	// integer arithmetic and comparison
	for _, op := range []string{"ADD", "SUB", "MUL", "DIV", "MOD"} {
		binSpec(op, tInt, tInt, tInt)
	}
	for _, op := range []string{"EQ", "NE", "LT", "LE", "GT", "GE"} {
		binSpec(op, tInt, tInt, tBool)
	}
	exprSpec("NEG/int", []*Type{tInt}, tInt, func(k []Expr) Expr { return &Neg{k[0]} })
	// strings, booleans
	binSpec("ADD", tStr, tStr, tStr)
	for _, op := range []string{"EQ", "NE"} {
		binSpec(op, tStr, tStr, tBool)
		binSpec(op, tBool, tBool, tBool)
	}
	binSpec("AND", tBool, tBool, tBool)
	// null comparisons (null literal and the null an absent attribute gives)
	for _, op := range []string{"EQ", "NE"} {
		op := op
		exprSpec(op+"/int/null", []*Type{tInt}, tBool, func(k []Expr) Expr { return bin(op, k[0], lnull()) })
		exprSpec(op+"/null/int", []*Type{tInt}, tBool, func(k []Expr) Expr { return bin(op, lnull(), k[0]) })
		exprSpec(op+"/string/null", []*Type{tStr}, tBool, func(k []Expr) Expr { return bin(op, k[0], lnull()) })
		exprSpec(op+"/null/string", []*Type{tStr}, tBool, func(k []Expr) Expr { return bin(op, lnull(), k[0]) })
		exprSpec(op+"/list/null", []*Type{tList(tInt)}, tBool, func(k []Expr) Expr { return bin(op, k[0], lnull()) })
		exprSpec(op+"/null/null", []*Type{recA}, tBool, func(k []Expr) Expr { return bin(op, lnull(), &Attr{k[0], "nosuch"}) })
		exprSpec(op+"/attr/null", []*Type{recA}, tBool, func(k []Expr) Expr { return bin(op, &Attr{k[0], "f1"}, lnull()) })
		exprSpec(op+"/missing/string", []*Type{recA, tStr}, tBool, func(k []Expr) Expr { return bin(op, &Attr{k[0], "nosuch"}, k[1]) })
	}
	// membership
	for _, op := range []string{"IN", "NOT_IN"} {
		op := op
		binSpec(op, tStr, tList(tStr), tBool)
		binSpec(op, tStr, tSet(tStr), tBool)
		binSpec(op, tStr, dictI, tBool)
		binSpec(op, tStr, recA, tBool)
		exprSpec(op+"/string/null", []*Type{tStr}, tBool, func(k []Expr) Expr { return bin(op, k[0], lnull()) })
		exprSpec(op+"/string/missing", []*Type{tStr, recA}, tBool, func(k []Expr) Expr { return bin(op, k[0], &Attr{k[1], "nosuch"}) })
	}
	// | : concatenation and union
	for _, e := range []*Type{tInt, tStr, tBool, tList(tInt), recA} {
		binSpec("BITOR", tList(e), tList(e), tList(e))
	}
	binSpec("BITOR", tList(tInt), tSet(tInt), tList(tInt))
	binSpec("BITOR", tList(tStr), tSet(tStr), tList(tStr))
	for _, e := range []*Type{tInt, tStr, recA} {
		binSpec("BITOR", tSet(e), tSet(e), tSet(e))
	}
	// count
	for _, t := range []*Type{tList(tInt), tList(tStr), tList(tList(tInt)), tList(recA), tSet(tInt), tSet(tStr),
		tSet(recA), tSet(tList(tInt)), recA, dictI, dictS} {
		exprSpec("COUNT/"+t.key(), []*Type{t}, tInt, func(k []Expr) Expr { return &Count{k[0]} })
	}
	// if then else
	for _, t := range []*Type{tInt, tStr, tBool, tList(tInt), tSet(tStr), recA} {
		exprSpec("IF/"+t.key(), []*Type{tBool, t, t}, t, func(k []Expr) Expr { return &If{k[0], k[1], k[2]} })
	}
	// attribute access
	exprSpec("ATTR/f1", []*Type{recA}, tInt, func(k []Expr) Expr { return &Attr{k[0], "f1"} })
	exprSpec("ATTR/f2", []*Type{recA}, tStr, func(k []Expr) Expr { return &Attr{k[0], "f2"} })
	exprSpec("ATTR/missing", []*Type{recA}, tNull, func(k []Expr) Expr { return &Attr{k[0], "nosuch"} })
	exprSpec("ATTR/dict", []*Type{dictI}, tInt, func(k []Expr) Expr { return &Attr{k[0], "b"} })
	// where
	w := func(name string, t *Type, v string, p func() Expr) {
		exprSpec("WHERE/"+name, []*Type{t}, t, func(k []Expr) Expr { return where(k[0], v, p()) })
	}
	w("set-int/gt", tSet(tInt), "", func() Expr { return bin("GT", dot(), li(1)) })
	w("set-int/ne", tSet(tInt), "v", func() Expr { return bin("NE", nm("v"), li(2)) })
	w("set-int/mod", tSet(tInt), "v", func() Expr { return bin("EQ", bin("MOD", nm("v"), li(2)), li(0)) })
	w("set-str/eq", tSet(tStr), "", func() Expr { return bin("EQ", dot(), ls("a")) })
	w("set-str/in", tSet(tStr), "v", func() Expr { return bin("IN", nm("v"), &SetLit{[]Expr{ls("a"), ls("zz")}}) })
	w("set-rec/f1", tSet(recA), "", func() Expr { return bin("GT", &Attr{dot(), "f1"}, li(1)) })
	w("set-rec/f2", tSet(recA), "r", func() Expr { return bin("EQ", &Attr{nm("r"), "f2"}, ls("a")) })
	w("list-str/eq", tList(tStr), "", func() Expr { return bin("EQ", dot(), ls("a")) })
	w("list-str/ne", tList(tStr), "v", func() Expr { return bin("NE", nm("v"), ls("b")) })
	w("list-list/count", tList(tList(tInt)), "v", func() Expr { return bin("GT", &Count{nm("v")}, li(1)) })
	w("list-rec/f1", tList(recA), "", func() Expr { return bin("GT", &Attr{dot(), "f1"}, li(1)) })
	w("list-rec/f2", tList(recA), "r", func() Expr { return bin("NE", &Attr{nm("r"), "f2"}, ls("a")) })
	w("dict/value", dictI, "kv", func() Expr { return bin("GT", &Attr{nm("kv"), "value"}, li(1)) })
	w("dict/key", dictI, "", func() Expr { return bin("NE", &Attr{dot(), "key"}, ls("a")) })
	w("rec/key", recA, "", func() Expr { return bin("NE", &Attr{dot(), "key"}, ls("f1")) })
	w("dictS/value", dictS, "kv", func() Expr { return bin("EQ", &Attr{nm("kv"), "value"}, ls("x")) })
	exprSpec("WHERE/set-int/outer", []*Type{tSet(tInt), tInt}, tSet(tInt),
		func(k []Expr) Expr { return where(k[0], "v", bin("GT", nm("v"), k[1])) })
	exprSpec("WHERE/list-str/outer", []*Type{tList(tStr), tStr}, tList(tStr),
		func(k []Expr) Expr { return where(k[0], "", bin("NE", dot(), k[1])) })
	// flatten
	f := func(name string, t, out *Type, v string, p func() Expr) {
		exprSpec("FLATTEN/"+name, []*Type{t}, out, func(k []Expr) Expr { return flatten(k[0], v, p()) })
	}
	f("list-list/inc", tList(tList(tInt)), tList(tInt), "", func() Expr { return bin("ADD", dot(), li(1)) })
	f("list-list/dbl", tList(tList(tInt)), tList(tInt), "v", func() Expr { return bin("MUL", nm("v"), li(2)) })
	f("list-list/id", tList(tList(tInt)), tList(tInt), "", func() Expr { return dot() })
	f("list-list/str", tList(tList(tStr)), tList(tStr), "v", func() Expr { return bin("ADD", nm("v"), ls("z")) })
	f("list-set/dbl", tList(tSet(tInt)), tList(tInt), "", func() Expr { return bin("MUL", dot(), li(2)) })
	f("list-rec/f1", tList(recA), tList(tInt), "", func() Expr { return &Attr{dot(), "f1"} })
	f("list-rec/f2", tList(recA), tList(tStr), "r", func() Expr { return &Attr{nm("r"), "f2"} })
	f("list-rec/inc", tList(recA), tList(tInt), "r", func() Expr { return bin("ADD", &Attr{nm("r"), "f1"}, li(1)) })
	f("set-list/dbl", tSet(tList(tInt)), tSet(tInt), "", func() Expr { return bin("MUL", dot(), li(2)) })
	f("set-set/add", tSet(tSet(tInt)), tSet(tInt), "v", func() Expr { return bin("ADD", nm("v"), li(10)) })
	f("set-rec/f1", tSet(recA), tSet(tInt), "", func() Expr { return &Attr{dot(), "f1"} })
	f("set-rec/f2", tSet(recA), tSet(tStr), "r", func() Expr { return &Attr{nm("r"), "f2"} })
	exprSpec("FLATTEN/list-list/outer", []*Type{tList(tList(tInt)), tInt}, tList(tInt),
		func(k []Expr) Expr { return flatten(k[0], "v", bin("ADD", nm("v"), k[1])) })
	// calls to other views
	call := func(name, help string, in []*Type, out *Type, mk func(k []Expr) Expr) {
		specs = append(specs, &spec{name: name, in: in, out: out, mk: mk, help: help})
	}
	call("CALL/hA", "hA", []*Type{tInt, tStr}, nil, func(k []Expr) Expr { return &Call{"hA", k} })
	call("CALL/hA.dbl", "hA", []*Type{tInt, tStr}, tInt, func(k []Expr) Expr { return &Attr{&Call{"hA", k}, "dbl"} })
	call("CALL/hA.tag", "hA", []*Type{tInt, tStr}, tStr, func(k []Expr) Expr { return &Attr{&Call{"hA", k}, "tag"} })
	call("CALL/hB", "hB", []*Type{tList(tInt), tInt}, nil, func(k []Expr) Expr { return &Call{"hB", k} })
	call("CALL/hB.flat", "hB", []*Type{tList(tInt), tInt}, tList(tInt),
		func(k []Expr) Expr { return flatten(&Call{"hB", k}, "", &Attr{dot(), "v"}) })
	call("CALL/hC", "hC", []*Type{tSet(tInt)}, nil, func(k []Expr) Expr { return &Call{"hC", k} })
	call("CALL/hC.count", "hC", []*Type{tSet(tInt)}, tInt, func(k []Expr) Expr { return &Count{&Call{"hC", k}} })
	call("CALL/hD", "hD", []*Type{recA, tInt}, nil, func(k []Expr) Expr { return &Call{"hD", k} })
	call("CALL/hD.s", "hD", []*Type{recA, tInt}, tInt, func(k []Expr) Expr { return &Attr{&Call{"hD", k}, "s"} })
	call("CALL/hE", "hE", []*Type{tList(tInt), tInt}, nil, func(k []Expr) Expr { return &Call{"hE", k} })

	// statement-level constructs
	tf := func(name string, argT *Type, ret, v string, body func(v string) []*Stmt) {
		specs = append(specs, &spec{name: "TRANSFORM/" + name, in: []*Type{argT},
			stmt: func(b *builder, bc *bodyCtx, k []Expr, shadow string) *Stmt {
				vv := v
				if shadow != "" && v != "" {
					vv = shadow
				}
				tn := "Rec"
				if ret == "plain" {
					tn = "Item"
				}
				return &Stmt{T: &Transform{Arg: k[0], Ret: ret, TName: tn, Var: vv, Stmts: body(vv)}}
			}})
	}
	ve := func(v string) Expr {
		if v == "" {
			return dot()
		}
		return nm(v)
	}
	as := func(n string, e Expr) *Stmt { return &Stmt{Name: n, E: e} }
	tf("list-int/seq", tList(tInt), "seq", "v", func(v string) []*Stmt {
		return []*Stmt{as("inc", bin("ADD", ve(v), li(1))), as("par", bin("MOD", ve(v), li(2)))}
	})
	tf("list-int/set", tList(tInt), "set", "v", func(v string) []*Stmt {
		return []*Stmt{as("par", bin("MOD", ve(v), li(2)))}
	})
	tf("list-int/dot", tList(tInt), "seq", "", func(v string) []*Stmt {
		return []*Stmt{as("sq", bin("MUL", dot(), dot())), as("big", where(&SetLit{[]Expr{li(1), li(2), li(3)}}, "", bin("GT", dot(), li(1)))), as("me", dot())}
	})
	tf("list-int/let", tList(tInt), "seq", "v", func(v string) []*Stmt {
		return []*Stmt{{Let: true, Name: "t1", E: bin("ADD", ve(v), li(1))}, as("a", bin("MUL", nm("t1"), li(2))), as("chk_t1", nm("t1")), as("chk_v", ve(v))}
	})
	tf("list-str/set", tList(tStr), "set", "v", func(v string) []*Stmt {
		return []*Stmt{as("e", bin("EQ", ve(v), ls("a")))}
	})
	tf("list-str/seq", tList(tStr), "seq", "", func(v string) []*Stmt {
		return []*Stmt{as("s", bin("ADD", dot(), ls("!")))}
	})
	tf("list-rec/seq", tList(recA), "seq", "r", func(v string) []*Stmt {
		return []*Stmt{as("n", &Attr{ve(v), "f1"}), as("m", bin("ADD", &Attr{ve(v), "f2"}, ls("?")))}
	})
	tf("list-rec/set", tList(recA), "set", "", func(v string) []*Stmt {
		return []*Stmt{as("m", &Attr{dot(), "f2"})}
	})
	tf("list-list/seq", tList(tList(tInt)), "seq", "v", func(v string) []*Stmt {
		return []*Stmt{as("c", &Count{ve(v)}), as("w", bin("BITOR", ve(v), &ListLit{[]Expr{li(9)}})), as("u", bin("BITOR", ve(v), &ListLit{[]Expr{li(8)}}))}
	})
	tf("set-int/set", tSet(tInt), "set", "v", func(v string) []*Stmt {
		return []*Stmt{as("par", bin("MOD", ve(v), li(2)))}
	})
	tf("set-int/seq", tSet(tInt), "seq", "v", func(v string) []*Stmt {
		return []*Stmt{as("d", bin("MUL", ve(v), li(2)))}
	})
	tf("set-str/set", tSet(tStr), "set", "", func(v string) []*Stmt {
		return []*Stmt{as("empty", bin("EQ", dot(), ls("")))}
	})
	tf("set-rec/set", tSet(recA), "set", "r", func(v string) []*Stmt {
		return []*Stmt{as("g", bin("GT", &Attr{ve(v), "f1"}, li(1)))}
	})
	tf("dict/seq", dictI, "seq", "kv", func(v string) []*Stmt {
		return []*Stmt{as("k", &Attr{ve(v), "key"}), as("w", bin("ADD", &Attr{ve(v), "value"}, li(1)))}
	})
	tf("dict/set", dictI, "set", "kv", func(v string) []*Stmt {
		return []*Stmt{as("k", &Attr{ve(v), "key"})}
	})
	tf("rec/entries", recA, "seq", "e", func(v string) []*Stmt {
		return []*Stmt{as("k", &Attr{ve(v), "key"})}
	})
	tf("rec/dot", recA, "plain", "", func(v string) []*Stmt {
		return []*Stmt{as("g", &Attr{dot(), "f1"}), as("h", &Attr{dot(), "f2"}), as("me", dot())}
	})
	tf("int/single", tInt, "plain", "v", func(v string) []*Stmt {
		return []*Stmt{as("d", bin("MUL", ve(v), li(2)))}
	})
	tf("int/dot", tInt, "plain", "", func(v string) []*Stmt {
		return []*Stmt{as("d", bin("ADD", dot(), li(1)))}
	})
	tf("str/single", tStr, "plain", "v", func(v string) []*Stmt {
		return []*Stmt{as("d", bin("ADD", ve(v), ve(v)))}
	})
	tf("bool/dot", tBool, "plain", "", func(v string) []*Stmt {
		return []*Stmt{as("n", bin("EQ", dot(), &Lit{vBool(true)}))}
	})
	// nested transform inside a transform body (inner scope variable re-uses the outer one's name)
	tf("list-list/nested", tList(tList(tInt)), "seq", "v", func(v string) []*Stmt {
		return []*Stmt{
			{Name: "inner", T: &Transform{Arg: ve(v), Ret: "set", TName: "Rec", Var: "w", Stmts: []*Stmt{as("par", bin("MOD", nm("w"), li(2)))}}},
			as("c", &Count{ve(v)}),
		}
	})
	// multi-line if
	mi := func(name string, t *Type, arms func() []Arm, els func() Expr) {
		specs = append(specs, &spec{name: "MULTIIF/" + name, in: []*Type{t},
			stmt: func(b *builder, bc *bodyCtx, k []Expr, shadow string) *Stmt {
				return &Stmt{MI: &MultiIf{Subject: k[0], Arms: arms(), Else: els()}}
			}})
	}
	mi("int", tInt, func() []Arm {
		return []Arm{{[]Expr{li(1)}, ls("one")}, {[]Expr{li(2), li(7)}, ls("two-seven")}}
	}, func() Expr { return ls("other") })
	mi("str", tStr, func() []Arm {
		return []Arm{{[]Expr{ls("a")}, li(1)}, {[]Expr{ls(""), ls("b")}, li(2)}}
	}, func() Expr { return li(3) })
	mi("bool", tBool, func() []Arm {
		return []Arm{{[]Expr{&Lit{vBool(true)}}, &ListLit{[]Expr{li(1)}}}}
	}, func() Expr { return &ListLit{[]Expr{li(0), li(0)}} })
}

// ---- enumeration ----

// node: an operator applied to operands that are pool values or (depth 2) operator nodes.
type node struct {
	sp   *spec
	kids []*node
	leaf *Val
	T    *Type
}

func (n *node) depth() int {
	if n.sp == nil {
		return 0
	}
	d := 0
	for _, k := range n.kids {
		if kd := k.depth(); kd > d {
			d = kd
		}
	}
	return d + 1
}

func leafNode(T *Type, v *Val) *node { return &node{leaf: v, T: T} }

// cartesian product of the pools of the spec's operand types.
func depth1(sp *spec) []*node {
	var out []*node
	var rec func(i int, kids []*node)
	rec = func(i int, kids []*node) {
		if i == len(sp.in) {
			out = append(out, &node{sp: sp, kids: append([]*node{}, kids...), T: sp.out})
			return
		}
		p := pools[sp.in[i].key()]
		if p == nil {
			panic("no pool for " + sp.in[i].key())
		}
		for _, v := range p.Vals {
			rec(i+1, append(kids, leafNode(sp.in[i], v)))
		}
	}
	rec(0, nil)
	return out
}

// trial builds a one-item program and runs the reference on it: instances the semantics do not
// pin (zero divisor, equal elements in a set result, ...) are left out of the enumeration.
func trial(n *node) bool {
	b := newBuilder(fw.NewRand(1, 1))
	b.item(n, 0, false)
	p := b.finish()
	_, _, err := newInterp(p, mode{}).run(p.Args)
	return err == nil
}

var (
	enumOnce sync.Once
	enumD1   []*node
	enumD2   map[int][]*node // by cap
	enumD2mu sync.Mutex
	d1ByType map[string][]*node
	d1BySpec map[*spec][]*node
)

func buildD1() {
	enumOnce.Do(func() {
		d1ByType = map[string][]*node{}
		d1BySpec = map[*spec][]*node{}
		for _, sp := range specs {
			for _, n := range depth1(sp) {
				if !trial(n) {
					continue
				}
				enumD1 = append(enumD1, n)
				d1BySpec[sp] = append(d1BySpec[sp], n)
				if sp.out != nil {
					d1ByType[sp.out.key()] = append(d1ByType[sp.out.key()], n)
				}
			}
		}
	})
}

// depth2: every operator over every operator: for each spec S, each operand position p and each
// spec S' whose result type is S's p-th operand type, the first `cap` valid instances in a fixed
// rotation through S's depth-1 instances and the pools of the other operands.
func depth2(cap int) []*node {
	buildD1()
	enumD2mu.Lock()
	defer enumD2mu.Unlock()
	if enumD2 == nil {
		enumD2 = map[int][]*node{}
	}
	if out, ok := enumD2[cap]; ok {
		return out
	}
	var out []*node
	rot := 0
	for _, sp := range specs {
		for p, inT := range sp.in {
			for _, sp2 := range specs {
				if sp2.out == nil || sp2.out.key() != inT.key() || sp2.out.K == KNull {
					continue
				}
				cands := d1BySpec[sp2]
				if len(cands) == 0 {
					continue
				}
				got := 0
				// a stride that is coprime to most small counts walks the instances evenly
				for try := 0; try < len(cands)*3 && got < cap; try++ {
					rot++
					inner := cands[(try*7+rot)%len(cands)]
					kids := make([]*node, len(sp.in))
					for q, qt := range sp.in {
						if q == p {
							kids[q] = inner
							continue
						}
						pv := pools[qt.key()].Vals
						kids[q] = leafNode(qt, pv[(rot+try+q)%len(pv)])
					}
					n := &node{sp: sp, kids: kids, T: sp.out}
					if trial(n) {
						out = append(out, n)
						got++
					}
				}
			}
		}
	}
	enumD2[cap] = out
	return out
}

// item places an enumerated node into main: operands by the rotating placement, the result as an
// output field (value operators additionally through a let that is used twice, every other item).
func (b *builder) item(n *node, rot int, allowShadow bool) {
	bc := b.top
	leafNo := 0
	var build func(n *node) Expr
	build = func(n *node) Expr {
		if n.sp == nil {
			leafNo++
			return b.operand(bc, n.leaf, n.T, (rot+leafNo)%3)
		}
		if n.sp.help != "" {
			b.needHelper(n.sp.help)
		}
		k := make([]Expr, len(n.kids))
		for i, c := range n.kids {
			k[i] = build(c)
		}
		return n.sp.mk(k)
	}
	if n.sp.stmt != nil {
		k := make([]Expr, len(n.kids))
		for i, c := range n.kids {
			k[i] = build(c)
		}
		shadow := ""
		if allowShadow {
			// every third statement-level item re-uses an outer name as scope variable
			for _, bd := range bc.vis {
				if !bd.dead && (bd.kind == bLet || bd.kind == bParam) && rot%3 == 0 && !usedIn(k, bd.name) {
					shadow = bd.name
					break
				}
			}
		}
		st := n.sp.stmt(b, bc, k, shadow)
		if st.T != nil && shadow != "" && st.T.Var == shadow {
			bc.lookup(shadow).dead = true
			b.shadows++
			b.tshadow++
		}
		if rot%2 == 0 {
			st.Name = b.fresh("o")
			bc.out(st.Name, st)
		} else {
			st.Let = true
			st.Name = b.fresh("a")
			bd := bc.addLet(st.Name, nil, st)
			bd.uses++
		}
		return
	}
	e := build(n)
	if n.T != nil && n.T.isColl() && rot%2 == 1 {
		// bind the collection and use it twice more
		nmN := b.fresh("a")
		bd := bc.addLet(nmN, n.T, &Stmt{Let: true, Name: nmN, E: e})
		bd.uses += 2
		o := b.fresh("o")
		bc.out(o, &Stmt{Name: o, E: &Name{nmN}})
		o2 := b.fresh("o")
		bc.out(o2, &Stmt{Name: o2, E: &Count{&Name{nmN}}})
		return
	}
	o := b.fresh("o")
	bc.out(o, &Stmt{Name: o, E: e})
}

func usedIn(es []Expr, name string) bool {
	found := false
	var walk func(e Expr)
	walk = func(e Expr) {
		switch x := e.(type) {
		case *Name:
			if x.N == name {
				found = true
			}
		case *ListLit:
			for _, k := range x.Elems {
				walk(k)
			}
		case *SetLit:
			for _, k := range x.Elems {
				walk(k)
			}
		case *Bin:
			walk(x.L)
			walk(x.R)
		case *Neg:
			walk(x.E)
		case *If:
			walk(x.C)
			walk(x.T)
			walk(x.F)
		case *Count:
			walk(x.E)
		case *RelOp:
			walk(x.Coll)
			walk(x.Body)
		case *Attr:
			walk(x.E)
		case *Call:
			for _, k := range x.Args {
				walk(k)
			}
		}
	}
	for _, e := range es {
		walk(e)
	}
	return found
}
