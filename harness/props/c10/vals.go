package c10

import (
	"sort"
	"strconv"
	"strings"
)

// Kind is the kind of a value of the view language (as far as this property looks at it).
type Kind int

const (
	KInt Kind = iota
	KStr
	KBool
	KNull
	KList
	KSet
	KMap
	KMissing // "no value": what the real evaluator hands back for an unbound name (nil)
	KOther   // a kind the generator never produces (float, decimal, ...): only from the real side
)

func (k Kind) String() string {
	switch k {
	case KInt:
		return "int"
	case KStr:
		return "string"
	case KBool:
		return "bool"
	case KNull:
		return "null"
	case KList:
		return "list"
	case KSet:
		return "set"
	case KMap:
		return "map"
	case KMissing:
		return "missing"
	}
	return "other"
}

// Type is the static type the generator tracks so that programs are well-typed.
type Type struct {
	K      Kind
	Elem   *Type   // list / set
	Fields []Field // map (record), sorted by name
	KV     bool    // the {key,value} entry a map is unpacked into by where / transform
}

type Field struct {
	Name string
	T    *Type
}

var (
	tInt  = &Type{K: KInt}
	tStr  = &Type{K: KStr}
	tBool = &Type{K: KBool}
	tNull = &Type{K: KNull}
)

func tList(e *Type) *Type { return &Type{K: KList, Elem: e} }
func tSet(e *Type) *Type  { return &Type{K: KSet, Elem: e} }
func tRec(fs ...Field) *Type {
	out := append([]Field{}, fs...)
	sort.Slice(out, func(i, j int) bool { return out[i].Name < out[j].Name })
	return &Type{K: KMap, Fields: out}
}
func tKV(v *Type) *Type {
	return &Type{K: KMap, KV: true, Fields: []Field{{"key", tStr}, {"value", v}}}
}

func (t *Type) key() string {
	switch t.K {
	case KList:
		return "list<" + t.Elem.key() + ">"
	case KSet:
		return "set<" + t.Elem.key() + ">"
	case KMap:
		var b strings.Builder
		if t.KV {
			b.WriteString("kv")
		}
		b.WriteString("{")
		for i, f := range t.Fields {
			if i > 0 {
				b.WriteString(",")
			}
			if f.T == nil {
				b.WriteString(f.Name + ":?")
			} else {
				b.WriteString(f.Name + ":" + f.T.key())
			}
		}
		b.WriteString("}")
		return b.String()
	}
	return t.K.String()
}

func (t *Type) field(n string) *Type {
	for _, f := range t.Fields {
		if f.Name == n {
			return f.T
		}
	}
	return nil
}

// dictElem: the common field type if the map can be used as a dictionary (all fields of one type).
func (t *Type) dictElem() *Type {
	if t.K != KMap || t.KV || len(t.Fields) == 0 {
		return nil
	}
	for _, f := range t.Fields {
		if f.T == nil {
			return nil
		}
	}
	k := t.Fields[0].T.key()
	for _, f := range t.Fields[1:] {
		if f.T.key() != k {
			return nil
		}
	}
	return t.Fields[0].T
}

func (t *Type) isScalar() bool { return t.K == KInt || t.K == KStr || t.K == KBool }
func (t *Type) isColl() bool   { return t.K == KList || t.K == KSet }

// hasMap: a value of this type cannot be written as a literal (there is no map literal).
func (t *Type) hasMap() bool {
	switch t.K {
	case KMap:
		return true
	case KList, KSet:
		return t.Elem.hasMap()
	}
	return false
}

// Val is a value in the harness' own representation (reference side and converted real side).
type Val struct {
	K         Kind
	I         int64
	S         string
	B         bool
	Items     []*Val // list, set (sets: no duplicates when produced by the reference)
	Unordered bool   // reference side only: a list whose element order the semantics do not fix
	M         map[string]*Val
	KV        bool // reference side only: internal {key,value} entry
}

func vInt(i int64) *Val  { return &Val{K: KInt, I: i} }
func vStr(s string) *Val { return &Val{K: KStr, S: s} }
func vBool(b bool) *Val  { return &Val{K: KBool, B: b} }
func vNull() *Val        { return &Val{K: KNull} }
func vMissing() *Val     { return &Val{K: KMissing} }
func vList(xs ...*Val) *Val {
	items := []*Val{}
	for _, x := range xs {
		items = append(items, x)
	}
	return &Val{K: KList, Items: items}
}
func vSet(xs ...*Val) *Val {
	items := []*Val{}
	for _, x := range xs {
		items = append(items, x)
	}
	return &Val{K: KSet, Items: items}
}
func vMap(kv ...any) *Val {
	m := map[string]*Val{}
	for i := 0; i+1 < len(kv); i += 2 {
		m[kv[i].(string)] = kv[i+1].(*Val)
	}
	return &Val{K: KMap, M: m}
}

func (v *Val) keys() []string {
	ks := make([]string, 0, len(v.M))
	for k := range v.M {
		ks = append(ks, k)
	}
	sort.Strings(ks)
	return ks
}

// hasUnordered: does the value contain a list with unspecified order (then equality of two such
// values is not pinned and the reference refuses to decide de-duplication on it).
func (v *Val) hasUnordered() bool {
	switch v.K {
	case KList:
		if v.Unordered && len(v.Items) > 1 {
			return true
		}
		fallthrough
	case KSet:
		for _, x := range v.Items {
			if x.hasUnordered() {
				return true
			}
		}
	case KMap:
		for _, x := range v.M {
			if x.hasUnordered() {
				return true
			}
		}
	}
	return false
}

// hasMultiSet: does the value hold a set of two or more elements (then an implementation that
// compares representations can tell apart two values that are equal as values).
func (v *Val) hasMultiSet() bool {
	switch v.K {
	case KSet:
		if len(v.Items) > 1 {
			return true
		}
		fallthrough
	case KList:
		for _, x := range v.Items {
			if x.hasMultiSet() {
				return true
			}
		}
	case KMap:
		for _, x := range v.M {
			if x.hasMultiSet() {
				return true
			}
		}
	}
	return false
}

// canon is a canonical text of a value: sets are sorted (duplicates kept), lists keep order.
func (v *Val) canon() string {
	if v == nil {
		return "<nil>"
	}
	switch v.K {
	case KInt:
		return strconv.FormatInt(v.I, 10)
	case KStr:
		return strconv.Quote(v.S)
	case KBool:
		return strconv.FormatBool(v.B)
	case KNull:
		return "null"
	case KMissing:
		return "<missing>"
	case KList:
		p := make([]string, len(v.Items))
		for i, x := range v.Items {
			p[i] = x.canon()
		}
		return "[" + strings.Join(p, ", ") + "]"
	case KSet:
		p := make([]string, len(v.Items))
		for i, x := range v.Items {
			p[i] = x.canon()
		}
		sort.Strings(p)
		return "{" + strings.Join(p, ", ") + "}"
	case KMap:
		var p []string
		for _, k := range v.keys() {
			p = append(p, k+": "+v.M[k].canon())
		}
		return "(" + strings.Join(p, ", ") + ")"
	}
	return "other:" + v.S
}

// show is canon plus a mark on lists whose order is not fixed (for messages).
func (v *Val) show() string {
	if v != nil && v.K == KList && v.Unordered && len(v.Items) > 1 {
		return "anyorder" + v.canon()
	}
	return v.canon()
}

// equalVal compares an expected value (reference) with an actual one structurally: sets up to
// order and without tolerance for duplicates, lists in order unless the expected list is marked
// Unordered (then as multisets).
func equalVal(exp, act *Val) bool {
	if exp == nil || act == nil {
		return exp == act
	}
	if exp.K != act.K {
		return false
	}
	switch exp.K {
	case KInt:
		return exp.I == act.I
	case KStr, KOther:
		return exp.S == act.S
	case KBool:
		return exp.B == act.B
	case KNull, KMissing:
		return true
	case KList:
		if len(exp.Items) != len(act.Items) {
			return false
		}
		if exp.Unordered {
			return matchMulti(exp.Items, act.Items)
		}
		for i := range exp.Items {
			if !equalVal(exp.Items[i], act.Items[i]) {
				return false
			}
		}
		return true
	case KSet:
		if len(exp.Items) != len(act.Items) {
			return false
		}
		return matchMulti(exp.Items, act.Items)
	case KMap:
		if len(exp.M) != len(act.M) {
			return false
		}
		for k, x := range exp.M {
			y, ok := act.M[k]
			if !ok || !equalVal(x, y) {
				return false
			}
		}
		return true
	}
	return false
}

func matchMulti(exp, act []*Val) bool {
	used := make([]bool, len(act))
outer:
	for _, e := range exp {
		for j, a := range act {
			if !used[j] && equalVal(e, a) {
				used[j] = true
				continue outer
			}
		}
		return false
	}
	return true
}

// sameVal: exact structural equality of two values of the same side (sets up to order).
func sameVal(a, b *Val) bool { return a.canon() == b.canon() }

func (v *Val) String() string { return v.canon() }
