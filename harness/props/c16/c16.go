// Package c16: database scripts are complete and dependency-ordered; delta scripts are sound.
//
// Each case generates a relational description, renders it as Sysl, compiles it with the real
// parser and runs the real script generators (pkg/database) exactly as the two commands
// generate-db-scripts and generate-db-scripts-delta do. The emitted SQL is then EXECUTED by a
// reference interpreter (sqlinterp.go) and the resulting catalog is compared with the catalog
// the description means (model.go). See FINDINGS.md for what this finds on the pinned tree.
package c16

import (
	"fmt"
	"io"
	"sort"
	"strings"

	"github.com/anz-bank/sysl/pkg/database"
	"github.com/anz-bank/sysl/pkg/parse"
	"github.com/anz-bank/sysl/pkg/sysl"
	"github.com/sirupsen/logrus"
	"github.com/spf13/afero"

	"verif/fw"
)

type prop struct{}

func init() { fw.Register(prop{}) }

func (prop) ID() string { return "C16" }

func nModels(tier string) int {
	if tier == "thorough" {
		return 10000
	}
	return 300
}
func nPairs(tier string) int {
	if tier == "thorough" {
		return 20000
	}
	return 300
}

func (prop) Cases(tier string) int { return nModels(tier) + nPairs(tier) }

func (prop) Info() fw.Info {
	return fw.Info{
		Level: "exploration",
		Rule: "cases [0,N) are MODEL cases, cases [N,N+P) are PAIR cases (quick N=300,P=300; thorough N=10000,P=20000), all from PRNG(seed,i). " +
			"A model is a random relational description: 1-10 tables in one application spread over 1-3 .sysl files (root imports the others), " +
			"acyclic references to key columns (chain, fan-in, flat and random/diamond shapes), single/composite/no primary key, autoincrement, " +
			"sized and unsized strings, int, date; declaration order shuffled; padding chosen so that tables of different files start on the same line. " +
			"MODEL case: the real creation script is executed by the reference interpreter on an empty catalog; it must execute without a rejection and " +
			"leave exactly the catalog the description means (tables, columns, mapped types, key as a set, references); then the delta between the model " +
			"and itself (second compilation, in half the cases written with another layout) must contain no statement. " +
			"PAIR case: v2 is v1 after 1-4 random edits (add/drop/retype column, add/drop table, change key, add/drop/retarget reference, toggle autoincrement); " +
			"create(v1) then delta(v1,v2) must execute and leave every table of v2 equal to v2's definition; one third of the pairs continue as a chain " +
			"v1->v2->v3 on the same catalog (v3 often brings back something v2 removed). " +
			"Non-trivial: model case with >= 2 tables and >= 1 reference; pair case whose versions differ. Distinct by hash of the rendered text.",
		Assumptions: []string{
			"the reference interpreter implements PostgreSQL's structural rules for the emitted DDL subset only: existence of tables/columns/constraints/sequences, one primary key per table, non-empty key lists, DROP COLUMN RESTRICT, constraints and owned sequences dropped with their column, implicit sequence of bigserial, unquoted identifiers folded to lower case, foreign-key column types of the same family; it does not model uniqueness of referenced columns, cast feasibility of ALTER COLUMN TYPE, defaults, nullability or data",
			"type mapping taken as documented by the pinned goldens: int->integer, string(n)->varchar(n) (50 unsized), date->date, autoinc->bigserial (= bigint), a reference column has the type of the referenced column",
			"generated identifiers end in a digit (no SQL/Sysl keyword) and are distinct ignoring case; only int/string/date columns are generated (other Sysl primitives have no documented mapping)",
			"the Sysl parser is trusted to deliver the tables as written (that is C02's subject); the start line it reports for each table is cross-checked against the renderer's own line count",
		},
		CaseTimeout: 60,
		SetFloors:   map[string]int{"ddl_forms": 20, "edit_kinds": len(EditKinds), "column_changes": 40},
		CountFloors: map[string]int{"tables": 500, "columns": 1500, "fks": 200, "statements": 1000, "pairs": 150, "chains": 20,
			"same_line_groups": 10, "identity_deltas": 200, "composite_keys": 100, "autoinc_columns": 100},
	}
}

// ---------------------------------------------------------------- running the real code

func quietLogger() *logrus.Logger {
	l := logrus.New()
	l.SetOutput(io.Discard)
	return l
}

type built struct {
	M   *Model
	RD  *Rendered
	Mod *sysl.Module
}

// build renders and compiles a model. A non-empty note means the case cannot be judged.
func build(r *fw.Rand, m *Model, align bool) (*built, string) {
	if err := m.Validate(); err != nil {
		return nil, "generator produced an invalid description: " + err.Error()
	}
	rd := Render(r, m, RandomLayout(r, m, align))
	b := &built{M: m, RD: rd}
	fs := afero.NewMemMapFs()
	for n, c := range rd.Files {
		_ = afero.WriteFile(fs, n, []byte(c), 0o644)
	}
	var err error
	pi := fw.Guard(func() { b.Mod, err = parse.NewParser().ParseFromFs(rd.Root, fs) })
	if pi != nil {
		return nil, "parser panicked on the generated model (not C16's subject): " + pi.Value
	}
	if err != nil {
		return nil, "parser rejected the generated model (not C16's subject): " + err.Error()
	}
	app := b.Mod.GetApps()[m.App]
	if app == nil {
		return nil, "compiled module lacks the application"
	}
	// the renderer's line numbers are what the same-line diagnosis relies on: cross-check
	off, first := 0, true
	for _, t := range m.Tables {
		ty := app.GetTypes()[t.Name]
		if ty == nil || ty.GetRelation() == nil {
			return nil, "compiled module lacks table " + t.Name
		}
		d := int(ty.GetSourceContext().GetStart().GetLine()) - rd.LineOf[t.Name] //nolint:staticcheck
		if first {
			off, first = d, false
		} else if d != off {
			return nil, fmt.Sprintf("line bookkeeping differs from the parser's for table %s (%d vs %d)", t.Name, d, off)
		}
	}
	return b, ""
}

// createScript does what cmd_databasescript.go does for one application.
func createScript(b *built) (string, *fw.PanicInfo) {
	var out string
	pi := fw.Guard(func() {
		v := database.MakeDatabaseScriptView("C16", quietLogger())
		out = v.GenerateDatabaseScriptCreate(b.Mod.GetApps()[b.M.App].GetTypes(), "postgres", b.M.App)
	})
	return out, pi
}

// deltaScript does what cmd_databasescript_mod.go does: ProcessModSysls, then the files
// are written by GenerateFromSQLMap (here into a memory file system).
func deltaScript(old, new *built) (string, *fw.PanicInfo, error) {
	var out string
	var err error
	pi := fw.Guard(func() {
		lg := quietLogger()
		v := database.MakeDatabaseScriptView("C16", lg)
		outs := v.ProcessModSysls(old.Mod.GetApps(), new.Mod.GetApps(), []string{new.M.App}, "/out", "postgres")
		fs := afero.NewMemMapFs()
		if err = database.GenerateFromSQLMap(outs, fs, lg); err != nil {
			return
		}
		var bs []byte
		bs, err = afero.ReadFile(fs, "/out/"+new.M.App+".sql")
		out = string(bs)
	})
	return out, pi, err
}

// ---------------------------------------------------------------- classification helpers

func colClass(c *Column) string {
	if c == nil {
		return "none"
	}
	if c.Kind == "int" && c.AutoInc {
		return "autoinc"
	}
	return c.Kind
}

// ultimate class of a reference column (what the chain of references ends in)
func refEnd(m *Model, c *Column) string {
	for hops := 0; c != nil && c.Kind == "ref" && hops < 64; hops++ {
		c = m.Table(c.RefTable).Col(c.RefCol)
	}
	return colClass(c)
}

// refClass describes a reference column: what its chain of references ends in and what
// that final column was in the old version (new-table / added / was-<class>).
func refClass(old, new *Model, nc *Column) string {
	t, c := (*Table)(nil), nc
	for hops := 0; c != nil && c.Kind == "ref" && hops < 64; hops++ {
		t = new.Table(c.RefTable)
		c = t.Col(c.RefCol)
	}
	s := "ref>" + colClass(c)
	if old == nil || t == nil || c == nil {
		return s
	}
	ot := old.Table(t.Name)
	switch {
	case ot == nil:
		s += ":end-new-table"
	case ot.Col(c.Name) == nil:
		s += ":end-added"
	default:
		s += ":end-was-" + colClass(ot.Col(c.Name))
	}
	return s
}

// colChange names what happened to column tn.cn between two versions. The string goes from
// the general to the particular so that a finding can be matched by prefix.
func colChange(old, new *Model, tn, cn string) string {
	ot, nt := old.Table(tn), new.Table(tn)
	if nt == nil {
		if ot == nil {
			return "table-in-neither-version"
		}
		return "table-removed"
	}
	nc := nt.Col(cn)
	oc := ot.Col(cn)
	switch {
	case oc == nil && nc == nil:
		return "column-in-neither-version"
	case ot == nil || oc == nil:
		s := "added:"
		if ot == nil {
			s = "new-table:"
		}
		if nc.Kind == "ref" {
			return s + refClass(old, new, nc)
		}
		return s + colClass(nc)
	case nc == nil:
		return "dropped:" + colClass(oc)
	}
	var s string
	switch {
	case oc.Kind == "ref" && nc.Kind == "ref":
		if strings.EqualFold(oc.RefTable, nc.RefTable) && strings.EqualFold(oc.RefCol, nc.RefCol) {
			s = "kept:ref>ref:same-target"
		} else {
			s = "kept:ref>ref:retarget"
		}
		s += ":ends-in-" + refEnd(new, nc)
	case nc.Kind == "ref":
		s = "kept:plain>" + refClass(old, new, nc) + ":was-" + colClass(oc)
	case oc.Kind == "ref":
		s = "kept:ref>plain:now-" + colClass(nc)
	default:
		s = "kept:" + colClass(oc) + ">" + colClass(nc)
	}
	if old.SQLType(oc) == new.SQLType(nc) {
		s += ":type-same"
	} else {
		s += ":type-changed"
	}
	return s
}

// keyChange names what happened to the primary key of a table.
func keyChange(old, new *Model, tn string) string {
	ot, nt := old.Table(tn), new.Table(tn)
	if nt == nil {
		return "table-removed"
	}
	if ot == nil {
		return "new-table"
	}
	k0, k1 := ot.PKSet(), nt.PKSet()
	var s string
	switch {
	case strings.Join(k0, ",") == strings.Join(k1, ","):
		s = "key-same"
	case len(k0) == 0:
		s = "key-none>some"
	case len(k1) == 0:
		s = "key-some>none"
	default:
		s = "key-changed"
	}
	for _, k := range k0 {
		if nt.Col(k) == nil {
			s += ":keycol-dropped"
			break
		}
	}
	for _, k := range k1 {
		if ot.Col(k) == nil {
			s += ":keycol-added"
			break
		}
	}
	return s
}

// tableShape says whether a table has a key and references (what decides which
// constraint lines its CREATE TABLE carries).
func tableShape(t *Table) string {
	if t == nil {
		return "table-not-in-model"
	}
	refs := 0
	for _, c := range t.Cols {
		if c.Kind == "ref" {
			refs++
		}
	}
	switch {
	case len(t.PKSet()) == 0 && refs == 0:
		return "table-without-key-and-without-reference"
	case len(t.PKSet()) == 0:
		return "table-without-key-with-reference"
	case refs == 0:
		return "table-with-key-without-reference"
	}
	return "table-with-key-with-reference"
}

func keyShape(n int) string {
	switch {
	case n == 0:
		return "none"
	case n == 1:
		return "single"
	}
	return "composite"
}

func shortForm(f string) string { return strings.TrimPrefix(f, "ALTER TABLE ") }

// keyword skeleton of a statement (for the identity rule, where nothing is executed)
func stmtSkeleton(text string) string {
	kws := map[string]bool{"CREATE": true, "TABLE": true, "ALTER": true, "ADD": true, "DROP": true, "COLUMN": true,
		"CONSTRAINT": true, "TYPE": true, "SET": true, "DEFAULT": true, "SEQUENCE": true, "SELECT": true, "PRIMARY": true,
		"FOREIGN": true, "KEY": true, "OWNED": true, "BY": true, "INSERT": true, "UPDATE": true, "DELETE": true}
	var out []string
	for _, w := range strings.FieldsFunc(text, func(r rune) bool { return !(r == '_' || r >= 'a' && r <= 'z' || r >= 'A' && r <= 'Z') }) {
		if u := strings.ToUpper(w); kws[u] {
			out = append(out, u)
		}
		if len(out) >= 5 {
			break
		}
	}
	return strings.Join(out, " ")
}

// problems collects violations of one case, one per signature.
type problems struct {
	order []string
	msgs  map[string][]string
}

func (p *problems) add(sig, msg string) {
	if p.msgs == nil {
		p.msgs = map[string][]string{}
	}
	if _, ok := p.msgs[sig]; !ok {
		p.order = append(p.order, sig)
	}
	p.msgs[sig] = append(p.msgs[sig], msg)
}

func (p *problems) flush(res *fw.Result, prefix string, files map[string]string) {
	for _, sig := range p.order {
		ms := p.msgs[sig]
		msg := prefix + ms[0]
		if len(ms) > 1 {
			msg += fmt.Sprintf(" (and %d more of this kind in the case)", len(ms)-1)
		}
		f := map[string]string{"problems.txt": strings.Join(ms, "\n") + "\n"}
		for k, v := range files {
			f[k] = v
		}
		res.Violate(sig, msg, f)
	}
}

func recordForms(res *fw.Result, in *Interp) {
	var fs []string
	for f := range in.Forms {
		fs = append(fs, f)
	}
	sort.Strings(fs)
	for _, f := range fs {
		res.Add("ddl_forms", f)
	}
	res.Count("statements", in.Stmts)
}

func inconclusive(res *fw.Result, note string) {
	if res.Verdict != "violation" {
		res.Verdict = "inconclusive"
	}
	if res.Note == "" {
		res.Note = note
	}
}

// ---------------------------------------------------------------- oracle 1: creation script

// checkCreate executes the creation script of b on a fresh catalog and judges it.
// It returns the catalog and whether the script was flawless (so that a delta may be
// judged on top of it).
func checkCreate(res *fw.Result, b *built) (*Catalog, bool) {
	m := b.M
	nt, nc, nf, comp, auto, _ := m.Stats()
	res.Count("tables", nt)
	res.Count("columns", nc)
	res.Count("fks", nf)
	res.Count("composite_keys", comp)
	res.Count("autoinc_columns", auto)
	groups := SameLineGroups(m, b.RD)
	res.Count("same_line_groups", len(groups))

	files := map[string]string{"model.sysl.txt": b.RD.Text()}
	script, pi := createScript(b)
	if pi != nil {
		res.Violate(fw.CrashSig("create|panic", pi.Value, pi.Stack), "creation script generator panicked: "+pi.Value,
			mergeFiles(files, map[string]string{"stack.txt": pi.Stack}))
		return nil, false
	}
	files["create.sql"] = script
	cat := NewCatalog()
	in := NewInterp(cat)
	errs, oerr := in.Exec(script)
	recordForms(res, in)
	if oerr != nil {
		inconclusive(res, "creation script: "+oerr.Error())
		return nil, false
	}
	exp := Expected(m)
	diffs := Compare(exp, cat, true)
	files["expected_catalog.txt"] = DumpExpected(exp)
	files["actual_catalog.txt"] = cat.Dump()
	if len(errs) == 0 && len(diffs) == 0 {
		// independent restatement of the ordering clause on the executed order
		pos := map[string]int{}
		for i, n := range cat.Order {
			pos[n] = i
		}
		for _, t := range m.Tables {
			for _, c := range t.Cols {
				if c.Kind == "ref" && pos[strings.ToLower(c.RefTable)] > pos[strings.ToLower(t.Name)] {
					res.Violate("create|order|reference-before-definition", fmt.Sprintf("table %s is defined before %s which it references", t.Name, c.RefTable), files)
					return cat, false
				}
			}
		}
		res.Count("create_scripts_ok", 1)
		return cat, true
	}

	// diagnosis. First the one cause the generator knows how to recognise from its own
	// bookkeeping: tables of equal depth starting on the same line in different files.
	inGroup := map[string]bool{}
	for _, g := range groups {
		for _, n := range g {
			inGroup[strings.ToLower(n)] = true
		}
	}
	missingInGroup := map[string]bool{}
	for _, d := range diffs {
		if d.Kind == "table-missing" && inGroup[d.Table] {
			missingInGroup[d.Table] = true
		}
	}
	affected := map[string]bool{} // group members that went missing or were emitted twice, and everything that depends on a missing one
	if len(missingInGroup) > 0 {
		for n := range missingInGroup {
			affected[n] = true
		}
		for _, e := range errs {
			if e.Kind == "table-exists" && inGroup[e.Table] {
				affected[e.Table] = true
			}
		}
		for _, t := range m.Tables {
			for miss := range missingInGroup {
				if m.DependsOn(t.Name, miss) {
					affected[strings.ToLower(t.Name)] = true
				}
			}
		}
	}
	var p problems
	var sameLine []string
	failed := map[string]bool{}
	for _, e := range errs {
		if affected[e.Table] {
			sameLine = append(sameLine, e.String())
			continue
		}
		failed[e.Table] = true
		detail := e.Form
		if e.Kind == "trailing-comma" {
			detail = tableShape(m.Table(e.Table))
		} else if e.Kind == "unknown-ref-table" {
			if _, later := cat.Tables[e.Other]; later {
				detail = "referenced-table-defined-later"
			} else {
				detail = "referenced-table-never-defined"
			}
		} else if e.Col != "" {
			detail = colClass(m.Table(e.Table).Col(e.Col))
		}
		p.add("create|exec:"+e.Kind+"|"+detail, e.String())
	}
	for _, d := range diffs {
		if affected[d.Table] {
			sameLine = append(sameLine, d.String())
			continue
		}
		if failed[d.Table] {
			continue // consequence of the rejected CREATE TABLE, already reported
		}
		var detail string
		c := m.Table(d.Table).Col(d.Col)
		switch d.Kind {
		case "pk":
			detail = "want-" + keyShape(len(exp[d.Table].PK)) + ":got-" + keyShape(len(strings.FieldsFunc(d.Got, func(r rune) bool { return r == ',' })))
		case "table-missing":
			detail = "not-emitted"
		case "table-extra":
			detail = "not-in-model"
		default:
			detail = colClass(c)
			if c != nil && c.Kind == "ref" {
				detail += ">" + refEnd(m, c)
			}
		}
		p.add("create|"+d.Kind+"|"+detail, d.String())
	}
	if len(sameLine) > 0 {
		var gs []string
		for _, g := range groups {
			gs = append(gs, fmt.Sprintf("{%s} all start on line %d at depth %d in files %v", strings.Join(g, ","),
				b.RD.LineOf[g[0]], m.Depths()[g[0]], filesOf(b.RD, g)))
		}
		sort.Strings(sameLine)
		p.add("create|table-missing-and-duplicated|same-line-in-two-files",
			"tables of equal reference depth that start on the same line number in different files overwrite each other in the creation order: "+
				strings.Join(gs, "; ")+"; effects: "+strings.Join(sameLine, " ;; "))
	}
	p.flush(res, "creation script: ", files)
	return cat, false
}

func filesOf(rd *Rendered, names []string) []string {
	var out []string
	for _, n := range names {
		out = append(out, rd.FileOf[n])
	}
	return out
}

func mergeFiles(a, b map[string]string) map[string]string {
	out := map[string]string{}
	for k, v := range a {
		out[k] = v
	}
	for k, v := range b {
		out[k] = v
	}
	return out
}

// ---------------------------------------------------------------- oracle 3: identity delta

func checkIdentity(res *fw.Result, a, b *built, how string) {
	script, pi, err := deltaScript(a, b)
	files := map[string]string{"model.sysl.txt": a.RD.Text(), "same_model_again.sysl.txt": b.RD.Text(), "delta.sql": script}
	if pi != nil {
		res.Violate(fw.CrashSig("identity|panic", pi.Value, pi.Stack), "delta generator panicked on identical versions: "+pi.Value,
			mergeFiles(files, map[string]string{"stack.txt": pi.Stack}))
		return
	}
	if err != nil {
		inconclusive(res, "identity delta could not be read back: "+err.Error())
		return
	}
	stmts, perr := CountStatements(script)
	if perr != nil {
		inconclusive(res, "identity delta: "+perr.Error())
		return
	}
	res.Count("identity_deltas", 1)
	res.Add("identity_modes", how)
	if len(stmts) > 0 {
		res.Violate("identity|ddl-emitted|"+stmtSkeleton(stmts[0]),
			fmt.Sprintf("the delta between a model and itself (%s) contains %d statement(s), first: %s", how, len(stmts), oneLine(stmts[0])), files)
	}
}

// ---------------------------------------------------------------- oracle 2: delta soundness

// checkDelta executes delta(old,new) on cat (the state reached so far) and judges it.
func checkDelta(res *fw.Result, old, new *built, cat *Catalog, step string, history string) bool {
	tablesBefore := map[string]bool{}
	for n := range cat.Tables {
		tablesBefore[n] = true
	}
	seqsBefore := map[string]bool{}
	for n := range cat.Seqs {
		seqsBefore[n] = true
	}
	files := map[string]string{"old.sysl.txt": old.RD.Text(), "new.sysl.txt": new.RD.Text(), "catalog_before.txt": cat.Dump(), "history.txt": history}
	script, pi, err := deltaScript(old, new)
	if pi != nil {
		res.Violate(fw.CrashSig("delta|panic", pi.Value, pi.Stack), "delta script generator panicked: "+pi.Value,
			mergeFiles(files, map[string]string{"stack.txt": pi.Stack}))
		return false
	}
	if err != nil {
		inconclusive(res, "delta script could not be read back: "+err.Error())
		return false
	}
	files["delta.sql"] = script
	in := NewInterp(cat)
	errs, oerr := in.Exec(script)
	recordForms(res, in)
	if oerr != nil {
		inconclusive(res, step+": "+oerr.Error())
		return false
	}
	exp := Expected(new.M)
	diffs := Compare(exp, cat, false)
	files["expected_tables_of_new.txt"] = DumpExpected(exp)
	files["catalog_after.txt"] = cat.Dump()
	if len(errs) == 0 && len(diffs) == 0 {
		res.Count("delta_scripts_ok", 1)
		return true
	}
	o, n := old.M, new.M
	var p problems
	failed := map[string]bool{}
	for _, e := range errs {
		failed[e.Table] = true
		var class string
		switch {
		case e.Kind == "column-referenced":
			parts := strings.SplitN(e.Other, ".", 2)
			if o.Table(parts[0]) == nil {
				// the referencing table is in the catalog but not in the old version
				class = "referrer-in-table-of-earlier-version"
			} else if n.Table(parts[0]) == nil {
				class = "referrer-in-removed-table"
			} else {
				class = "referrer-" + colChange(o, n, parts[0], parts[1])
			}
			class += "/target-" + colChange(o, n, e.Table, e.Col)
		case e.Kind == "fk-type-mismatch" || e.Kind == "unknown-ref-column" || e.Kind == "unknown-ref-table":
			parts := strings.SplitN(e.Other+".", ".", 3)
			if o.Table(parts[0]) == nil && tablesBefore[parts[0]] {
				// the referenced table is new in the model but an earlier version left one of that name behind
				class = "target-in-table-left-by-earlier-version/" + colChange(o, n, e.Table, e.Col)
			} else {
				class = "target-" + colChange(o, n, parts[0], parts[1]) + "/" + colChange(o, n, e.Table, e.Col)
			}
		case e.Kind == "trailing-comma":
			class = "new-" + tableShape(n.Table(e.Table))
		case e.Kind == "table-exists":
			class = "table-new-in-model"
			if o.Table(e.Table) != nil {
				class = "table-in-old-model"
			} else if tablesBefore[e.Table] {
				class = "table-left-by-earlier-version"
			}
		case e.Kind == "relation-exists":
			class = "sequence-name-free-before"
			if seqsBefore[e.Other] {
				class = "sequence-left-by-earlier-autoincrement"
			}
		case e.Col != "":
			class = colChange(o, n, e.Table, e.Col)
		default:
			class = keyChange(o, n, e.Table)
		}
		p.add("delta|exec:"+e.Kind+"|"+class+"|"+shortForm(e.Form), e.String())
	}
	suppressed := 0
	for _, d := range diffs {
		if failed[d.Table] {
			suppressed++ // consequence of a rejected statement on this table, already reported
			continue
		}
		var class string
		switch d.Kind {
		case "pk":
			class = keyChange(o, n, d.Table)
		case "table-missing":
			class = keyChange(o, n, d.Table)
		default:
			class = colChange(o, n, d.Table, d.Col)
		}
		p.add("delta|"+d.Kind+"|"+class, d.String())
	}
	res.Count("diffs_suppressed_after_rejection", suppressed)
	p.flush(res, step+": ", files)
	return false
}

// ---------------------------------------------------------------- cases

func observeChanges(res *fw.Result, o, n *Model) {
	seen := map[string]bool{}
	for _, t := range append(append([]*Table(nil), o.Tables...), n.Tables...) {
		for _, c := range t.Cols {
			seen[colChange(o, n, t.Name, c.Name)] = true
		}
		seen["key:"+keyChange(o, n, t.Name)] = true
	}
	var ks []string
	for k := range seen {
		ks = append(ks, k)
	}
	sort.Strings(ks)
	for _, k := range ks {
		res.Add("column_changes", k)
	}
}

func runModel(r *fw.Rand, i int) fw.Result {
	var res fw.Result
	m := BuildModel(r.Fork())
	b, note := build(r.Fork(), m, r.Chance(3, 4))
	if b == nil {
		inconclusive(&res, note)
		return res
	}
	res.Hash = fw.HashOf(b.RD.Text())
	nt, nc, nf, comp, auto, depth := m.Stats()
	res.NonTrivial = nt >= 2 && nf >= 1
	res.Count("models", 1)
	res.Add("depths", fmt.Sprint(depth))
	res.Add("file_counts", fmt.Sprint(len(b.RD.Files)))
	res.Sample = map[string]any{"case": i, "kind": "model", "tables": nt, "columns": nc, "references": nf, "composite_keys": comp,
		"autoinc": auto, "max_depth": depth, "files": len(b.RD.Files), "text_head": head(b.RD.Text(), 30)}
	checkCreate(&res, b)

	// identity: the same model compiled again (same text, or written down differently)
	r2 := r.Fork()
	how := "same text compiled twice"
	m2 := m
	if r2.Chance(1, 2) {
		how = "same model, other layout and declaration order"
		m2 = m.Clone()
		p := r2.Perm(len(m2.Tables))
		ts := make([]*Table, len(p))
		for k, j := range p {
			ts[k] = m2.Tables[j]
		}
		m2.Tables = ts
	}
	var b2 *built
	if m2 == m {
		b2, note = rebuild(b)
	} else {
		b2, note = build(r2, m2, false)
	}
	if b2 == nil {
		inconclusive(&res, note)
		return res
	}
	checkIdentity(&res, b, b2, how)
	return res
}

// rebuild compiles the same text a second time (two independent modules, as the delta
// command would get from two identical files).
func rebuild(b *built) (*built, string) {
	fs := afero.NewMemMapFs()
	for n, c := range b.RD.Files {
		_ = afero.WriteFile(fs, n, []byte(c), 0o644)
	}
	nb := &built{M: b.M, RD: b.RD}
	var err error
	pi := fw.Guard(func() { nb.Mod, err = parse.NewParser().ParseFromFs(b.RD.Root, fs) })
	if pi != nil || err != nil {
		return nil, "second compilation of the same text failed"
	}
	return nb, ""
}

func runPair(r *fw.Rand, i int) fw.Result {
	var res fw.Result
	v1 := BuildModel(r.Fork())
	b1, note := build(r.Fork(), v1, r.Chance(1, 8))
	if b1 == nil {
		inconclusive(&res, note)
		return res
	}
	v2, kinds := Mutate(r.Fork(), v1, nil)
	b2, note := build(r.Fork(), v2, false)
	if b2 == nil {
		inconclusive(&res, note)
		return res
	}
	chain := r.Chance(1, 3)
	var b3 *built
	var kinds3 []string
	if chain {
		var v3 *Model
		v3, kinds3 = Mutate(r.Fork(), v2, v1)
		b3, note = build(r.Fork(), v3, false)
		if b3 == nil {
			inconclusive(&res, note)
			return res
		}
	}
	text := b1.RD.Text() + "\n>>>> v2\n" + b2.RD.Text()
	if chain {
		text += "\n>>>> v3\n" + b3.RD.Text()
	}
	res.Hash = fw.HashOf(text)
	res.NonTrivial = v1.Canon() != v2.Canon()
	res.Sample = map[string]any{"case": i, "kind": "pair", "edits": kinds, "chain_edits": kinds3, "v1_head": head(b1.RD.Text(), 16), "v2_head": head(b2.RD.Text(), 16)}

	cat, clean := checkCreate(&res, b1)
	if !clean {
		res.Count("pairs_not_judged_creation_flawed", 1)
		return res
	}
	res.Count("pairs", 1)
	for _, k := range kinds {
		res.Add("edit_kinds", k)
	}
	observeChanges(&res, v1, v2)
	hist := "v1 -> v2 by " + strings.Join(kinds, ", ")
	ok := checkDelta(&res, b1, b2, cat, "delta v1->v2 ["+strings.Join(kinds, ",")+"]", hist)
	if chain {
		if !ok {
			res.Count("chains_cut_after_first_step", 1)
			return res
		}
		res.Count("chains", 1)
		for _, k := range kinds3 {
			res.Add("edit_kinds", k)
		}
		observeChanges(&res, v2, b3.M)
		hist += "\nv2 -> v3 by " + strings.Join(kinds3, ", ") + "\n==== v1 was\n" + b1.RD.Text()
		checkDelta(&res, b2, b3, cat, "delta v2->v3 after v1->v2 ["+strings.Join(kinds3, ",")+"]", hist)
	}
	return res
}

func (prop) Run(ctx *fw.Ctx, i int) fw.Result {
	r := ctx.Rng()
	if i < nModels(ctx.Tier) {
		return runModel(r, i)
	}
	return runPair(r, i)
}

func head(s string, n int) string {
	ls := strings.Split(s, "\n")
	if len(ls) > n {
		ls = ls[:n]
	}
	return strings.Join(ls, "\n")
}
