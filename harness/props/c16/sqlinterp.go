package c16

// A reference interpreter for exactly the DDL subset that pkg/database emits for postgres
// (plus the few forms the repairs proposed in FINDINGS.md would emit: DROP TABLE, DROP
// SEQUENCE, DROP COLUMN .. CASCADE, DROP CONSTRAINT IF EXISTS, CREATE SEQUENCE IF NOT EXISTS,
// ALTER COLUMN .. DROP DEFAULT).
// It keeps a catalog (tables, columns with types, primary key, foreign keys, sequences) and
// rejects what a real postgres rejects structurally. It knows nothing about pkg/database:
// statement forms were taken from the PostgreSQL grammar, restricted to the forms seen in the
// generator's output. A statement outside the subset is an *oracle* error (the case becomes
// inconclusive), never a pass.

import (
	"fmt"
	"sort"
	"strconv"
	"strings"
)

// ---------------------------------------------------------------- catalog

type colDef struct {
	Name    string
	Type    string // normalised: integer | bigint | date | varchar(n)
	Default string // sequence name when the default is nextval('seq')
}

type fkDef struct {
	Name     string
	Col      string
	RefTable string
	RefCol   string
}

type tableDef struct {
	Name   string
	Cols   []*colDef
	HasPK  bool
	PKName string
	PK     []string
	FKs    []*fkDef
}

func (t *tableDef) col(name string) *colDef {
	for _, c := range t.Cols {
		if c.Name == name {
			return c
		}
	}
	return nil
}

func (t *tableDef) hasConstraint(name string) bool {
	if t.HasPK && t.PKName == name {
		return true
	}
	for _, f := range t.FKs {
		if f.Name == name {
			return true
		}
	}
	return false
}

// Catalog is the state of the reference database.
type Catalog struct {
	Tables map[string]*tableDef
	Order  []string          // tables in creation order
	Seqs   map[string]string // sequence -> owning "table.column" ("" when free-standing)
}

func NewCatalog() *Catalog {
	return &Catalog{Tables: map[string]*tableDef{}, Seqs: map[string]string{}}
}

func (c *Catalog) relationExists(name string) bool {
	if _, ok := c.Tables[name]; ok {
		return true
	}
	_, ok := c.Seqs[name]
	return ok
}

// Dump renders the catalog canonically (for replay artefacts).
func (c *Catalog) Dump() string {
	var b strings.Builder
	names := make([]string, 0, len(c.Tables))
	for n := range c.Tables {
		names = append(names, n)
	}
	sort.Strings(names)
	for _, n := range names {
		t := c.Tables[n]
		fmt.Fprintf(&b, "table %s\n", n)
		for _, col := range t.Cols {
			fmt.Fprintf(&b, "  %s %s", col.Name, col.Type)
			if col.Default != "" {
				fmt.Fprintf(&b, " default nextval(%s)", col.Default)
			}
			b.WriteByte('\n')
		}
		if t.HasPK {
			pk := append([]string(nil), t.PK...)
			sort.Strings(pk)
			fmt.Fprintf(&b, "  primary key {%s}\n", strings.Join(pk, ","))
		}
		fks := make([]string, 0, len(t.FKs))
		for _, f := range t.FKs {
			fks = append(fks, fmt.Sprintf("  foreign key %s -> %s.%s\n", f.Col, f.RefTable, f.RefCol))
		}
		sort.Strings(fks)
		for _, f := range fks {
			b.WriteString(f)
		}
	}
	seqs := make([]string, 0, len(c.Seqs))
	for s, o := range c.Seqs {
		seqs = append(seqs, fmt.Sprintf("sequence %s owned by %q\n", s, o))
	}
	sort.Strings(seqs)
	for _, s := range seqs {
		b.WriteString(s)
	}
	return b.String()
}

// ---------------------------------------------------------------- errors

// ExecErr is a statement that postgres would reject (structurally).
type ExecErr struct {
	Stmt  int    // ordinal of the statement in the script
	Form  string // statement form
	Kind  string // rejection class
	Table string // table the statement is about ("" if none)
	Col   string // column the rejection is about ("" if none)
	Other string // other object (referenced table, constraint, sequence)
	Msg   string
	Text  string // the statement
}

func (e ExecErr) String() string {
	return fmt.Sprintf("statement %d (%s) rejected: %s [%s]", e.Stmt, e.Form, e.Msg, oneLine(e.Text))
}

// OracleErr: the script contains something the reference interpreter does not know.
type OracleErr struct {
	Stmt int
	Msg  string
	Text string
}

func (e *OracleErr) Error() string {
	return fmt.Sprintf("statement %d outside the interpreted DDL subset: %s [%s]", e.Stmt, e.Msg, oneLine(e.Text))
}

func oneLine(s string) string {
	s = strings.Join(strings.Fields(s), " ")
	if len(s) > 160 {
		s = s[:160] + "..."
	}
	return s
}

// ---------------------------------------------------------------- lexer

type tok struct {
	k byte // 'i' ident, 'n' number, 's' string, 'p' punct
	s string
}

type stmtToks struct {
	toks []tok
	text string
}

// splitStatements strips comments, tokenises and cuts at ';'.
func splitStatements(script string) ([]stmtToks, error) {
	var out []stmtToks
	var cur []tok
	start := -1
	i := 0
	n := len(script)
	flush := func(end int) {
		if len(cur) > 0 {
			out = append(out, stmtToks{toks: cur, text: strings.TrimSpace(script[start:end])})
		}
		cur = nil
		start = -1
	}
	for i < n {
		ch := script[i]
		switch {
		case ch == ' ' || ch == '\t' || ch == '\n' || ch == '\r':
			i++
		case ch == '/' && i+1 < n && script[i+1] == '*':
			j := strings.Index(script[i+2:], "*/")
			if j < 0 {
				return nil, fmt.Errorf("unterminated comment at offset %d", i)
			}
			i += 2 + j + 2
		case ch == '-' && i+1 < n && script[i+1] == '-':
			j := strings.IndexByte(script[i:], '\n')
			if j < 0 {
				i = n
			} else {
				i += j + 1
			}
		case ch == ';':
			flush(i + 1)
			i++
		case ch == '\'':
			j := i + 1
			for j < n && script[j] != '\'' {
				j++
			}
			if j >= n {
				return nil, fmt.Errorf("unterminated string at offset %d", i)
			}
			if start < 0 {
				start = i
			}
			cur = append(cur, tok{'s', script[i+1 : j]})
			i = j + 1
		case isIdentStart(ch):
			j := i + 1
			for j < n && isIdentPart(script[j]) {
				j++
			}
			if start < 0 {
				start = i
			}
			cur = append(cur, tok{'i', script[i:j]})
			i = j
		case ch >= '0' && ch <= '9':
			j := i + 1
			for j < n && script[j] >= '0' && script[j] <= '9' {
				j++
			}
			if start < 0 {
				start = i
			}
			cur = append(cur, tok{'n', script[i:j]})
			i = j
		case strings.IndexByte("(),.", ch) >= 0:
			if start < 0 {
				start = i
			}
			cur = append(cur, tok{'p', string(ch)})
			i++
		default:
			return nil, fmt.Errorf("unexpected character %q at offset %d", ch, i)
		}
	}
	if len(cur) > 0 {
		// trailing text without ';'
		out = append(out, stmtToks{toks: cur, text: strings.TrimSpace(script[start:])})
	}
	return out, nil
}

func isIdentStart(c byte) bool {
	return c == '_' || (c >= 'a' && c <= 'z') || (c >= 'A' && c <= 'Z')
}
func isIdentPart(c byte) bool {
	return isIdentStart(c) || (c >= '0' && c <= '9') || c == '$'
}

// cursor over one statement
type cur struct {
	t []tok
	p int
}

func (c *cur) peek() tok {
	if c.p < len(c.t) {
		return c.t[c.p]
	}
	return tok{}
}
func (c *cur) eof() bool { return c.p >= len(c.t) }

// kw consumes the keyword sequence if it is next (case-insensitive).
func (c *cur) kw(words ...string) bool {
	if c.p+len(words) > len(c.t) {
		return false
	}
	for i, w := range words {
		t := c.t[c.p+i]
		if t.k != 'i' || !strings.EqualFold(t.s, w) {
			return false
		}
	}
	c.p += len(words)
	return true
}
func (c *cur) punct(p string) bool {
	t := c.peek()
	if t.k == 'p' && t.s == p {
		c.p++
		return true
	}
	return false
}

// ident consumes an identifier and folds it to lower case, as postgres does for
// unquoted identifiers.
func (c *cur) ident() (string, bool) {
	t := c.peek()
	if t.k == 'i' {
		c.p++
		return strings.ToLower(t.s), true
	}
	return "", false
}
func (c *cur) str() (string, bool) {
	t := c.peek()
	if t.k == 's' {
		c.p++
		return t.s, true
	}
	return "", false
}

// ---------------------------------------------------------------- interpreter

// Interp executes scripts against a catalog.
type Interp struct {
	Cat   *Catalog
	Forms map[string]int // statement / clause forms interpreted (evidence)
	Stmts int
}

func NewInterp(c *Catalog) *Interp { return &Interp{Cat: c, Forms: map[string]int{}} }

type parseFail struct{ msg string }

// reject is raised by exec functions for structural rejections.
type reject struct {
	kind, table, col, other, msg string
}

// Exec runs the script. Rejected statements have no effect (a statement is atomic) and
// execution continues with the next statement, like psql without ON_ERROR_STOP. It returns
// the rejections, and an OracleErr when some statement is outside the subset (the catalog
// is then not meaningful).
func (in *Interp) Exec(script string) ([]ExecErr, *OracleErr) {
	stmts, err := splitStatements(script)
	if err != nil {
		return nil, &OracleErr{Stmt: 0, Msg: err.Error()}
	}
	var errs []ExecErr
	for i, st := range stmts {
		form, rj, pf := in.execOne(st)
		if pf != nil {
			return errs, &OracleErr{Stmt: i + 1, Msg: pf.msg, Text: st.text}
		}
		in.Stmts++
		in.Forms[form]++
		if rj != nil {
			errs = append(errs, ExecErr{Stmt: i + 1, Form: form, Kind: rj.kind, Table: rj.table, Col: rj.col,
				Other: rj.other, Msg: rj.msg, Text: st.text})
		}
	}
	return errs, nil
}

// CountStatements parses a script and returns the number of statements (for the
// "delta between identical versions contains no statement" rule) and their texts.
func CountStatements(script string) ([]string, error) {
	stmts, err := splitStatements(script)
	if err != nil {
		return nil, err
	}
	var out []string
	for _, s := range stmts {
		out = append(out, s.text)
	}
	return out, nil
}

func (in *Interp) execOne(st stmtToks) (form string, rj *reject, pf *parseFail) {
	c := &cur{t: st.toks}
	defer func() {
		if r := recover(); r != nil {
			switch x := r.(type) {
			case parseFail:
				pf = &x
			case reject:
				rj = &x
			case formedReject:
				form = x.form
				rj = &x.rj
			default:
				panic(r)
			}
		}
	}()
	switch {
	case c.kw("create", "table"):
		form = "CREATE TABLE"
		in.createTable(c)
	case c.kw("create", "sequence"):
		form = "CREATE SEQUENCE"
		ifNot := c.kw("if", "not", "exists")
		name := mustIdent(c, "sequence name")
		mustEnd(c)
		if in.Cat.relationExists(name) {
			if ifNot {
				form = "CREATE SEQUENCE IF NOT EXISTS"
				break
			}
			panic(reject{kind: "relation-exists", other: name, msg: fmt.Sprintf("relation %q already exists", name)})
		}
		in.Cat.Seqs[name] = ""
	case c.kw("drop", "sequence"):
		form = "DROP SEQUENCE"
		ifEx := c.kw("if", "exists")
		name := mustIdent(c, "sequence name")
		cascade := c.kw("cascade")
		mustEnd(c)
		if _, ok := in.Cat.Seqs[name]; !ok {
			if ifEx {
				break
			}
			panic(reject{kind: "unknown-sequence", other: name, msg: fmt.Sprintf("sequence %q does not exist", name)})
		}
		for _, tn := range in.Cat.Order {
			for _, col := range in.Cat.Tables[tn].Cols {
				if col.Default == name {
					if !cascade {
						panic(reject{kind: "sequence-in-use", table: tn, col: col.Name, other: name,
							msg: fmt.Sprintf("cannot drop sequence %q because the default of column %q.%q depends on it", name, tn, col.Name)})
					}
					col.Default = ""
				}
			}
		}
		delete(in.Cat.Seqs, name)
	case c.kw("drop", "table"):
		form = "DROP TABLE"
		ifEx := c.kw("if", "exists")
		name := mustIdent(c, "table name")
		cascade := c.kw("cascade")
		mustEnd(c)
		t := in.Cat.Tables[name]
		if t == nil {
			if ifEx {
				break
			}
			panic(reject{kind: "unknown-table", table: name, msg: fmt.Sprintf("table %q does not exist", name)})
		}
		for _, on := range in.Cat.Order {
			ot := in.Cat.Tables[on]
			if ot == t {
				continue
			}
			var keep []*fkDef
			for _, f := range ot.FKs {
				if f.RefTable == name {
					if !cascade {
						panic(reject{kind: "table-referenced", table: name, other: on + "." + f.Col,
							msg: fmt.Sprintf("cannot drop table %q because constraint %q on table %q depends on it", name, f.Name, on)})
					}
					continue
				}
				keep = append(keep, f)
			}
			ot.FKs = keep
		}
		delete(in.Cat.Tables, name)
		for i, n := range in.Cat.Order {
			if n == name {
				in.Cat.Order = append(in.Cat.Order[:i:i], in.Cat.Order[i+1:]...)
				break
			}
		}
		for sq, owner := range in.Cat.Seqs {
			if strings.HasPrefix(owner, name+".") {
				delete(in.Cat.Seqs, sq)
			}
		}
	case c.kw("alter", "sequence"):
		form = "ALTER SEQUENCE OWNED BY"
		name := mustIdent(c, "sequence name")
		if !c.kw("owned", "by") {
			panic(parseFail{"ALTER SEQUENCE form other than OWNED BY"})
		}
		tn := mustIdent(c, "table name")
		mustPunct(c, ".")
		cn := mustIdent(c, "column name")
		mustEnd(c)
		if _, ok := in.Cat.Seqs[name]; !ok {
			panic(reject{kind: "unknown-sequence", other: name, msg: fmt.Sprintf("sequence %q does not exist", name)})
		}
		t := in.table(tn)
		in.column(t, cn)
		in.Cat.Seqs[name] = tn + "." + cn
	case c.kw("select"):
		form = "SELECT setval"
		in.selectSetval(c)
	case c.kw("alter", "table"):
		form = in.alterTable(c)
	default:
		panic(parseFail{"unknown statement"})
	}
	return form, nil, nil
}

func mustIdent(c *cur, what string) string {
	s, ok := c.ident()
	if !ok {
		panic(parseFail{"expected " + what})
	}
	return s
}
func mustPunct(c *cur, p string) {
	if !c.punct(p) {
		panic(parseFail{"expected '" + p + "'"})
	}
}
func mustEnd(c *cur) {
	if !c.eof() {
		panic(parseFail{"trailing tokens: " + c.peek().s})
	}
}

func (in *Interp) table(name string) *tableDef {
	t := in.Cat.Tables[name]
	if t == nil {
		panic(reject{kind: "unknown-table", table: name, msg: fmt.Sprintf("relation %q does not exist", name)})
	}
	return t
}
func (in *Interp) column(t *tableDef, name string) *colDef {
	col := t.col(name)
	if col == nil {
		panic(reject{kind: "unknown-column", table: t.Name, col: name,
			msg: fmt.Sprintf("column %q of relation %q does not exist", name, t.Name)})
	}
	return col
}

// parsed data type
type sqlType struct {
	norm   string // normalised real type
	serial bool   // bigserial pseudo-type
	empty  bool   // no type written at all (postgres: syntax error)
}

// dataType parses a type; stop is the set of tokens that may follow.
func dataType(c *cur) sqlType {
	t := c.peek()
	if t.k != 'i' {
		// "col ," or "TYPE ;": a column without a type is a syntax error in postgres
		return sqlType{empty: true}
	}
	c.p++
	name := strings.ToLower(t.s)
	switch name {
	case "integer", "int", "int4":
		return sqlType{norm: "integer"}
	case "bigint", "int8":
		return sqlType{norm: "bigint"}
	case "date":
		return sqlType{norm: "date"}
	case "bigserial", "serial8":
		return sqlType{norm: "bigint", serial: true}
	case "varchar":
		if c.punct("(") {
			nt := c.peek()
			if nt.k != 'n' {
				panic(parseFail{"varchar length is not a number"})
			}
			c.p++
			mustPunct(c, ")")
			n, _ := strconv.Atoi(nt.s)
			if n < 1 {
				panic(reject{kind: "bad-varchar-length", msg: "length for type varchar must be at least 1"})
			}
			return sqlType{norm: fmt.Sprintf("varchar(%d)", n)}
		}
		return sqlType{norm: "varchar"}
	}
	panic(parseFail{"data type " + t.s + " is not in the interpreted subset"})
}

func typeFamily(t string) string {
	switch {
	case t == "integer" || t == "bigint":
		return "int"
	case strings.HasPrefix(t, "varchar"):
		return "text"
	}
	return t
}

func identList(c *cur) []string {
	mustPunct(c, "(")
	var out []string
	if c.punct(")") {
		return out // empty list: caller rejects (postgres: syntax error)
	}
	for {
		out = append(out, mustIdent(c, "column name"))
		if c.punct(",") {
			continue
		}
		mustPunct(c, ")")
		return out
	}
}

// a table constraint as written
type conSpec struct {
	name     string
	pk       bool
	cols     []string
	refTable string
	refCols  []string
}

// tableConstraint parses [CONSTRAINT name] PRIMARY KEY (...) | FOREIGN KEY (...) REFERENCES t (...).
// It returns nil when the next tokens are not a constraint.
func tableConstraint(c *cur) *conSpec {
	save := c.p
	cs := &conSpec{}
	if c.kw("constraint") {
		cs.name = mustIdent(c, "constraint name")
	}
	switch {
	case c.kw("primary", "key"):
		cs.pk = true
		cs.cols = identList(c)
	case c.kw("foreign", "key"):
		cs.cols = identList(c)
		if !c.kw("references") {
			panic(parseFail{"FOREIGN KEY without REFERENCES"})
		}
		cs.refTable = mustIdent(c, "referenced table")
		cs.refCols = identList(c)
	default:
		if cs.name != "" {
			panic(parseFail{"constraint kind not in the interpreted subset"})
		}
		c.p = save
		return nil
	}
	return cs
}

// checkConstraint validates a constraint against table t (which may be under construction)
// and returns the catalog entries to add.
func (in *Interp) checkConstraint(t *tableDef, cs *conSpec) (pk []string, fk *fkDef) {
	if cs.name != "" && t.hasConstraint(cs.name) {
		panic(reject{kind: "constraint-exists", table: t.Name, other: cs.name,
			msg: fmt.Sprintf("constraint %q for relation %q already exists", cs.name, t.Name)})
	}
	if len(cs.cols) == 0 {
		kind := "empty-key"
		panic(reject{kind: kind, table: t.Name, other: cs.name, msg: "syntax error: empty column list in key"})
	}
	seen := map[string]bool{}
	for _, cn := range cs.cols {
		if t.col(cn) == nil {
			panic(reject{kind: "unknown-key-column", table: t.Name, col: cn,
				msg: fmt.Sprintf("column %q named in key does not exist", cn)})
		}
		if seen[cn] {
			panic(reject{kind: "duplicate-key-column", table: t.Name, col: cn,
				msg: fmt.Sprintf("column %q appears twice in key", cn)})
		}
		seen[cn] = true
	}
	if cs.pk {
		if t.HasPK {
			panic(reject{kind: "second-primary-key", table: t.Name,
				msg: fmt.Sprintf("multiple primary keys for table %q are not allowed", t.Name)})
		}
		return cs.cols, nil
	}
	// foreign key
	if len(cs.cols) != 1 || len(cs.refCols) != 1 {
		if len(cs.refCols) == 0 {
			panic(reject{kind: "empty-key", table: t.Name, other: cs.name, msg: "syntax error: empty column list in REFERENCES"})
		}
		panic(parseFail{"multi-column foreign key is not in the interpreted subset"})
	}
	var rt *tableDef
	if cs.refTable == t.Name {
		rt = t
	} else {
		rt = in.Cat.Tables[cs.refTable]
	}
	if rt == nil {
		panic(reject{kind: "unknown-ref-table", table: t.Name, col: cs.cols[0], other: cs.refTable,
			msg: fmt.Sprintf("relation %q does not exist", cs.refTable)})
	}
	rc := rt.col(cs.refCols[0])
	if rc == nil {
		panic(reject{kind: "unknown-ref-column", table: t.Name, col: cs.cols[0], other: cs.refTable + "." + cs.refCols[0],
			msg: fmt.Sprintf("column %q referenced in foreign key constraint does not exist", cs.refCols[0])})
	}
	lc := t.col(cs.cols[0])
	if typeFamily(lc.Type) != typeFamily(rc.Type) {
		panic(reject{kind: "fk-type-mismatch", table: t.Name, col: cs.cols[0], other: cs.refTable + "." + cs.refCols[0],
			msg: fmt.Sprintf("foreign key cannot be implemented: key columns %q (%s) and %q (%s) are of incompatible types",
				lc.Name, lc.Type, rc.Name, rc.Type)})
	}
	return nil, &fkDef{Name: cs.name, Col: cs.cols[0], RefTable: cs.refTable, RefCol: cs.refCols[0]}
}

func (in *Interp) implicitSeqName(table, col string) string {
	base := table + "_" + col + "_seq"
	name := base
	for i := 1; in.Cat.relationExists(name); i++ {
		name = base + strconv.Itoa(i)
	}
	return name
}

func (in *Interp) createTable(c *cur) {
	name := mustIdent(c, "table name")
	mustPunct(c, "(")
	t := &tableDef{Name: name}
	var serialCols []*colDef
	var cons []*conSpec
	trailingComma := false
	if !c.punct(")") {
		for {
			if cs := tableConstraint(c); cs != nil {
				cons = append(cons, cs)
				if cs.pk {
					in.Forms["CREATE TABLE: CONSTRAINT PRIMARY KEY"]++
				} else {
					in.Forms["CREATE TABLE: CONSTRAINT FOREIGN KEY REFERENCES"]++
				}
			} else {
				cn := mustIdent(c, "column name")
				ty := dataType(c)
				// after the type only ',' or ')' may follow in the subset
				if nt := c.peek(); !(nt.k == 'p' && (nt.s == "," || nt.s == ")")) {
					panic(parseFail{"column option not in the interpreted subset: " + nt.s})
				}
				if ty.empty {
					panic(reject{kind: "column-without-type", table: name, col: cn,
						msg: fmt.Sprintf("syntax error: column %q has no data type", cn)})
				}
				if t.col(cn) != nil {
					panic(reject{kind: "duplicate-column", table: name, col: cn,
						msg: fmt.Sprintf("column %q specified more than once", cn)})
				}
				col := &colDef{Name: cn, Type: ty.norm}
				t.Cols = append(t.Cols, col)
				if ty.serial {
					serialCols = append(serialCols, col)
				}
				in.Forms["CREATE TABLE: column "+typeForm(ty)]++
			}
			if c.punct(",") {
				if nt := c.peek(); nt.k == 'p' && nt.s == ")" {
					c.p++
					trailingComma = true
					break
				}
				continue
			}
			mustPunct(c, ")")
			break
		}
	}
	mustEnd(c)
	if trailingComma {
		panic(reject{kind: "trailing-comma", table: name, msg: `syntax error at or near ")": the element list ends with a comma`})
	}
	if in.Cat.relationExists(name) {
		panic(reject{kind: "table-exists", table: name, msg: fmt.Sprintf("relation %q already exists", name)})
	}
	for _, cs := range cons {
		pk, fk := in.checkConstraint(t, cs)
		if pk != nil {
			t.HasPK, t.PKName, t.PK = true, cs.name, pk
		}
		if fk != nil {
			t.FKs = append(t.FKs, fk)
		}
	}
	in.Cat.Tables[name] = t
	in.Cat.Order = append(in.Cat.Order, name)
	for _, col := range serialCols {
		seq := in.implicitSeqName(name, col.Name)
		in.Cat.Seqs[seq] = name + "." + col.Name
		col.Default = seq
	}
}

func typeForm(t sqlType) string {
	if t.serial {
		return "bigserial"
	}
	if strings.HasPrefix(t.norm, "varchar(") {
		return "varchar (n)"
	}
	return t.norm
}

func (in *Interp) selectSetval(c *cur) {
	// select setval('seq', coalesce(max(col), 1)) from tbl
	if !c.kw("setval") {
		panic(parseFail{"SELECT form other than setval"})
	}
	mustPunct(c, "(")
	seq, ok := c.str()
	if !ok {
		panic(parseFail{"setval: sequence literal expected"})
	}
	mustPunct(c, ",")
	if !c.kw("coalesce") {
		panic(parseFail{"setval: coalesce expected"})
	}
	mustPunct(c, "(")
	if !c.kw("max") {
		panic(parseFail{"setval: max expected"})
	}
	mustPunct(c, "(")
	cn := mustIdent(c, "column")
	mustPunct(c, ")")
	mustPunct(c, ",")
	if t := c.peek(); t.k != 'n' {
		panic(parseFail{"setval: number expected"})
	}
	c.p++
	mustPunct(c, ")")
	mustPunct(c, ")")
	if !c.kw("from") {
		panic(parseFail{"setval: FROM expected"})
	}
	tn := mustIdent(c, "table")
	mustEnd(c)
	t := in.table(tn)
	in.column(t, cn)
	seq = strings.ToLower(seq)
	if _, ok := in.Cat.Seqs[seq]; !ok {
		panic(reject{kind: "unknown-sequence", table: tn, col: cn, other: seq, msg: fmt.Sprintf("relation %q does not exist", seq)})
	}
}

func (in *Interp) alterTable(c *cur) string {
	tn := mustIdent(c, "table name")
	switch {
	case c.kw("add", "column"):
		form := "ALTER TABLE ADD COLUMN"
		cn := mustIdent(c, "column name")
		ty := dataType(c)
		mustEnd(c)
		if ty.empty {
			panic(rejectWithForm(form, reject{kind: "column-without-type", table: tn, col: cn,
				msg: fmt.Sprintf("syntax error: column %q has no data type", cn)}))
		}
		t := in.tableF(form, tn)
		if t.col(cn) != nil {
			panic(rejectWithForm(form, reject{kind: "column-exists", table: tn, col: cn,
				msg: fmt.Sprintf("column %q of relation %q already exists", cn, tn)}))
		}
		col := &colDef{Name: cn, Type: ty.norm}
		t.Cols = append(t.Cols, col)
		if ty.serial {
			seq := in.implicitSeqName(tn, cn)
			in.Cat.Seqs[seq] = tn + "." + cn
			col.Default = seq
		}
		in.Forms["ADD COLUMN type "+typeForm(ty)]++
		return form
	case c.kw("drop", "column"):
		form := "ALTER TABLE DROP COLUMN"
		cn := mustIdent(c, "column name")
		cascade := c.kw("cascade")
		mustEnd(c)
		if cascade {
			form = "ALTER TABLE DROP COLUMN CASCADE"
		}
		t := in.tableF(form, tn)
		in.columnF(form, t, cn)
		in.dropColumn(form, t, cn, cascade)
		return form
	case c.kw("alter", "column"):
		cn := mustIdent(c, "column name")
		switch {
		case c.kw("type"):
			form := "ALTER TABLE ALTER COLUMN TYPE"
			ty := dataType(c)
			mustEnd(c)
			if ty.empty {
				panic(rejectWithForm(form, reject{kind: "column-without-type", table: tn, col: cn,
					msg: "syntax error: ALTER COLUMN TYPE without a data type"}))
			}
			t := in.tableF(form, tn)
			col := in.columnF(form, t, cn)
			if ty.serial {
				panic(rejectWithForm(form, reject{kind: "pseudo-type", table: tn, col: cn,
					msg: `type "bigserial" does not exist (only valid in column definitions)`}))
			}
			col.Type = ty.norm
			in.Forms["ALTER COLUMN TYPE "+typeForm(ty)]++
			return form
		case c.kw("drop", "default"):
			form := "ALTER TABLE ALTER COLUMN DROP DEFAULT"
			mustEnd(c)
			t := in.tableF(form, tn)
			in.columnF(form, t, cn).Default = ""
			return form
		case c.kw("set", "default"):
			form := "ALTER TABLE ALTER COLUMN SET DEFAULT nextval"
			if !c.kw("nextval") {
				panic(parseFail{"SET DEFAULT other than nextval"})
			}
			mustPunct(c, "(")
			seq, ok := c.str()
			if !ok {
				panic(parseFail{"nextval: sequence literal expected"})
			}
			mustPunct(c, ")")
			mustEnd(c)
			t := in.tableF(form, tn)
			col := in.columnF(form, t, cn)
			seq = strings.ToLower(seq)
			if _, ok := in.Cat.Seqs[seq]; !ok {
				panic(rejectWithForm(form, reject{kind: "unknown-sequence", table: tn, col: cn, other: seq,
					msg: fmt.Sprintf("relation %q does not exist", seq)}))
			}
			col.Default = seq
			return form
		}
		panic(parseFail{"ALTER COLUMN action not in the interpreted subset"})
	case c.kw("drop", "constraint"):
		form := "ALTER TABLE DROP CONSTRAINT"
		ifEx := c.kw("if", "exists")
		name := mustIdent(c, "constraint name")
		mustEnd(c)
		if ifEx {
			form = "ALTER TABLE DROP CONSTRAINT IF EXISTS"
		}
		t := in.tableF(form, tn)
		if t.HasPK && t.PKName == name {
			t.HasPK, t.PKName, t.PK = false, "", nil
			in.Forms["DROP CONSTRAINT (primary key)"]++
			return form
		}
		for i, f := range t.FKs {
			if f.Name == name {
				t.FKs = append(t.FKs[:i:i], t.FKs[i+1:]...)
				in.Forms["DROP CONSTRAINT (foreign key)"]++
				return form
			}
		}
		if ifEx {
			return form
		}
		panic(rejectWithForm(form, reject{kind: "unknown-constraint", table: tn, other: name,
			msg: fmt.Sprintf("constraint %q of relation %q does not exist", name, tn)}))
	case c.kw("add"):
		cs := tableConstraint(c)
		if cs == nil {
			panic(parseFail{"ALTER TABLE ADD form not in the interpreted subset"})
		}
		mustEnd(c)
		form := "ALTER TABLE ADD CONSTRAINT FOREIGN KEY"
		if cs.pk {
			form = "ALTER TABLE ADD CONSTRAINT PRIMARY KEY"
		}
		t := in.tableF(form, tn)
		var pk []string
		var fk *fkDef
		func() {
			defer func() {
				if r := recover(); r != nil {
					if rj, ok := r.(reject); ok {
						panic(rejectWithForm(form, rj))
					}
					panic(r)
				}
			}()
			pk, fk = in.checkConstraint(t, cs)
		}()
		if pk != nil {
			name := cs.name
			if name == "" {
				name = tn + "_pkey"
			}
			t.HasPK, t.PKName, t.PK = true, name, pk
		}
		if fk != nil {
			if fk.Name == "" {
				fk.Name = tn + "_" + fk.Col + "_fkey"
			}
			t.FKs = append(t.FKs, fk)
		}
		return form
	}
	panic(parseFail{"ALTER TABLE action not in the interpreted subset"})
}

// formedReject carries the statement form with a rejection raised after the form is known
// (alterTable returns the form only on success).
type formedReject struct {
	form string
	rj   reject
}

func rejectWithForm(form string, rj reject) formedReject { return formedReject{form, rj} }

func (in *Interp) tableF(form, name string) *tableDef {
	t := in.Cat.Tables[name]
	if t == nil {
		panic(rejectWithForm(form, reject{kind: "unknown-table", table: name, msg: fmt.Sprintf("relation %q does not exist", name)}))
	}
	return t
}
func (in *Interp) columnF(form string, t *tableDef, name string) *colDef {
	col := t.col(name)
	if col == nil {
		panic(rejectWithForm(form, reject{kind: "unknown-column", table: t.Name, col: name,
			msg: fmt.Sprintf("column %q of relation %q does not exist", name, t.Name)}))
	}
	return col
}

// dropColumn implements DROP COLUMN (RESTRICT): refused while a foreign key of another
// table references the column; constraints of the table that involve the column go with it.
func (in *Interp) dropColumn(form string, t *tableDef, cn string, cascade bool) {
	for _, on := range in.Cat.Order {
		ot := in.Cat.Tables[on]
		var keep []*fkDef
		for _, f := range ot.FKs {
			if f.RefTable == t.Name && f.RefCol == cn && !(ot == t && f.Col == cn) {
				if cascade {
					continue
				}
				panic(rejectWithForm(form, reject{kind: "column-referenced", table: t.Name, col: cn, other: ot.Name + "." + f.Col,
					msg: fmt.Sprintf("cannot drop column %q of table %q because constraint %q on table %q depends on it",
						cn, t.Name, f.Name, ot.Name)}))
			}
			keep = append(keep, f)
		}
		ot.FKs = keep
	}
	for i, col := range t.Cols {
		if col.Name == cn {
			t.Cols = append(t.Cols[:i:i], t.Cols[i+1:]...)
			break
		}
	}
	if t.HasPK {
		for _, k := range t.PK {
			if k == cn {
				t.HasPK, t.PKName, t.PK = false, "", nil
				break
			}
		}
	}
	var keep []*fkDef
	for _, f := range t.FKs {
		if f.Col != cn {
			keep = append(keep, f)
		}
	}
	t.FKs = keep
	for s, owner := range in.Cat.Seqs {
		if owner == t.Name+"."+cn {
			delete(in.Cat.Seqs, s)
		}
	}
}
