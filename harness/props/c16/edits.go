package c16

// Random edit scripts over the relational description. Every edit keeps the description
// valid (references resolve to key columns, graph acyclic, every table keeps a column).

import (
	"strings"

	"verif/fw"
)

// EditKinds is the universe (evidence floor: all of them must have been applied).
var EditKinds = []string{
	"add-column", "drop-column", "retype-column", "add-table", "drop-table", "change-key",
	"add-reference", "drop-reference", "retarget-reference", "toggle-autoinc", "add-several-columns", "revert",
}

func (m *Model) removeTable(t *Table) {
	for i, x := range m.Tables {
		if x == t {
			m.Tables = append(m.Tables[:i:i], m.Tables[i+1:]...)
			return
		}
	}
}

func (t *Table) removeCol(c *Column) {
	for i, x := range t.Cols {
		if x == c {
			t.Cols = append(t.Cols[:i:i], t.Cols[i+1:]...)
			return
		}
	}
}

// toPrim turns a reference column into a plain column.
func toPrim(r *fw.Rand, c *Column) {
	p := primColumn(r, c.Name)
	p.PK = c.PK
	if p.PK {
		p.Opt = false
	}
	*c = *p
}

// detach makes every column that references t.c stop doing so: each referrer is dropped,
// turned into a plain column, or pointed at another key (what a person does before deleting
// the referenced thing).
func detach(r *fw.Rand, m *Model, t *Table, c *Column, depth int) {
	for _, ref := range m.Referrers(t.Name, c.Name) {
		switch k := r.Intn(4); {
		case k == 0 && len(ref.T.Cols) >= 2 && depth < 8:
			detach(r, m, ref.T, ref.C, depth+1)
			ref.T.removeCol(ref.C)
		case k == 1:
			var tg []colRef
			for _, x := range keyTargets(m, ref.T.Name) {
				if x.T != t {
					tg = append(tg, x)
				}
			}
			if len(tg) > 0 {
				x := tg[r.Intn(len(tg))]
				ref.C.RefTable, ref.C.RefCol = x.T.Name, x.C.Name
				continue
			}
			toPrim(r, ref.C)
		default:
			toPrim(r, ref.C)
		}
	}
}

func pickTable(r *fw.Rand, m *Model) *Table { return m.Tables[r.Intn(len(m.Tables))] }

// applyEdit tries one edit of the given kind; false when it does not apply to this model.
func applyEdit(r *fw.Rand, m *Model, kind string, base *Model) bool {
	switch kind {
	case "add-column":
		t := pickTable(r, m)
		c := primColumn(r, colNamer(r, t).fresh(false))
		if c.Kind == "int" && r.Chance(1, 6) {
			c.AutoInc = true
		}
		t.Cols = append(t.Cols, c)
		return true
	case "add-several-columns":
		// one table gains two to four columns in one step, references among them when a key
		// of another table can be referred to (names in random alphabetical positions)
		t := pickTable(r, m)
		tg := keyTargets(m, t.Name)
		n := r.Range(2, 4)
		for k := 0; k < n; k++ {
			name := colNamer(r, t).fresh(false)
			if len(tg) > 0 && (k == 0 || r.Chance(1, 2)) {
				x := tg[r.Intn(len(tg))]
				t.Cols = append(t.Cols, &Column{Name: name, Kind: "ref", RefTable: x.T.Name, RefCol: x.C.Name})
				continue
			}
			t.Cols = append(t.Cols, primColumn(r, name))
		}
		return true
	case "drop-column":
		t := pickTable(r, m)
		if len(t.Cols) < 2 {
			return false
		}
		c := t.Cols[r.Intn(len(t.Cols))]
		detach(r, m, t, c, 0)
		t.removeCol(c)
		return true
	case "retype-column":
		t := pickTable(r, m)
		var cand []*Column
		for _, c := range t.Cols {
			if c.Kind != "ref" {
				cand = append(cand, c)
			}
		}
		if len(cand) == 0 {
			return false
		}
		c := cand[r.Intn(len(cand))]
		before := m.SQLType(c)
		for try := 0; try < 8; try++ {
			p := primColumn(r, c.Name)
			p.PK, p.Opt = c.PK, c.Opt && !c.PK
			if p.Kind == "int" {
				p.AutoInc = c.AutoInc
			}
			if m.SQLType(p) != before {
				*c = *p
				return true
			}
		}
		return false
	case "add-table":
		if len(m.Tables) >= 12 {
			return false
		}
		t := newTable(r, m, tableNamer(r, m).fresh(true), 3+r.Intn(2))
		at := r.Intn(len(m.Tables) + 1)
		m.Tables = append(m.Tables[:at:at], append([]*Table{t}, m.Tables[at:]...)...)
		return true
	case "drop-table":
		if len(m.Tables) < 2 {
			return false
		}
		t := pickTable(r, m)
		for _, c := range append([]*Column(nil), t.Cols...) {
			detach(r, m, t, c, 0)
		}
		m.removeTable(t)
		return true
	case "change-key":
		t := pickTable(r, m)
		c := t.Cols[r.Intn(len(t.Cols))]
		if c.PK {
			if len(m.Referrers(t.Name, c.Name)) > 0 {
				return false // references go to key columns only
			}
			c.PK = false
		} else {
			c.PK = true
			c.Opt = false
		}
		return true
	case "add-reference":
		t := pickTable(r, m)
		tg := keyTargets(m, t.Name)
		if len(tg) == 0 {
			return false
		}
		x := tg[r.Intn(len(tg))]
		var plain []*Column
		for _, c := range t.Cols {
			if c.Kind != "ref" && len(m.Referrers(t.Name, c.Name)) == 0 {
				plain = append(plain, c)
			}
		}
		if len(plain) > 0 && r.Chance(1, 2) {
			// an existing plain column becomes a reference
			c := plain[r.Intn(len(plain))]
			c.Kind, c.Size, c.MinSize, c.AutoInc, c.Opt = "ref", 0, 0, false, false
			c.RefTable, c.RefCol = x.T.Name, x.C.Name
			return true
		}
		c := &Column{Name: colNamer(r, t).fresh(false), Kind: "ref", RefTable: x.T.Name, RefCol: x.C.Name, PK: r.Chance(1, 5)}
		t.Cols = append(t.Cols, c)
		return true
	case "drop-reference":
		var cand []colRef
		for _, t := range m.Tables {
			for _, c := range t.Cols {
				if c.Kind == "ref" {
					cand = append(cand, colRef{t, c})
				}
			}
		}
		if len(cand) == 0 {
			return false
		}
		x := cand[r.Intn(len(cand))]
		if r.Chance(1, 2) && len(x.T.Cols) >= 2 {
			detach(r, m, x.T, x.C, 0)
			x.T.removeCol(x.C)
		} else {
			toPrim(r, x.C) // referrers of this column now see another type
		}
		return true
	case "retarget-reference":
		var cand []colRef
		for _, t := range m.Tables {
			for _, c := range t.Cols {
				if c.Kind == "ref" {
					cand = append(cand, colRef{t, c})
				}
			}
		}
		if len(cand) == 0 {
			return false
		}
		x := cand[r.Intn(len(cand))]
		var tg []colRef
		for _, y := range keyTargets(m, x.T.Name) {
			if !(strings.EqualFold(y.T.Name, x.C.RefTable) && strings.EqualFold(y.C.Name, x.C.RefCol)) {
				tg = append(tg, y)
			}
		}
		if len(tg) == 0 {
			return false
		}
		y := tg[r.Intn(len(tg))]
		x.C.RefTable, x.C.RefCol = y.T.Name, y.C.Name
		return true
	case "toggle-autoinc":
		var cand []*Column
		for _, t := range m.Tables {
			for _, c := range t.Cols {
				if c.Kind == "int" {
					cand = append(cand, c)
				}
			}
		}
		if len(cand) == 0 {
			return false
		}
		c := cand[r.Intn(len(cand))]
		c.AutoInc = !c.AutoInc
		return true
	case "revert":
		// bring something back the way it was in an earlier version (base): a removed
		// table, a removed column, or an autoincrement flag
		if base == nil {
			return false
		}
		type op func() bool
		var ops []op
		for _, bt := range base.Tables {
			bt := bt
			t := m.Table(bt.Name)
			if t == nil {
				ops = append(ops, func() bool {
					nt := &Table{Name: bt.Name}
					for _, bc := range bt.Cols {
						cc := *bc
						nt.Cols = append(nt.Cols, &cc)
					}
					m.Tables = append(m.Tables, nt)
					for _, c := range nt.Cols {
						if c.Kind == "ref" && !validRef(m, nt, c) {
							toPrim(r, c)
						}
					}
					return true
				})
				continue
			}
			for _, bc := range bt.Cols {
				bc := bc
				c := t.Col(bc.Name)
				if c == nil {
					ops = append(ops, func() bool {
						cc := *bc
						t.Cols = append(t.Cols, &cc)
						if cc.Kind == "ref" && !validRef(m, t, &cc) {
							toPrim(r, t.Cols[len(t.Cols)-1])
						}
						return true
					})
				} else if c.Kind == "int" && bc.Kind == "int" && c.AutoInc != bc.AutoInc {
					ops = append(ops, func() bool { c.AutoInc = bc.AutoInc; return true })
				}
			}
		}
		if len(ops) == 0 {
			return false
		}
		return ops[r.Intn(len(ops))]()
	}
	return false
}

func validRef(m *Model, t *Table, c *Column) bool {
	rt := m.Table(c.RefTable)
	if rt == nil || rt == t {
		return false
	}
	rc := rt.Col(c.RefCol)
	if rc == nil || !rc.PK {
		return false
	}
	return !m.DependsOn(rt.Name, t.Name)
}

// Mutate returns a new version of m reached by 1..4 random edits, and the edit kinds used.
// base (may be nil) is an earlier version for "revert" edits (chains v1 -> v2 -> v3).
func Mutate(r *fw.Rand, m *Model, base *Model) (*Model, []string) {
	for attempt := 0; attempt < 20; attempt++ {
		n := m.Clone()
		var kinds []string
		want := r.Range(1, 4)
		for tries := 0; len(kinds) < want && tries < 40; tries++ {
			var kind string
			if base != nil && r.Chance(2, 5) {
				kind = "revert"
			} else {
				kind = EditKinds[r.Intn(len(EditKinds)-1)]
			}
			if applyEdit(r, n, kind, base) {
				kinds = append(kinds, kind)
			}
		}
		if len(kinds) == 0 || n.Validate() != nil || n.Canon() == m.Canon() {
			continue
		}
		return n, kinds
	}
	// fall back to the one edit that always applies
	n := m.Clone()
	applyEdit(r, n, "add-column", nil)
	return n, []string{"add-column"}
}
