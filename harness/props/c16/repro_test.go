package c16

// Minimal reproducers of the defects listed in FINDINGS.md, run through the real
// generators and the reference interpreter. The test only reports (go test -v -run
// TestReproducers); it asserts nothing about /repo, so it passes on the pinned tree and
// on a repaired one. TestInterpreter checks the reference interpreter itself.

import (
	"strings"
	"testing"

	"github.com/anz-bank/sysl/pkg/parse"
	"github.com/spf13/afero"
)

func compileText(t *testing.T, app string, files map[string]string) *built {
	t.Helper()
	fs := afero.NewMemMapFs()
	for n, c := range files {
		_ = afero.WriteFile(fs, n, []byte(c), 0o644)
	}
	mod, err := parse.NewParser().ParseFromFs("/m/root.sysl", fs)
	if err != nil {
		t.Fatalf("parse: %v", err)
	}
	return &built{M: &Model{App: app}, RD: &Rendered{Files: files}, Mod: mod}
}

func one(text string) map[string]string { return map[string]string{"/m/root.sysl": text} }

func body(script string) string {
	if i := strings.LastIndex(script, "*/\n"); i >= 0 {
		return script[i+3:]
	}
	return script
}

func runChain(t *testing.T, name string, versions ...map[string]string) {
	t.Helper()
	var bs []*built
	for _, v := range versions {
		bs = append(bs, compileText(t, "App", v))
	}
	cat := NewCatalog()
	script, pi := createScript(bs[0])
	if pi != nil {
		t.Logf("%s: create panicked: %s", name, pi.Value)
		return
	}
	t.Logf("%s: create(v1):\n%s", name, body(script))
	errs, oerr := NewInterp(cat).Exec(script)
	if oerr != nil {
		t.Logf("%s: ORACLE ERROR %v", name, oerr)
	}
	for _, e := range errs {
		t.Logf("%s: REJECTED %s", name, e)
	}
	for i := 1; i < len(bs); i++ {
		d, pi, err := deltaScript(bs[i-1], bs[i])
		if pi != nil || err != nil {
			t.Logf("%s: delta failed: %v %v", name, pi, err)
			return
		}
		t.Logf("%s: delta(v%d,v%d):\n%s", name, i, i+1, body(d))
		errs, oerr := NewInterp(cat).Exec(d)
		if oerr != nil {
			t.Logf("%s: ORACLE ERROR %v", name, oerr)
		}
		for _, e := range errs {
			t.Logf("%s: REJECTED %s", name, e)
		}
	}
	t.Logf("%s: catalog at the end:\n%s", name, cat.Dump())
}

func TestReproducers(t *testing.T) {
	runChain(t, "D1 same line in two files", map[string]string{
		"/m/root.sysl":  "import part1\nApp:\n    !table A:\n        id <: int [~pk]\n",
		"/m/part1.sysl": "\nApp:\n    !table B:\n        id <: int [~pk]\n",
	})
	runChain(t, "D2 table without key and reference", one("App:\n    !table A:\n        x <: int\n"))
	runChain(t, "D3 retargeted reference",
		one("App:\n    !table A:\n        id <: int [~pk]\n    !table B:\n        id <: string [~pk]\n    !table C:\n        r <: A.id\n"),
		one("App:\n    !table A:\n        id <: int [~pk]\n    !table B:\n        id <: string [~pk]\n    !table C:\n        r <: B.id\n"))
	runChain(t, "D4 referenced column retyped",
		one("App:\n    !table A:\n        id <: int [~pk]\n    !table C:\n        r <: A.id\n"),
		one("App:\n    !table A:\n        id <: string [~pk]\n    !table C:\n        r <: A.id\n"))
	runChain(t, "D5 autoincrement added",
		one("App:\n    !table A:\n        id <: int [~pk]\n        n <: int\n"),
		one("App:\n    !table A:\n        id <: int [~pk]\n        n <: int [~autoinc]\n"))
	runChain(t, "D5 (what creation gives for the new version)",
		one("App:\n    !table A:\n        id <: int [~pk]\n        n <: int [~autoinc]\n"))
	runChain(t, "D6 new reference to a retained autoincrement column",
		one("App:\n    !table A:\n        id <: int [~pk, ~autoinc]\n    !table B:\n        x <: int [~pk]\n"),
		one("App:\n    !table A:\n        id <: int [~pk, ~autoinc]\n    !table B:\n        x <: int [~pk]\n        r <: A.id\n"))
	runChain(t, "D6 (what creation gives for the new version)",
		one("App:\n    !table A:\n        id <: int [~pk, ~autoinc]\n    !table B:\n        x <: int [~pk]\n        r <: A.id\n"))
	runChain(t, "D7 referenced column dropped before the referencing column",
		one("App:\n    !table A:\n        id <: int [~pk]\n        k <: string [~pk]\n    !table B:\n        x <: int [~pk]\n        r <: A.k\n"),
		one("App:\n    !table A:\n        id <: int [~pk]\n    !table B:\n        x <: int [~pk]\n"))
	runChain(t, "D8 removed table is never dropped (blocks DROP COLUMN, then blocks its own return)",
		one("App:\n    !table A:\n        id <: int [~pk]\n        k <: string [~pk]\n    !table B:\n        x <: int [~pk]\n        r <: A.k\n"),
		one("App:\n    !table A:\n        id <: int [~pk]\n"),
		one("App:\n    !table A:\n        id <: int [~pk]\n    !table B:\n        x <: int [~pk]\n"))
	runChain(t, "D9 key removed",
		one("App:\n    !table A:\n        id <: int [~pk]\n        n <: int\n"),
		one("App:\n    !table A:\n        id <: int\n        n <: int\n"))
	runChain(t, "D10 autoincrement removed and added again",
		one("App:\n    !table A:\n        id <: int [~pk]\n        n <: int [~autoinc]\n"),
		one("App:\n    !table A:\n        id <: int [~pk]\n        n <: int\n"),
		one("App:\n    !table A:\n        id <: int [~pk]\n        n <: int [~autoinc]\n"))
}

// TestInterpreter pins the reference interpreter's behaviour on hand-written scripts.
func TestInterpreter(t *testing.T) {
	type tc struct {
		name   string
		script string
		kinds  []string // rejection kinds in order
		oracle bool
		dump   string
	}
	cases := []tc{
		{name: "plain create", script: `/* c */ CREATE TABLE A( id bigserial, n varchar (7), CONSTRAINT A_PK PRIMARY KEY(id) );
CREATE TABLE B( x integer, r bigint, CONSTRAINT B_PK PRIMARY KEY(x,r), CONSTRAINT B_R_FK FOREIGN KEY(r) REFERENCES A (id) );`,
			dump: "table a\n  id bigint default nextval(a_id_seq)\n  n varchar(7)\n  primary key {id}\ntable b\n  x integer\n  r bigint\n  primary key {r,x}\n  foreign key r -> a.id\nsequence a_id_seq owned by \"a.id\"\n"},
		{name: "duplicate table", script: "CREATE TABLE A(x integer); create table a(y date);", kinds: []string{"table-exists"}},
		{name: "reference before definition", script: "CREATE TABLE B(r integer, CONSTRAINT F FOREIGN KEY(r) REFERENCES A (id)); CREATE TABLE A(id integer);", kinds: []string{"unknown-ref-table"}},
		{name: "unknown referenced column", script: "CREATE TABLE A(id integer); CREATE TABLE B(r integer, CONSTRAINT F FOREIGN KEY(r) REFERENCES A (nope));", kinds: []string{"unknown-ref-column"}},
		{name: "unknown key column", script: "CREATE TABLE A(id integer, CONSTRAINT P PRIMARY KEY(idd));", kinds: []string{"unknown-key-column"}},
		{name: "trailing comma", script: "CREATE TABLE A(\n id integer,\n);", kinds: []string{"trailing-comma"}},
		{name: "column without type", script: "CREATE TABLE A( id ,\n x integer);", kinds: []string{"column-without-type"}},
		{name: "empty key", script: "CREATE TABLE A(id integer); ALTER TABLE A ADD CONSTRAINT P PRIMARY KEY();", kinds: []string{"empty-key"}},
		{name: "second primary key", script: "CREATE TABLE A(id integer, n integer, CONSTRAINT P PRIMARY KEY(id)); ALTER TABLE A ADD CONSTRAINT Q PRIMARY KEY(n);", kinds: []string{"second-primary-key"}},
		{name: "drop absent things", script: "CREATE TABLE A(id integer); ALTER TABLE A DROP COLUMN nope; ALTER TABLE A DROP CONSTRAINT nope; ALTER TABLE Z DROP COLUMN id;",
			kinds: []string{"unknown-column", "unknown-constraint", "unknown-table"}},
		{name: "drop referenced column", script: "CREATE TABLE A(id integer); CREATE TABLE B(r integer, CONSTRAINT F FOREIGN KEY(r) REFERENCES A (id)); ALTER TABLE A DROP COLUMN id; ALTER TABLE B DROP COLUMN r; ALTER TABLE A DROP COLUMN id;",
			kinds: []string{"column-referenced"}, dump: "table a\ntable b\n"},
		{name: "drop column takes its constraints", script: "CREATE TABLE A(id integer, k integer, CONSTRAINT P PRIMARY KEY(id,k)); ALTER TABLE A DROP COLUMN k; ALTER TABLE A ADD CONSTRAINT P PRIMARY KEY(id);",
			dump: "table a\n  id integer\n  primary key {id}\n"},
		{name: "alter forms", script: `CREATE TABLE A(id integer, n integer); ALTER TABLE A ADD COLUMN s varchar (3); ALTER TABLE A ALTER COLUMN n TYPE varchar (50);
CREATE SEQUENCE A_n_seq; ALTER TABLE A ALTER COLUMN id SET DEFAULT nextval('A_n_seq'); ALTER SEQUENCE A_n_seq OWNED BY A.id; select setval('A_n_seq', coalesce(max(id), 1)) from A;
ALTER TABLE A ADD CONSTRAINT A_PK PRIMARY KEY(id); ALTER TABLE A DROP CONSTRAINT A_PK;`,
			dump: "table a\n  id integer default nextval(a_n_seq)\n  n varchar(50)\n  s varchar(3)\nsequence a_n_seq owned by \"a.id\"\n"},
		{name: "sequence name taken by bigserial", script: "CREATE TABLE A(n bigserial); CREATE SEQUENCE A_n_seq;", kinds: []string{"relation-exists"}},
		{name: "fk type families", script: "CREATE TABLE A(id varchar (5)); CREATE TABLE B(r integer); ALTER TABLE B ADD CONSTRAINT F FOREIGN KEY(r) REFERENCES A(id);", kinds: []string{"fk-type-mismatch"}},
		{name: "bigserial is no type for ALTER", script: "CREATE TABLE A(id integer); ALTER TABLE A ALTER COLUMN id TYPE bigserial;", kinds: []string{"pseudo-type"}},
		{name: "unknown statement is an oracle error", script: "CREATE TABLE A(id integer); TRUNCATE A;", oracle: true},
		{name: "repair forms", script: `CREATE TABLE A(id bigserial, k integer, CONSTRAINT A_PK PRIMARY KEY(id)); CREATE TABLE B(r bigint, s integer, CONSTRAINT F FOREIGN KEY(r) REFERENCES A (id), CONSTRAINT G FOREIGN KEY(s) REFERENCES A (k));
DROP TABLE A; ALTER TABLE A DROP COLUMN k CASCADE; ALTER TABLE B DROP CONSTRAINT IF EXISTS G; ALTER TABLE B DROP CONSTRAINT G;
CREATE SEQUENCE IF NOT EXISTS A_id_seq; DROP SEQUENCE A_id_seq; ALTER TABLE A ALTER COLUMN id DROP DEFAULT; DROP SEQUENCE IF EXISTS A_id_seq; DROP SEQUENCE A_id_seq;
DROP TABLE A CASCADE; DROP TABLE IF EXISTS A; DROP TABLE A;`,
			kinds: []string{"table-referenced", "unknown-constraint", "sequence-in-use", "unknown-sequence", "unknown-table"},
			dump:  "table b\n  r bigint\n  s integer\n"},
		{name: "unknown column option is an oracle error", script: "CREATE TABLE A(id integer NOT NULL);", oracle: true},
		{name: "unknown type is an oracle error", script: "CREATE TABLE A(id money);", oracle: true},
	}
	for _, c := range cases {
		cat := NewCatalog()
		errs, oerr := NewInterp(cat).Exec(c.script)
		if (oerr != nil) != c.oracle {
			t.Errorf("%s: oracle error = %v, want %v", c.name, oerr, c.oracle)
			continue
		}
		var kinds []string
		for _, e := range errs {
			kinds = append(kinds, e.Kind)
		}
		if strings.Join(kinds, ",") != strings.Join(c.kinds, ",") {
			t.Errorf("%s: rejections %v, want %v", c.name, kinds, c.kinds)
		}
		if c.dump != "" && cat.Dump() != c.dump {
			t.Errorf("%s: catalog\n%s\nwant\n%s", c.name, cat.Dump(), c.dump)
		}
	}
}
