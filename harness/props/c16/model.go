package c16

// The relational description: what the generated Sysl text MEANS. Everything the oracle
// expects is computed from this description, never from pkg/database.

import (
	"fmt"
	"sort"
	"strings"

	"verif/fw"
)

type Column struct {
	Name     string
	Kind     string // int | string | date | ref
	Size     int    // string: maximum length, 0 = unsized
	MinSize  int    // string: rendered as string(min..max) when > 0 (no effect on DDL)
	Opt      bool   // trailing '?' (no effect on DDL)
	PK       bool
	AutoInc  bool // only on Kind == int
	RefTable string
	RefCol   string
}

type Table struct {
	Name string
	Cols []*Column
}

// Model is one application with its tables in declaration order.
type Model struct {
	App    string
	Tables []*Table
}

func (m *Model) Clone() *Model {
	out := &Model{App: m.App}
	for _, t := range m.Tables {
		nt := &Table{Name: t.Name}
		for _, c := range t.Cols {
			cc := *c
			nt.Cols = append(nt.Cols, &cc)
		}
		out.Tables = append(out.Tables, nt)
	}
	return out
}

func (m *Model) Table(name string) *Table {
	for _, t := range m.Tables {
		if strings.EqualFold(t.Name, name) {
			return t
		}
	}
	return nil
}

func (t *Table) Col(name string) *Column {
	if t == nil {
		return nil
	}
	for _, c := range t.Cols {
		if strings.EqualFold(c.Name, name) {
			return c
		}
	}
	return nil
}

func (t *Table) PKSet() []string {
	var out []string
	for _, c := range t.Cols {
		if c.PK {
			out = append(out, strings.ToLower(c.Name))
		}
	}
	sort.Strings(out)
	return out
}

// Canon is a canonical text of the relational content (layout-free), used for hashing and
// for deciding whether two versions are the same model.
func (m *Model) Canon() string {
	var lines []string
	for _, t := range m.Tables {
		var cs []string
		for _, c := range t.Cols {
			cs = append(cs, fmt.Sprintf("%s:%s:%d:%v:%v:%s.%s", c.Name, c.Kind, c.Size, c.PK, c.AutoInc, c.RefTable, c.RefCol))
		}
		sort.Strings(cs)
		lines = append(lines, t.Name+"{"+strings.Join(cs, ";")+"}")
	}
	sort.Strings(lines)
	return strings.Join(lines, "\n")
}

// SQLType is the documented mapping: int -> integer, string(n) -> varchar(n) (50 when
// unsized), date -> date, autoincrement -> bigserial (a bigint fed by a sequence); a
// reference column takes the type of the column it references.
func (m *Model) SQLType(c *Column) string {
	for hops := 0; c != nil && hops < 64; hops++ {
		switch c.Kind {
		case "int":
			if c.AutoInc {
				return "bigint"
			}
			return "integer"
		case "date":
			return "date"
		case "string":
			n := c.Size
			if n <= 0 {
				n = 50
			}
			return fmt.Sprintf("varchar(%d)", n)
		case "ref":
			c = m.Table(c.RefTable).Col(c.RefCol)
		default:
			return "?" + c.Kind
		}
	}
	return "?unresolved"
}

// Depths gives each table's reference depth (longest chain of references below it).
func (m *Model) Depths() map[string]int {
	d := map[string]int{}
	var visit func(t *Table, guard int) int
	visit = func(t *Table, guard int) int {
		if v, ok := d[t.Name]; ok {
			return v
		}
		if guard > 64 {
			return 0
		}
		best := 0
		for _, c := range t.Cols {
			if c.Kind == "ref" {
				if rt := m.Table(c.RefTable); rt != nil && rt != t {
					if v := visit(rt, guard+1) + 1; v > best {
						best = v
					}
				}
			}
		}
		d[t.Name] = best
		return best
	}
	for _, t := range m.Tables {
		visit(t, 0)
	}
	return d
}

// DependsOn: does table a (transitively) reference table b?
func (m *Model) DependsOn(a, b string) bool {
	seen := map[string]bool{}
	var walk func(n string) bool
	walk = func(n string) bool {
		if seen[n] {
			return false
		}
		seen[n] = true
		t := m.Table(n)
		if t == nil {
			return false
		}
		for _, c := range t.Cols {
			if c.Kind == "ref" {
				if strings.EqualFold(c.RefTable, b) || walk(c.RefTable) {
					return true
				}
			}
		}
		return false
	}
	return walk(a)
}

type colRef struct {
	T *Table
	C *Column
}

// Referrers lists the columns that reference t.c.
func (m *Model) Referrers(t, c string) []colRef {
	var out []colRef
	for _, ot := range m.Tables {
		for _, oc := range ot.Cols {
			if oc.Kind == "ref" && strings.EqualFold(oc.RefTable, t) && strings.EqualFold(oc.RefCol, c) {
				out = append(out, colRef{ot, oc})
			}
		}
	}
	return out
}

// Validate checks the description itself (generator self-check): names distinct ignoring
// case, every table has a column, references resolve to key columns of other tables, graph acyclic.
func (m *Model) Validate() error {
	tn := map[string]bool{}
	for _, t := range m.Tables {
		l := strings.ToLower(t.Name)
		if tn[l] {
			return fmt.Errorf("table %s twice", t.Name)
		}
		tn[l] = true
		if len(t.Cols) == 0 {
			return fmt.Errorf("table %s has no column", t.Name)
		}
		cn := map[string]bool{}
		for _, c := range t.Cols {
			lc := strings.ToLower(c.Name)
			if cn[lc] {
				return fmt.Errorf("column %s.%s twice", t.Name, c.Name)
			}
			cn[lc] = true
			if c.AutoInc && c.Kind != "int" {
				return fmt.Errorf("autoinc on %s.%s of kind %s", t.Name, c.Name, c.Kind)
			}
			if c.Kind == "ref" {
				rt := m.Table(c.RefTable)
				if rt == nil || rt == t {
					return fmt.Errorf("%s.%s references missing/own table %s", t.Name, c.Name, c.RefTable)
				}
				rc := rt.Col(c.RefCol)
				if rc == nil {
					return fmt.Errorf("%s.%s references missing column %s.%s", t.Name, c.Name, c.RefTable, c.RefCol)
				}
				if !rc.PK {
					return fmt.Errorf("%s.%s references non-key column %s.%s", t.Name, c.Name, c.RefTable, c.RefCol)
				}
				if m.DependsOn(c.RefTable, t.Name) {
					return fmt.Errorf("cycle through %s.%s", t.Name, c.Name)
				}
			}
		}
	}
	if len(m.Tables) == 0 {
		return fmt.Errorf("no table")
	}
	return nil
}

// ---------------------------------------------------------------- expected catalog

type expTable struct {
	Name string            // lower case
	Auto map[string]bool   // column (lower) -> autoincrement
	Cols map[string]string // column (lower) -> normalised SQL type
	PK   []string          // sorted, lower
	FK   map[string]string // column (lower) -> "table.column" (lower)
}

func Expected(m *Model) map[string]*expTable {
	out := map[string]*expTable{}
	for _, t := range m.Tables {
		e := &expTable{Name: strings.ToLower(t.Name), Cols: map[string]string{}, FK: map[string]string{}, PK: t.PKSet(), Auto: map[string]bool{}}
		for _, c := range t.Cols {
			lc := strings.ToLower(c.Name)
			e.Cols[lc] = m.SQLType(c)
			e.Auto[lc] = c.AutoInc
			if c.Kind == "ref" {
				e.FK[lc] = strings.ToLower(c.RefTable) + "." + strings.ToLower(c.RefCol)
			}
		}
		out[e.Name] = e
	}
	return out
}

func DumpExpected(exp map[string]*expTable) string {
	var names []string
	for n := range exp {
		names = append(names, n)
	}
	sort.Strings(names)
	var b strings.Builder
	for _, n := range names {
		e := exp[n]
		fmt.Fprintf(&b, "table %s\n", n)
		var cs []string
		for c := range e.Cols {
			cs = append(cs, c)
		}
		sort.Strings(cs)
		for _, c := range cs {
			fmt.Fprintf(&b, "  %s %s", c, e.Cols[c])
			if e.Auto[c] {
				b.WriteString(" autoincrement")
			}
			b.WriteByte('\n')
		}
		if len(e.PK) > 0 {
			fmt.Fprintf(&b, "  primary key {%s}\n", strings.Join(e.PK, ","))
		}
		var fs []string
		for c, tgt := range e.FK {
			fs = append(fs, fmt.Sprintf("  foreign key %s -> %s\n", c, tgt))
		}
		sort.Strings(fs)
		for _, f := range fs {
			b.WriteString(f)
		}
	}
	return b.String()
}

// Diff is one difference between the expected definition of a table and the catalog.
type Diff struct {
	Kind  string // table-missing | col-missing | col-extra | col-type | pk | fk-missing | fk-extra | fk-target
	Table string
	Col   string
	Want  string
	Got   string
}

func (d Diff) String() string {
	s := d.Kind + " " + d.Table
	if d.Col != "" {
		s += "." + d.Col
	}
	return fmt.Sprintf("%s: want %q got %q", s, d.Want, d.Got)
}

// Compare checks every expected table against the catalog (tables of the catalog that are
// not expected are reported only when strict is set: after a creation script the catalog
// must hold exactly the model's tables; after a delta the property speaks only about the
// tables of the new version).
func Compare(exp map[string]*expTable, cat *Catalog, strict bool) []Diff {
	var out []Diff
	var names []string
	for n := range exp {
		names = append(names, n)
	}
	sort.Strings(names)
	for _, n := range names {
		e := exp[n]
		t := cat.Tables[n]
		if t == nil {
			out = append(out, Diff{Kind: "table-missing", Table: n})
			continue
		}
		var cols []string
		for c := range e.Cols {
			cols = append(cols, c)
		}
		sort.Strings(cols)
		for _, c := range cols {
			ac := t.col(c)
			if ac == nil {
				out = append(out, Diff{Kind: "col-missing", Table: n, Col: c, Want: e.Cols[c]})
				continue
			}
			if ac.Type != e.Cols[c] {
				out = append(out, Diff{Kind: "col-type", Table: n, Col: c, Want: e.Cols[c], Got: ac.Type})
			} else if strict && e.Auto[c] != (ac.Default != "") {
				// creation: autoincrement is mapped to the serial pseudo-type (column fed by its own sequence)
				out = append(out, Diff{Kind: "col-autoinc", Table: n, Col: c, Want: fmt.Sprint(e.Auto[c]), Got: fmt.Sprint(ac.Default != "")})
			}
		}
		for _, ac := range t.Cols {
			if _, ok := e.Cols[ac.Name]; !ok {
				out = append(out, Diff{Kind: "col-extra", Table: n, Col: ac.Name, Got: ac.Type})
			}
		}
		gotPK := append([]string(nil), t.PK...)
		sort.Strings(gotPK)
		if strings.Join(gotPK, ",") != strings.Join(e.PK, ",") {
			out = append(out, Diff{Kind: "pk", Table: n, Want: strings.Join(e.PK, ","), Got: strings.Join(gotPK, ",")})
		}
		// foreign keys: per column, the set of targets
		got := map[string][]string{}
		for _, f := range t.FKs {
			got[f.Col] = append(got[f.Col], f.RefTable+"."+f.RefCol)
		}
		fkCols := map[string]bool{}
		for c := range got {
			fkCols[c] = true
		}
		for c := range e.FK {
			fkCols[c] = true
		}
		var fcs []string
		for c := range fkCols {
			fcs = append(fcs, c)
		}
		sort.Strings(fcs)
		for _, c := range fcs {
			if _, colExpected := e.Cols[c]; !colExpected {
				continue // reported as col-extra already
			}
			g := got[c]
			sort.Strings(g)
			want, has := e.FK[c]
			switch {
			case has && len(g) == 0:
				out = append(out, Diff{Kind: "fk-missing", Table: n, Col: c, Want: want})
			case !has && len(g) > 0:
				out = append(out, Diff{Kind: "fk-extra", Table: n, Col: c, Got: strings.Join(g, "+")})
			case has && (len(g) != 1 || g[0] != want):
				out = append(out, Diff{Kind: "fk-target", Table: n, Col: c, Want: want, Got: strings.Join(g, "+")})
			}
		}
	}
	if strict {
		var extra []string
		for n := range cat.Tables {
			if exp[n] == nil {
				extra = append(extra, n)
			}
		}
		sort.Strings(extra)
		for _, n := range extra {
			out = append(out, Diff{Kind: "table-extra", Table: n})
		}
	}
	return out
}

// ---------------------------------------------------------------- generator

type namer struct {
	r    *fw.Rand
	used map[string]bool
}

func newNamer(r *fw.Rand) *namer { return &namer{r: r, used: map[string]bool{}} }

const lower = "abcdefghijklmnopqrstuvwxyz"

// fresh returns an identifier that is no keyword anywhere (it ends in a digit) and is
// distinct from every earlier one ignoring case.
func (n *namer) fresh(upperFirst bool) string {
	for {
		k := n.r.Range(1, 4)
		b := make([]byte, 0, k+1)
		for i := 0; i < k; i++ {
			ch := lower[n.r.Intn(26)]
			if i == 0 && upperFirst {
				ch = ch - 'a' + 'A'
			}
			b = append(b, ch)
		}
		b = append(b, byte('0'+n.r.Intn(10)))
		s := string(b)
		if !n.used[strings.ToLower(s)] {
			n.used[strings.ToLower(s)] = true
			return s
		}
	}
}

func tableNamer(r *fw.Rand, m *Model) *namer {
	n := newNamer(r)
	for _, t := range m.Tables {
		n.used[strings.ToLower(t.Name)] = true
	}
	return n
}
func colNamer(r *fw.Rand, t *Table) *namer {
	n := newNamer(r)
	for _, c := range t.Cols {
		n.used[strings.ToLower(c.Name)] = true
	}
	return n
}

func primColumn(r *fw.Rand, name string) *Column {
	c := &Column{Name: name}
	switch r.Intn(10) {
	case 0, 1, 2, 3:
		c.Kind = "int"
	case 4, 5:
		c.Kind = "date"
	default:
		c.Kind = "string"
		if !r.Chance(1, 4) {
			c.Size = []int{1, 2, 5, 10, 22, 33, 49, 50, 51, 64, 100, 255, 500, 4000}[r.Intn(14)]
			if r.Chance(1, 3) {
				c.MinSize = r.Intn(c.Size + 1)
			}
		}
	}
	c.Opt = r.Chance(1, 4)
	return c
}

// keyTargets lists (table, key column) pairs that table `from` may reference without
// creating a cycle ("" = a table not yet in the model).
func keyTargets(m *Model, from string) []colRef {
	var out []colRef
	for _, t := range m.Tables {
		if strings.EqualFold(t.Name, from) {
			continue
		}
		if from != "" && m.DependsOn(t.Name, from) {
			continue
		}
		for _, c := range t.Cols {
			if c.PK {
				out = append(out, colRef{t, c})
			}
		}
	}
	return out
}

// newTable builds a table whose references go to tables already in m.
func newTable(r *fw.Rand, m *Model, name string, shape int) *Table {
	t := &Table{Name: name}
	cn := newNamer(r)
	nOwn := r.Range(1, 5)
	for i := 0; i < nOwn; i++ {
		t.Cols = append(t.Cols, primColumn(r, cn.fresh(false)))
	}
	// key: single (~68%), composite (~29%), none (~3%)
	switch k := r.Intn(34); {
	case k < 23:
		t.Cols[0].PK = true
	case k < 33:
		for len(t.Cols) < 2 {
			t.Cols = append(t.Cols, primColumn(r, cn.fresh(false)))
		}
		n := r.Range(2, min(3, len(t.Cols)))
		for i := 0; i < n; i++ {
			t.Cols[i].PK = true
		}
	}
	for _, c := range t.Cols {
		if c.PK {
			c.Opt = false
		}
		if c.Kind == "int" && c.PK && r.Chance(1, 2) {
			c.AutoInc = true
		} else if c.Kind == "int" && r.Chance(1, 12) {
			c.AutoInc = true
		}
	}
	// references
	tg := keyTargets(m, "")
	if len(tg) > 0 {
		nref := 0
		switch shape {
		case 0: // chain: the most recent table
			nref = 1
			last := m.Tables[len(m.Tables)-1]
			var only []colRef
			for _, x := range tg {
				if x.T == last {
					only = append(only, x)
				}
			}
			if len(only) > 0 {
				tg = only
			}
		case 1: // fan-in: the first table
			nref = 1
			var only []colRef
			for _, x := range tg {
				if x.T == m.Tables[0] {
					only = append(only, x)
				}
			}
			if len(only) > 0 {
				tg = only
			}
		case 2: // independent tables (many of depth 0)
			if r.Chance(1, 4) {
				nref = 1
			}
		default: // random graph: diamonds appear
			nref = r.Intn(4)
		}
		for i := 0; i < nref; i++ {
			x := tg[r.Intn(len(tg))]
			c := &Column{Name: cn.fresh(false), Kind: "ref", RefTable: x.T.Name, RefCol: x.C.Name}
			if r.Chance(1, 3) {
				c.PK = true
			}
			t.Cols = append(t.Cols, c)
		}
	}
	// column order is free
	p := r.Perm(len(t.Cols))
	cols := make([]*Column, len(t.Cols))
	for i, j := range p {
		cols[i] = t.Cols[j]
	}
	t.Cols = cols
	return t
}

// BuildModel generates a relational model: 1-10 tables, acyclic references.
func BuildModel(r *fw.Rand) *Model {
	m := &Model{App: "Store" + string(rune('A'+r.Intn(26)))}
	n := []int{1, 2, 2, 3, 3, 4, 4, 5, 5, 6, 6, 7, 8, 9, 10, 10}[r.Intn(16)]
	shape := r.Intn(5) // 0 chain, 1 fan-in, 2 flat, 3/4 random
	names := newNamer(r)
	for i := 0; i < n; i++ {
		m.Tables = append(m.Tables, newTable(r, m, names.fresh(true), shape))
	}
	// declaration order is unrelated to dependency order
	p := r.Perm(len(m.Tables))
	ts := make([]*Table, len(m.Tables))
	for i, j := range p {
		ts[i] = m.Tables[j]
	}
	m.Tables = ts
	return m
}

// Stats of a model for the evidence.
func (m *Model) Stats() (tables, cols, fks, composite, autoinc, maxDepth int) {
	for _, t := range m.Tables {
		tables++
		if len(t.PKSet()) > 1 {
			composite++
		}
		for _, c := range t.Cols {
			cols++
			if c.Kind == "ref" {
				fks++
			}
			if c.AutoInc {
				autoinc++
			}
		}
	}
	for _, d := range m.Depths() {
		if d > maxDepth {
			maxDepth = d
		}
	}
	return
}

// ---------------------------------------------------------------- rendering

// Layout says how a model is written down: which file holds which table, and padding.
type Layout struct {
	Files    int
	FileOf   map[string]int // table -> file index (0 = root)
	PadTop   []int          // blank/comment lines before the application header, per file
	PadTable map[string]int // blank lines before a table
	Align    bool           // try to make tables of other files start on lines used in file 0
}

type Rendered struct {
	Root   string
	Files  map[string]string
	LineOf map[string]int    // table -> 1-based line of its "!table" line
	FileOf map[string]string // table -> file name
}

func fileName(i int) string {
	if i == 0 {
		return "/m/root.sysl"
	}
	return fmt.Sprintf("/m/part%d.sysl", i)
}

func RandomLayout(r *fw.Rand, m *Model, align bool) *Layout {
	l := &Layout{FileOf: map[string]int{}, PadTable: map[string]int{}, Align: align}
	l.Files = 1
	if len(m.Tables) >= 2 {
		l.Files = []int{1, 2, 2, 3}[r.Intn(4)]
		if l.Files > len(m.Tables) {
			l.Files = len(m.Tables)
		}
	}
	for i, t := range m.Tables {
		if i < l.Files {
			l.FileOf[t.Name] = i // every file gets a table
		} else {
			l.FileOf[t.Name] = r.Intn(l.Files)
		}
		if r.Chance(1, 3) {
			l.PadTable[t.Name] = r.Range(1, 2)
		}
	}
	for i := 0; i < l.Files; i++ {
		l.PadTop = append(l.PadTop, r.Intn(3))
	}
	return l
}

func renderColumn(r *fw.Rand, c *Column) string {
	var ty string
	switch c.Kind {
	case "ref":
		ty = c.RefTable + "." + c.RefCol
	case "string":
		ty = "string"
		if c.Size > 0 {
			if c.MinSize > 0 {
				ty = fmt.Sprintf("string(%d..%d)", c.MinSize, c.Size)
			} else {
				ty = fmt.Sprintf("string(%d)", c.Size)
			}
		}
	default:
		ty = c.Kind
	}
	s := c.Name + " <: " + ty
	if c.Opt && !c.PK && c.Kind != "ref" {
		s += "?"
	}
	var attrs []string
	if c.PK {
		attrs = append(attrs, "~pk")
	}
	if c.AutoInc {
		attrs = append(attrs, "~autoinc")
	}
	if len(attrs) == 2 && r.Chance(1, 2) {
		attrs[0], attrs[1] = attrs[1], attrs[0]
	}
	if len(attrs) > 0 {
		s += " [" + strings.Join(attrs, ", ") + "]"
	}
	return s
}

// Render writes the model as Sysl text. The same application is opened in every file; the
// root imports the others. When l.Align is set, padding before the first table of each
// non-root file is chosen so that this table starts on the same line as a table of the
// root file (both are then equally likely to be at the same reference depth).
func Render(r *fw.Rand, m *Model, l *Layout) *Rendered {
	out := &Rendered{Root: fileName(0), Files: map[string]string{}, LineOf: map[string]int{}, FileOf: map[string]string{}}
	var rootLines []int
	for fi := 0; fi < l.Files; fi++ {
		var b []string
		if fi == 0 {
			for k := 1; k < l.Files; k++ {
				b = append(b, fmt.Sprintf("import part%d", k))
			}
		}
		for k := 0; k < l.PadTop[fi]; k++ {
			if k%2 == 0 {
				b = append(b, "")
			} else {
				b = append(b, "# layout")
			}
		}
		var mine []*Table
		for _, t := range m.Tables {
			if l.FileOf[t.Name] == fi {
				mine = append(mine, t)
			}
		}
		if fi > 0 && l.Align && len(rootLines) > 0 {
			// the first table would start at len(b)+2 (after the header line)
			want := rootLines[r.Intn(len(rootLines))]
			for len(b)+2+l.PadTable[mine[0].Name] < want {
				b = append(b, "")
			}
		}
		b = append(b, m.App+":")
		for _, t := range mine {
			for k := 0; k < l.PadTable[t.Name]; k++ {
				b = append(b, "")
			}
			b = append(b, "    !table "+t.Name+":")
			out.LineOf[t.Name] = len(b)
			out.FileOf[t.Name] = fileName(fi)
			if fi == 0 {
				rootLines = append(rootLines, len(b))
			}
			for _, c := range t.Cols {
				b = append(b, "        "+renderColumn(r, c))
			}
		}
		out.Files[fileName(fi)] = strings.Join(b, "\n") + "\n"
	}
	return out
}

// SameLineGroups returns, for tables of equal reference depth that start on the same line in
// different files, the groups (each sorted). These are the inputs on which ordering by line
// number alone cannot tell the tables apart.
func SameLineGroups(m *Model, rd *Rendered) [][]string {
	depth := m.Depths()
	groups := map[string][]string{}
	for _, t := range m.Tables {
		k := fmt.Sprintf("%d/%d", depth[t.Name], rd.LineOf[t.Name])
		groups[k] = append(groups[k], t.Name)
	}
	var out [][]string
	for _, g := range groups {
		if len(g) > 1 {
			sort.Strings(g)
			out = append(out, g)
		}
	}
	sort.Slice(out, func(i, j int) bool { return out[i][0] < out[j][0] })
	return out
}

func (rd *Rendered) Text() string {
	var names []string
	for n := range rd.Files {
		names = append(names, n)
	}
	sort.Strings(names)
	var b strings.Builder
	for _, n := range names {
		b.WriteString("==== " + n + "\n" + rd.Files[n])
	}
	return b.String()
}
