// Package c05: import closure — each file once, cycles end, result independent of fetch
// timing, depth limit honoured. Decided by a schedule controller over the verif hooks of
// collectSpecs plus a gated reader (package sched), under the race detector.
package c05

import (
	"fmt"
	"runtime"
	"sort"
	"strings"
	"time"

	"github.com/anz-bank/sysl/pkg/parse"
	"github.com/anz-bank/sysl/pkg/sysl"
	"google.golang.org/protobuf/encoding/prototext"
	"google.golang.org/protobuf/proto"

	"verif/fw"
	"verif/sched"
)

type prop struct{}

func init() { fw.Register(prop{}) }

func (prop) ID() string { return "C05" }

const (
	n1     = 2  // graphs on 1 node
	n2     = 16 // graphs on 2 nodes
	batch4 = 8  // graphs on 4 nodes per case (thorough)
)

// plan: quick samples every 4th of the 512 three-file digraphs (offset by the seed),
// thorough takes all of them plus every 64th of the 65536 four-file digraphs.
func plan(tier string) (n3, e4cases, random, stress int) {
	if tier == "thorough" {
		return 512, 1024 / batch4, 400, 12
	}
	return 128, 0, 60, 6
}

// depthRaces: targeted graphs (sched.DepthRace) appended after the stress cases.
func depthRaces(tier string) int {
	if tier == "thorough" {
		return 300
	}
	return 48
}

func (prop) Cases(tier string) int {
	n3, e4, rnd, st := plan(tier)
	return n1 + n2 + n3 + e4 + rnd + st + depthRaces(tier)
}

func (prop) Info() fw.Info {
	return fw.Info{
		Level: "exploration",
		Rule: "cases enumerate every import digraph (self loops, 2-cycles, diamonds included) on 1 and 2 files, every 4th (quick; offset by seed) or every one (thorough) of the 512 digraphs on 3 files, thorough also every 64th of the 65536 digraphs on 4 files, then random graphs on 4..8 files (every sixth a fan: the root imports 5-6 files directly), then depth-race graphs (a file reachable from the root through a short and a long path with a tail of imports below it, with the depth limits that cut the tail along the long path only), each with PRNG-chosen import spellings (relative, ./, x/../, ../, root-relative, with/without extension); for each graph, without depth limit and with one or two depth limits, the schedule controller enumerates the release orders of parked collectSpecs entries and parked reads (odometer over choice points, capped; beyond the cap PRNG-chosen schedules), plus free-running stress cases at GOMAXPROCS 1/2/16. Oracles per execution: reference closure from the graph alone (reachable files, BFS distance < limit, depth-first pre-order) vs the processed-file order and the marker applications in the model; exactly one claim and one read per file; every invocation returned before collection ends; shared application carries one source context per contributing file in processing order; model equal (proto) across all schedules and to an uncontrolled compile; no race report. Non-trivial: >= 2 distinct interleavings or a cycle/diamond; distinct by graph+spellings.",
		Assumptions: []string{"hook events are emitted at the documented points of collectSpecs (entry before the claim lock, won/lost after it is released)", "one controlled execution at a time per worker process (hook variables are global)", "remote (versioned git) imports are not generated: they need the network"},
		Race:        true,
		CaseTimeout: 600,
		CountFloors: map[string]int{"executions": 1500, "interleavings": 800, "hook_events": 20000, "executions_with_depth_limit": 500, "reexpansions_after_shallower_arrival": 20},
		SetFloors:   map[string]int{"shapes": 3},
	}
}

type verdicts struct {
	res   *fw.Result
	files map[string]string
	g     *sched.Graph
}

func compile(files map[string]string, limit int) (*sysl.Module, error, *sched.Controller) {
	c := sched.NewController(files, nil)
	c.Free = true
	p := parse.NewParser()
	p.Set(parse.Settings{MaxImportDepth: limit})
	out := c.Run(p, "root.sysl", func(int, []string) int { return 0 }, 60*time.Second)
	return out.Module, out.Err, c
}

// judge checks one finished execution against the reference. first = the module of the
// first execution of the same (graph, limit), nil if this is the first.
func judge(v *verdicts, g *sched.Graph, limit int, c *sched.Controller, out sched.Outcome, first *sysl.Module, what string) {
	res := v.res
	art := func(extra string) map[string]string {
		m := map[string]string{"graph.txt": g.String(), "schedule.txt": what + "\nlimit=" + fmt.Sprint(limit) + "\nreleases: " + c.Signature(), "detail.txt": extra}
		for n, t := range v.files {
			m["files/"+n] = t
		}
		var ev strings.Builder
		for _, e := range c.Events {
			fmt.Fprintf(&ev, "%d %s %s %s d=%d n=%d\n", e.Seq, e.Kind, e.ID, e.File, e.Depth, e.N)
		}
		m["events.txt"] = ev.String()
		return m
	}
	res.Count("executions", 1)
	res.Count("hook_events", len(c.Events))
	// how often the workload drove the late-shallower-arrival path (a file already claimed is
	// reached again through a shorter path and its imports are followed again)
	lost := map[string]bool{}
	for _, e := range c.Events {
		switch {
		case e.Kind == "lost":
			lost[e.ID] = true
		case e.Kind == "spawn" && e.N > 0 && lost[e.ID]:
			res.Count("reexpansions_after_shallower_arrival", 1)
		}
	}
	if limit > 0 {
		res.Count("executions_with_depth_limit", 1)
	}
	switch {
	case out.Panic != "":
		res.Violate("panic|"+fw.MsgClass(out.Panic), "Parse panicked: "+out.Panic, art(""))
		return
	case out.Timeout:
		res.Violate("no-return|controlled-execution", "the controlled execution did not finish within the watchdog", art(""))
		return
	case out.Stuck != "":
		res.Violate("stuck|"+out.Stuck, out.Stuck, art(""))
		return
	case out.Err != nil:
		res.Violate("error|valid-closure-rejected|"+fw.MsgClass(out.Err.Error()), "Parse failed on a closure without faults: "+out.Err.Error(), art(""))
		return
	}
	included, order := g.Closure(limit)
	dist := g.Dist()
	// processed-file order
	var want []string
	for _, i := range order {
		want = append(want, g.Names[i])
	}
	got := c.FlatOrder()
	for k := range got {
		got[k] = strings.TrimPrefix(strings.TrimPrefix(got[k], "./"), "/")
	}
	wonDepth := c.WonDepth()
	deeper := false
	for i, n := range g.Names {
		if d, ok := wonDepth[n]; ok && dist[i] >= 0 && d > dist[i] {
			deeper = true
		}
	}
	if strings.Join(want, ",") != strings.Join(got, ",") {
		gotSet := map[string]bool{}
		for _, x := range got {
			gotSet[x] = true
		}
		missing, extra := []string{}, []string{}
		for i, n := range g.Names {
			if included[i] && !gotSet[n] {
				missing = append(missing, n)
			}
			if !included[i] && gotSet[n] {
				extra = append(extra, n)
			}
		}
		detail := fmt.Sprintf("want %v got %v missing %v extra %v wonDepth %v dist %v", want, got, missing, extra, wonDepth, dist)
		switch {
		case len(missing) > 0 && len(extra) == 0 && limit > 0 && deeper:
			res.Violate("closure|depth-limit|file-claimed-deeper-than-its-distance", "with a depth limit a file nearer than the limit is dropped because a file on its path was first claimed through a longer path: "+detail, art(detail))
		case len(missing) > 0:
			res.Violate("closure|missing-file", "a reachable file (nearer than the limit) was not processed: "+detail, art(detail))
		case len(extra) > 0:
			res.Violate("closure|extra-file", "a file at or beyond the depth limit was processed: "+detail, art(detail))
		default:
			res.Violate("order|processing-order-differs", "files processed in an order other than depth-first textual order: "+detail, art(detail))
		}
		return
	}
	// exactly-once
	for i, n := range g.Names {
		wantN := 0
		if included[i] {
			wantN = 1
		}
		reads := 0
		for p, k := range c.Reads {
			if strings.TrimPrefix(strings.TrimPrefix(p, "./"), "/") == n {
				reads += k
			}
		}
		if reads != wantN {
			res.Violate("once|read-count", fmt.Sprintf("file %s read %d times, want %d", n, reads, wantN), art(""))
		}
		if w := c.Count("won")[n]; w != wantN {
			res.Violate("once|claim-count", fmt.Sprintf("file %s claimed %d times, want %d", n, w, wantN), art(""))
		}
	}
	if len(out.Unjoined) > 0 {
		res.Violate("join|invocation-outlives-collection", fmt.Sprint("invocations not returned when collection ended: ", out.Unjoined), art(""))
	}
	// model content
	m := out.Module
	for i := range g.Names {
		_, has := m.Apps[sched.Marker(i)]
		if has != included[i] {
			res.Violate("model|marker-app", fmt.Sprintf("application %s present=%v, file included=%v", sched.Marker(i), has, included[i]), art(""))
		}
	}
	if sh := m.Apps["Shared"]; sh != nil {
		var ctxFiles []string
		for _, sc := range sh.SourceContexts {
			ctxFiles = append(ctxFiles, sc.File)
		}
		if strings.Join(ctxFiles, ",") != strings.Join(want, ",") {
			res.Violate("model|shared-app-contributions", fmt.Sprintf("Shared has source contexts from %v, want one per processed file in order %v", ctxFiles, want), art(""))
		}
		for i := range g.Names {
			_, has := sh.Types[fmt.Sprintf("S%d", i)]
			if has != included[i] {
				res.Violate("model|shared-app-types", fmt.Sprintf("Shared.S%d present=%v, file included=%v", i, has, included[i]), art(""))
			}
		}
	} else {
		res.Violate("model|shared-app-missing", "application Shared missing", art(""))
	}
	if first != nil && !proto.Equal(first, m) {
		a := prototext.Format(first)
		b := prototext.Format(m)
		res.Violate("model|differs-across-schedules", "the model differs between two schedules of the same import graph", art("first:\n"+a+"\nthis:\n"+b))
	}
}

// runGraph explores the schedules of one graph under one depth limit.
func runGraph(v *verdicts, g *sched.Graph, limit, cap int, r *fw.Rand) (interleavings int) {
	files := v.files
	base, berr, bc := compile(files, limit)
	judge(v, g, limit, bc, sched.Outcome{Module: base, Err: berr}, nil, "free-running")
	if berr != nil || base == nil {
		return 0
	}
	seen := map[string]bool{}
	var script []int
	for n := 0; n < cap; n++ {
		c := sched.NewController(files, nil)
		p := parse.NewParser()
		p.Set(parse.Settings{MaxImportDepth: limit})
		sc := script
		out := c.Run(p, "root.sysl", func(step int, opts []string) int {
			if step < len(sc) {
				return sc[step]
			}
			return 0
		}, 60*time.Second)
		judge(v, g, limit, c, out, base, fmt.Sprintf("controlled schedule #%d script=%v", n, sc))
		seen[c.Signature()] = true
		// next script (odometer): increment the last choice that can still grow
		next := append([]int{}, c.Choices...)
		k := len(next) - 1
		for k >= 0 && next[k]+1 >= c.Widths[k] {
			k--
		}
		if k < 0 {
			v.res.Count("graphs_fully_enumerated", 1)
			return len(seen)
		}
		next[k]++
		script = next[:k+1]
	}
	// cap reached: sample further schedules at random
	for n := 0; n < cap/2; n++ {
		c := sched.NewController(files, nil)
		p := parse.NewParser()
		p.Set(parse.Settings{MaxImportDepth: limit})
		rr := r.Fork()
		out := c.Run(p, "root.sysl", func(step int, opts []string) int { return rr.Intn(len(opts)) }, 60*time.Second)
		judge(v, g, limit, c, out, base, fmt.Sprintf("random schedule #%d", n))
		seen[c.Signature()] = true
	}
	return len(seen)
}

func (prop) Run(ctx *fw.Ctx, i int) fw.Result {
	r := ctx.Rng()
	var res fw.Result
	n3, e4, rnd, nst := plan(ctx.Tier)
	var graphs []*sched.Graph
	var raceLimits []int
	stress := false
	switch {
	case i >= n1+n2+n3+e4+rnd+nst:
		g, ls := sched.DepthRace(r)
		graphs = append(graphs, g)
		raceLimits = ls
	case i < n1:
		graphs = append(graphs, sched.FromBits(1, uint64(i), r))
	case i < n1+n2:
		graphs = append(graphs, sched.FromBits(2, uint64(i-n1), r))
	case i < n1+n2+n3:
		code := uint64(i - n1 - n2)
		if n3 < 512 {
			code = code*4 + ctx.Seed%4
		}
		graphs = append(graphs, sched.FromBits(3, code, r))
	case i < n1+n2+n3+e4:
		b := i - n1 - n2 - n3
		for k := 0; k < batch4; k++ {
			graphs = append(graphs, sched.FromBits(4, uint64(b*batch4+k)*64+ctx.Seed%64, r))
		}
	case i < n1+n2+n3+e4+rnd && i%6 == 0:
		graphs = append(graphs, sched.Fan(r)) // the root imports five or six files directly
	case i < n1+n2+n3+e4+rnd:
		graphs = append(graphs, sched.Random(r.Range(4, 8), r))
	default:
		stress = true
		graphs = append(graphs, sched.Random(r.Range(4, 8), r))
	}
	cap := 12
	if ctx.Thorough() {
		cap = 40
		if len(graphs) > 1 {
			cap = 16
		}
	}
	var hp []string
	total := 0
	for _, g := range graphs {
		files := g.Render()
		names := make([]string, 0, len(files))
		for n := range files {
			names = append(names, n)
		}
		sort.Strings(names)
		for _, n := range names {
			hp = append(hp, n, files[n])
		}
		v := &verdicts{res: &res, files: files, g: g}
		for _, s := range g.Shapes() {
			res.Add("shapes", s)
		}
		if stress {
			k := (i % 3)
			procs := []int{1, 2, 16}[k]
			old := runtime.GOMAXPROCS(procs)
			for _, limit := range []int{0, r.Range(1, 4)} {
				var first *sysl.Module
				reps := 30
				if ctx.Thorough() {
					reps = 150
				}
				for rep := 0; rep < reps; rep++ {
					m, err, c := compile(files, limit)
					judge(v, g, limit, c, sched.Outcome{Module: m, Err: err}, first, fmt.Sprintf("free-running GOMAXPROCS=%d rep=%d", procs, rep))
					if first == nil {
						first = m
					}
				}
			}
			runtime.GOMAXPROCS(old)
			res.Add("shapes", fmt.Sprintf("stress-gomaxprocs-%d", procs))
			total += 2
			continue
		}
		limits := []int{0, r.Range(1, len(g.Names))}
		if len(g.Names) >= 3 && ctx.Thorough() {
			limits = append(limits, r.Range(2, 3))
		}
		if raceLimits != nil {
			// depth-race graphs: the limits that separate the short from the long path (at most
			// three of them, or two in the quick tier), enumerated deeper than the other families
			limits = append([]int{}, raceLimits...)
			max := 2
			if ctx.Thorough() {
				max = 3
			}
			for len(limits) > max {
				k := r.Intn(len(limits))
				limits = append(limits[:k], limits[k+1:]...)
			}
			cap = 30
			if ctx.Thorough() {
				cap = 60
			}
			res.Add("shapes", "depth-race")
		}
		for _, limit := range limits {
			total += runGraph(v, g, limit, cap, r)
		}
	}
	res.Count("interleavings", total)
	res.Hash = fw.HashOf(hp...)
	g0 := graphs[0]
	res.NonTrivial = total >= 2 || len(g0.Shapes()) > 0
	res.Sample = map[string]any{"case": i, "graph": g0.String(), "distinct_interleavings": total, "shapes": g0.Shapes()}
	return res
}
