package c12

import (
	"context"
	"encoding/json"
	"fmt"
	"sort"
	"strings"

	"github.com/getkin/kin-openapi/openapi3"

	"verif/fw"
)

// sink collects the refutations of one case, one entry per signature.
type sink struct {
	order []string
	m     map[string]*hit
}

type hit struct {
	sig, msg string
	n        int
}

func (s *sink) add(sig, format string, args ...any) {
	if s.m == nil {
		s.m = map[string]*hit{}
	}
	if h, ok := s.m[sig]; ok {
		h.n++
		return
	}
	s.m[sig] = &hit{sig: sig, msg: fmt.Sprintf(format, args...), n: 1}
	s.order = append(s.order, sig)
}

func (s *sink) has(sig string) bool { _, ok := s.m[sig]; return ok }

// counters of what the structural oracle actually compared
type tally struct {
	schemas, fields, ops, params, responses int
}

// ---------------------------------------------------------------------------
// Documented kind mapping of the OpenAPI 3 exporter (docs/docs/cmd/cmd-export.md example,
// pkg/exporter/openapi3_test.go assertions): Sysl primitive -> (type, distinguishing format).

func oas3Kind(prim string) (typ string, formats []string) {
	switch prim {
	case "int", "int32", "int64":
		return "integer", []string{"", "int32", "int64"}
	case "float", "float32", "float64", "decimal":
		return "number", []string{"", "float", "double"}
	case "string":
		return "string", []string{""}
	case "bool":
		return "boolean", []string{""}
	case "date":
		return "string", []string{"date"}
	case "datetime":
		return "string", []string{"date-time"}
	case "bytes":
		return "string", []string{"byte", "binary"}
	}
	return "?", nil
}

func kindOK(s obj, prim string) bool {
	typ, formats := oas3Kind(prim)
	if asStr(s["type"]) != typ {
		return false
	}
	f := asStr(s["format"])
	for _, x := range formats {
		if x == f {
			return true
		}
	}
	return false
}

const oas3Ref = "#/components/schemas/"

func show(v any) string {
	b, _ := json.Marshal(v)
	if len(b) > 160 {
		b = append(b[:160], "…"...)
	}
	return string(b)
}

// checkOAS3Payload compares one schema position (field, body, response) with the
// description: array-ness, reference target or primitive kind. where is a human label,
// class the signature class of the position ("field", "body-param", "response").
func checkOAS3Payload(s *sink, x string, got any, prim, ref, coll, class, where string) {
	sch := asObj(got)
	if sch == nil {
		s.add(x+"|miss|"+class+"-schema", "%s: no schema (got %s)", where, show(got))
		return
	}
	if coll == "set" && len(sch) == 0 {
		s.add(x+"|set-of-emitted-as-empty-schema", "%s is declared `set of %s` but is exported as the empty schema {} (exportType has no case for syslwrapper type \"set\")", where, prim+ref)
		return
	}
	elem := sch
	if coll != "" {
		if asStr(sch["type"]) != "array" {
			s.add(x+"|miss|"+class+"-arrayness", "%s is declared `%s of …` but the schema is not an array: %s", where, coll, show(sch))
			return
		}
		elem = asObj(sch["items"])
		if elem == nil {
			s.add(x+"|miss|"+class+"-array-items", "%s: array schema without items: %s", where, show(sch))
			return
		}
	} else if asStr(sch["type"]) == "array" {
		s.add(x+"|miss|"+class+"-arrayness", "%s is not a collection but the schema is an array: %s", where, show(sch))
		return
	}
	if ref != "" {
		if asStr(elem["$ref"]) != oas3Ref+ref {
			s.add(x+"|miss|"+class+"-ref-target", "%s must reference %s, schema is %s", where, ref, show(elem))
		}
		return
	}
	if _, isRef := elem["$ref"]; isRef || !kindOK(elem, prim) {
		s.add(x+"|miss|"+class+"-kind", "%s is declared %s, schema is %s", where, prim, show(elem))
	}
}

func respKey(label string) string {
	switch label {
	case "ok":
		return "200"
	case "error":
		return "default"
	}
	return label
}

// checkOAS3 is oracle 2 for an OpenAPI 3 document.
func checkOAS3(a *App, doc obj, s *sink, t *tally) {
	const x = "openapi3"
	if v := asStr(doc["openapi"]); !strings.HasPrefix(v, "3.") {
		s.add(x+"|miss|openapi-version", "openapi version field is %q", v)
	}
	schemas := asObj(dig(doc, "components", "schemas"))
	for i := range a.Types {
		td := &a.Types[i]
		sch := asObj(schemas[td.Name])
		if sch == nil {
			s.add(x+"|miss|type-schema", "type %s has no schema under components.schemas", td.Name)
			continue
		}
		t.schemas++
		if td.Enum {
			got, ok := strSet(sch["enum"])
			want := map[string]int{}
			for _, it := range td.Items {
				want[it] = 1
			}
			if asStr(sch["type"]) != "string" || !ok || !sameSet(got, want) {
				s.add(x+"|miss|enum-schema", "enum %s with members %v is exported as %s", td.Name, td.Items, show(sch))
			}
			continue
		}
		if asStr(sch["type"]) != "object" {
			s.add(x+"|miss|type-not-object", "tuple type %s is exported as %s", td.Name, show(sch))
			continue
		}
		props := asObj(sch["properties"])
		want := map[string]int{}
		for _, f := range td.Fields {
			if !f.Opt {
				want[f.Name] = 1
			}
			t.fields++
			fs, ok := props[f.Name]
			if !ok {
				s.add(x+"|miss|field", "field %s.%s is missing from the schema's properties", td.Name, f.Name)
				continue
			}
			checkOAS3Payload(s, x, fs, f.Prim, f.Ref, f.Coll, "field", "field "+td.Name+"."+f.Name)
		}
		if len(props) != len(td.Fields) {
			s.add(x+"|extra|field", "type %s has %d fields, schema has %d properties", td.Name, len(td.Fields), len(props))
		}
		got := map[string]int{}
		if r, present := sch["required"]; present {
			g, ok := strSet(r)
			if !ok {
				s.add(x+"|miss|required-set", "type %s: `required` is not a list of strings: %s", td.Name, show(r))
				continue
			}
			got = g
		}
		if !sameSet(got, want) {
			s.add(x+"|miss|required-set", "type %s: required must be exactly the non-optional fields %v, document says %v", td.Name, keys(want), keys(got))
		}
	}
	// every reference in the document resolves
	walkRefs(doc, func(ref string) {
		if !strings.HasPrefix(ref, oas3Ref) || schemas[strings.TrimPrefix(ref, oas3Ref)] == nil {
			s.add(x+"|miss|dangling-ref", "reference %q does not resolve inside the document", ref)
		}
	})

	paths := asObj(doc["paths"])
	for i := range a.Eps {
		e := &a.Eps[i]
		where := e.Method + " " + e.Path()
		op := asObj(dig(paths, e.Path(), strings.ToLower(e.Method)))
		if op == nil {
			s.add(x+"|miss|operation", "endpoint %s has no operation in the document", where)
			continue
		}
		t.ops++
		// parameters by (in, name)
		type pk struct{ in, name string }
		got := map[pk]obj{}
		for _, p := range asList(op["parameters"]) {
			po := asObj(p)
			k := pk{asStr(po["in"]), asStr(po["name"])}
			if _, dup := got[k]; dup {
				s.add(x+"|extra|duplicate-param", "%s: parameter %s/%s appears twice", where, k.in, k.name)
			}
			got[k] = po
		}
		expect := 0
		checkParam := func(in string, p Param, required bool) {
			t.params++
			expect++
			po := got[pk{in, p.Name}]
			if po == nil {
				s.add(x+"|miss|"+in+"-param", "%s: %s parameter %q is missing (document has %s)", where, in, p.Name, show(op["parameters"]))
				return
			}
			req, _ := po["required"].(bool)
			if req != required {
				s.add(x+"|miss|param-required", "%s: %s parameter %q must have required=%v, document says %v", where, in, p.Name, required, po["required"])
			}
			sch := asObj(po["schema"])
			if sch == nil || !kindOK(sch, p.Prim) {
				s.add(x+"|miss|param-kind", "%s: %s parameter %q is declared %s, schema is %s", where, in, p.Name, p.Prim, show(po["schema"]))
			}
		}
		for _, p := range e.PathParams() {
			checkParam("path", p, true)
		}
		for _, p := range e.Query {
			checkParam("query", p, !p.Opt)
		}
		for _, p := range e.Header {
			checkParam("header", p, !p.Opt)
		}
		if len(got) > expect {
			s.add(x+"|extra|param", "%s: %d parameters declared, document has %d: %s", where, expect, len(got), show(op["parameters"]))
		}
		rb := asObj(op["requestBody"])
		if e.Body != nil {
			t.params++
			if rb == nil {
				s.add(x+"|miss|body-param", "%s: body parameter %s <: %s has no requestBody", where, e.Body.Name, e.Body.Ref)
			} else {
				checkOAS3Payload(s, x, dig(rb, "content", "application/json", "schema"), "", e.Body.Ref, "", "body-param", where+" request body")
				req, _ := rb["required"].(bool)
				if req != !e.Body.Opt {
					s.add(x+"|miss|body-required", "%s: requestBody.required must be %v, document says %v", where, !e.Body.Opt, rb["required"])
				}
			}
		} else if rb != nil {
			s.add(x+"|extra|request-body", "%s declares no body parameter, document has requestBody %s", where, show(rb))
		}
		resps := asObj(op["responses"])
		for _, rt := range e.Rets {
			t.responses++
			ro := asObj(resps[respKey(rt.Label)])
			if ro == nil {
				s.add(x+"|miss|response", "%s: `return %s <: …` has no response %q (document has %v)", where, rt.Label, respKey(rt.Label), keys2(resps))
				continue
			}
			checkOAS3Payload(s, x, dig(ro, "content", "application/json", "schema"), rt.Prim, rt.Ref, rt.Coll, "response", where+" response "+rt.Label)
		}
	}
}

func sameSet(a, b map[string]int) bool {
	if len(a) != len(b) {
		return false
	}
	for k, n := range a {
		if b[k] != n {
			return false
		}
	}
	return true
}

func keys(m map[string]int) []string {
	out := make([]string, 0, len(m))
	for k := range m {
		out = append(out, k)
	}
	sort.Strings(out)
	return out
}

func keys2(m obj) []string {
	out := make([]string, 0, len(m))
	for k := range m {
		out = append(out, k)
	}
	sort.Strings(out)
	return out
}

// ---------------------------------------------------------------------------
// Oracle 1 for OpenAPI 3: kin-openapi loader + validator.

// validateOAS3 loads and validates the bytes. The one validity defect that every document
// without @env.1.url has (servers[0].url == "") is reported under its own signature; the
// document is then validated again with that server entry removed so that the validator
// still judges everything else.
func validateOAS3(data []byte, doc obj, s *sink) (validations int) {
	const x = "openapi3"
	// kin-openapi v0.124 gives up on legal recursive schemas after 3 visits of one reference
	// ("kin-openapi bug found: circular schema reference not handled"); that is a limit of
	// the validator, not of the document. Termination is guaranteed by its visited-schema set.
	saved := openapi3.CircularReferenceCounter
	openapi3.CircularReferenceCounter = 1 << 30
	defer func() { openapi3.CircularReferenceCounter = saved }()

	run := func(b []byte) error {
		validations++
		var d *openapi3.T
		var err error
		if pi := fw.Guard(func() {
			d, err = openapi3.NewLoader().LoadFromData(b)
			if err == nil {
				err = d.Validate(context.Background())
			}
		}); pi != nil {
			return fmt.Errorf("validator panicked: %s", pi.Value)
		}
		return err
	}
	emptyURL := false
	for _, sv := range asList(doc["servers"]) {
		if u, ok := asObj(sv)["url"]; ok && asStr(u) == "" {
			emptyURL = true
		}
	}
	if emptyURL {
		s.add(x+"|invalid|server-url-empty", "servers[0].url is the empty string (kin-openapi: \"value of url must be a non-empty string\"); the exporter adds a server entry unconditionally and fills it from the undocumented attribute @env.1.url")
		fixed := asObj(deepCopy(doc))
		delete(fixed, "servers")
		b, _ := json.Marshal(fixed)
		data = b
	}
	if err := run(data); err != nil {
		s.add(x+"|invalid|lib-kin|"+msgShape(err.Error()), "kin-openapi rejects the document: %s", err)
	}
	return validations
}

func firstLine(s string) string {
	if i := strings.IndexByte(s, '\n'); i >= 0 {
		s = s[:i]
	}
	// strip case-specific names: keep the message shape
	return s
}
