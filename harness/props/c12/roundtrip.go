package c12

import (
	"strings"

	"github.com/anz-bank/sysl/pkg/sysl"
)

// ---------------------------------------------------------------------------
// Oracle 3: the document, imported back through importer.Factory and compiled, has the
// same type and endpoint structure as the description, modulo the documented renamings:
//
//   OpenAPI 3 (docs/docs/cmd/cmd-export.md, pkg/importer/tests/openapi3 goldens):
//     int, int32, int64 -> int64 (primitive INT);  float, float32, float64, decimal -> float
//     !enum E -> !alias E: string with @openapi_enum = [members]
//     return ok -> return 200;  an endpoint without `error` gains an untyped `return error`
//     the body parameter is renamed <method>_<path>_req_body;  fields gain @json_tag
//   Swagger 2 (pinned kind table, see swagger.go): additionally int* -> float,
//     date/datetime/bytes -> string, set -> sequence.
//
// gate tells which aspects the document-level oracle already found unfaithful in this very
// document; those are not compared again (one root cause, one signature).

type rtGate struct {
	optional  bool // do not compare field optional-ness
	refs      bool // do not compare reference targets of fields
	body      bool // do not compare the body parameter
	named     bool // do not look for ok/error responses
	respArray bool // compare response payloads without their array-ness
	paramOpt  bool // do not compare parameter optional-ness
	swagger   bool // use the Swagger renamings
}

type rtTally struct{ types, fields, eps, params, responses int }

func rtPrim(p string, swagger bool) string {
	switch p {
	case "int", "int32", "int64":
		if swagger {
			return "float"
		}
		return "int"
	case "float", "float32", "float64", "decimal":
		return "float"
	case "date", "datetime", "bytes":
		if swagger {
			return "string"
		}
	}
	return p
}

type tview struct {
	coll, prim, ref string
	opt             bool
}

func viewType(t *sysl.Type) tview {
	var v tview
	if t == nil {
		return v
	}
	v.opt = t.GetOpt()
	inner := t
	switch x := t.Type.(type) {
	case *sysl.Type_Sequence:
		v.coll, inner = "sequence", x.Sequence
	case *sysl.Type_Set:
		v.coll, inner = "set", x.Set
	case *sysl.Type_List_:
		v.coll, inner = "sequence", x.List.GetType()
	}
	if inner == nil {
		return v
	}
	if inner.GetOpt() {
		v.opt = true
	}
	switch y := inner.Type.(type) {
	case *sysl.Type_Primitive_:
		v.prim = strings.ToLower(y.Primitive.String())
		if v.prim == "decimal" {
			v.prim = "float"
		}
	case *sysl.Type_TypeRef:
		v.ref = strings.Join(y.TypeRef.GetRef().GetPath(), ".")
		if v.ref == "" && y.TypeRef.GetRef().GetAppname() != nil {
			v.ref = strings.Join(y.TypeRef.GetRef().GetAppname().GetPart(), " :: ")
		}
	}
	return v
}

func hasPattern(t *sysl.Type, p string) bool {
	for _, e := range t.GetAttrs()["patterns"].GetA().GetElt() {
		if e.GetS() == p {
			return true
		}
	}
	return false
}

func compareRoundTrip(a *App, re *sysl.Application, x string, g rtGate, s *sink, t *rtTally) {
	pre := x + "|roundtrip|"
	for i := range a.Types {
		td := &a.Types[i]
		rt := re.GetTypes()[td.Name]
		if rt == nil {
			s.add(pre+"type-missing", "type %s is absent from the re-imported application", td.Name)
			continue
		}
		t.types++
		if td.Enum {
			if g.swagger {
				continue // pinned: enum -> {number, integer}; members are not in the document
			}
			got := map[string]int{}
			for _, e := range rt.GetAttrs()["openapi_enum"].GetA().GetElt() {
				got[e.GetS()]++
			}
			want := map[string]int{}
			for _, it := range td.Items {
				want[it] = 1
			}
			if rt.GetPrimitive() != sysl.Type_STRING || !sameSet(got, want) {
				s.add(pre+"enum", "enum %s (members %v) comes back as %s", td.Name, td.Items, clipStr(rt.String(), 200))
			}
			continue
		}
		tup := rt.GetTuple()
		if tup == nil {
			s.add(pre+"type-not-tuple", "tuple type %s comes back as %s", td.Name, clipStr(rt.String(), 200))
			continue
		}
		for _, f := range td.Fields {
			t.fields++
			rf := tup.GetAttrDefs()[f.Name]
			if rf == nil {
				s.add(pre+"field-missing", "field %s.%s is absent after re-import", td.Name, f.Name)
				continue
			}
			if !g.swagger && f.Coll == "set" {
				continue // openapi3|set-of-emitted-as-empty-schema already reported at document level
			}
			v := viewType(rf)
			wantColl := f.Coll
			if wantColl == "set" {
				wantColl = "sequence"
			}
			if v.coll != wantColl {
				s.add(pre+"field-arrayness", "field %s.%s: declared collection %q, re-imported %q", td.Name, f.Name, f.Coll, v.coll)
			}
			if !g.optional && v.opt != f.Opt {
				s.add(pre+"field-optional", "field %s.%s: declared optional=%v, re-imported optional=%v", td.Name, f.Name, f.Opt, v.opt)
			}
			if f.Ref != "" {
				if !g.refs && v.ref != f.Ref {
					s.add(pre+"field-ref-target", "field %s.%s: declared reference to %s, re-imported %+v", td.Name, f.Name, f.Ref, v)
				}
			} else if v.prim != rtPrim(f.Prim, g.swagger) {
				s.add(pre+"field-kind", "field %s.%s: declared %s (expected %s after the documented renaming), re-imported %+v", td.Name, f.Name, f.Prim, rtPrim(f.Prim, g.swagger), v)
			}
		}
	}

	for i := range a.Eps {
		e := &a.Eps[i]
		where := e.Method + " " + e.Path()
		rep := re.GetEndpoints()[where]
		if rep == nil {
			s.add(pre+"endpoint-missing", "endpoint %s is absent after re-import (have %v)", where, epNames(re))
			continue
		}
		t.eps++
		cmpParam := func(kind string, p Param, got *sysl.Type, required bool) {
			t.params++
			if got == nil {
				s.add(pre+kind+"-param-missing", "%s: %s parameter %q is absent after re-import", where, kind, p.Name)
				return
			}
			v := viewType(got)
			if v.prim != rtPrim(p.Prim, g.swagger) {
				s.add(pre+"param-kind", "%s: %s parameter %q declared %s, re-imported %+v", where, kind, p.Name, p.Prim, v)
			}
			if !g.paramOpt && v.opt == required {
				s.add(pre+"param-optional", "%s: %s parameter %q declared required=%v, re-imported optional=%v", where, kind, p.Name, required, v.opt)
			}
		}
		url := map[string]*sysl.Type{}
		for _, p := range rep.GetRestParams().GetUrlParam() {
			url[p.GetName()] = p.GetType()
		}
		query := map[string]*sysl.Type{}
		for _, p := range rep.GetRestParams().GetQueryParam() {
			query[p.GetName()] = p.GetType()
		}
		header := map[string]*sysl.Type{}
		var body *sysl.Type
		for _, p := range rep.GetParam() {
			switch {
			case hasPattern(p.GetType(), "body"):
				body = p.GetType()
			default:
				n := p.GetType().GetAttrs()["name"].GetS()
				if n == "" {
					n = p.GetName()
				}
				header[n] = p.GetType()
			}
		}
		for _, p := range e.PathParams() {
			cmpParam("path", p, url[p.Name], true)
		}
		for _, p := range e.Query {
			cmpParam("query", p, query[p.Name], !p.Opt)
		}
		for _, p := range e.Header {
			cmpParam("header", p, header[p.Name], !p.Opt)
		}
		if e.Body != nil && !g.body {
			t.params++
			if body == nil {
				s.add(pre+"body-param-missing", "%s: body parameter <: %s is absent after re-import", where, e.Body.Ref)
			} else if v := viewType(body); v.ref != e.Body.Ref || v.coll != "" {
				s.add(pre+"body-param-type", "%s: body parameter declared <: %s, re-imported %+v", where, e.Body.Ref, v)
			}
		}
		rets := map[string]string{}
		for _, st := range rep.GetStmt() {
			if r := st.GetRet(); r != nil {
				parts := strings.SplitN(r.GetPayload(), "<:", 2)
				label := strings.TrimSpace(parts[0])
				typ := ""
				if len(parts) == 2 {
					typ = parts[1]
					if k := strings.Index(typ, "["); k >= 0 { // the importers write [mediatype=…] into the payload
						typ = typ[:k]
					}
					typ = strings.TrimSpace(typ)
				}
				if old, dup := rets[label]; !dup || old == "" {
					rets[label] = typ
				}
			}
		}
		for _, rt := range e.Rets {
			label := rt.Label
			if label == "ok" {
				label = "200"
			}
			if g.named && (rt.Label == "ok" || rt.Label == "error") {
				continue
			}
			if !g.swagger && rt.Coll == "set" {
				continue
			}
			t.responses++
			got, ok := rets[label]
			if !ok {
				s.add(pre+"response-missing", "%s: `return %s <: …` is absent after re-import (have %v)", where, rt.Label, rets)
				continue
			}
			coll := rt.Coll
			if coll == "set" {
				coll = "sequence"
			}
			if g.respArray {
				coll = ""
				got = strings.TrimPrefix(strings.TrimPrefix(got, "sequence of "), "set of ")
			}
			want := typeExpr(rtPrim(rt.Prim, g.swagger), rt.Ref, coll)
			if rt.Prim != "" && !g.swagger {
				want = typeExpr(rt.Prim, "", coll) // bool/string/date/datetime come back under their own names
			}
			if got != want {
				s.add(pre+"response-payload", "%s: `return %s <: %s` comes back as `return %s <: %s`", where, rt.Label, typeExpr(rt.Prim, rt.Ref, rt.Coll), label, got)
			}
		}
	}
}

func epNames(app *sysl.Application) []string {
	var out []string
	for k := range app.GetEndpoints() {
		out = append(out, k)
	}
	return out
}

func clipStr(s string, n int) string {
	if len(s) > n {
		return s[:n] + "…"
	}
	return s
}
