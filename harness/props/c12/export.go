package c12

import (
	"encoding/json"
	"fmt"
	"io"
	"sort"

	"github.com/anz-bank/sysl/pkg/exporter"
	"github.com/anz-bank/sysl/pkg/importer"
	"github.com/anz-bank/sysl/pkg/parse"
	"github.com/anz-bank/sysl/pkg/sysl"
	"github.com/anz-bank/sysl/pkg/syslutil"
	"github.com/anz-bank/sysl/pkg/syslwrapper"
	"github.com/sirupsen/logrus"
	"github.com/spf13/afero"
	yaml3 "gopkg.in/yaml.v3"
)

// ---------------------------------------------------------------------------
// The real code: compile, export (the call sequence of cmd/sysl/cmd_export.go
// writeSwaggerForApp), re-import (the call sequence of pkg/parse/parse.go importForeign).

func quietLogger() *logrus.Logger {
	l := logrus.New()
	l.SetOutput(io.Discard)
	return l
}

func compile(name, text string) (*sysl.Module, error) {
	fs := afero.NewMemMapFs()
	_ = afero.WriteFile(fs, name, []byte(text), 0o644)
	return parse.NewParser().ParseFromFs(name, fs)
}

// exportDoc runs one export configuration the way `sysl export -f <format> -o x.<mode>` does.
func exportDoc(app *sysl.Application, format, mode string) ([]byte, error) {
	logger := quietLogger()
	switch format {
	case "swagger":
		x := exporter.MakeSwaggerExporter(app, logger)
		if err := x.GenerateSwagger(); err != nil {
			return nil, err
		}
		return x.SerializeOutput(mode)
	case "openapi3":
		mod := &sysl.Module{Apps: map[string]*sysl.Application{syslutil.GetAppName(app.Name): app}}
		mapper := syslwrapper.MakeAppMapper(mod)
		mapper.IndexTypes()
		simple, err := mapper.Map()
		if err != nil {
			return nil, err
		}
		x := exporter.MakeOpenAPI3Exporter(simple, logger)
		if err := x.Export(); err != nil {
			return nil, err
		}
		return x.SerializeOutput(syslutil.GetAppName(app.Name), mode)
	}
	return nil, fmt.Errorf("unknown format %s", format)
}

// reimport feeds a document to the importer chosen by importer.Factory and returns the Sysl text.
func reimport(fileName string, data []byte, appName string) (string, error) {
	imp, err := importer.Factory(fileName, false, "", data, quietLogger())
	if err != nil {
		return "", fmt.Errorf("factory: %w", err)
	}
	imp, err = imp.Configure(&importer.ImporterArg{AppName: appName, PackageName: "", Imports: ""})
	if err != nil {
		return "", fmt.Errorf("configure: %w", err)
	}
	return imp.Load(string(data))
}

// ---------------------------------------------------------------------------
// Independent reading of the emitted bytes: YAML through gopkg.in/yaml.v3 (the exporters
// write through ghodss/yaml), JSON through encoding/json; both end as generic JSON values.

type obj = map[string]any

func readDoc(data []byte, mode string) (obj, error) {
	var v any
	if mode == "json" {
		if err := json.Unmarshal(data, &v); err != nil {
			return nil, err
		}
	} else {
		var y any
		if err := yaml3.Unmarshal(data, &y); err != nil {
			return nil, err
		}
		n, err := normYAML(y)
		if err != nil {
			return nil, err
		}
		// through JSON once so that numbers have the same Go types as in the JSON reading
		b, err := json.Marshal(n)
		if err != nil {
			return nil, err
		}
		if err := json.Unmarshal(b, &v); err != nil {
			return nil, err
		}
	}
	m, ok := v.(map[string]any)
	if !ok {
		return nil, fmt.Errorf("top level of the document is %T, not a mapping", v)
	}
	return m, nil
}

func normYAML(v any) (any, error) {
	switch x := v.(type) {
	case map[string]any:
		out := map[string]any{}
		for k, e := range x {
			n, err := normYAML(e)
			if err != nil {
				return nil, err
			}
			out[k] = n
		}
		return out, nil
	case map[any]any:
		out := map[string]any{}
		for k, e := range x {
			n, err := normYAML(e)
			if err != nil {
				return nil, err
			}
			out[fmt.Sprint(k)] = n
		}
		return out, nil
	case []any:
		out := make([]any, len(x))
		for i, e := range x {
			n, err := normYAML(e)
			if err != nil {
				return nil, err
			}
			out[i] = n
		}
		return out, nil
	default:
		return v, nil
	}
}

// canon renders a generic JSON value with every array sorted by the rendering of its
// elements: two documents that differ only in array order have the same canon.
func canon(v any) string {
	switch x := v.(type) {
	case map[string]any:
		ks := make([]string, 0, len(x))
		for k := range x {
			ks = append(ks, k)
		}
		sort.Strings(ks)
		s := "{"
		for i, k := range ks {
			if i > 0 {
				s += ","
			}
			kb, _ := json.Marshal(k)
			s += string(kb) + ":" + canon(x[k])
		}
		return s + "}"
	case []any:
		es := make([]string, len(x))
		for i, e := range x {
			es[i] = canon(e)
		}
		sort.Strings(es)
		s := "["
		for i, e := range es {
			if i > 0 {
				s += ","
			}
			s += e
		}
		return s + "]"
	default:
		b, _ := json.Marshal(x)
		return string(b)
	}
}

// generic accessors ---------------------------------------------------------

func asObj(v any) obj {
	m, _ := v.(map[string]any)
	return m
}

func asList(v any) []any {
	l, _ := v.([]any)
	return l
}

func asStr(v any) string {
	s, _ := v.(string)
	return s
}

func dig(m obj, path ...string) any {
	var cur any = m
	for _, p := range path {
		o := asObj(cur)
		if o == nil {
			return nil
		}
		cur = o[p]
	}
	return cur
}

func strSet(v any) (map[string]int, bool) {
	l, ok := v.([]any)
	if !ok {
		return nil, false
	}
	out := map[string]int{}
	for _, e := range l {
		s, ok := e.(string)
		if !ok {
			return nil, false
		}
		out[s]++
	}
	return out, true
}

func deepCopy(v any) any {
	b, _ := json.Marshal(v)
	var out any
	_ = json.Unmarshal(b, &out)
	return out
}

// walkRefs calls f for every "$ref" string in the document.
func walkRefs(v any, f func(ref string)) {
	switch x := v.(type) {
	case map[string]any:
		for k, e := range x {
			if k == "$ref" {
				if s, ok := e.(string); ok {
					f(s)
				}
				continue
			}
			walkRefs(e, f)
		}
	case []any:
		for _, e := range x {
			walkRefs(e, f)
		}
	}
}
