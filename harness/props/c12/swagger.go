package c12

import (
	"context"
	"encoding/json"
	"fmt"
	"regexp"
	"strings"

	"github.com/getkin/kin-openapi/openapi2"
	"github.com/getkin/kin-openapi/openapi2conv"
	"github.com/go-openapi/spec"

	"verif/fw"
)

// ---------------------------------------------------------------------------
// Kind mapping of the Swagger 2 exporter as pinned by its goldens
// (pkg/exporter/test-data/openapi2/*.yaml, docs/docs/cmd/cmd-export.md):
//   int*            -> type number,  format integer
//   float*, decimal -> type number,  format double
//   bool            -> type boolean
//   string, date, datetime, bytes -> type string, format string

func swaggerKind(prim string) (typ, format string) {
	switch prim {
	case "int", "int32", "int64":
		return "number", "integer"
	case "float", "float32", "float64", "decimal":
		return "number", "double"
	case "bool":
		return "boolean", ""
	case "string", "date", "datetime", "bytes":
		return "string", "string"
	}
	return "?", "?"
}

func swaggerKindOK(s obj, prim string) bool {
	typ, format := swaggerKind(prim)
	return asStr(s["type"]) == typ && asStr(s["format"]) == format
}

const swRef = "#/definitions/"

// Signatures of the defects of the Swagger 2 exporter that are pinned by golden files
// (FINDINGS.md §3). Everything else the Swagger oracle finds has a different signature.
const (
	sigSwRequired     = "swagger|required-never-emitted"
	sigSwRefAsFormat  = "swagger|field-ref-as-format"
	sigSwBodyAsHeader = "swagger|body-param-emitted-as-header"
	sigSwNamedResp    = "swagger|named-response-dropped"
	sigSwRespArray    = "swagger|response-array-flattened"
	sigSwPrimReturn   = "swagger|primitive-return-dangling-ref"
	sigSwPathReq      = "swagger|invalid|path-param-not-required"
	sigSwHeaderName   = "swagger|header-param-name-only-from-attr"
)

// swaggerDeviations remembers which aspects of one document were found unfaithful, so
// that the round-trip comparison does not report the same root cause a second time.
type swaggerDeviations struct {
	required, refs, body, named, respArray, primReturn, nameless bool
}

// checkSwagger is oracle 2 plus the structural half of oracle 1 for a Swagger 2 document.
// It returns the deviations seen and a repaired copy of the document in which exactly the
// pinned defects are undone, for the library validators.
func checkSwagger(a *App, doc obj, s *sink, t *tally) (dev swaggerDeviations, repaired obj) {
	const x = "swagger"
	repaired = asObj(deepCopy(doc))
	if v := asStr(doc["swagger"]); v != "2.0" {
		s.add(x+"|miss|swagger-version", "swagger version field is %q", v)
	}
	if asStr(dig(doc, "info", "title")) == "" || asStr(dig(doc, "info", "version")) == "" {
		s.add(x+"|invalid|info", "info.title and info.version are required, document has %s", show(doc["info"]))
	}
	defs := asObj(doc["definitions"])

	// one position that must carry (array of) reference or primitive
	checkField := func(got any, f Field, where string) {
		sch := asObj(got)
		if sch == nil {
			s.add(x+"|miss|field-schema", "%s: no schema (got %s)", where, show(got))
			return
		}
		elem := sch
		if f.Coll != "" {
			if asStr(sch["type"]) != "array" {
				s.add(x+"|miss|field-arrayness", "%s is declared `%s of …` but the schema is not an array: %s", where, f.Coll, show(sch))
				return
			}
			elem = asObj(sch["items"])
			if elem == nil {
				s.add(x+"|miss|field-array-items", "%s: array schema without items: %s", where, show(sch))
				return
			}
		} else if asStr(sch["type"]) == "array" {
			s.add(x+"|miss|field-arrayness", "%s is not a collection but the schema is an array: %s", where, show(sch))
			return
		}
		if f.Ref != "" {
			switch {
			case asStr(elem["$ref"]) == swRef+f.Ref:
			case asStr(elem["type"]) == "object" && asStr(elem["format"]) == f.Ref && elem["$ref"] == nil:
				dev.refs = true
				s.add(sigSwRefAsFormat, "%s references %s; the document says {type: object, format: %s} instead of {$ref: %s%s} (findSwaggerType, type_exporter.go:107-111)", where, f.Ref, f.Ref, swRef, f.Ref)
			default:
				s.add(x+"|miss|field-ref-target", "%s must reference %s, schema is %s", where, f.Ref, show(elem))
			}
			return
		}
		if _, isRef := elem["$ref"]; isRef || !swaggerKindOK(elem, f.Prim) {
			s.add(x+"|miss|field-kind", "%s is declared %s, schema is %s", where, f.Prim, show(elem))
		}
	}

	for i := range a.Types {
		td := &a.Types[i]
		sch := asObj(defs[td.Name])
		if sch == nil {
			s.add(x+"|miss|type-schema", "type %s has no schema under definitions", td.Name)
			continue
		}
		t.schemas++
		if td.Enum {
			// pinned: {type: number, format: integer} without the member names; the property
			// asks for the schema and the fields, an enum has no fields
			if asStr(sch["type"]) == "" {
				s.add(x+"|miss|enum-schema", "enum %s is exported as %s", td.Name, show(sch))
			}
			continue
		}
		if asStr(sch["type"]) != "object" {
			s.add(x+"|miss|type-not-object", "tuple type %s is exported as %s", td.Name, show(sch))
			continue
		}
		props := asObj(sch["properties"])
		want := map[string]int{}
		for _, f := range td.Fields {
			if !f.Opt {
				want[f.Name] = 1
			}
			t.fields++
			fs, ok := props[f.Name]
			if !ok {
				s.add(x+"|miss|field", "field %s.%s is missing from the schema's properties", td.Name, f.Name)
				continue
			}
			checkField(fs, f, "field "+td.Name+"."+f.Name)
		}
		if len(props) != len(td.Fields) {
			s.add(x+"|extra|field", "type %s has %d fields, schema has %d properties", td.Name, len(td.Fields), len(props))
		}
		r, present := sch["required"]
		switch {
		case !present && len(want) > 0:
			dev.required = true
			s.add(sigSwRequired, "type %s has non-optional fields %v but its schema has no `required` list (populateTypes never sets Schema.Required)", td.Name, keys(want))
		case present:
			got, ok := strSet(r)
			if !ok || !sameSet(got, want) {
				s.add(x+"|miss|required-set", "type %s: required must be exactly the non-optional fields %v, document says %s", td.Name, keys(want), show(r))
			}
		}
	}

	paths := asObj(doc["paths"])
	rpaths := asObj(repaired["paths"])
	tmpl := regexp.MustCompile(`\{([^}]*)\}`)
	for i := range a.Eps {
		e := &a.Eps[i]
		where := e.Method + " " + e.Path()
		op := asObj(dig(paths, e.Path(), strings.ToLower(e.Method)))
		if op == nil {
			s.add(x+"|miss|operation", "endpoint %s has no operation in the document", where)
			continue
		}
		rop := asObj(dig(rpaths, e.Path(), strings.ToLower(e.Method)))
		t.ops++
		params := asList(op["parameters"])
		rparams := asList(rop["parameters"])
		claimed := make([]bool, len(params))
		find := func(pred func(po obj) bool) int {
			for i, p := range params {
				if !claimed[i] && pred(asObj(p)) {
					claimed[i] = true
					return i
				}
			}
			return -1
		}
		for _, p := range e.PathParams() {
			t.params++
			p := p
			i := find(func(po obj) bool { return asStr(po["in"]) == "path" && asStr(po["name"]) == p.Name })
			if i < 0 {
				s.add(x+"|miss|path-param", "%s: path parameter %q is missing (document has %s)", where, p.Name, show(op["parameters"]))
				continue
			}
			po := asObj(params[i])
			if !swaggerKindOK(po, p.Prim) {
				s.add(x+"|miss|param-kind", "%s: path parameter %q is declared %s, document says %s", where, p.Name, p.Prim, show(po))
			}
			if req, _ := po["required"].(bool); !req {
				s.add(sigSwPathReq, "%s: path parameter %q lacks `required: true`, which Swagger 2.0 demands of every path parameter (setCommonAttributes looks for an attribute named \"required\"; ~required is a pattern)", where, p.Name)
				asObj(rparams[i])["required"] = true
			}
		}
		for _, p := range e.Query {
			t.params++
			p := p
			i := find(func(po obj) bool { return asStr(po["in"]) == "query" && asStr(po["name"]) == p.Name })
			if i < 0 {
				s.add(x+"|miss|query-param", "%s: query parameter %q is missing (document has %s)", where, p.Name, show(op["parameters"]))
				continue
			}
			if po := asObj(params[i]); !swaggerKindOK(po, p.Prim) {
				s.add(x+"|miss|param-kind", "%s: query parameter %q is declared %s, document says %s", where, p.Name, p.Prim, show(po))
			}
		}
		for _, p := range e.Header {
			t.params++
			p := p
			i := find(func(po obj) bool {
				return asStr(po["in"]) == "header" && asStr(po["name"]) == p.Name && po["schema"] == nil
			})
			if i < 0 && !p.NameAttr {
				i = find(func(po obj) bool {
					return asStr(po["in"]) == "header" && asStr(po["name"]) == "" && po["schema"] == nil && swaggerKindOK(po, p.Prim)
				})
				if i >= 0 {
					dev.nameless = true
					s.add(sigSwHeaderName, "%s: header parameter %q written without a name=\"…\" attribute is exported with an empty name (setEndpointHeaderParams takes the name only from the attribute)", where, p.Name)
					asObj(rparams[i])["name"] = p.Name
				}
			}
			if i < 0 {
				s.add(x+"|miss|header-param", "%s: header parameter %q is missing (document has %s)", where, p.Name, show(op["parameters"]))
				continue
			}
			if po := asObj(params[i]); !swaggerKindOK(po, p.Prim) {
				s.add(x+"|miss|param-kind", "%s: header parameter %q is declared %s, document says %s", where, p.Name, p.Prim, show(po))
			}
		}
		if e.Body != nil {
			t.params++
			b := e.Body
			i := find(func(po obj) bool { return asStr(po["in"]) == "body" && asStr(dig(po, "schema", "$ref")) == swRef+b.Ref })
			if i < 0 {
				i = find(func(po obj) bool {
					return asStr(po["in"]) == "header" && asStr(dig(po, "schema", "$ref")) == swRef+b.Ref && asStr(po["type"]) == "object"
				})
				if i >= 0 {
					dev.body = true
					s.add(sigSwBodyAsHeader, "%s: body parameter %s <: %s [~body] is exported as {in: header, type: object, format: %s, schema: {$ref}} (setEndpointHeaderParams looks for attributes named \"header\"/\"body\"; ~body is a pattern, so the default branch makes a header parameter)", where, b.Name, b.Ref, b.Ref)
					name := asStr(asObj(params[i])["name"])
					if name == "" {
						// written without name="…": the odd header parameter is nameless as well, and
						// the importer turns that into Sysl text that does not compile
						dev.nameless = true
						name = b.Name
					}
					rparams[i] = obj{"in": "body", "name": name, "required": !b.Opt, "schema": obj{"$ref": swRef + b.Ref}}
				} else {
					s.add(x+"|miss|body-param", "%s: body parameter %s <: %s is missing (document has %s)", where, b.Name, b.Ref, show(op["parameters"]))
				}
			}
		}
		for i, c := range claimed {
			if !c {
				s.add(x+"|extra|param", "%s: document has a parameter the endpoint does not declare: %s", where, show(params[i]))
			}
		}
		// structural validity of the parameter list (what is not already explained above)
		for i, p := range rparams {
			po := asObj(p)
			in := asStr(po["in"])
			if asStr(po["name"]) == "" {
				s.add(x+"|invalid|param-name-empty", "%s: parameter %d has no name: %s", where, i, show(params[i]))
			}
			switch in {
			case "body":
				if asObj(po["schema"]) == nil {
					s.add(x+"|invalid|body-without-schema", "%s: body parameter without schema: %s", where, show(params[i]))
				}
			case "path", "query", "header", "formData":
				switch asStr(po["type"]) {
				case "string", "number", "integer", "boolean", "array", "file":
				default:
					s.add(x+"|invalid|param-type", "%s: %s parameter has type %q: %s", where, in, asStr(po["type"]), show(params[i]))
				}
			default:
				s.add(x+"|invalid|param-in", "%s: parameter with in=%q", where, in)
			}
		}
		for _, m := range tmpl.FindAllStringSubmatch(e.Path(), -1) {
			ok := false
			for _, p := range params {
				if asStr(asObj(p)["in"]) == "path" && asStr(asObj(p)["name"]) == m[1] {
					ok = true
				}
			}
			if !ok {
				s.add(x+"|invalid|path-template-param", "%s: template variable {%s} has no path parameter", where, m[1])
			}
		}

		resps := asObj(op["responses"])
		rresps := asObj(rop["responses"])
		droppedNamed, numeric := 0, 0
		for _, rt := range e.Rets {
			t.responses++
			key := respKey(rt.Label)
			ro := asObj(resps[key])
			if ro == nil {
				if rt.Label == "ok" || rt.Label == "error" {
					dev.named = true
					droppedNamed++
					s.add(sigSwNamedResp, "%s: `return %s <: %s` is not exported at all (exportChildStmts does strconv.Atoi on the label and skips the statement when that fails); expected response %q", where, rt.Label, typeExpr(rt.Prim, rt.Ref, rt.Coll), key)
				} else {
					s.add(x+"|miss|response", "%s: `return %s <: …` has no response %q (document has %v)", where, rt.Label, key, keys2(resps))
				}
				continue
			}
			numeric++
			if asStr(ro["description"]) == "" {
				s.add(x+"|invalid|response-description", "%s: response %s has no description", where, key)
			}
			sch := asObj(ro["schema"])
			rro := asObj(rresps[key])
			switch {
			case rt.Prim != "":
				if asStr(sch["$ref"]) == swRef+rt.Prim {
					dev.primReturn = true
					s.add(sigSwPrimReturn, "%s: `return %s <: %s` is exported as {$ref: %s%s}, a reference to a definition that does not exist (exportChildStmts turns every payload into a $ref)", where, rt.Label, rt.Prim, swRef, rt.Prim)
					typ, _ := oas3Kind(rt.Prim)
					rro["schema"] = obj{"type": typ}
				} else if typ, _ := oas3Kind(rt.Prim); asStr(sch["type"]) != typ {
					s.add(x+"|miss|response-kind", "%s: response %s is declared %s, schema is %s", where, key, rt.Prim, show(ro["schema"]))
				}
			case rt.Coll != "":
				switch {
				case asStr(sch["type"]) == "array" && asStr(dig(sch, "items", "$ref")) == swRef+rt.Ref:
				case asStr(sch["$ref"]) == swRef+rt.Ref:
					dev.respArray = true
					s.add(sigSwRespArray, "%s: `return %s <: %s of %s` is exported as a plain {$ref: %s%s}; the array is lost (exportChildStmts keeps only the last word of a composite payload)", where, rt.Label, rt.Coll, rt.Ref, swRef, rt.Ref)
				default:
					s.add(x+"|miss|response-ref-target", "%s: response %s must be an array of %s, schema is %s", where, key, rt.Ref, show(ro["schema"]))
				}
			default:
				if asStr(sch["$ref"]) != swRef+rt.Ref {
					s.add(x+"|miss|response-ref-target", "%s: response %s must reference %s, schema is %s", where, key, rt.Ref, show(ro["schema"]))
				}
			}
		}
		if len(resps) == 0 {
			if droppedNamed == len(e.Rets) && droppedNamed > 0 {
				// consequence of the dropped named responses; keep the rest of the document checkable
				rresps["default"] = obj{"description": "placeholder for the dropped responses"}
				if rop["responses"] == nil {
					rop["responses"] = rresps
				}
			} else {
				s.add(x+"|invalid|responses-empty", "%s: the responses object is empty", where)
			}
		}
		if rop["responses"] == nil || len(asObj(rop["responses"])) == 0 {
			rop["responses"] = obj{"default": obj{"description": "placeholder for the dropped responses"}}
		}
	}
	// every reference resolves (after the pinned primitive-return references are set aside)
	rdefs := asObj(repaired["definitions"])
	walkRefs(repaired, func(ref string) {
		if !strings.HasPrefix(ref, swRef) || rdefs[strings.TrimPrefix(ref, swRef)] == nil {
			s.add(x+"|miss|dangling-ref", "reference %q does not resolve inside the document", ref)
		}
	})
	// schema sanity: every schema under definitions has a type, arrays have items
	var walk func(where string, v any)
	walk = func(where string, v any) {
		sch := asObj(v)
		if sch == nil {
			return
		}
		if _, isRef := sch["$ref"]; !isRef && asStr(sch["type"]) == "" {
			s.add(x+"|invalid|schema-type-empty", "%s has no type: %s", where, show(sch))
		}
		if asStr(sch["type"]) == "array" {
			if asObj(sch["items"]) == nil {
				s.add(x+"|invalid|array-without-items", "%s is an array without items", where)
			}
			walk(where+"[]", sch["items"])
		}
		for k, p := range asObj(sch["properties"]) {
			walk(where+"."+k, p)
		}
	}
	for k, v := range defs {
		walk("definitions."+k, v)
	}
	return dev, repaired
}

// validateSwagger is the library half of oracle 1: go-openapi/spec (unmarshal + reference
// expansion) and kin-openapi (openapi2 → openapi3 conversion + validation, the same route
// sysl's own Swagger importer takes). It runs on the repaired copy, so the pinned defects
// reported above do not hide anything else.
func validateSwagger(repaired obj, s *sink) (validations int) {
	const x = "swagger"
	b, _ := json.Marshal(repaired)
	var sw spec.Swagger
	var err error
	validations++
	if pi := fw.Guard(func() {
		if err = json.Unmarshal(b, &sw); err == nil {
			err = spec.ExpandSpec(&sw, &spec.ExpandOptions{SkipSchemas: false, ContinueOnError: false})
		}
	}); pi != nil {
		err = fmt.Errorf("go-openapi/spec panicked: %s", pi.Value)
	}
	if err != nil {
		s.add(x+"|invalid|lib-spec|"+msgShape(err.Error()), "go-openapi/spec rejects the document (apart from the pinned defects): %s", err)
	}
	validations++
	var d2 openapi2.T
	if pi := fw.Guard(func() {
		if err = json.Unmarshal(b, &d2); err == nil {
			v3, e := openapi2conv.ToV3(&d2)
			err = e
			if err == nil {
				err = v3.Validate(context.Background())
			}
		}
	}); pi != nil {
		err = fmt.Errorf("kin-openapi panicked: %s", pi.Value)
	}
	if err != nil {
		s.add(x+"|invalid|lib-kin|"+msgShape(err.Error()), "kin-openapi (openapi2conv + validate) rejects the document (apart from the pinned defects): %s", err)
	}
	return validations
}

// msgShape reduces a validator message to its shape: no paths, names, numbers.
func msgShape(m string) string {
	m = firstLine(m)
	var out []string
	for _, w := range strings.Fields(m) {
		switch {
		case strings.ContainsAny(w, "/{}#"):
			w = "P"
		case strings.ContainsAny(w, `"'`):
			w = "Q"
		case w == "GET:" || w == "POST:" || w == "PUT:" || w == "DELETE:" || w == "PATCH:":
			w = "M:"
		case len(w) > 0 && w[0] >= 'A' && w[0] <= 'Z' && !strings.HasSuffix(w, ":") && w != "MUST":
			w = "X"
		}
		if len(out) > 0 && out[len(out)-1] == w && (w == "P" || w == "Q" || w == "X") {
			continue
		}
		out = append(out, w)
	}
	r := fw.MsgClass(strings.Join(out, " "))
	return r
}
