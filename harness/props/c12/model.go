package c12

import (
	"fmt"
	"sort"
	"strings"

	"verif/fw"
)

// ---------------------------------------------------------------------------
// The description of a REST-style application: this is the independent reference the
// oracles compare the exported documents with. Nothing in here is derived from the
// compiled model or from the exporters.

// Field of a tuple type.
type Field struct {
	Name string
	Prim string // primitive kind as written in Sysl ("" when Ref is set)
	Ref  string // name of a tuple or enum type of the same application
	Coll string // "", "sequence", "set"
	Opt  bool   // written with a trailing '?'
}

// TypeDef is a tuple type (!type) or an enum (!enum).
type TypeDef struct {
	Name   string
	Enum   bool
	Items  []string // enum member names
	Fields []Field
}

// Param is a path, query or header parameter (primitive typed).
type Param struct {
	Name     string
	Prim     string
	Opt      bool
	NameAttr bool   // header: carries name="<Name>" (the form the importers write)
	Legacy   string // header: extra importer-style pattern "required" / "optional" / ""
}

// Body is the ~body parameter.
type Body struct {
	Name      string
	Ref       string
	Opt       bool
	NameAttr  bool
	MediaType bool
}

// Ret is one typed return statement.
type Ret struct {
	Label string // "ok", "error" or a three digit status code
	Prim  string // payload: primitive …
	Ref   string // … or reference
	Coll  string // "", "sequence", "set"
}

type Seg struct {
	Lit   string
	Param *Param
}

type Endpoint struct {
	Segs   []Seg // full path (including the group prefix)
	Method string
	Query  []Param
	Header []Param
	Body   *Body
	Rets   []Ret
}

type App struct {
	Parts   []string // name parts ("Ns", "Shop")
	Long    string
	Version string
	Desc    string
	Host    string
	EnvURL  string // @env.1.url — the only source of servers[0].url in the OpenAPI 3 exporter
	Group   string // "/api/v1": paths starting with it are rendered nested below it
	Types   []TypeDef
	Eps     []Endpoint
}

func (a *App) Name() string { return strings.Join(a.Parts, " :: ") }

func (e *Endpoint) Path() string {
	var b strings.Builder
	for _, s := range e.Segs {
		b.WriteByte('/')
		if s.Param != nil {
			b.WriteString("{" + s.Param.Name + "}")
		} else {
			b.WriteString(s.Lit)
		}
	}
	return b.String()
}

func (e *Endpoint) PathParams() []Param {
	var ps []Param
	for _, s := range e.Segs {
		if s.Param != nil {
			ps = append(ps, *s.Param)
		}
	}
	return ps
}

func (e *Endpoint) syslPath() string {
	var b strings.Builder
	for _, s := range e.Segs {
		b.WriteByte('/')
		if s.Param != nil {
			b.WriteString("{" + s.Param.Name + " <: " + s.Param.Prim + "}")
		} else {
			b.WriteString(s.Lit)
		}
	}
	return b.String()
}

func (a *App) typeByName(n string) *TypeDef {
	for i := range a.Types {
		if a.Types[i].Name == n {
			return &a.Types[i]
		}
	}
	return nil
}

// ---------------------------------------------------------------------------
// Generator

var (
	typeNames  = []string{"Item", "Order", "Customer", "Invoice", "Address", "Product", "Payment", "Account", "Shipment", "Review"}
	enumNames  = []string{"Colour", "Status", "Kind", "Level"}
	enumItems  = []string{"red", "green", "blue", "open", "closed", "pending", "low", "mid", "high", "alpha", "beta"}
	fieldNames = []string{"id", "name", "code", "label", "note", "qty", "price", "rate", "active", "created", "updated", "payload",
		"owner", "parent", "child", "items", "tags", "lines", "score", "weight", "height", "width", "email", "phone", "city", "zip", "sku", "total", "tax"}
	fieldPrims  = []string{"int", "string", "bool", "float", "decimal", "date", "datetime", "bytes", "int32", "int64", "float64", "float32", "string", "int"}
	pathWords   = []string{"items", "orders", "customers", "invoices", "list", "search", "status", "things", "reports", "users", "accounts", "batch"}
	pathPNames  = []string{"id", "key", "oid", "cid", "slug"}
	queryNames  = []string{"q", "lim", "offset", "sort", "filter", "page", "since", "flag"}
	headerNames = []string{"tok", "trace", "tenant", "lang", "reqid"}
	bodyNames   = []string{"req", "body", "payload", "input"}
	methods     = []string{"GET", "POST", "PUT", "DELETE", "PATCH"}
	okCodes     = []string{"201", "202", "204", "400", "401", "403", "404", "409", "500", "503"}
)

func pickN(r *fw.Rand, pool []string, n int) []string {
	p := r.Perm(len(pool))
	if n > len(pool) {
		n = len(pool)
	}
	out := make([]string, n)
	for i := 0; i < n; i++ {
		out[i] = pool[p[i]]
	}
	return out
}

// Generate builds a random REST application inside the exportable subset (FINDINGS.md §1).
func Generate(r *fw.Rand) *App {
	a := &App{Parts: []string{"Shop"}, Long: "Shop Service", Version: fmt.Sprintf("%d.%d.%d", r.Intn(3), r.Intn(10), r.Intn(10))}
	if r.Chance(1, 6) {
		a.Parts = []string{"Ns", "Shop"}
	}
	if r.Chance(1, 2) {
		a.Desc = "demo application"
	}
	if r.Chance(1, 2) {
		a.Host = "shop.example.com"
	}
	if r.Chance(1, 2) {
		a.EnvURL = "https://shop.example.com/v1"
	}
	// Two constructs make the Swagger document unimportable (FINDINGS.md K6, K8), which would
	// silence the Swagger round trip; they are confined to a quarter of the applications each.
	primReturns := r.Chance(1, 4)
	bareParams := r.Chance(1, 4)

	// ---- types
	nT := r.Range(2, 5)
	tn := pickN(r, typeNames, nT)
	nE := r.Range(0, 2)
	en := pickN(r, enumNames, nE)
	for _, n := range en {
		a.Types = append(a.Types, TypeDef{Name: n, Enum: true, Items: pickN(r, enumItems, r.Range(2, 4))})
	}
	refTargets := append(append([]string{}, tn...), en...)
	for ti, n := range tn {
		td := TypeDef{Name: n}
		nf := r.Range(2, 7)
		names := pickN(r, fieldNames, nf)
		for _, fn := range names {
			f := Field{Name: fn, Opt: r.Chance(2, 5)}
			switch k := r.Intn(10); {
			case k < 4: // primitive
				f.Prim = r.Pick(fieldPrims)
			case k < 5: // collection of primitive
				f.Prim = r.Pick([]string{"string", "int", "bool", "float"})
				f.Coll = "sequence"
				if r.Chance(1, 4) {
					f.Coll = "set"
				}
			case k < 8: // reference
				f.Ref = r.Pick(refTargets)
			default: // collection of reference
				f.Ref = r.Pick(refTargets)
				f.Coll = "sequence"
				if r.Chance(1, 5) {
					f.Coll = "set"
				}
			}
			td.Fields = append(td.Fields, f)
		}
		// shape the recursion deliberately
		switch r.Intn(5) {
		case 0: // self reference
			td.Fields[0] = Field{Name: td.Fields[0].Name, Ref: n, Opt: true}
		case 1: // self reference inside an (optional) sequence
			td.Fields[0] = Field{Name: td.Fields[0].Name, Ref: n, Coll: "sequence", Opt: r.Chance(1, 2)}
		case 2: // mutual recursion with the next type
			other := tn[(ti+1)%len(tn)]
			td.Fields[1] = Field{Name: td.Fields[1].Name, Ref: other, Opt: r.Chance(1, 2)}
		}
		a.Types = append(a.Types, td)
	}
	// close one mutual-recursion cycle explicitly: last -> first and first -> last
	if r.Chance(1, 2) {
		first, last := a.typeByName(tn[0]), a.typeByName(tn[len(tn)-1])
		if first != last {
			first.Fields[len(first.Fields)-1] = Field{Name: first.Fields[len(first.Fields)-1].Name, Ref: last.Name, Coll: "sequence"}
			last.Fields[len(last.Fields)-1] = Field{Name: last.Fields[len(last.Fields)-1].Name, Ref: first.Name, Opt: true}
		}
	}
	// shuffle the declaration order of the types
	p := r.Perm(len(a.Types))
	ts := make([]TypeDef, len(a.Types))
	for i, j := range p {
		ts[i] = a.Types[j]
	}
	a.Types = ts

	// ---- endpoints
	if r.Chance(1, 3) {
		a.Group = "/api/v" + fmt.Sprint(r.Range(1, 3))
	}
	nEp := r.Range(1, 6)
	used := map[string]bool{}      // METHOD path
	skeletons := map[string]bool{} // path with parameter names erased
	var paths [][]Seg
	for len(a.Eps) < nEp {
		var segs []Seg
		if len(paths) > 0 && r.Chance(2, 5) {
			segs = paths[r.Intn(len(paths))]
		} else {
			for try := 0; try < 20; try++ {
				segs = nil
				if a.Group != "" && r.Chance(2, 3) {
					for _, w := range strings.Split(strings.TrimPrefix(a.Group, "/"), "/") {
						segs = append(segs, Seg{Lit: w})
					}
				}
				pn := pickN(r, pathPNames, 2)
				segs = append(segs, Seg{Lit: r.Pick(pathWords)})
				for d := r.Intn(4); d > 0; d-- {
					if len(pn) > 0 && r.Chance(1, 2) && segs[len(segs)-1].Param == nil {
						segs = append(segs, Seg{Param: &Param{Name: pn[0], Prim: r.Pick([]string{"int", "string", "int64"})}})
						pn = pn[1:]
					} else {
						segs = append(segs, Seg{Lit: r.Pick(pathWords)})
					}
				}
				sk := skeleton(segs)
				if !skeletons[sk] {
					skeletons[sk] = true
					paths = append(paths, segs)
					break
				}
				segs = nil
			}
			if segs == nil {
				segs = paths[r.Intn(len(paths))]
			}
		}
		ep := Endpoint{Segs: segs, Method: r.Pick(methods)}
		key := ep.Method + " " + ep.Path()
		if used[key] {
			// try the other methods before giving up on this path
			found := false
			for _, m := range methods {
				if !used[m+" "+ep.Path()] {
					ep.Method, key, found = m, m+" "+ep.Path(), true
					break
				}
			}
			if !found {
				continue
			}
		}
		used[key] = true
		taken := map[string]bool{}
		for _, pp := range ep.PathParams() {
			taken[pp.Name] = true
		}
		fresh := func(pool []string, n int) []string {
			var out []string
			for _, c := range pickN(r, pool, len(pool)) {
				if len(out) == n {
					break
				}
				if !taken[c] {
					taken[c] = true
					out = append(out, c)
				}
			}
			return out
		}
		nq := []int{0, 1, 2, 2, 3}[r.Intn(5)]
		for _, qn := range fresh(queryNames, nq) {
			ep.Query = append(ep.Query, Param{Name: qn, Prim: r.Pick([]string{"string", "int", "bool", "float", "string"}), Opt: r.Chance(1, 2)})
		}
		nh := []int{0, 0, 1, 2}[r.Intn(4)]
		for _, hn := range fresh(headerNames, nh) {
			h := Param{Name: hn, Prim: r.Pick([]string{"string", "string", "int", "bool"}), Opt: r.Chance(1, 3), NameAttr: !(bareParams && r.Chance(1, 2))}
			if r.Chance(1, 2) {
				h.Legacy = "required"
				if h.Opt {
					h.Legacy = "optional"
				}
			}
			ep.Header = append(ep.Header, h)
		}
		if ep.Method != "GET" && ep.Method != "DELETE" && r.Chance(3, 4) {
			ep.Body = &Body{Name: fresh(bodyNames, 1)[0], Ref: r.Pick(tn), Opt: r.Chance(1, 6), NameAttr: !(bareParams && r.Chance(1, 2)), MediaType: r.Chance(1, 3)}
		}
		// make sure the parameter map has at least two entries most of the time
		if len(ep.PathParams())+len(ep.Query)+len(ep.Header) < 2 && r.Chance(3, 4) {
			for _, qn := range fresh(queryNames, 2) {
				ep.Query = append(ep.Query, Param{Name: qn, Prim: r.Pick([]string{"string", "int", "bool"}), Opt: r.Chance(1, 2)})
			}
		}
		// returns
		nr := []int{1, 2, 2, 3, 3, 4}[r.Intn(6)]
		var labels []string
		if r.Chance(3, 5) {
			labels = append(labels, "ok")
		} else {
			labels = append(labels, "200")
		}
		if r.Chance(1, 2) {
			labels = append(labels, "error")
		}
		labels = append(labels, pickN(r, okCodes, 4)...)
		if r.Chance(1, 5) { // not every endpoint starts with the success response
			labels = labels[1:]
		}
		labels = labels[:nr]
		for _, l := range labels {
			rt := Ret{Label: l, Ref: r.Pick(tn)}
			switch k := r.Intn(20); {
			case k < 5:
				rt.Coll = "sequence"
			case k < 6:
				rt.Coll = "set"
			case k < 9 && primReturns:
				rt.Ref, rt.Prim = "", r.Pick([]string{"string", "bool", "date", "datetime"})
			}
			ep.Rets = append(ep.Rets, rt)
		}
		// written order of the return statements is random
		pr := r.Perm(len(ep.Rets))
		rs := make([]Ret, len(ep.Rets))
		for i, j := range pr {
			rs[i] = ep.Rets[j]
		}
		ep.Rets = rs
		a.Eps = append(a.Eps, ep)
	}
	return a
}

func skeleton(segs []Seg) string {
	var b strings.Builder
	for _, s := range segs {
		if s.Param != nil {
			b.WriteString("/{}")
		} else {
			b.WriteString("/" + s.Lit)
		}
	}
	return b.String()
}

// ---------------------------------------------------------------------------
// Renderer: description -> Sysl text

func typeExpr(prim, ref, coll string) string {
	t := prim
	if ref != "" {
		t = ref
	}
	if coll != "" {
		t = coll + " of " + t
	}
	return t
}

func Render(a *App) string {
	var b strings.Builder
	fmt.Fprintf(&b, "%s %q:\n", a.Name(), a.Long)
	fmt.Fprintf(&b, "    @version = %q\n", a.Version)
	if a.Desc != "" {
		fmt.Fprintf(&b, "    @description = %q\n", a.Desc)
	}
	if a.Host != "" {
		fmt.Fprintf(&b, "    @host = %q\n", a.Host)
	}
	if a.EnvURL != "" {
		fmt.Fprintf(&b, "    @env.1.url = %q\n", a.EnvURL)
	}
	b.WriteString("\n")

	// endpoints: one block per distinct path, in first-appearance order; paths below the
	// group prefix are nested under it.
	var order []string
	byPath := map[string][]*Endpoint{}
	for i := range a.Eps {
		e := &a.Eps[i]
		p := e.syslPath()
		if _, ok := byPath[p]; !ok {
			order = append(order, p)
		}
		byPath[p] = append(byPath[p], e)
	}
	var nested, flat []string
	for _, p := range order {
		if a.Group != "" && strings.HasPrefix(p, a.Group+"/") {
			nested = append(nested, p)
		} else {
			flat = append(flat, p)
		}
	}
	emit := func(indent, shown, p string) {
		fmt.Fprintf(&b, "%s%s:\n", indent, shown)
		for _, e := range byPath[p] {
			b.WriteString(indent + "    " + e.Method)
			var ps []string
			if e.Body != nil {
				at := []string{"~body"}
				if e.Body.NameAttr {
					at = append(at, fmt.Sprintf("name=%q", e.Body.Name))
				}
				if e.Body.MediaType {
					at = append(at, `mediatype="application/json"`)
				}
				opt := ""
				if e.Body.Opt {
					opt = "?"
				}
				ps = append(ps, fmt.Sprintf("%s <: %s%s [%s]", e.Body.Name, e.Body.Ref, opt, strings.Join(at, ", ")))
			}
			for _, h := range e.Header {
				at := []string{"~header"}
				if h.Legacy != "" {
					at = append(at, "~"+h.Legacy)
				}
				if h.NameAttr {
					at = append(at, fmt.Sprintf("name=%q", h.Name))
				}
				opt := ""
				if h.Opt {
					opt = "?"
				}
				ps = append(ps, fmt.Sprintf("%s <: %s%s [%s]", h.Name, h.Prim, opt, strings.Join(at, ", ")))
			}
			if len(ps) > 0 {
				b.WriteString(" (" + strings.Join(ps, ", ") + ")")
			}
			if len(e.Query) > 0 {
				var qs []string
				for _, q := range e.Query {
					s := q.Name + "=" + q.Prim
					if q.Opt {
						s += "?"
					}
					qs = append(qs, s)
				}
				b.WriteString(" ?" + strings.Join(qs, "&"))
			}
			b.WriteString(":\n")
			for _, rt := range e.Rets {
				fmt.Fprintf(&b, "%s        return %s <: %s\n", indent, rt.Label, typeExpr(rt.Prim, rt.Ref, rt.Coll))
			}
		}
	}
	if len(nested) > 0 {
		fmt.Fprintf(&b, "    %s:\n", a.Group)
		for _, p := range nested {
			emit("        ", strings.TrimPrefix(p, a.Group), p)
		}
	}
	for _, p := range flat {
		emit("    ", p, p)
	}
	b.WriteString("\n")
	for _, t := range a.Types {
		if t.Enum {
			fmt.Fprintf(&b, "    !enum %s:\n", t.Name)
			for i, it := range t.Items {
				fmt.Fprintf(&b, "        %s: %d\n", it, i+1)
			}
			continue
		}
		fmt.Fprintf(&b, "    !type %s:\n", t.Name)
		for _, f := range t.Fields {
			opt := ""
			if f.Opt {
				opt = "?"
			}
			fmt.Fprintf(&b, "        %s <: %s%s\n", f.Name, typeExpr(f.Prim, f.Ref, f.Coll), opt)
		}
	}
	return b.String()
}

// ---------------------------------------------------------------------------
// Measurement of the generated description (evidence; non-triviality)

type Stats struct {
	Tuples, Enums, Fields, RefFields, Eps, Params, Rets int
	MaxParams, MaxRets                                  int
	Constructs                                          []string
}

func Measure(a *App) Stats {
	var st Stats
	cs := map[string]bool{}
	refs := map[string][]string{}
	for _, t := range a.Types {
		if t.Enum {
			st.Enums++
			cs["enum"] = true
			continue
		}
		st.Tuples++
		for _, f := range t.Fields {
			st.Fields++
			if f.Opt {
				cs["optional-field"] = true
			}
			if f.Coll == "set" {
				cs["set-field"] = true
			}
			if f.Coll == "sequence" {
				cs["sequence-field"] = true
			}
			if f.Ref == "" {
				if f.Coll != "" && f.Opt {
					cs["optional-primitive-array"] = true
				}
				continue
			}
			st.RefFields++
			if tt := a.typeByName(f.Ref); tt != nil && tt.Enum {
				cs["enum-ref-field"] = true
				continue
			}
			refs[t.Name] = append(refs[t.Name], f.Ref)
			if f.Ref == t.Name {
				cs["recursive-type"] = true
			}
			if f.Coll != "" && f.Opt {
				cs["optional-ref-in-sequence"] = true
			}
			if f.Coll != "" && !f.Opt {
				cs["ref-in-sequence"] = true
			}
			if f.Coll == "" && f.Opt {
				cs["optional-ref"] = true
			}
		}
	}
	// mutual recursion: a cycle of length >= 2 in the reference graph
	for s := range refs {
		seen := map[string]bool{}
		var walk func(n string, depth int) bool
		walk = func(n string, depth int) bool {
			for _, m := range refs[n] {
				if m == s && depth >= 1 && n != s {
					return true
				}
				if !seen[m] && m != s {
					seen[m] = true
					if walk(m, depth+1) {
						return true
					}
				}
			}
			return false
		}
		if walk(s, 0) {
			cs["mutual-recursion"] = true
		}
	}
	if len(a.Parts) > 1 {
		cs["namespaced-app"] = true
	}
	if a.EnvURL == "" {
		cs["no-server-url"] = true
	} else {
		cs["server-url"] = true
	}
	if a.Group != "" {
		cs["nested-path-group"] = true
	}
	perPath := map[string]int{}
	for i := range a.Eps {
		e := &a.Eps[i]
		st.Eps++
		perPath[e.Path()]++
		np := len(e.PathParams()) + len(e.Query) + len(e.Header)
		if e.Body != nil {
			np++
			cs["body-param"] = true
			if e.Body.Opt {
				cs["optional-body"] = true
			}
			if !e.Body.NameAttr {
				cs["body-without-name-attr"] = true
			}
		}
		st.Params += np
		if np > st.MaxParams {
			st.MaxParams = np
		}
		if len(e.PathParams()) >= 1 {
			cs["path-param"] = true
		}
		if len(e.PathParams()) >= 2 {
			cs["two-path-params"] = true
		}
		if len(e.Query) >= 2 {
			cs["multi-query"] = true
		}
		for _, q := range e.Query {
			if q.Opt {
				cs["optional-query"] = true
			}
		}
		for _, h := range e.Header {
			cs["header-param"] = true
			if !h.NameAttr {
				cs["header-without-name-attr"] = true
			}
			if h.Opt {
				cs["optional-header"] = true
			}
		}
		st.Rets += len(e.Rets)
		if len(e.Rets) > st.MaxRets {
			st.MaxRets = len(e.Rets)
		}
		if len(e.Rets) >= 2 {
			cs["multi-response"] = true
		}
		for _, rt := range e.Rets {
			switch rt.Label {
			case "ok":
				cs["return-ok"] = true
			case "error":
				cs["return-error"] = true
			default:
				cs["return-numeric-code"] = true
			}
			switch {
			case rt.Coll == "sequence":
				cs["sequence-return"] = true
			case rt.Coll == "set":
				cs["set-return"] = true
			case rt.Prim != "":
				cs["primitive-return"] = true
			}
		}
		cs["method-"+e.Method] = true
	}
	for _, n := range perPath {
		if n >= 2 {
			cs["multi-method-path"] = true
		}
	}
	for c := range cs {
		st.Constructs = append(st.Constructs, c)
	}
	sort.Strings(st.Constructs)
	return st
}
