// Package c12: OpenAPI export is a valid document that carries every type and endpoint.
//
// A generator draws a REST-style application from its own description (model.go), the
// real parser compiles the rendered text, the real exporters produce the four documents
// {swagger, openapi3} x {yaml, json}, and three oracles judge the bytes against the
// description: library validators (oas3.go, swagger.go), a structural reading of the
// document (oas3.go, swagger.go) and a re-import through importer.Factory (roundtrip.go).
package c12

import (
	"fmt"
	"os"
	"path/filepath"
	"strings"

	"github.com/anz-bank/sysl/pkg/sysl"

	"verif/fw"
)

type prop struct{}

func init() { fw.Register(prop{}) }

func (prop) ID() string { return "C12" }

func (prop) Cases(tier string) int {
	if tier == "thorough" {
		return 6000
	}
	return 200
}

// reimportEvery: the OpenAPI 3 importer (arr.ai) needs about 4 s per document, so the
// OpenAPI 3 round trip runs on every n-th case; the Swagger importer is fast and runs always.
func reimportEvery(tier string) int {
	if tier == "thorough" {
		return 10
	}
	return 8
}

func (prop) Info() fw.Info {
	return fw.Info{
		Level: "exploration",
		Rule:  "case i = random REST application description from PRNG(seed,i): 2-5 tuple types (2-7 fields: 12 primitive kinds, optional, sequence/set of primitive, reference, sequence/set of reference, self and mutual recursion), 0-2 enums, 1-6 REST endpoints (nested path groups, 0-2 typed path variables, 0-3 query, 0-2 header, optional body parameter, 1-4 typed returns ok/error/numeric with reference, sequence, set or primitive payloads), rendered to Sysl, compiled by the real parser, exported in-process as cmd_export.go does in 4 configurations {swagger,openapi3}x{yaml,json}; each document is parsed independently (yaml.v3 / encoding/json), validated with kin-openapi (and go-openapi/spec for Swagger), compared structurally with the description, and re-imported (Swagger always, OpenAPI 3 every 8th/10th case). Non-trivial: >= 2 tuple types, >= 1 reference field, and an endpoint with >= 2 parameters and one with >= 2 responses; distinct by hash of the rendered text.",
		Assumptions: []string{
			"the exportable subset and the kind mappings are those of docs/docs/cmd/cmd-export.md and the exporter goldens, written down in props/c12/FINDINGS.md",
			"kin-openapi v0.124 (loader+validator, openapi2conv) and go-openapi/spec v0.20.4 are the validity judges; kin-openapi's circular-reference give-up counter is raised because it rejects legal recursive schemas",
			"the real parser is trusted to compile the generated and the re-imported text (its fidelity is property C02)",
			"array order inside the documents (required, enum, parameters) is not compared (property C19)",
		},
		CaseTimeout: 900,
		SetFloors:   map[string]int{"constructs": 30},
		CountFloors: map[string]int{
			"docs_swagger_yaml": 100, "docs_swagger_json": 100, "docs_openapi3_yaml": 100, "docs_openapi3_json": 100,
			"schemas_compared": 1000, "fields_compared": 4000, "operations_compared": 1000, "params_compared": 2000, "responses_compared": 2000,
			"validations_run": 800, "reimports_swagger": 60, "reimports_openapi3": 20,
			"roundtrip_fields_compared": 500, "roundtrip_endpoints_compared": 100,
		},
	}
}

type config struct{ format, mode string }

var configs = []config{{"swagger", "yaml"}, {"swagger", "json"}, {"openapi3", "yaml"}, {"openapi3", "json"}}

func (prop) Run(ctx *fw.Ctx, i int) fw.Result {
	r := ctx.Rng()
	a := Generate(r.Fork())
	text := Render(a)
	st := Measure(a)
	res := fw.Result{Hash: fw.HashOf(text)}
	res.NonTrivial = st.Tuples >= 2 && st.RefFields >= 1 && st.MaxParams >= 2 && st.MaxRets >= 2
	for _, c := range st.Constructs {
		res.Add("constructs", c)
	}
	res.Sample = map[string]any{"case": i, "types": st.Tuples + st.Enums, "fields": st.Fields, "endpoints": st.Eps, "params": st.Params,
		"returns": st.Rets, "constructs": st.Constructs, "text_head": head(text, 30)}
	// the exporters run inside this process and contain index expressions that can kill it
	_ = os.WriteFile(filepath.Join(ctx.Dir, "root.sysl"), []byte(text), 0o644)
	files := map[string]string{"root.sysl": text}
	var s sink
	flush := func() fw.Result {
		for _, sig := range s.order {
			h := s.m[sig]
			msg := h.msg
			if h.n > 1 {
				msg += fmt.Sprintf(" (and %d more of this kind in the same case)", h.n-1)
			}
			res.Violate(sig, msg, files)
		}
		return res
	}

	var mod *sysl.Module
	var err error
	if pi := fw.Guard(func() { mod, err = compile("root.sysl", text) }); pi != nil {
		files["stack.txt"] = pi.Stack
		s.add(fw.CrashSig("panic", pi.Value, pi.Stack), "the compiler panicked on a generated REST application: %s", pi.Value)
		return flush()
	}
	if err != nil {
		s.add("compile|"+fw.MsgClass(err.Error()), "the compiler rejected a generated REST application: %s", err)
		return flush()
	}
	app := mod.GetApps()[a.Name()]
	if app == nil {
		s.add("compile|app-missing", "application %q is not in the compiled module", a.Name())
		return flush()
	}

	var tOAS, tSW tally
	docs := map[config]obj{}
	raw := map[config][]byte{}
	var dev swaggerDeviations
	for _, c := range configs {
		x := c.format
		var out []byte
		pi := fw.Guard(func() { out, err = exportDoc(app, c.format, c.mode) })
		if pi != nil {
			files["stack-"+x+"-"+c.mode+".txt"] = pi.Stack
			s.add(fw.CrashSig("panic", pi.Value, pi.Stack), "%s/%s export panicked: %s", x, c.mode, pi.Value)
			continue
		}
		if err != nil {
			s.add(x+"|export-error|"+msgShape(err.Error()), "%s export of an application of the exportable subset failed: %s", x, clipStr(err.Error(), 300))
			continue
		}
		files["out-"+x+"."+c.mode] = string(out)
		res.Count("docs_"+x+"_"+c.mode, 1)
		doc, err := readDoc(out, c.mode)
		if err != nil {
			s.add(x+"|malformed-"+c.mode, "%s output is not well-formed %s: %s", x, strings.ToUpper(c.mode), err)
			continue
		}
		docs[c], raw[c] = doc, out
		if x == "openapi3" {
			checkOAS3(a, doc, &s, &tOAS)
			res.Count("validations_run", validateOAS3(out, doc, &s))
		} else {
			d, repaired := checkSwagger(a, doc, &s, &tSW)
			dev = d
			res.Count("validations_run", validateSwagger(repaired, &s))
		}
	}
	res.Count("schemas_compared", tOAS.schemas+tSW.schemas)
	res.Count("fields_compared", tOAS.fields+tSW.fields)
	res.Count("operations_compared", tOAS.ops+tSW.ops)
	res.Count("params_compared", tOAS.params+tSW.params)
	res.Count("responses_compared", tOAS.responses+tSW.responses)

	// the YAML and the JSON rendering of one format say the same thing (array order aside)
	for _, x := range []string{"swagger", "openapi3"} {
		y, j := docs[config{x, "yaml"}], docs[config{x, "json"}]
		if y != nil && j != nil {
			res.Count("yaml_json_pairs_compared", 1)
			if x == "swagger" {
				// the Swagger exporter also files every collection-typed field under definitions,
				// keyed by the bare field name (type_exporter.go:74); when two types have such a
				// field of the same name the survivor depends on map order. Those entries are
				// not schemas of declared types and are left out of this comparison.
				y, j = declaredOnly(a, y), declaredOnly(a, j)
			}
			if canon(y) != canon(j) {
				s.add(x+"|yaml-json-differ", "the YAML and the JSON export of the same application differ in more than array order")
			}
		}
	}

	// ---- oracle 3: round trip
	var rt rtTally
	roundTrip := func(c config, g rtGate) {
		x := c.format
		data := raw[c]
		if data == nil {
			return
		}
		var sy string
		var err error
		if pi := fw.Guard(func() { sy, err = reimport("doc."+c.mode, data, "Re") }); pi != nil {
			files["stack-reimport-"+x+".txt"] = pi.Stack
			s.add(fw.CrashSig("panic", pi.Value, pi.Stack), "re-import of the %s/%s document panicked: %s", x, c.mode, pi.Value)
			return
		}
		res.Count("reimports_"+x, 1)
		if err != nil {
			s.add(x+"|roundtrip|reimport-error|"+msgShape(err.Error()), "the importer rejects the exported %s/%s document: %s", x, c.mode, clipStr(err.Error(), 300))
			return
		}
		files["reimported-"+x+".sysl"] = sy
		var m2 *sysl.Module
		if pi := fw.Guard(func() { m2, err = compile("re.sysl", sy) }); pi != nil {
			files["stack-recompile-"+x+".txt"] = pi.Stack
			s.add(fw.CrashSig("panic", pi.Value, pi.Stack), "compiling the re-imported %s document panicked: %s", x, pi.Value)
			return
		}
		if err != nil {
			s.add(x+"|roundtrip|reimported-sysl-rejected", "the Sysl produced by re-importing the %s/%s document does not compile: %s", x, c.mode, clipStr(err.Error(), 300))
			return
		}
		re := m2.GetApps()["Re"]
		if re == nil {
			s.add(x+"|roundtrip|app-missing", "the re-imported module has no application Re")
			return
		}
		compareRoundTrip(a, re, x, g, &s, &rt)
	}
	// Swagger: always; a document with a dangling primitive-return reference or a nameless
	// parameter cannot be imported/compiled at all, which is the consequence of a defect that
	// is already reported at document level.
	if !dev.primReturn && !dev.nameless {
		c := config{"swagger", "yaml"}
		if i%2 == 1 {
			c.mode = "json"
		}
		roundTrip(c, rtGate{swagger: true, optional: dev.required, refs: dev.refs, body: dev.body, named: dev.named, respArray: dev.respArray, paramOpt: true})
	} else {
		res.Count("reimports_swagger_gated", 1)
	}
	// (i + i/16) spreads the slow cases over all 16 workers (worker w runs cases w, w+16, …)
	if n := reimportEvery(ctx.Tier); (i+i/16)%n == 0 {
		c := config{"openapi3", "yaml"}
		if (i/n)%2 == 1 {
			c.mode = "json"
		}
		roundTrip(c, rtGate{})
	}
	res.Count("roundtrip_types_compared", rt.types)
	res.Count("roundtrip_fields_compared", rt.fields)
	res.Count("roundtrip_endpoints_compared", rt.eps)
	res.Count("roundtrip_params_compared", rt.params)
	res.Count("roundtrip_responses_compared", rt.responses)
	return flush()
}

func declaredOnly(a *App, doc obj) obj {
	c := asObj(deepCopy(doc))
	defs := asObj(c["definitions"])
	for k := range defs {
		if a.typeByName(k) == nil {
			delete(defs, k)
		}
	}
	return c
}

func head(s string, n int) string {
	ls := strings.Split(s, "\n")
	if len(ls) > n {
		ls = ls[:n]
	}
	return strings.Join(ls, "\n")
}
