// Package c06: a failed read or bad file anywhere in the import closure fails the compile
// cleanly. Fault injection through the gated reader of package sched, delivery point
// chosen by the schedule controller, under the race detector.
package c06

import (
	"errors"
	"fmt"
	"sort"
	"strings"
	"time"

	"github.com/anz-bank/sysl/pkg/parse"
	"github.com/anz-bank/sysl/pkg/syslutil"

	"verif/fw"
	"verif/sched"
)

type prop struct{}

func init() { fw.Register(prop{}) }

func (prop) ID() string { return "C06" }
// plain cases, followed by depth-race cases (sched.DepthRace graphs compiled with a depth limit)
func plainCases(tier string) int {
	if tier == "thorough" {
		return 6000
	}
	return 260
}

func (prop) Cases(tier string) int {
	if tier == "thorough" {
		return plainCases(tier) + 600
	}
	return plainCases(tier) + 40
}
func (prop) Info() fw.Info {
	return fw.Info{
		Level: "fault_enumeration",
		Rule: "case i = import graph (all digraphs on 1-2 files first, then random graphs on 3..6 files, some with an OpenAPI-2 .yaml leaf imported `as App` and a compiled-model .pb.json leaf; the last 40 (quick) / 600 (thorough) cases are depth-race graphs — a file reachable through a short and a long path with a tail of imports — compiled with a depth limit that cuts the tail along the long path only, faults placed on files nearer than the limit) x fault sets: every single reachable file, PRNG-chosen pairs/triples and, on graphs with >= 5 reachable files (every fifth random graph has 7-9 files, every fifth is a fan: the root imports 5-6 files directly), sets of 4-7 files other than the root, mostly unreadable x fault kinds {read error, content truncated inside a keyword, syntax-error line, foreign content matching no known format, broken JSON in .pb.json} x delivery points chosen through the schedule controller {faulted read released as early as possible, as late as possible, PRNG positions}. Oracle per execution: Parse returns (nil module, non-nil error); the error text names a faulted file that the reader log shows was requested; exit-code class 1 when only reads fail and 2 when only content is bad; no panic, no hang, every collectSpecs invocation joined; the same graph without faults compiles; race detector silent. Non-trivial: >= 2 files reachable and the faulted file is not the root, or >= 2 faults; distinct by graph+fault plan.",
		Assumptions: []string{"errgroup.Wait returns the first error only: naming any one faulted-and-requested file satisfies the property", "remote imports not generated"},
		Race:        true,
		CaseTimeout: 600,
		CountFloors: map[string]int{"fault_executions": 1000, "fault_points": 300, "fault_executions_with_depth_limit": 100, "plans_with_4_or_more_faults": 10},
		SetFloors:   map[string]int{"fault_kinds": 5, "delivery": 3},
	}
}

type fault struct {
	file int
	kind string
}

func applyFaults(g *sched.Graph, files map[string]string, fs []fault) map[string]sched.Fault {
	out := map[string]sched.Fault{}
	for _, f := range fs {
		name := g.Names[f.file]
		content := files[name]
		switch f.kind {
		case "read-error":
			out[name] = sched.Fault{Err: errors.New("injected: connection reset while reading " + name)}
		case "truncated":
			cut := strings.Index(content, "!type")
			if cut < 0 {
				cut = len(content) / 2
			}
			out[name] = sched.Fault{Replace: true, Content: []byte(content[:cut+3])}
		case "syntax-error":
			out[name] = sched.Fault{Replace: true, Content: []byte(content + "    ??? <<< [\n")}
		case "unknown-foreign":
			out[name] = sched.Fault{Replace: true, Content: []byte("neither: swagger\nnor: openapi\n")}
		case "broken-json":
			out[name] = sched.Fault{Replace: true, Content: []byte("{\"apps\": {\"X\": ")}
		}
	}
	return out
}

func kindsFor(g *sched.Graph, i int, r *fw.Rand) string {
	k := ""
	if i < len(g.Kind) {
		k = g.Kind[i]
	}
	switch k {
	case "yaml":
		return []string{"read-error", "unknown-foreign"}[r.Intn(2)]
	case "pbjson":
		return []string{"read-error", "broken-json"}[r.Intn(2)]
	}
	return []string{"read-error", "truncated", "syntax-error"}[r.Intn(3)]
}

func (prop) Run(ctx *fw.Ctx, i int) fw.Result {
	r := ctx.Rng()
	var res fw.Result
	var g *sched.Graph
	limit := 0
	switch {
	case i >= plainCases(ctx.Tier):
		var ls []int
		g, ls = sched.DepthRace(r)
		limit = ls[r.Intn(len(ls))]
		res.Add("graph_families", "depth-race-with-limit")
	case i < 2:
		g = sched.FromBits(1, uint64(i), r)
	case i < 18:
		g = sched.FromBits(2, uint64(i-2), r)
	case i%5 == 0:
		// wide graphs: room for many simultaneous faults
		g = sched.Random(r.Range(7, 9), r)
		res.Add("graph_families", "wide")
	case i%5 == 1:
		// the root imports five or six files directly
		g = sched.Fan(r)
		res.Add("graph_families", "fan")
	default:
		g = sched.Random(r.Range(3, 6), r)
	}
	if i >= 2 && r.Chance(1, 3) {
		g.AddForeignLeaf(r.Intn(len(g.Names)), "yaml")
	}
	if i >= 2 && r.Chance(1, 3) {
		from := r.Intn(len(g.Names))
		if from < len(g.Kind) && g.Kind[from] != "" {
			from = 0
		}
		g.AddForeignLeaf(from, "pbjson")
	}
	files := g.Render()
	dist := g.Dist()
	// the closure: reachable files, with a depth limit those nearer than the limit
	var reach []int
	for k, d := range dist {
		if d >= 0 && (limit == 0 || d < limit) {
			reach = append(reach, k)
		}
	}
	newParser := func() *parse.Parser {
		p := parse.NewParser()
		if limit > 0 {
			p.Set(parse.Settings{MaxImportDepth: limit})
		}
		return p
	}
	var hp []string
	names := make([]string, 0, len(files))
	for n := range files {
		names = append(names, n)
	}
	sort.Strings(names)
	for _, n := range names {
		hp = append(hp, n, files[n])
	}
	art := func(c *sched.Controller, plan string) map[string]string {
		m := map[string]string{"graph.txt": g.String(), "plan.txt": plan}
		for n, t := range files {
			m["files/"+n] = t
		}
		if c != nil {
			var ev strings.Builder
			for _, e := range c.Events {
				fmt.Fprintf(&ev, "%d %s %s %s d=%d n=%d\n", e.Seq, e.Kind, e.ID, e.File, e.Depth, e.N)
			}
			m["events.txt"] = ev.String()
		}
		return m
	}
	// sanity: without faults the closure compiles
	{
		c := sched.NewController(files, nil)
		c.Free = true
		out := c.Run(newParser(), "root.sysl", func(int, []string) int { return 0 }, 60*time.Second)
		if out.Err != nil || out.Module == nil || out.Panic != "" {
			res.Verdict = "inconclusive"
			res.Note = fmt.Sprintf("fault-free closure does not compile: %v %s (graph %s)", out.Err, out.Panic, g.String())
			return res
		}
	}
	// fault plans: every single reachable file, plus PRNG pairs/triples
	var plans [][]fault
	for _, f := range reach {
		plans = append(plans, []fault{{f, kindsFor(g, f, r)}})
	}
	extra := 2
	if ctx.Thorough() {
		extra = 6
	}
	for k := 0; k < extra && len(reach) >= 2; k++ {
		n := r.Range(2, 3)
		p := r.Perm(len(reach))
		var fs []fault
		for _, j := range p[:min(n, len(reach))] {
			fs = append(fs, fault{reach[j], kindsFor(g, reach[j], r)})
		}
		plans = append(plans, fs)
	}
	// many simultaneous faults (4..7 files other than the root, mostly unreadable ones)
	if len(reach) >= 5 {
		many := 1
		if ctx.Thorough() {
			many = 3
		}
		for k := 0; k < many; k++ {
			var others []int
			for _, f := range reach {
				if f != 0 {
					others = append(others, f)
				}
			}
			n := r.Range(4, min(7, len(others)))
			p := r.Perm(len(others))
			var fs []fault
			for _, j := range p[:n] {
				kind := "read-error"
				if r.Chance(1, 3) {
					kind = kindsFor(g, others[j], r)
				}
				fs = append(fs, fault{others[j], kind})
			}
			plans = append(plans, fs)
			res.Count("plans_with_4_or_more_faults", 1)
		}
	}
	deliveries := []string{"early", "late", "random", "random"}
	if ctx.Thorough() {
		deliveries = append(deliveries, "random", "random")
	}
	nontrivial := false
	for _, plan := range plans {
		faults := applyFaults(g, files, plan)
		faultedNames := map[string]bool{}
		onlyRead, noRead := true, true
		var desc []string
		for _, f := range plan {
			faultedNames[g.Names[f.file]] = true
			desc = append(desc, g.Names[f.file]+":"+f.kind)
			res.Add("fault_kinds", f.kind)
			if f.kind == "read-error" {
				noRead = false
			} else {
				onlyRead = false
			}
			if f.file != 0 && len(reach) >= 2 {
				nontrivial = true
			}
		}
		if len(plan) >= 2 {
			nontrivial = true
		}
		res.Count("fault_points", len(plan))
		hp = append(hp, strings.Join(desc, ","))
		for _, del := range deliveries {
			rr := r.Fork()
			touches := func(key string) bool {
				for n := range faultedNames {
					if strings.HasSuffix(key, n) {
						return true
					}
				}
				return false
			}
			chooser := func(step int, opts []string) int {
				switch del {
				case "early":
					for k, o := range opts {
						if strings.HasPrefix(o, "R:") && touches(o) {
							return k
						}
					}
					for k, o := range opts {
						if touches(o) {
							return k
						}
					}
					return 0
				case "late":
					for k, o := range opts {
						if !touches(o) {
							return k
						}
					}
					return 0
				}
				return rr.Intn(len(opts))
			}
			c := sched.NewController(files, faults)
			out := c.Run(newParser(), "root.sysl", chooser, 60*time.Second)
			if limit > 0 {
				res.Count("fault_executions_with_depth_limit", 1)
			}
			res.Count("fault_executions", 1)
			res.Count("hook_events", len(c.Events))
			res.Add("delivery", del)
			what := fmt.Sprintf("faults=%v delivery=%s limit=%d releases=%s", desc, del, limit, c.Signature())
			kinds := append([]string{}, desc...)
			for k := range kinds {
				kinds[k] = kinds[k][strings.LastIndex(kinds[k], ":")+1:]
			}
			sort.Strings(kinds)
			ks := strings.Join(kinds, "+")
			switch {
			case out.Panic != "":
				res.Violate("panic|"+ks+"|"+fw.MsgClass(out.Panic), "Parse panicked under faults: "+out.Panic+" ("+what+")", art(c, what))
				continue
			case out.Timeout || out.Stuck != "":
				res.Violate("no-return|"+ks, "Parse did not return under faults ("+what+") "+out.Stuck, art(c, what))
				// one hang decides the case; every further hanging execution would cost the full watchdog again
				res.Hash = fw.HashOf(hp...)
				res.NonTrivial = true
				return res
			case out.Err == nil || out.Module != nil:
				res.Violate("fault-swallowed|"+ks, fmt.Sprintf("Parse returned module=%v err=%v although a file of the closure failed (%s)", out.Module != nil, out.Err, what), art(c, what))
				continue
			}
			// the error must name a faulted file that was requested
			msg := out.Err.Error()
			named := false
			requested := false
			for n := range faultedNames {
				for p := range c.Reads {
					if strings.TrimPrefix(strings.TrimPrefix(p, "./"), "/") == n {
						requested = true
						if strings.Contains(msg, n) {
							named = true
						}
					}
				}
			}
			if requested && !named {
				res.Violate("error-names-no-faulted-file|"+ks, fmt.Sprintf("error %q names none of the faulted files %v (%s)", msg, desc, what), art(c, what))
			}
			var ex syslutil.Exit
			if errors.As(out.Err, &ex) {
				if onlyRead && ex.Code != parse.ImportError {
					res.Violate("exit-class|read-error-not-import-error", fmt.Sprintf("only reads failed but exit code is %d (%s)", ex.Code, what), art(c, what))
				}
				if noRead && ex.Code != parse.ParseError {
					res.Violate("exit-class|bad-content-not-parse-error|"+ks, fmt.Sprintf("only content was bad but exit code is %d: %s (%s)", ex.Code, msg, what), art(c, what))
				}
				res.Add("exit_codes", fmt.Sprint(ex.Code))
			} else {
				res.Add("exit_codes", "untyped")
			}
			if len(out.Unjoined) > 0 {
				res.Violate("join|invocation-outlives-collection", fmt.Sprint("invocations not returned when collection ended: ", out.Unjoined, " ", what), art(c, what))
			}
		}
	}
	res.Hash = fw.HashOf(hp...)
	res.NonTrivial = nontrivial
	res.Sample = map[string]any{"case": i, "graph": g.String(), "plans": len(plans), "reachable": len(reach)}
	return res
}

func min(a, b int) int {
	if a < b {
		return a
	}
	return b
}
