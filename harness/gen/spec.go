// Package gen holds the abstract system description (Spec), its random builder, the
// renderers that turn it into Sysl text with randomised but legal surface choices, and
// the independent statement of intent (expected model, expected positions) that the
// monitors compare the real compiler's output against.
package gen

// AttrVal is a string or a (possibly nested) array of AttrVal.
type AttrVal struct {
	S     string
	Arr   []AttrVal
	IsArr bool
}

// Attr is one entry of a `[...]` list or one `@name = value` annotation.
type Attr struct {
	Name  string
	Tag   bool // ~name
	Val   AttrVal
	Multi bool // annotation written in the multi-line `@k =:` / `| text` form (string only)
}

type SizeSpec struct {
	Kind string // "len" (n) | "dec" (n.m) | "range" (a..b) | "open" (a..)
	A, B int64
}

type TypeExpr struct {
	Prim    string   // int int32 int64 float float32 float64 string bool date datetime decimal bytes any; "" = reference
	RefApp  []string // reference: application name parts (may be empty for a local reference)
	RefPath []string // reference: type path (["T"] or ["T","field"])
	Coll    string   // "", "set", "sequence"
	Opt     bool
	Size    *SizeSpec
}

type Field struct {
	ID      int
	Name    string
	T       TypeExpr
	Attrs   []Attr
	Annos   []Attr
	Doc     string
	List    *SizeSpec // name(a..b) <: T : a list of T
	Inplace []*Field  // name <: followed by nested fields: an in-place tuple type "<Type>.<name>"
}

type EnumItem struct {
	Name string
	Val  int64
}

type Type struct {
	ID      int
	Name    string
	Kind    string // type table enum alias union
	Attrs   []Attr
	Annos   []Attr
	Fields  []*Field
	Items   []EnumItem
	Alias   *TypeExpr
	Members []TypeExpr
}

type Param struct {
	Name string
	T    TypeExpr
}

type QueryParam struct {
	Name string
	Prim string // native type, or
	Ref  string // local type name ( name_str form )
	Opt  bool
}

// Stmt kinds: action call ret if else for foreach loop while until alt oneof group doc
type Stmt struct {
	ID     int
	Kind   string
	Text   string   // action text / predicate / return payload / group label / doc text
	Target []string // call: target app parts; nil + Self => `. <- ep`
	Self   bool
	Ep     string   // call: endpoint name
	Args   []string // call arguments (rendered as written)
	Attrs  []Attr
	Body   []*Stmt // nested statements
	Cases  []*Stmt // oneof: each case is a Stmt{Kind:"case", Text: label, Body}
	Quote  byte    // action written as a quoted string: '"' or '\''
}

type Endpoint struct {
	ID     int
	Name   string // simple endpoint name (may contain spaces: TEXT_LINE) or event name
	Long   string
	Params []Param
	Attrs  []Attr
	Stmts  []*Stmt // empty => `...`
	// REST
	Method string       // GET POST ...; "" for simple
	Query  []QueryParam // method query params
	// pubsub
	Event bool     // `<-> name`
	SubOf []string // subscription: publisher app parts (`Pub -> name`)
}

// RestNode is one `/path/{var <: type}:` block holding methods and nested paths.
type RestNode struct {
	ID    int
	Segs  []PathSeg
	Attrs []Attr
	Annos []Attr
	Items []RestItem // methods and nested paths, in declaration order
}

type RestItem struct {
	M *Endpoint
	C *RestNode
}

type PathSeg struct {
	Static string // static text, or
	Var    string // variable name with
	Prim   string // native type or
	Ref    string // local type name
}

// Member is one declaration inside an application body.
type Member struct {
	Type      *Type
	Ep        *Endpoint // simple endpoint, event or subscription
	Rest      *RestNode
	Mixin     []string
	Anno      *Attr
	Collector []*Stmt // `.. * <- *:` block: action (Text = endpoint name) or call statements, each with attributes
}

type App struct {
	ID      int
	Parts   []string
	Long    string
	Attrs   []Attr
	Members []Member
}

type Spec struct {
	Apps []*App
}

func (a *App) Name() string { return joinParts(a.Parts) }

// JoinParts joins application name parts the way the model keys applications.
func JoinParts(p []string) string { return joinParts(p) }

func joinParts(p []string) string {
	s := ""
	for i, x := range p {
		if i > 0 {
			s += " :: "
		}
		s += x
	}
	return s
}

func (a *App) Types() []*Type {
	var out []*Type
	for _, m := range a.Members {
		if m.Type != nil {
			out = append(out, m.Type)
		}
	}
	return out
}

func (a *App) FindType(name string) *Type {
	for _, t := range a.Types() {
		if t.Name == name {
			return t
		}
	}
	return nil
}

func (s *Spec) FindApp(parts []string) *App {
	n := joinParts(parts)
	for _, a := range s.Apps {
		if a.Name() == n {
			return a
		}
	}
	return nil
}

// AllEndpoints lists simple endpoints, events, subscriptions and REST methods of an app in
// declaration order.
func (a *App) AllEndpoints() []*Endpoint {
	var out []*Endpoint
	var walk func(n *RestNode)
	walk = func(n *RestNode) {
		for _, it := range n.Items {
			if it.M != nil {
				out = append(out, it.M)
			} else {
				walk(it.C)
			}
		}
	}
	for _, m := range a.Members {
		if m.Ep != nil {
			out = append(out, m.Ep)
		}
		if m.Rest != nil {
			walk(m.Rest)
		}
	}
	return out
}
